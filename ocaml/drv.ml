(* Generic model runner.  Reads one case per line on stdin: tokens separated by single spaces.
   Every token is handed to the extracted Coq function [Model.entry : list (list N) -> list N]
   as its list of ASCII codes; the answer (a list of ASCII codes) is printed on one line.
   Nothing property-specific lives here. *)

let rec pos_of_int n =
  if n = 1 then Model.XH
  else if n land 1 = 0 then Model.XO (pos_of_int (n lsr 1))
  else Model.XI (pos_of_int (n lsr 1))
let n_of_int n = if n = 0 then Model.N0 else Model.Npos (pos_of_int n)
let rec int_of_pos = function Model.XH -> 1 | Model.XO p -> 2 * int_of_pos p | Model.XI p -> 2 * int_of_pos p + 1
let int_of_n = function Model.N0 -> 0 | Model.Npos p -> int_of_pos p

(* small table so that converting megabytes of text does not rebuild the same 256 values *)
let ntab = Array.init 256 n_of_int

let tok_to_coq (s : string) =
  let r = ref [] in
  for i = String.length s - 1 downto 0 do r := ntab.(Char.code s.[i]) :: !r done;
  !r

let coq_to_string l =
  let b = Buffer.create 64 in
  List.iter (fun n -> Buffer.add_char b (Char.chr ((int_of_n n) land 255))) l;
  Buffer.contents b

let () =
  try
    while true do
      let line = input_line stdin in
      if String.length line = 0 || line.[0] = '#' then print_newline ()
      else begin
        let toks = String.split_on_char ' ' line in
        let args = List.map tok_to_coq toks in
        let out = (try coq_to_string (Model.entry args) with Stack_overflow -> "model-stack-overflow") in
        print_string out; print_newline ()
      end
    done
  with End_of_file -> ()
