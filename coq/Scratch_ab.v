From PV Require Import Model.Obj Model.XrefTab Model.Loader Model.LoaderBytes Spec.Spelling Spec.XrefEnc Spec.RenderClassic Spec.RenderHistory.
From PV Require Import Proofs.LoaderBytesHist.
Definition sp := B " ". Definition nl : bytes := [10%N].
Definition lo (nw : nat) (spv : bytes) := mk_lobj nw 1 sp sp sp spv nl [] [] [] nl.
Definition exh : history :=
  [mk_rev [((1, 0)%N, OName (B "Catalog")); ((2, 0)%N, OInt 5); ((4, 0)%N, OBool true)] [0%N] (1, 0)%N;
   mk_rev [((2, 0)%N, OInt 7); ((3, 0)%N, OStr (B "abc"))] [4%N] (1, 0)%N].
Definition exL (pv : bytes) : hlayout :=
  mk_hlayout [] (B "1.4" ++ nl)
    [mk_rlayout [lo 1 (B "/Catalog"); lo 1 (B "5"); lo 1 (B "true")] [] nl
       [mk_tsub [] 0 1 1 nl [mk_tent 0 65535 false [32; 10]%N; mk_tent 0 0 true [32; 10]%N; mk_tent 0 0 true [32; 10]%N];
        mk_tsub [] 4 1 1 nl [mk_tent 0 0 true [32; 10]%N]]
       nl (B "<</Root 1 0 R>>") (nl ++ B "startxref" ++ nl ++ B "0" ++ nl ++ B "%%EOF" ++ nl);
     mk_rlayout [lo 2 (B "7"); lo 1 (B "(abc)")] [] nl
       [mk_tsub [] 2 1 1 nl [mk_tent 0 0 true [32; 10]%N; mk_tent 0 0 true [32; 10]%N; mk_tent 0 1 false [32; 10]%N]]
       nl (B "<</Root 1 0 R/Prev " ++ pv ++ B ">>") nl]
    nl 3 nl nl.
Eval vm_compute in (List.map q_s (place (len (hhead (exL (B "0")))) None exh (hl_revs (exL (B "0"))))).
