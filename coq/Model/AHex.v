(* Model/AHex.v — ASCIIHexDecode::transform (src/pdf_lib/pdf_filters.rs) and binascii-0.1.4 hex2bin.
   Definitions only. *)
From PV Require Export Base.Res.
From PV Require Import Model.A85.   (* is_pdf_ws *)

Definition is_hex (b : N) : bool :=
  ((48 <=? b) && (b <=? 57) || (65 <=? b) && (b <=? 70) || (97 <=? b) && (b <=? 102))%N.

(* the staging loop: whitespace skipped, `>` ends (the rest is not looked at), hex digits staged,
   anything else is an error ([None]).  Returns the staged digits and saw_eod. *)
Fixpoint ahex_stage (s : bytes) : option (bytes * bool) :=
  match s with
  | [] => Some ([], false)
  | b :: r =>
    if is_pdf_ws b then ahex_stage r
    else if (b =? 62)%N then Some ([], true)
    else if is_hex b then
      match ahex_stage r with Some (st, e) => Some (b :: st, e) | None => None end
    else None
  end.

(* index of the first `>` that the loop reaches, for the pinned parity test `i % 2 == 1` *)
Fixpoint eod_index (s : bytes) (i : nat) : nat :=
  match s with
  | [] => i
  | b :: r => if is_pdf_ws b then eod_index r (S i) else if (b =? 62)%N then i else eod_index r (S i)
  end.

(* binascii::hex2bin *)
Definition hexval (d : N) : option N :=
  if ((97 <=? d) && (d <=? 102))%N then Some (d - 97 + 10)%N
  else if ((65 <=? d) && (d <=? 70))%N then Some (d - 65 + 10)%N
  else if ((48 <=? d) && (d <=? 57))%N then Some (d - 48)%N
  else None.

Fixpoint hex_pairs (s : bytes) : option bytes :=
  match s with
  | a :: b :: r =>
    match hexval a, hexval b with
    | Some x, Some y => match hex_pairs r with Some o => Some ((x * 16 + y)%N :: o) | None => None end
    | _, _ => None                      (* InvalidInput *)
    end
  | _ => Some []
  end.

Definition hex2bin (input : bytes) (outlen : nat) : option bytes :=
  if Nat.odd (len input) then None                    (* InvalidInputLength *)
  else if Nat.ltb outlen (len input / 2) then None    (* InvalidOutputLength *)
  else hex_pairs input.

(* as pinned: parity from the raw index of `>`, output slice of length 0 *)
Definition ahex_decode_pinned (data : bytes) : res bytes :=
  match ahex_stage data with
  | None => Err ETransform
  | Some (_, false) => Err ETransform
  | Some (st, true) =>
    let st' := if Nat.odd (eod_index data 0) then st ++ [48%N] else st in
    match hex2bin st' 0 with Some o => Ok o | None => Err ETransform end
  end.

(* after the C06 repairs (/repo b13e12b): parity from the number of staged digits, output buffer of
   stage.len() / 2 bytes *)
Definition ahex_decode (data : bytes) : res bytes :=
  match ahex_stage data with
  | None => Err ETransform
  | Some (_, false) => Err ETransform
  | Some (st, true) =>
    let st' := if Nat.odd (len st) then st ++ [48%N] else st in
    match hex2bin st' (len st' / 2) with Some o => Ok o | None => Err ETransform end
  end.
