(* Model/LoaderBytes.v — the abstraction the loader model (Model/Loader.v) works on, COMPUTED FROM BYTES by
   the models of the byte-level parsers (Model/Prim.v, Obj.v, XrefTab.v).  Definitions only.

   Model/Loader.v transcribes parse_data / get_xref_info / parse_xref_section / parse_objects over an
   abstract file  [pdf] = (magic found?, length of the view, startxref offset, offset ↦ item found there).
   Until now that description was produced by the python renderer (props/loaderlib.py) and validated case by
   case against the real parsers.  Here it is a FUNCTION of the file bytes:

     abstract_file rel s : pdf          load_bytes rel s := load (abstract_file rel s)

   p_magic      pb.scan("%PDF-") from offset 0 (Prim.scan) succeeds and HeaderP (Comment, then an optional
                Comment) parses; the view starts at the match (leading garbage dropped: RestrictView = skipn, C17)
   p_flen       buflen = pb.remaining() of that view
   p_startxref  set_cursor_unsafe(buflen); backward_scan("%%EOF") (a failure is only logged, the cursor
                stays); backward_scan("startxref") from the cursor reached; StartXrefP
                (exact "startxref", WhitespaceEOL(false), IntegerP, usize::try_from)
   p_file       for every offset o of the view (0 .. buflen inclusive), what parse_xref_section / IndirectP
                find when started at o:
                  XrefSectP succeeds          ⇒ IXSect (its entries) (scan("trailer") + TrailerP: exact "trailer",
                                                 WhitespaceEOL(true), DictP in a context of depth 0/50; /Root,
                                                 /Prev, /XRefStm read as the Rust reads them)
                  else IndirectP succeeds     ⇒ (fresh PDFObjContext::new(50))
                       a stream on which XrefStreamP succeeds (no filter)  ⇒ IXStm (num, gen) entries /Root /Prev
                       a stream on which ObjStreamP succeeds (no filter)   ⇒ IObjStm (num, gen) length None members
                       anything else                                        ⇒ IObj (num, gen) value
                  else                        ⇒ IGarbage

   RESTRICTIONS: IndirectP is run in an EMPTY context, so a stream whose /Length is a reference is
   InsufficientContext here ⇒ IGarbage (the abstract item carries the stream's content, which for a referenced
   length depends on the context).  Xref streams and object streams are recognised only when they declare NO
   filter (the decoders are another property, C06/C07, and need the zlib oracle): a filtered one is reported as a
   plain IObj item, so files using them are not abstracted faithfully.  An object stream whose own parse stops
   half-way (a duplicate member, a malformed member) is reported as a plain IObj item (the real loader keeps the
   members registered before the failure).  Trailers with /Encrypt are read like any other.  The duplicate-id test and the /Length lookup of IndirectP are re-done by
   Loader.indirect on the item, in the loader's own context.

   [rel] is the build-profile flag of Prim.lit_string (it matters only beyond 2^31 parentheses). *)
From PV Require Import Model.Obj Model.XrefTab Model.XrefStm Model.ObjStm Model.Loader.

(* ---------- keywords ---------- *)
Definition kw_pdf : bytes := [37; 80; 68; 70; 45]%N.                                   (* "%PDF-" *)
Definition kw_eof : bytes := [37; 37; 69; 79; 70]%N.                                   (* "%%EOF" *)
Definition kw_startxref : bytes := [115; 116; 97; 114; 116; 120; 114; 101; 102]%N.     (* "startxref" *)
Definition kw_trailer : bytes := [116; 114; 97; 105; 108; 101; 114]%N.                 (* "trailer" *)
Definition key_Root : bytes := [82; 111; 111; 116]%N.                                  (* "Root" *)
Definition key_Prev : bytes := [80; 114; 101; 118]%N.                                  (* "Prev" *)
Definition key_XRefStm : bytes := [88; 82; 101; 102; 83; 116; 109]%N.                  (* "XRefStm" *)

(* ---------- ParseBufferT::backward_scan ----------
   for w in buf[start..ofs].windows(tag.len()).rev() { if w.starts_with(tag) { ofs -= skip; return Ok(skip) } }
   the windows of the bytes BEFORE the cursor, last one first; on a match at position i the cursor becomes i;
   on failure it does not move.  (Empty tag: Ok(0) — /repo d07c841.)  Result: the new cursor. *)
Fixpoint bscan_down (tag s : bytes) (i : nat) : option nat :=
  if prefixb tag (skipn i s) then Some i
  else match i with O => None | S j => bscan_down tag s j end.

Definition bscan (tag s : bytes) (c : nat) : option nat :=
  match tag with
  | [] => Some c
  | _ => if Nat.ltb c (len tag) then None else bscan_down tag (firstn c s) (c - len tag)
  end.

(* ---------- HeaderP (pdf_file.rs:45-61) ---------- *)
Definition header_p (s : bytes) (c : nat) : pres unit :=
  bind (comment s c) (fun _ c1 =>                           (* let version = c.parse(buf)?; *)
    match comment s c1 with                                 (* if let Ok(s) = c.parse(buf) { Some(s) } else { None } *)
    | POk _ c2 => POk tt c2
    | PErr _ c2 => POk tt c2
    | PPanic => PPanic
    | PFuel => PFuel
    end).

(* ---------- StartXrefP (pdf_file.rs:538-567) ---------- *)
Definition startxref_p (s : bytes) (c : nat) : pres N :=
  match exact kw_startxref s c with
  | None => PErr EGuard c
  | Some c1 =>
    bind (ws_eol false s c1) (fun _ c2 =>                   (* need to consume an EOL *)
    bind (integer s c2) (fun i c3 =>
      if int_is_usize (lv_val i) then POk (Z.to_N (lv_val i)) c3     (* usize::try_from(i64) *)
      else PErr EGuard c3))
  end.

(* parse_data 789-862 on the view [v]: None = any of the exit_log! of that part *)
Definition find_startxref (v : bytes) : option N :=
  let buflen := len v in
  let c0 := match bscan kw_eof v buflen with Some c => c | None => buflen end in
  match bscan kw_startxref v c0 with
  | None => None                                            (* Could not find startxref *)
  | Some c1 =>
    match startxref_p v c1 with
    | POk n _ => Some n
    | _ => None                                             (* Could not parse startxref *)
    end
  end.

(* ---------- TrailerP after scan("trailer") (parse_xref_section 240-283) ---------- *)
Definition dict_usize (d : list (bytes * obj)) (k : bytes) : option N :=      (* DictT::get_usize *)
  match dict_get d k with
  | Some (OInt z) => if int_is_usize z then Some (Z.to_N z) else None
  | _ => None
  end.

(* [c] = cursor after XrefSectP.  Result: (trailer as the loader reads it, cursor reached) *)
Definition trailer_at (rel : bool) (v : bytes) (c : nat) : option trailer * nat :=
  match scan kw_trailer v c with
  | POk _ c1 =>
    match exact kw_trailer v c1 with
    | None => (None, c1)
    | Some c2 =>
      match ws_eol true v c2 with
      | POk _ c3 =>
        match dict_p (parse_obj rel 50) v c3 with           (* DictP::new(ctxt).parse: ctxt at depth 0 of 50 *)
        | POk (ODict d) c4 =>
          (Some (mktrailer (dict_get d key_Root) (dict_usize d key_Prev) (dict_usize d key_XRefStm)), c4)
        | POk _ c4 => (None, c4)
        | PErr _ c4 => (None, c4)
        | _ => (None, c3)
        end
      | PErr _ c3 => (None, c3)
      | _ => (None, c2)
      end
    end
  | _ => (None, c)                                          (* No trailer found *)
  end.

(* ---------- what is found at an offset ---------- *)
Definition conv_st (s : XrefTab.xstat) : xstatus :=
  match s with
  | XrefTab.XFree n => XFree n
  | XrefTab.XInUse o => XInUse o
  | XrefTab.XInStream a b => XInStream a b
  end.
Definition conv_ent (e : XrefTab.xent) : xent := mkxent (xe_obj e) (xe_gen e) (conv_st (xe_st e)).

(* XrefStreamP (pdf_streams.rs; Model/XrefStm.v) on the content of a stream object, as parse_xref_stream calls it:
   a view of the content, cursor 0, ctxt.is_encrypted() = false.  Only without filters. *)
Definition xstm_item (id : oid) (d : list (bytes * obj)) (content : bytes) : option item :=
  match get_dict_info d with
  | Ok m =>
    match xi_filters m with
    | [] =>
      match xrefstm_parse false d content [] 0 with
      | XSOk ents _ _ _ => Some (IXStm id (List.map conv_ent ents) (dict_get d key_Root) (dict_usize d key_Prev))
      | _ => None
      end
    | _ => None
    end
  | _ => None
  end.

(* ObjStreamP (Model/ObjStm.v) on the content of a stream object, as parse_objects calls it (context of depth 0/50),
   in an empty context.  Only without filters. *)
Definition ostm_item (rel : bool) (id : oid) (d : list (bytes * obj)) (content : bytes) : option item :=
  match stream_filters d with
  | Ok [] =>
    match objstm_parse rel 50 false d content [] [] with
    | (OSOk l, _) => Some (IObjStm id (N.of_nat (len content)) None (List.map (fun e => (fst (fst (fst e)), snd (fst (fst e)))) l))
    | _ => None
    end
  | _ => None
  end.

Definition obj_item (rel : bool) (id : oid) (v : obj) : item :=
  match v with
  | OStream d content =>
    match xstm_item id d content with
    | Some it => it
    | None => match ostm_item rel id d content with Some it => it | None => IObj id v end
    end
  | _ => IObj id v
  end.

Definition item_at (rel : bool) (v : bytes) (o : nat) : item * N :=
  match xsectp v o with
  | POk (subs, _, _) c1 =>
    let '(tr, c2) := trailer_at rel v c1 in
    (IXSect (List.map conv_ent (sect_ents subs)) tr, N.of_nat c2)
  | _ =>
    match indirect_p rel 50 [] v o with
    | POk (i, _, _) c1 => (obj_item rel (i_num i, i_gen i) (i_obj i), N.of_nat c1)
    | _ => (IGarbage, N.of_nat o)
    end
  end.

(* ---------- the abstract file ---------- *)
Definition file_of (rel : bool) (v : bytes) : file :=
  List.map (fun o => (N.of_nat o, item_at rel v o)) (seq 0 (S (len v))).

Definition abstract_file (rel : bool) (s : bytes) : pdf :=
  match scan kw_pdf s 0 with
  | POk k _ =>
    let v := skipn k s in                                   (* RestrictView(nbytes, remaining) when nbytes != 0 *)
    mkpdf (match header_p v 0 with POk _ _ => true | _ => false end)
          (N.of_nat (len v))
          (find_startxref v)
          (file_of rel v)
  | _ => mkpdf false 0 None []                              (* Cannot find PDF magic *)
  end.

Definition load_bytes (rel : bool) (s : bytes) : outcome := load (abstract_file rel s).

(* ---------- case protocol ----------
   Y <hex of the file> <probes> [@profile]     probes: num.gen+num.gen+… or -
   observation: what the C03 runner prints for the real parse_data on those bytes, without the items= part:
     rejected | loaded root=n.g n.g=objtext …  (probes that are defined, in order) *)
Definition entry (args : list bytes) : bytes :=
  if bytes_eqb (nth_arg args 0) (B "Y") then
    let rel := bytes_eqb (nth_arg args 3) (B "@release") in
    show_outcome (List.map parse_oid (split_list (nth_arg args 2))) (load_bytes rel (unhex (nth_arg args 1)))
  else B "badcase".
