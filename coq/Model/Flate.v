(* Model/Flate.v — FlateDecode::transform: zlib inflate is an ORACLE (a Section variable, never an
   axiom); the model is the glue around it: feed the whole window, take the whole output, ignore the
   bytes after the end of the compressed stream, then the predictor stage (Model/Pred.v).
   Definitions only. *)
From PV Require Export Model.Pred.

Section Flate.
  (* inflate data = Some (output, unused tail) if [data] starts with a complete zlib stream *)
  Variable inflate : bytes -> option (bytes * bytes).

  Definition flate_decode (o : option (list (bytes * obj))) (data : bytes) : res bytes :=
    match inflate data with
    | Some (out, _) => flate_post o out
    | None => Err ETransform
    end.
End Flate.

(* As pinned (08d0369): a single `write` on flate2::write::ZlibDecoder followed by `finish`.
   What that delivers is a second oracle: [window data] = what zlib produces for one inflate call
   with a 32 KiB output buffer and then further calls without input ([None] = zlib reported an error
   during the first call). *)
Section FlatePinned.
  Variable window : bytes -> option bytes.
  Definition flate_decode_pinned (o : option (list (bytes * obj))) (data : bytes) : res bytes :=
    match window data with
    | Some out => flate_post o out
    | None => Err ETransform
    end.
End FlatePinned.

(* Adler-32 (RFC 1950) — also used for the digests in the case protocol *)
Definition adler32 (s : bytes) : N :=
  let '(a, b) := fold_left (fun ab x => let a' := ((fst ab + x) mod 65521)%N in (a', ((snd ab + a') mod 65521)%N))
                           s (1%N, 0%N) in
  (b * 65536 + a)%N.

(* ---------- a Gallina inflate for zlib streams made of STORED blocks (RFC 1951 BTYPE 00) ----------
   Not used by the model runner: it is the witness that the oracle hypothesis of C06_flate / C06_chain
   can be satisfied (Proofs/FiltersInflate0.v), for every chunking and every payload. *)
Fixpoint blocks0 (fuel : nat) (s : bytes) : option (bytes * bytes) :=
  match fuel with
  | O => None
  | S f =>
    match s with
    | h :: l0 :: l1 :: n0 :: n1 :: r =>
      if negb ((h / 2) mod 4 =? 0)%N then None                       (* BTYPE must be 00 *)
      else if negb ((l0 + 256 * l1) + (n0 + 256 * n1) =? 65535)%N then None   (* NLEN = one's complement of LEN *)
      else
        let n := N.to_nat (l0 + 256 * l1) in
        if Nat.ltb (len r) n then None
        else if (h mod 2 =? 1)%N then Some (firstn n r, skipn n r)  (* BFINAL *)
        else match blocks0 f (skipn n r) with
             | Some (o, t) => Some (firstn n r ++ o, t)
             | None => None
             end
    | _ => None
    end
  end.

Definition inflate0 (data : bytes) : option (bytes * bytes) :=
  match data with
  | cmf :: flg :: r =>
    if ((cmf mod 16 =? 8) && (cmf / 16 <=? 7) && ((cmf * 256 + flg) mod 31 =? 0) && ((flg / 32) mod 2 =? 0))%N then
      match blocks0 (S (len r)) r with
      | Some (out, a0 :: a1 :: a2 :: a3 :: t) =>
        if (a0 * 16777216 + a1 * 65536 + a2 * 256 + a3 =? adler32 out)%N then Some (out, t) else None
      | _ => None
      end
    else None
  | _ => None
  end.
