(* Model/Flate.v — FlateDecode::transform: zlib inflate is an ORACLE (a Section variable, never an
   axiom); the model is the glue around it: feed the whole window, take the whole output, ignore the
   bytes after the end of the compressed stream, then the predictor stage (Model/Pred.v).
   Definitions only. *)
From PV Require Export Model.Pred.

Section Flate.
  (* inflate data = Some (output, unused tail) if [data] starts with a complete zlib stream *)
  Variable inflate : bytes -> option (bytes * bytes).

  Definition flate_decode (o : option (list (bytes * obj))) (data : bytes) : res bytes :=
    match inflate data with
    | Some (out, _) => flate_post o out
    | None => Err ETransform
    end.
End Flate.

(* As pinned (08d0369): a single `write` on flate2::write::ZlibDecoder followed by `finish`.
   What that delivers is a second oracle: [window data] = what zlib produces for one inflate call
   with a 32 KiB output buffer and then further calls without input ([None] = zlib reported an error
   during the first call). *)
Section FlatePinned.
  Variable window : bytes -> option bytes.
  Definition flate_decode_pinned (o : option (list (bytes * obj))) (data : bytes) : res bytes :=
    match window data with
    | Some out => flate_post o out
    | None => Err ETransform
    end.
End FlatePinned.
