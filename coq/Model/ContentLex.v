(* Model/ContentLex.v — the byte level of C12: transcription of CSObjP (src/pdf_lib/pdf_content_streams.rs:53-158)
   on top of the token parsers of Model/Prim.v (pdf_prim.rs) and ArrayP / DictP / parse_pdf_obj of Model/Obj.v
   (pdf_obj.rs), the token list [cs_lex] that the extractor's loop sees, and the extractor on bytes.
   Definitions only.

   * The PDFObjContext is the caller's: its recursion bound [maxd] is a parameter (the runner and pdf_printer's
     traversal use PDFObjContext::new(50)); at the top of a content stream cur_depth = 0, so the elements of an
     array / the values of a dictionary operand are parsed by parse_pdf_obj with the full budget.
   * [rel]: build profile flag of Model/Prim.v's lit_string.
   * The extractor alternates `ws.parse; op.parse` and stops with Ok only when `buf.remaining() == 0` after white
     space; every lexer error surfaces as a GuardError of the extractor.  A lexer PANIC (i32 parenthesis depth
     of RawLiteralString: needs 2^31 parentheses) is propagated as Panic even where the real loop would have
     stopped earlier with an error — irrelevant below 2 GB of input. *)
From PV Require Export Model.Content.
From PV Require Export Model.Obj.

Definition kw_true_b : bytes := B "true".
Definition kw_false_b : bytes := B "false".
Definition kw_null_b : bytes := B "null".

(* CSObjP::parse_internal *)
Definition csobj_internal (rel : bool) (maxd : nat) (s : bytes) (c : nat) : pres cstoken :=
  match peek s c with
  | None => PErr EEndOfBuffer c
  | Some b =>
    if N.eqb b 40 then                                    (* '(' *)
      bind (lit_string rel s c) (fun v c1 => POk (TObj (OStr (lv_val v))) c1)
    else if N.eqb b 37 then                               (* '%' *)
      bind (comment s c) (fun v c1 => POk (TObj (OComment (lv_val v))) c1)
    else if N.eqb b 47 then                               (* '/' *)
      bind (name s c) (fun v c1 => POk (TObj (OName (lv_val v))) c1)
    else if N.eqb b 91 then                               (* '[' : ArrayP::new(self.ctxt).parse(buf)? *)
      bind (array_p (parse_obj rel maxd) s c) (fun a c1 => POk (TObj a) c1)
    else if N.eqb b 60 then                               (* '<': peek one ahead *)
      incr s c (fun c1 =>
        let next := peek s c1 in
        setc s c (fun c' =>
          match next with
          | Some 60%N => bind (dict_p (parse_obj rel maxd) s c') (fun d c2 => POk (TObj d) c2)
          | _ => bind (hexstring s c') (fun v c2 => POk (TObj (OStr (lv_val v))) c2)
          end))
    else if (is_digit_b b || N.eqb b 45 || N.eqb b 46)%bool then
      bind (real s c) (fun r c1 =>
        let r := lv_val r in
        if negb (real_is_integer r) then POk (TObj (OReal (fst r) (snd r))) c1
        else match real_numerator r with                  (* IntegerT::new(r.val().numerator()): unwrap *)
             | None => PPanic
             | Some n => POk (TObj (OInt n)) c1
             end)
    else
      bind (operator s c) (fun op c1 =>
        let nm := lv_val op in
        if bytes_eqb nm kw_true_b then POk (TObj (OBool true)) c1
        else if bytes_eqb nm kw_false_b then POk (TObj (OBool false)) c1
        else if bytes_eqb nm kw_null_b then POk (TObj ONull) c1
        else POk (TOp nm) c1)
  end.

(* impl ParsleyParser for CSObjP *)
Definition csobj (rel : bool) (maxd : nat) (s : bytes) (c : nat) : pres (lv cstoken) :=
  bind (ws_eol true s c) (fun _ start =>
  bind (csobj_internal rel maxd s start) (fun v e => POk (v, start, e) e)).

(* how the token list ends *)
Inductive lexend := LexEnd | LexErr (k : ekind) | LexPanic | LexFuel.

(* the objects the extractor's loop reads: `ws.parse(buf)?; [remaining() == 0 ⇒ stop]; op.parse(buf)` … *)
Fixpoint lex_loop (fuel : nat) (rel : bool) (maxd : nat) (s : bytes) (c : nat) (acc : list cstoken)
  : list cstoken * lexend :=
  match fuel with
  | O => (acc, LexFuel)
  | S f =>
    match ws_eol true s c with
    | POk _ c1 =>
      if Nat.leb (len s) c1 then (acc, LexEnd)
      else match csobj rel maxd s c1 with
           | POk t c2 => lex_loop f rel maxd s c2 (acc ++ [lv_val t])
           | PErr k _ => (acc, LexErr k)
           | PPanic => (acc, LexPanic)
           | PFuel => (acc, LexFuel)
           end
    | PErr k _ => (acc, LexErr k)
    | PPanic => (acc, LexPanic)
    | PFuel => (acc, LexFuel)
    end
  end.

Definition cs_lex_full (rel : bool) (maxd : nat) (s : bytes) : list cstoken * lexend :=
  lex_loop (S (len s)) rel maxd s 0 [].

Definition cs_lex (rel : bool) (maxd : nat) (s : bytes) : res (list cstoken) :=
  match cs_lex_full rel maxd s with
  | (l, LexEnd) => Ok l
  | (_, LexErr k) => Err k
  | (_, LexPanic) => Panic
  | (_, LexFuel) => Fuel
  end.

(* TextExtractor::new(ctxt, id).parse(buf) on bytes *)
Definition extract_bytes (rel : bool) (maxd : nat) (s : bytes) : res (list texttoken) :=
  match cs_lex rel maxd s with
  | Ok toks => Content.extract toks
  | Err _ => Err EGuard            (* the lexer's error, or an earlier error of the loop: a GuardError either way *)
  | Panic => Panic
  | Fuel => Fuel
  end.

(* ---------- case protocol ----------
   "T <hex stream> tok …" : the lexer must produce exactly the given tokens (else "lexdiff <tokens lexed>"), then
                            the extractor runs on them;
   "B <hex stream>"       : the extractor on the bytes. *)
Definition show_tok (t : cstoken) : bytes :=
  match t with
  | TOp n => B "o" ++ show_hex n
  | TObj o => show_obj o
  end.

Definition show_lexed (x : list cstoken * lexend) : list bytes :=
  let '(l, e) := x in
  List.map show_tok l ++
  match e with
  | LexEnd => []
  | LexErr k => [B "!" ++ show_ekind k]
  | LexPanic => [B "!panic"]
  | LexFuel => [B "!fuel"]
  end.

Fixpoint list_bytes_eqb (a b : list bytes) : bool :=
  match a, b with
  | [], [] => true
  | x :: a', y :: b' => bytes_eqb x y && list_bytes_eqb a' b'
  | _, _ => false
  end.

Definition lex_maxd : nat := 50.

Definition unhex_tok (t : bytes) : bytes := match t with [45%N] => [] | _ => unhex t end.

Definition entry (args : list bytes) : bytes :=
  match args with
  | kind :: hx :: toks =>
    let s := unhex_tok hx in
    if bytes_eqb kind (B "T") then
      let lexed := show_lexed (cs_lex_full false lex_maxd s) in
      if negb (list_bytes_eqb lexed toks) then B "lexdiff" ++ concat (List.map (fun t => 32%N :: t) lexed)
      else match read_toks toks with
           | Some l => show_out (Content.extract l)
           | None => B "badcase"
           end
    else if bytes_eqb kind (B "B") then show_out (extract_bytes false lex_maxd s)
    else B "badcase"
  | _ => B "badcase"
  end.
