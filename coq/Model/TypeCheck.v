(* Model/TypeCheck.v — transcription of src/pdf_lib/pdf_type_check.rs (check_type, State,
   get_next_check, unwind, normalize_check, the Eq/Ord of TypeCheckRep, allow_indirect, resolve).
   Definitions only.  Objects carry no locations (LocatedVal's Eq/Ord ignore them).

   One-token text form of a check (twin readers: harness/src/bin/c08.rs, props/c08.py):

     chk   := '@' name                              TypeCheck::Named(name)   (name: no , ) ; = )
            | ['!' | '~'] ['{' pred '}'] ty         TypeCheck::Rep: '!' Required, '~' Forbidden indirect
     ty    := '_'                                   Any
            | 'b' 's' 'm' 'n' 'i' 'q' 'c'           Bool String Name Null Integer Real Comment
            | 'A' [digits] '(' chk ')'              Array { elem, size }
            | 'H(' chk , … ')'                      HetArray
            | 'D(' ent , … [, '*' opt ':' chk] ')'  Dict(entries, star)
            | 'S(' ent , … ')'                      Stream(entries)
            | 'O(' chk , … ')'                      Disjunct
     ent   := hexkey opt ':' chk       opt := '+' Required | '?' Optional | '-' Forbidden
     pred  := '1' always | '0' never | 'N' hex , …  name in set | 'I' int , …  integer in set
            | 'L' digits  array of that length | '#' digits  opaque predicate number
   A context of named checks is  name=chk;name=chk  ("-" when empty; a later binding of a name
   replaces an earlier one, as TypeCheckContext::register does). *)
From PV Require Export Base.PdfObj.

Inductive prim := PBool | PString | PName | PNull | PInteger | PReal | PComment.
Inductive ispec := IReq | IAllowed | IForb.
Inductive kspec := KReq | KOpt | KForb.

(* predicates: a small enumerated family + opaque ones identified by a number *)
Inductive pred :=
| PrAlways | PrNever
| PrNameIn (l : list bytes)
| PrIntIn (l : list Z)
| PrArrLen (n : nat)
| PrOpaque (id : N).

Inductive chk :=
| CRep (t : ty) (p : option pred) (i : ispec)
| CNamed (nm : bytes)
with ty :=
| TAny
| TPrim (p : prim)
| TArr (e : chk) (sz : option nat)
| THet (es : list chk)
| TDict (ents : list dent) (star : option (chk * kspec))
| TStream (ents : list dent)
| TDisj (alts : list chk)
with dent := DEnt (k : bytes) (c : chk) (o : kspec).

Definition ent_key (e : dent) := match e with DEnt k _ _ => k end.
Definition ent_chk (e : dent) := match e with DEnt _ c _ => c end.
Definition ent_opt (e : dent) := match e with DEnt _ _ o => o end.

(* ---------- predicates ---------- *)
Definition pred_eval (opq : N -> obj -> bool) (p : pred) (o : obj) : bool :=
  match p with
  | PrAlways => true
  | PrNever => false
  | PrNameIn l => match o with OName s => existsb (bytes_eqb s) l | _ => false end
  | PrIntIn l => match o with OInt z => existsb (Z.eqb z) l | _ => false end
  | PrArrLen n => match o with OArr l => Nat.eqb (len l) n | _ => false end
  | PrOpaque id => opq id o
  end.

(* ---------- equalities ---------- *)
Fixpoint list_eqb {A} (f : A -> A -> bool) (a b : list A) : bool :=
  match a, b with
  | [], [] => true
  | x :: a', y :: b' => f x y && list_eqb f a' b'
  | _, _ => false
  end.

(* derived Eq on PDFObjT (structural) *)
Fixpoint obj_eqb (a b : obj) {struct a} : bool :=
  match a, b with
  | ONull, ONull => true
  | OBool x, OBool y => Bool.eqb x y
  | OInt x, OInt y => Z.eqb x y
  | OReal n d, OReal n' d' => Z.eqb n n' && Z.eqb d d'
  | OStr x, OStr y => bytes_eqb x y
  | OName x, OName y => bytes_eqb x y
  | OComment x, OComment y => bytes_eqb x y
  | ORef n g, ORef n' g' => N.eqb n n' && N.eqb g g'
  | OArr l, OArr l' =>
    (fix go (l l' : list obj) := match l, l' with
       | [], [] => true | x :: r, y :: r' => obj_eqb x y && go r r' | _, _ => false end) l l'
  | ODict l, ODict l' =>
    (fix go (l l' : list (bytes * obj)) := match l, l' with
       | [], [] => true
       | (k, x) :: r, (k', y) :: r' => bytes_eqb k k' && obj_eqb x y && go r r'
       | _, _ => false end) l l'
  | OStream l c, OStream l' c' =>
    (fix go (l l' : list (bytes * obj)) := match l, l' with
       | [], [] => true
       | (k, x) :: r, (k', y) :: r' => bytes_eqb k k' && obj_eqb x y && go r r'
       | _, _ => false end) l l' && bytes_eqb c c'
  | _, _ => false
  end.

Definition prim_eqb (a b : prim) :=
  match a, b with
  | PBool, PBool | PString, PString | PName, PName | PNull, PNull | PInteger, PInteger
  | PReal, PReal | PComment, PComment => true
  | _, _ => false
  end.
Definition kspec_eqb (a b : kspec) :=
  match a, b with KReq, KReq | KOpt, KOpt | KForb, KForb => true | _, _ => false end.
Definition ispec_eqb (a b : ispec) :=
  match a, b with IReq, IReq | IAllowed, IAllowed | IForb, IForb => true | _, _ => false end.
Definition onat_eqb (a b : option nat) :=
  match a, b with None, None => true | Some x, Some y => Nat.eqb x y | _, _ => false end.
Definition pred_eqb (a b : pred) : bool :=
  match a, b with
  | PrAlways, PrAlways | PrNever, PrNever => true
  | PrNameIn l, PrNameIn l' => list_eqb bytes_eqb l l'
  | PrIntIn l, PrIntIn l' => list_eqb Z.eqb l l'
  | PrArrLen n, PrArrLen n' => Nat.eqb n n'
  | PrOpaque i, PrOpaque j => N.eqb i j
  | _, _ => false
  end.
Definition opred_eqb (a b : option pred) :=
  match a, b with None, None => true | Some x, Some y => pred_eqb x y | _, _ => false end.

(* The Eq/Ord of TypeCheckRep compare the type, the indirect specification and the identity of
   the predicate object (the runner creates one predicate object per distinct predicate text, so
   identity is equality of the [pred] term); TypeCheck, PDFType, DictEntry, DictStarEntry derive theirs. *)
Fixpoint chk_eqb (a b : chk) {struct a} : bool :=
  match a, b with
  | CRep t p i, CRep t' p' i' => ty_eqb t t' && ispec_eqb i i' && opred_eqb p p'
  | CNamed n, CNamed m => bytes_eqb n m
  | _, _ => false
  end
with ty_eqb (a b : ty) {struct a} : bool :=
  match a, b with
  | TAny, TAny => true
  | TPrim p, TPrim q => prim_eqb p q
  | TArr e s, TArr e' s' => chk_eqb e e' && onat_eqb s s'
  | THet l, THet l' =>
    (fix go (l l' : list chk) := match l, l' with
       | [], [] => true | x :: r, y :: r' => chk_eqb x y && go r r' | _, _ => false end) l l'
  | TDict l st, TDict l' st' =>
    (fix go (l l' : list dent) := match l, l' with
       | [], [] => true | x :: r, y :: r' => dent_eqb x y && go r r' | _, _ => false end) l l'
    && match st, st' with
       | None, None => true
       | Some (c, o), Some (c', o') => chk_eqb c c' && kspec_eqb o o'
       | _, _ => false
       end
  | TStream l, TStream l' =>
    (fix go (l l' : list dent) := match l, l' with
       | [], [] => true | x :: r, y :: r' => dent_eqb x y && go r r' | _, _ => false end) l l'
  | TDisj l, TDisj l' =>
    (fix go (l l' : list chk) := match l, l' with
       | [], [] => true | x :: r, y :: r' => chk_eqb x y && go r r' | _, _ => false end) l l'
  | _, _ => false
  end
with dent_eqb (a b : dent) {struct a} : bool :=
  match a, b with
  | DEnt k c o, DEnt k' c' o' => bytes_eqb k k' && chk_eqb c c' && kspec_eqb o o'
  end.

(* ---------- normalize_check: removes directly nested disjuncts ---------- *)
Fixpoint norm_chk (c : chk) : chk :=
  match c with
  | CRep t p i => CRep (norm_ty t) p i         (* new_replace_typ keeps name, pred, indirect *)
  | CNamed _ => c
  end
with norm_ty (t : ty) : ty :=
  match t with
  | TAny | TPrim _ => t
  | TArr e sz => TArr (norm_chk e) sz
  | THet es => THet ((fix go (l : list chk) := match l with [] => [] | x :: r => norm_chk x :: go r end) es)
  | TDict ents star =>
    TDict ((fix go (l : list dent) := match l with [] => [] | x :: r => norm_dent x :: go r end) ents)
          (match star with Some (c, o) => Some (norm_chk c, o) | None => None end)
  | TStream ents =>
    TStream ((fix go (l : list dent) := match l with [] => [] | x :: r => norm_dent x :: go r end) ents)
  | TDisj alts =>
    TDisj ((fix go (l : list chk) := match l with
              | [] => []
              | x :: r =>
                match norm_chk x with
                | CRep (TDisj nested) None IAllowed => nested ++ go r   (* only without a predicate / indirect spec of its own *)
                | y => y :: go r
                end
              end) alts)
  end
with norm_dent (e : dent) : dent :=
  match e with DEnt k c o => DEnt k (norm_chk c) o end.

(* ---------- state ---------- *)
Definition pend := (obj * chk)%type.
(* an entry of the stack: the pending set, the index of the next alternative of the disjunct in
   progress at its front, the length of the trail of examined checks when that disjunct was taken up *)
Definition pset := (list pend * nat * nat)%type.
Definition todo := list pset.
Definition pend_eqb (a b : pend) := obj_eqb (fst a) (fst b) && chk_eqb (snd a) (snd b).
(* membership in State.examined (the trail lists its elements, newest first) and in State.failed *)
Definition have_examined (ex : list pend) (p : pend) := existsb (pend_eqb p) ex.

Inductive tcerr := ESize | EMissing | EForbiddenKey | EType | EValue | EPredErr | EUnknown.
Inductive outcome := Accept | Reject (e : tcerr) | SpecErr (e : tcerr) | Panicked | Stuck.

Definition todo_size (td : todo) : nat := fold_right (fun s n => S (len (fst (fst s))) + n) 0 td.

(* State::unwind — pops pending sets until an in-progress disjunct is at the front of the top
   set; [k] counts loop iterations *)
Fixpoint unwind (td : todo) (k : nat) : option todo * nat :=
  match td with
  | [] => (None, S k)
  | (pending, idx, mark) :: rest =>
    match pending with
    | (_, CRep (TDisj _) _ _) :: _ => if Nat.ltb 0 idx then (Some td, S k) else unwind rest (S k)
    | _ => unwind rest (S k)
    end
  end.

(* while self.trail.len() > *mark { examined.remove(trail.pop()) } *)
Definition rollback (ex : list pend) (mark : nat) : list pend := skipn (len ex - mark) ex.

(* the check of a disjunct's own predicate and indirect specification, as a check of type Any *)
Definition own_check (o : obj) (p : option pred) (i : ispec) : list pend :=
  match p, i with
  | None, IAllowed => []
  | _, _ => [(o, CRep TAny p i)]
  end.

Inductive getres := GNext (p : pend) (td : todo) (ex fl : list pend) | GDone | GFail | GPanic.

(* State::get_next_check; [fuel] bounds its loop (todo_size + 1 suffices), [k] counts iterations;
   [ex] is the trail of examined checks, [fl] the failed alternatives *)
Fixpoint get_next (fuel : nat) (err : bool) (td : todo) (ex fl : list pend) (k : nat) : option (getres * nat) :=
  match fuel with
  | O => None
  | S f =>
    let k := S k in
    match td with
    | [] => Some (if err then GFail else GDone, k)
    | (pending, idx, mark) :: rest =>
      match pending with
      | [] =>
        if err then
          match unwind td k with
          | (Some td', k') => get_next f err td' ex fl k'
          | (None, k') => Some (GFail, k')
          end
        else get_next f err rest ex fl k
      | (o, tc) :: pend' =>
        let do_unwind (td2 : todo) (ex2 fl2 : list pend) :=
          match unwind td2 k with
          | (Some td', k') => get_next f err td' ex2 fl2 k'
          | (None, k') => Some (GFail, k')
          end in
        match tc with
        | CRep (TDisj set) p i =>
          if Nat.ltb 0 idx then                         (* an in-progress disjunct *)
            if negb err then get_next f err ((pend', 0, mark) :: rest) ex fl k
            else
              (* the alternative tried last has failed: remember it, forget what was examined under it *)
              match nth_error set (idx - 1) with
              | None => Some (GPanic, k)                (* set[*next_idx - 1] *)
              | Some a =>
                let fl' := (o, a) :: fl in
                let ex' := rollback ex mark in
                if Nat.ltb idx (len set) then
                  match nth_error set idx with
                  | Some c => Some (GNext (o, c) (((o, tc) :: pend', S idx, mark) :: rest) ex' fl', k)
                  | None => None
                  end
                else do_unwind ((pend', 0, mark) :: rest) ex' fl'   (* *next_idx = 0 *)
              end
          else if err then do_unwind ((pend', idx, mark) :: rest) ex fl
          else match set with
               | [] => Some (GNext (o, tc) ((pend', idx, mark) :: rest) ex fl, k)   (* no options: handed to the work loop *)
               | c :: _ =>
                 Some (GNext (o, c) (((o, tc) :: own_check o p i ++ pend', 1, len ex) :: rest) ex fl, k)
               end
        | _ => if err then do_unwind ((pend', idx, mark) :: rest) ex fl
               else Some (GNext (o, tc) ((pend', idx, mark) :: rest) ex fl, k)
        end
      end
    end
  end.

Definition return_check (td : todo) (p : pend) : option todo :=
  match td with
  | (pending, i, m) :: rest => Some ((p :: pending, i, m) :: rest)
  | [] => None                                           (* unreachable!() *)
  end.

Definition push_checks (ex : list pend) (td : todo) (cs : list pend) : todo :=
  match filter (fun p => negb (have_examined ex p)) cs with
  | [] => td
  | set => (set, 0, 0) :: td
  end.

(* State::push_disjunct *)
Definition push_disjunct (td : todo) (p : pend) : todo := ([p], 0, 0) :: td.

Definition prim_match (o : obj) (p : prim) : bool :=
  match o, p with
  | OBool _, PBool | OStr _, PString | OName _, PName | ONull, PNull | OInt _, PInteger
  | OReal _ _, PReal | OComment _, PComment => true
  | _, _ => false
  end.

Definition rep := (ty * option pred * ispec)%type.
Definition r_ty (r : rep) : ty := fst (fst r).
Definition r_pred (r : rep) : option pred := snd (fst r).
Definition r_ind (r : rep) : ispec := snd r.
Definition rep_chk (r : rep) : chk := CRep (r_ty r) (r_pred r) (r_ind r).
Definition allow_indirect (r : rep) : chk := CRep (r_ty r) (r_pred r) IAllowed.

Definition tctx := list (bytes * rep).
Fixpoint tctx_get (t : tctx) (n : bytes) : option rep :=
  match t with
  | [] => None
  | (m, r) :: t' => if bytes_eqb n m then Some r else tctx_get t' n
  end.

Section Run.
Variable opq : N -> obj -> bool.
Variable octx_ : octx.
Variable tctx_ : tctx.

Definition resolve (c : chk) : option rep :=
  match c with
  | CRep t p i => Some (t, p, i)
  | CNamed n => tctx_get tctx_ n
  end.

(* check_predicate: the harness predicates answer ValueMismatch *)
Definition check_pred (o : obj) (p : option pred) : option tcerr :=
  match p with
  | None => None
  | Some f => if pred_eval opq f o then None else Some EValue
  end.

(* Dict arm, explicit entries: None = return UnknownTypeCheck; Some (result, chks) *)
Fixpoint dict_ents (d : list (bytes * obj)) (ents : list dent) : option (option tcerr * list pend) :=
  match ents with
  | [] => Some (None, [])
  | DEnt k c opt :: r =>
    match resolve c with
    | None => None
    | Some rc =>
      match dict_get d k, opt with
      | None, KReq => Some (Some EMissing, [])             (* break *)
      | None, _ => dict_ents d r
      | Some _, KForb => Some (Some EForbiddenKey, [])     (* break *)
      | Some v, _ =>
        match r_ty rc with
        | TAny => dict_ents d r
        | _ => match dict_ents d r with
               | Some (e, cs) => Some (e, (v, c) :: cs)
               | None => None
               end
        end
      end
    end
  end.

(* Dict arm, '*' entry over the keys of the object that are not specified *)
Fixpoint star_ents (d : list (bytes * obj)) (specified : list bytes) (sc : chk) (sopt : kspec) (sty : ty)
  : option tcerr * list pend :=
  match d with
  | [] => (None, [])
  | (k, v) :: r =>
    if existsb (bytes_eqb k) specified then star_ents r specified sc sopt sty
    else match sopt with
         | KForb => (Some EForbiddenKey, [])                (* break *)
         | _ => match sty with
                | TAny => star_ents r specified sc sopt sty
                | _ => let '(e, cs) := star_ents r specified sc sopt sty in (e, (v, sc) :: cs)
                end
         end
  end.

(* Stream arm: same as the explicit entries of Dict but without the breaks: every entry is
   resolved, the last error wins *)
Fixpoint stream_ents (d : list (bytes * obj)) (ents : list dent) : option (option tcerr * list pend) :=
  match ents with
  | [] => Some (None, [])
  | DEnt k c opt :: r =>
    match resolve c with
    | None => None
    | Some rc =>
      match stream_ents d r with
      | None => None
      | Some (e, cs) =>
        match dict_get d k, opt with
        | None, KReq => Some (match e with Some e' => Some e' | None => Some EMissing end, cs)
        | None, _ => Some (e, cs)
        | Some _, KForb => Some (match e with Some e' => Some e' | None => Some EForbiddenKey end, cs)
        | Some v, _ =>
          match r_ty rc with
          | TAny => Some (e, cs)
          | _ => Some (e, (v, c) :: cs)
          end
        end
      end
    end
  end.

Inductive stepres :=
| SCont (td : todo) (ex fl : list pend) (err : option tcerr)
| SStop (o : outcome).

Definition is_some {A} (x : option A) : bool := match x with Some _ => true | None => false end.

Definition id_eqb (a b : N * N) : bool := N.eqb (fst a) (fst b) && N.eqb (snd a) (snd b).

(* lookup_value: follows chains of references; None = undefined or a cycle (null).  The loop adds a
   defined, not yet seen identifier to [seen] at every turn, so S (len octx_) turns suffice. *)
Fixpoint lookup_value (fuel : nat) (seen : list (N * N)) (id : N * N) : option obj :=
  match fuel with
  | O => None
  | S f =>
    if existsb (id_eqb id) seen then None
    else match octx_get octx_ id with
         | None => None
         | Some (ORef n g) => lookup_value f (id :: seen) (n, g)
         | Some o => Some o
         end
  end.
Definition ref_value (n g : N) : obj :=
  match lookup_value (S (S (len octx_))) [] (n, g) with Some o => o | None => ONull end.

Definition no_attrs (r : rep) : bool :=
  match r_pred r, r_ind r with None, IAllowed => true | _, _ => false end.

(* the arms of the match on (o.val(), c.typ(), c.indirect()) in the work loop; [td] is the todo
   after get_next_check, [ex1] the trail after state.examine, [tc] the check as popped and [c]
   its resolution *)
Definition step_arm (td : todo) (ex1 fl : list pend) (k' : nat) (o : obj) (tc : chk) (c : rep) : stepres * nat :=
  let cont td' e := (SCont td' ex1 fl e, k') in
  let stop x := (SStop x, k') in
  match o, r_ty c, r_ind c with
  | ORef _ _, _, IForb => cont td (Some EValue)
  | ORef n g, _, _ =>
    (* a defined object and the null object standing for an undefined one are both checked with
       the indirect specification removed *)
    match return_check td (ref_value n g, allow_indirect c) with
    | Some td' => cont td' None
    | None => stop Panicked
    end
  | _, _, IReq => cont td (Some EValue)
  | _, TDisj _, _ => stop (SpecErr EPredErr)                  (* not reached: see [step] *)
  | _, TAny, _ => cont td (check_pred o (r_pred c))
  | _, TPrim p, _ =>
    if prim_match o p then cont td (check_pred o (r_pred c)) else cont td (Some EType)
  | OArr l, TArr e sz, _ =>
    if match sz with Some n => negb (Nat.eqb (len l) n) | None => false end
    then cont td (Some ESize)
    else match resolve e with
         | None => stop (SpecErr EUnknown)
         | Some re =>
           if match r_ty re with TAny => no_attrs re | _ => false end
           then cont td (check_pred o (r_pred c))           (* the elements are skipped *)
           else match check_pred o (r_pred c) with
                | Some er => cont td (Some er)
                | None => cont (push_checks ex1 td (List.map (fun x => (x, e)) l)) None
                end
         end
  | OArr l, THet es, _ =>
    if negb (Nat.eqb (len l) (len es)) then cont td (Some ESize)
    else match check_pred o (r_pred c) with
         | Some er => cont td (Some er)
         | None => cont (push_checks ex1 td (combine l es)) None
         end
  | ODict d, TDict ents star, _ =>
    match check_pred o (r_pred c) with
    | Some er => cont td (Some er)
    | None =>
      match dict_ents d ents with
      | None => stop (SpecErr EUnknown)
      | Some (Some e, _) => cont td (Some e)
      | Some (None, cs) =>
        match star with
        | None => cont (push_checks ex1 td cs) None
        | Some (sc, sopt) =>
          match resolve sc with
          | None => stop (SpecErr EUnknown)
          | Some rs =>
            match star_ents d (List.map ent_key ents) sc sopt (r_ty rs) with
            | (Some e, _) => cont td (Some e)
            | (None, cs2) => cont (push_checks ex1 td (cs ++ cs2)) None
            end
          end
        end
      end
    end
  | OStream d _, TStream ents, _ =>
    match check_pred o (r_pred c) with
    | Some er => cont td (Some er)
    | None =>
      match stream_ents d ents with
      | None => stop (SpecErr EUnknown)
      | Some (Some e, _) => cont td (Some e)
      | Some (None, cs) => cont (push_checks ex1 td cs) None
      end
    end
  | _, _, _ => cont td (Some EType)
  end.

(* the body of the work loop after get_next_check has handed out the check (o, tc) *)
Definition process (o : obj) (tc : chk) (td : todo) (ex fl : list pend) (k' : nat) : stepres * nat :=
  match resolve tc with
  | None => (SStop (SpecErr EUnknown), k')
  | Some c =>
    if have_examined fl (o, tc) then (SCont td ex fl (Some EValue), k')   (* an alternative that failed before *)
    else if have_examined ex (o, tc) then (SCont td ex fl None, k')       (* examined: counts as passed *)
    else
      let ex1 := (o, tc) :: ex in                                         (* state.examine; result = None *)
      match r_ty c with
      | TDisj [] => (SCont td ex1 fl (Some EValue), k')                        (* a disjunct without options matches nothing *)
      | TDisj _ => (SCont (push_disjunct td (o, rep_chk c)) ex1 fl None, k')   (* a named or nested disjunct *)
      | _ => step_arm td ex1 fl k' o tc c
      end
  end.

(* one iteration of the work loop of check_type *)
Definition step (td : todo) (ex fl : list pend) (err : option tcerr) (k : nat) : stepres * nat :=
  match get_next (S (todo_size td)) (is_some err) td ex fl (S k) with
  | None => (SStop Stuck, S k)
  | Some (GPanic, k') => (SStop Panicked, k')
  | Some (GFail, k') =>
    (SStop (match err with Some e => Reject e | None => Panicked end), k')   (* assert!(result.is_some()) *)
  | Some (GDone, k') =>
    (SStop (match err with None => Accept | Some _ => Panicked end), k')     (* assert!(result.is_none()) *)
  | Some (GNext (o, tc) td ex fl, k') => process o tc td ex fl k'
  end.

(* the work loop: a single loop over the explicit stack [td] *)
Fixpoint run (fuel : nat) (td : todo) (ex fl : list pend) (err : option tcerr) (k : nat) : outcome * nat :=
  match fuel with
  | O => (Stuck, k)
  | S f =>
    match step td ex fl err k with
    | (SStop o, k') => (o, k')
    | (SCont td' ex' fl' err', k') => run f td' ex' fl' err' k'
    end
  end.

(* check_type *)
Definition check_fuel (fuel : nat) (o : obj) (c : chk) : outcome * nat :=
  match resolve c with
  | None => (SpecErr EUnknown, 0)
  | Some r => run fuel [([(o, norm_chk (rep_chk r))], 0, 0)] [] [] None 0
  end.
End Run.

(* ---------- sizes (fuel for the executable entry; the bound is justified in Proofs/TypeCheckTerm.v) ---------- *)
Fixpoint obj_size (o : obj) : nat :=
  match o with
  | OArr l => S (fold_right (fun x n => obj_size x + n) 0 l)
  | ODict l => S (fold_right (fun kv n => obj_size (snd kv) + n) 0 l)
  | OStream d _ => S (fold_right (fun kv n => obj_size (snd kv) + n) 0 d)
  | _ => 1
  end.

Fixpoint chk_size (c : chk) : nat :=
  match c with
  | CRep t _ _ => S (ty_size t)
  | CNamed _ => 1
  end
with ty_size (t : ty) : nat :=
  match t with
  | TAny | TPrim _ => 0
  | TArr e _ => chk_size e
  | THet es => (fix go (l : list chk) := match l with [] => 0 | x :: r => chk_size x + go r end) es
  | TDict ents star =>
    (fix go (l : list dent) := match l with [] => 0 | x :: r => dent_size x + go r end) ents
    + match star with Some (c, _) => chk_size c | None => 0 end
  | TStream ents => (fix go (l : list dent) := match l with [] => 0 | x :: r => dent_size x + go r end) ents
  | TDisj alts => (fix go (l : list chk) := match l with [] => 0 | x :: r => chk_size x + go r end) alts
  end
with dent_size (e : dent) : nat :=
  match e with DEnt _ c _ => chk_size c end.

(* ---------- the finite universe of (object, check) pairs the checker can meet ---------- *)
Definition kids_obj (o : obj) : list obj :=
  match o with
  | OArr l => l
  | ODict d => List.map snd d
  | OStream d _ => List.map snd d
  | _ => []
  end.
Definition kids_ty (t : ty) : list chk :=
  match t with
  | TAny | TPrim _ => []
  | TArr e _ => [e]
  | THet es => es
  | TDict ents star => List.map ent_chk ents ++ match star with Some (c, _) => [c] | None => [] end
  | TStream ents => List.map ent_chk ents
  | TDisj alts => alts
  end.
Definition kids_chk (c : chk) : list chk :=
  match c with CRep t _ _ => kids_ty t | CNamed _ => [] end.

(* all sub-terms, by fuel (obj_size / chk_size suffice) *)
Fixpoint subterms {A} (kids : A -> list A) (n : nat) (x : A) : list A :=
  match n with O => [] | S n' => x :: flat_map (subterms kids n') (kids x) end.
Definition subobjs := subterms kids_obj.
Definition subchks := subterms kids_chk.

Definition allowc (c : chk) : chk :=
  match c with CRep t p _ => CRep t p IAllowed | CNamed _ => c end.

(* O: null, the sub-objects of the root and of every definition of the context *)
Definition uni_objs (oc : octx) (o : obj) : list obj :=
  ONull :: subobjs (obj_size o) o ++ flat_map (fun e => subobjs (obj_size (snd e)) (snd e)) oc.
(* the check of a disjunct's own attributes *)
Definition ownc (c : chk) : chk :=
  match c with CRep _ p i => CRep TAny p i | CNamed _ => c end.

(* C: the sub-checks of the (normalised) root and of every named check, their
   indirection-allowed versions, and the own-attribute checks of both *)
Definition uni_chks0 (tc : tctx) (c : chk) : list chk :=
  subchks (chk_size c) c
  ++ flat_map (fun e => subchks (chk_size (rep_chk (snd e))) (rep_chk (snd e))) tc.
Definition uni_chks (tc : tctx) (c : chk) : list chk :=
  let l := uni_chks0 tc c in
  l ++ List.map allowc l ++ List.map ownc l ++ List.map (fun x => allowc (ownc x)) l.

Definition max_list (l : list nat) : nat := fold_right Nat.max 0 l.
(* fan-out: the largest number of members of an object / of sub-checks (entries, alternatives) of a check *)
Definition fan_o (os : list obj) : nat := max_list (List.map (fun o => len (kids_obj o)) os).
Definition fan_c (cs : list chk) : nat := max_list (List.map (fun c => len (kids_chk c)) cs).

(* the proved bound on the number of iterations of the work loop (Proofs/TypeCheckTerm.v), with
   P = |O|·|C|, K = fan_c + 3, Wpush = 1 + K·(fan_o + fan_c + 2), M = Wpush + 1:
       P·M·(P + 1) + P + K + 2
   (between two failures of alternatives at most P·M + K + 2 iterations, and every failure that
   makes the checker forget examined checks adds a new pair to the failed alternatives) *)
Definition bound_K (fc : nat) : nat := fc + 3.
Definition bound_push (fo fc : nat) : nat := 1 + bound_K fc * (fo + fc + 2).
Definition step_bound (oc : octx) (tc : tctx) (o : obj) (c : chk) : nat :=
  let os := uni_objs oc o in
  let cs := uni_chks tc c in
  let P := len os * len cs in
  P * (bound_push (fan_o os) (fan_c cs) + 1) * (P + 1) + P + bound_K (fan_c cs) + 2.
Definition step_bound_N (oc : octx) (tc : tctx) (o : obj) (c : chk) : N :=
  let os := uni_objs oc o in
  let cs := uni_chks tc c in
  let fo := N.of_nat (fan_o os) in
  let fc := N.of_nat (fan_c cs) in
  let P := (N.of_nat (len os) * N.of_nat (len cs))%N in
  (P * ((1 + (fc + 3) * (fo + fc + 2)) + 1) * (P + 1) + P + (fc + 3) + 2)%N.

(* the same loop driven by a binary counter (unary fuel of that size would have to be built
   first): [run_pos p] makes at most [p] iterations and stops as soon as the loop does;
   Proofs/TypeCheckTerm.v: run_pos p = run (Pos.to_nat p) *)
Section RunN.
Variable opq : N -> obj -> bool.
Variable octx_ : octx.
Variable tctx_ : tctx.
Inductive rs :=
| RCont (td : todo) (ex fl : list pend) (err : option tcerr) (k : nat)
| RStop (o : outcome) (k : nat).
Definition step_rs (s : rs) : rs :=
  match s with
  | RCont td ex fl err k =>
    match step opq octx_ tctx_ td ex fl err k with
    | (SStop o, k') => RStop o k'
    | (SCont td' ex' fl' err', k') => RCont td' ex' fl' err' k'
    end
  | RStop _ _ => s
  end.
Fixpoint run_pos (p : positive) (s : rs) : rs :=
  match s with
  | RStop _ _ => s
  | RCont _ _ _ _ _ =>
    match p with
    | xH => step_rs s
    | xO p' => run_pos p' (run_pos p' s)
    | xI p' => run_pos p' (run_pos p' (step_rs s))
    end
  end.
Definition run_N (n : N) (s : rs) : rs :=
  match n with N0 => s | Npos p => run_pos p s end.
Definition rs_result (s : rs) : outcome * nat :=
  match s with RStop o k => (o, k) | RCont _ _ _ _ k => (Stuck, k) end.
Definition check_N (fuel : N) (o : obj) (c : chk) : outcome * nat :=
  match resolve tctx_ c with
  | None => (SpecErr EUnknown, 0)
  | Some r => rs_result (run_N fuel (RCont [([(o, norm_chk (rep_chk r))], 0, 0)] [] [] None 0))
  end.
End RunN.

(* check_type with the proved bound as fuel *)
Definition check (opq : N -> obj -> bool) (oc : octx) (tc : tctx) (o : obj) (c : chk) : outcome * nat :=
  match resolve tc c with
  | None => (SpecErr EUnknown, 0)
  | Some r => check_N opq oc tc (step_bound_N oc tc o (norm_chk (rep_chk r))) o c
  end.

(* ================= case protocol ================= *)

(* dictionaries are kept as BTreeMap does: sorted by key, a later binding replaces an earlier one *)
Fixpoint canon_obj (o : obj) : obj :=
  match o with
  | OArr l => OArr (List.map canon_obj l)
  | ODict l => ODict (fold_left (fun d kv => fst (dict_insert (fst kv) (canon_obj (snd kv)) d)) l [])
  | OStream l c => OStream (fold_left (fun d kv => fst (dict_insert (fst kv) (canon_obj (snd kv)) d)) l []) c
  | _ => o
  end.

Fixpoint split_on (sep : N) (s : bytes) : list bytes :=
  match s with
  | [] => [[]]
  | c :: r =>
    if N.eqb c sep then [] :: split_on sep r
    else match split_on sep r with
         | x :: xs => (c :: x) :: xs
         | [] => [[c]]
         end
  end.

Definition is_dash (s : bytes) : bool := match s with [] => true | [c] => N.eqb c 45 | _ => false end.

(* head-character dispatch without literal patterns (literal N patterns extract to huge matches) *)
Definition eat (c : N) (s : bytes) : option bytes :=
  match s with x :: r => if N.eqb x c then Some r else None | [] => None end.
Definition eat2 (c d : N) (s : bytes) : option bytes :=
  match eat c s with Some r => eat d r | None => None end.

(* "num.gen=obj;…": later definitions replace earlier ones (BTreeMap::insert) *)
Definition read_octx (s : bytes) : option octx :=
  if is_dash s then Some []
  else fold_left (fun acc part =>
         match acc with
         | None => None
         | Some ctx =>
           let '(n, r1) := span_while is_digit part in
           match eat 46 r1 with
           | Some r2 =>
             let '(g, r3) := span_while is_digit r2 in
             match eat 61 r3 with
             | Some r4 =>
               match read_obj_tok r4 with
               | Some o => Some (((parse_N n, parse_N g), canon_obj o) :: ctx)
               | None => None
               end
             | None => None
             end
           | None => None
           end
         end) (split_on 59 s) (Some []).

Definition is_namech (c : N) : bool :=
  negb (N.eqb c 44 || N.eqb c 41 || N.eqb c 59 || N.eqb c 61).

Fixpoint read_hexlist (n : nat) (s : bytes) (acc : list bytes) : list bytes * bytes :=
  match n with
  | O => (rev acc, s)
  | S n' =>
    let '(h, r) := span_while is_hexdig s in
    match eat 44 r with
    | Some r' => read_hexlist n' r' (unhex h :: acc)
    | None => (rev (unhex h :: acc), r)
    end
  end.
Fixpoint read_intlist (n : nat) (s : bytes) (acc : list Z) : list Z * bytes :=
  match n with
  | O => (rev acc, s)
  | S n' =>
    let '(h, r) := span_while is_numch s in
    match eat 44 r with
    | Some r' => read_intlist n' r' (parse_Z h :: acc)
    | None => (rev (parse_Z h :: acc), r)
    end
  end.

(* after '{' ; consumes the closing '}' *)
Definition read_pred (s : bytes) : option (pred * bytes) :=
  let close (p : pred) (r : bytes) := match eat 125 r with Some r' => Some (p, r') | None => None end in
  match s with
  | [] => None
  | c :: r =>
    if N.eqb c 49 then close PrAlways r
    else if N.eqb c 48 then close PrNever r
    else if N.eqb c 78 then
      match eat 125 r with
      | Some r' => Some (PrNameIn [], r')
      | None => let '(l, r') := read_hexlist (S (len r)) r [] in close (PrNameIn l) r'
      end
    else if N.eqb c 73 then
      match eat 125 r with
      | Some r' => Some (PrIntIn [], r')
      | None => let '(l, r') := read_intlist (S (len r)) r [] in close (PrIntIn l) r'
      end
    else if N.eqb c 76 then let '(d, r') := span_while is_digit r in close (PrArrLen (parse_nat d)) r'
    else if N.eqb c 35 then let '(d, r') := span_while is_digit r in close (PrOpaque (parse_N d)) r'
    else None
  end.

Definition read_kspec (c : N) : option kspec :=
  if N.eqb c 43 then Some KReq else if N.eqb c 63 then Some KOpt else if N.eqb c 45 then Some KForb else None.

Definition prim_of_tag (c : N) : option ty :=
  if N.eqb c 95 then Some TAny
  else if N.eqb c 98 then Some (TPrim PBool)
  else if N.eqb c 115 then Some (TPrim PString)
  else if N.eqb c 109 then Some (TPrim PName)
  else if N.eqb c 110 then Some (TPrim PNull)
  else if N.eqb c 105 then Some (TPrim PInteger)
  else if N.eqb c 113 then Some (TPrim PReal)
  else if N.eqb c 99 then Some (TPrim PComment)
  else None.

Fixpoint read_chk (fuel : nat) (s : bytes) : option (chk * bytes) :=
  match fuel with
  | O => None
  | S f =>
    let read_list :=
      (fix items (n : nat) (s : bytes) (acc : list chk) : option (list chk * bytes) :=
         match n with O => None | S n' =>
         match eat 41 s with
         | Some r => Some (rev acc, r)
         | None =>
           match eat 44 s with
           | Some r => items n' r acc
           | None => match read_chk f s with
                     | Some (c, r) => items n' r (c :: acc)
                     | None => None
                     end
           end
         end end) in
    let read_ent (s : bytes) : option (kspec * chk * bytes) :=
      match s with
      | o :: r =>
        match read_kspec o, eat 58 r with
        | Some ko, Some r' => match read_chk f r' with Some (c, r'') => Some (ko, c, r'') | None => None end
        | _, _ => None
        end
      | [] => None
      end in
    let read_ents :=
      (fix ents (n : nat) (s : bytes) (acc : list dent) (star : option (chk * kspec))
         : option (list dent * option (chk * kspec) * bytes) :=
         match n with O => None | S n' =>
         match eat 41 s with
         | Some r => Some (rev acc, star, r)
         | None =>
           match eat 44 s with
           | Some r => ents n' r acc star
           | None =>
             match eat 42 s with
             | Some r =>
               match read_ent r with
               | Some (ko, c, r') => ents n' r' acc (Some (c, ko))
               | None => None
               end
             | None =>
               let '(k, r1) := span_while is_hexdig s in
               match read_ent r1 with
               | Some (ko, c, r') => ents n' r' (DEnt (unhex k) c ko :: acc) star
               | None => None
               end
             end
           end
         end end) in
    match eat 64 s with
    | Some r => let '(nm, r') := span_while is_namech r in Some (CNamed nm, r')
    | None =>
      let '(i, s1) := match eat 33 s with
                      | Some r => (IReq, r)
                      | None => match eat 126 s with Some r => (IForb, r) | None => (IAllowed, s) end
                      end in
      match (match eat 123 s1 with
             | Some r => match read_pred r with Some (p, r') => Some (Some p, r') | None => None end
             | None => Some (None, s1)
             end) with
      | None => None
      | Some (p, s2) =>
        let mk (t : ty) (r : bytes) := Some (CRep t p i, r) in
        match s2 with
        | [] => None
        | c :: r =>
          match prim_of_tag c with
          | Some t => mk t r
          | None =>
            if N.eqb c 65 then
              let '(d, r1) := span_while is_digit r in
              match eat 40 r1 with
              | Some r2 =>
                match read_chk f r2 with
                | Some (e, r3) =>
                  match eat 41 r3 with
                  | Some r4 => mk (TArr e (match d with [] => None | _ => Some (parse_nat d) end)) r4
                  | None => None
                  end
                | None => None
                end
              | None => None
              end
            else
              match eat 40 r with
              | None => None
              | Some r1 =>
                if N.eqb c 72 then
                  match read_list (S (len r1)) r1 [] with Some (l, r') => mk (THet l) r' | None => None end
                else if N.eqb c 79 then
                  match read_list (S (len r1)) r1 [] with Some (l, r') => mk (TDisj l) r' | None => None end
                else if N.eqb c 68 then
                  match read_ents (S (len r1)) r1 [] None with Some (l, st, r') => mk (TDict l st) r' | None => None end
                else if N.eqb c 83 then
                  match read_ents (S (len r1)) r1 [] None with Some (l, _, r') => mk (TStream l) r' | None => None end
                else None
              end
          end
        end
      end
    end
  end.

Definition read_chk_tok (s : bytes) : option chk :=
  match read_chk (S (len s)) s with Some (c, []) => Some c | _ => None end.

(* "name=chk;…": only full representations can be registered *)
Definition read_tctx (s : bytes) : option tctx :=
  if is_dash s then Some []
  else fold_left (fun acc part =>
         match acc with
         | None => None
         | Some ctx =>
           let '(nm, r1) := span_while is_namech part in
           match eat 61 r1 with
           | Some r2 =>
             match read_chk_tok r2 with
             | Some (CRep t p i) => Some ((nm, (t, p, i)) :: ctx)
             | _ => None
             end
           | None => None
           end
         end) (split_on 59 s) (Some []).

Definition show_tcerr (e : tcerr) : bytes :=
  match e with
  | ESize => B "size" | EMissing => B "missingkey" | EForbiddenKey => B "forbiddenkey"
  | EType => B "type" | EValue => B "value" | EPredErr => B "pred" | EUnknown => B "unknown"
  end.
Definition show_outcome (o : outcome) : bytes :=
  match o with
  | Accept => B "accept"
  | Reject e => B "reject " ++ show_tcerr e
  | SpecErr e => B "specerr " ++ show_tcerr e
  | Panicked => B "panic"
  | Stuck => B "fuel"
  end.

(* opaque predicates of the case protocol: always true *)
Definition opq_default (_ : N) (_ : obj) : bool := true.

(* case: mode octx tctx chk obj;  mode "v" prints the verdict, "s" the verdict, the number of
   loop iterations (hook verif_steps) and "stable": the model is a function of the case, so
   running it again, on the same or on a used type-check context, gives the same answer
   (C09_deterministic); the runner prints "unstable:<run>" when the implementation does not *)
Definition entry_checker (args : list bytes) : bytes :=
  let mode := nth_arg args 0 in
  match read_octx (nth_arg args 1), read_tctx (nth_arg args 2),
        read_chk_tok (nth_arg args 3), read_obj_tok (nth_arg args 4) with
  | Some oc, Some tc, Some c, Some o =>
    let '(r, k) := check opq_default oc tc (canon_obj o) c in
    if bytes_eqb mode (B "v") then show_outcome r
    else if bytes_eqb mode (B "s") then show_outcome r ++ B " steps=" ++ show_nat k ++ B " stable"
    else B "badcase"
  | _, _, _, _ => B "badcase"
  end.
