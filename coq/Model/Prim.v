(* Model/Prim.v — transcription of src/pdf_lib/pdf_prim.rs (all token parsers), the ParseBufferT
   primitives they call (src/pcore/parsebuffer.rs) and BinaryScanner / BinaryMatcher
   (src/pcore/prim_binary.rs), over the abstract buffer (s : bytes, c : nat cursor)
   (a view behaves as its window — C17).  Definitions only.

   Conventions
   * every parser has the shape  [name args s c : pres (lv T)]  (pres/lv as in Model/Bin.v):
       POk (v, loc_start, loc_end) cursor_after | PErr kind cursor_after | PPanic | PFuel
   * on failure the cursor in [PErr] is the cursor the Rust code leaves behind: where the Rust
     restores with set_cursor_unsafe(start) the model goes through [setc s start] (which also
     models the assert of set_cursor_unsafe); where the Rust does not restore, the cursor reached
     is kept.  That failure leaves the cursor at [c] is a THEOREM (Proofs/Prim*.v), not built in.
   * assert!/unwrap/index/panic! sites are PPanic: [incr] (incr_cursor_unsafe: assert ofs < end),
     [decr] (decr_cursor_unsafe: assert ofs > start), [setc] (set_cursor_unsafe: assert
     start + ofs <= end), int_of_hex's assert, hx[2*i+1], panic!("unexpected lit string").
   * transcribed from /repo at 74723f2, i.e. after the three C15 repairs (83bfd7a IntegerP requires
     a digit, a60b266 StreamContentP no longer unwraps peek(), 74723f2 WhitespaceNoEOL tests for
     emptiness after the CR-LF rewind); the pinned versions are kept in Proofs/PrimPinned.v.
   * integer arithmetic: i64/i128 checked_mul/checked_add → error exactly as the Rust; `num *= -1`
     is applied to 0 <= num <= MAX only (never overflows; proved in Proofs); the only reachable
     plain (unchecked) operations are RawLiteralString's `depth += 1` / `depth -= 1` on an i32
     (needs >= 2^31 unescaped parentheses): debug ⇒ PPanic, release ⇒ wrap.  Hence
     [lit_string] takes [rel : bool] (true = release profile).  u8/usize operations are proved in
     range (`c - 48` on digits, `16*hi + lo` on hex digits, `pos + 1`, `start + length`).
   * loops: WhitespaceEOL and RawLiteralString use explicit fuel [S (len s - c)] (every iteration
     but the last consumes >= 1 byte; PFuel is proved unreachable).

   ======================= EXPORTED INTERFACE (signatures are frozen) =======================
   Types
     lv A := (A * nat * nat)                        (from Model/Bin.v)
     realT := (Z * Z)                               RealT(numerator, denominator)
     streamT := (nat * nat * bytes)                 StreamContentT(start, size, content)
   Buffer primitives (ParseBufferT)
     peek            : bytes -> nat -> option N
     peek_is         : bytes -> nat -> N -> bool          (buf.peek() == Some(b))
     incr            : forall A, bytes -> nat -> (nat -> pres A) -> pres A    incr_cursor_unsafe
     decr            : forall A, nat -> (nat -> pres A) -> pres A             decr_cursor_unsafe
     setc            : forall A, bytes -> nat -> (nat -> pres A) -> pres A    set_cursor_unsafe
     set_cursor      : bytes -> nat -> nat -> pres unit   (s, current cursor, ofs) checked version
     incr_cursor     : bytes -> nat -> pres unit
     decr_cursor     : bytes -> nat -> pres unit
     span_n          : (N -> bool) -> bytes -> nat        number of leading bytes satisfying p
     allowed         : bytes -> bytes -> nat -> nat       parse_allowed_bytes: #bytes consumed at c
     until           : bytes -> bytes -> nat -> nat       parse_bytes_until:   #bytes consumed at c
       (the Vec returned is [sub s c (c + n)], the cursor after is [c + n]; both always Ok)
     check_prefix    : bytes -> bytes -> nat -> bool      (prefix, s, c)  cursor unmoved
     exact           : bytes -> bytes -> nat -> option nat   (tag, s, c) Some cursor-after | None (GuardError, cursor unmoved)
     find_tag        : bytes -> bytes -> option nat       first offset of tag in a list
     scan            : bytes -> bytes -> nat -> pres nat  (tag, s, c) POk skip (c+skip) | PErr EEndOfBuffer c   (empty tag: POk 0 c, /repo d07c841)
     extract         : nat -> bytes -> nat -> pres bytes  (len, s, c)
   Byte sets / keywords (from gen/PrimConstants.v): ws_noeol_set ws_eol_set digit_set hexws_set
     comment_stop lit_stops name_stops op_stops hex_skip_set kw_true kw_false kw_null kw_stream kw_endstream
   Token parsers (pdf_prim.rs)
     ws_noeol        : bool -> bytes -> nat -> pres (lv unit)      WhitespaceNoEOL::new(empty_ok)
     comment         : bytes -> nat -> pres (lv bytes)             Comment
     ws_eol          : bool -> bytes -> nat -> pres (lv unit)      WhitespaceEOL::new(empty_ok)
     boolean         : bytes -> nat -> pres (lv bool)              Boolean
     null            : bytes -> nat -> pres (lv unit)              Null
     integer         : bytes -> nat -> pres (lv Z)                 IntegerP   (value = IntegerT.0)
     real            : bytes -> nat -> pres (lv realT)             RealP
     hexstring       : bytes -> nat -> pres (lv bytes)             HexString
     lit_string      : bool -> bytes -> nat -> pres (lv bytes)     RawLiteralString (rel = release build)
     name            : bytes -> nat -> pres (lv bytes)             NameP      (value = NameT.raw_bytes)
     operator        : bytes -> nat -> pres (lv bytes)             OperatorP  (value = UTF-8 bytes of OperatorT.name)
     stream_content  : nat -> bool -> bytes -> nat -> pres (lv streamT)   StreamContentP::new(length, eol_after_stream_content)
   Helpers on values (pdf_prim.rs)
     name_decode     : bytes -> option bytes     the windows(3) #xx decoder (None = "null char in name")
     utf8_valid      : bytes -> bool             std::str::from_utf8(..).is_ok()
     i64_max i128_max : Z
     real_is_integer : realT -> bool             RealT::is_integer
     real_numerator  : realT -> option Z         RealT::numerator (None = unwrap panic)
     int_is_usize    : Z -> bool                 IntegerT::is_usize   (usize = u64)
     int_usize_val   : Z -> option nat           IntegerT::usize_val  (None = unwrap panic)
   Binary tag parsers (prim_binary.rs)
     bin_scanner     : bytes -> bytes -> nat -> pres (lv nat)      BinaryScanner::new(tag)
     bin_matcher     : bytes -> bytes -> nat -> pres (lv bool)     BinaryMatcher::new(tag)
   Case protocol:  entry : list bytes -> bytes
   ========================================================================================= *)
From PV Require Export Model.Bin.
From PV Require Export gen.PrimConstants.

Definition realT := (Z * Z)%type.
Definition streamT := (nat * nat * bytes)%type.

(* ------------------------------------------------------------------ buffer primitives *)

(* peek: if ofs < end { Some(buf[ofs]) } else { None } *)
Definition peek (s : bytes) (c : nat) : option N := nth_error s c.

Definition peek_is (s : bytes) (c : nat) (b : N) : bool :=
  match peek s c with Some x => N.eqb x b | None => false end.

(* incr_cursor_unsafe: assert!(ofs < end); ofs += 1 *)
Definition incr {A} (s : bytes) (c : nat) (k : nat -> pres A) : pres A :=
  if Nat.ltb c (len s) then k (S c) else PPanic.

(* decr_cursor_unsafe: assert!(ofs > start); ofs -= 1 *)
Definition decr {A} (c : nat) (k : nat -> pres A) : pres A :=
  match c with O => PPanic | S c' => k c' end.

(* set_cursor_unsafe(ofs): assert!(start + ofs <= end) *)
Definition setc {A} (s : bytes) (ofs : nat) (k : nat -> pres A) : pres A :=
  if Nat.leb ofs (len s) then k ofs else PPanic.

(* the checked versions: Err(EndOfBuffer) located at the current cursor, cursor unmoved *)
Definition set_cursor (s : bytes) (c ofs : nat) : pres unit :=
  if Nat.leb ofs (len s) then POk tt ofs else PErr EEndOfBuffer c.
Definition incr_cursor (s : bytes) (c : nat) : pres unit :=
  if Nat.ltb c (len s) then POk tt (S c) else PErr EEndOfBuffer c.
Definition decr_cursor (s : bytes) (c : nat) : pres unit :=
  match c with O => PErr EEndOfBuffer c | S c' => POk tt c' end.

(* number of leading bytes satisfying p *)
Fixpoint span_n (p : N -> bool) (l : bytes) : nat :=
  match l with
  | [] => 0
  | x :: r => if p x then S (span_n p r) else 0
  end.

(* parse_allowed_bytes(allow): consumes the longest run of bytes in [allow]; always Ok *)
Definition allowed (set : bytes) (s : bytes) (c : nat) : nat :=
  span_n (fun b => memb b set) (skipn c s).

(* parse_bytes_until(terminators): consumes up to the first terminator or the end; always Ok *)
Definition until (set : bytes) (s : bytes) (c : nat) : nat :=
  span_n (fun b => negb (memb b set)) (skipn c s).

(* check_prefix: buf[ofs..end].starts_with(prefix), cursor unmoved *)
Definition check_prefix (p : bytes) (s : bytes) (c : nat) : bool := prefixb p (skipn c s).

(* exact(tag): on success the cursor moves past the tag; on failure GuardError, cursor unmoved *)
Definition exact (tag : bytes) (s : bytes) (c : nat) : option nat :=
  if prefixb tag (skipn c s) then Some (c + len tag) else None.

(* scan(tag): first window of buf[ofs..end].windows(tag.len()) that equals tag *)
Fixpoint find_tag (tag : bytes) (l : bytes) : option nat :=
  if prefixb tag l then Some 0
  else match l with
       | [] => None
       | _ :: r => match find_tag tag r with Some k => Some (S k) | None => None end
       end.

Definition scan (tag : bytes) (s : bytes) (c : nat) : pres nat :=
  match tag with
  | [] => POk 0 c                      (* if tag.is_empty() { return Ok(0) }  (d07c841; was a windows(0) panic) *)
  | _ => match find_tag tag (skipn c s) with
         | Some k => POk k (c + k)
         | None => PErr EEndOfBuffer c
         end
  end.

(* extract(len): remaining() asserts ofs <= end *)
Definition extract (n : nat) (s : bytes) (c : nat) : pres bytes :=
  if Nat.ltb (len s) c then PPanic
  else if Nat.ltb (len s - c) n then PErr EEndOfBuffer c
  else POk (sub s c (c + n)) (c + n).

(* ------------------------------------------------------------------ WhitespaceNoEOL *)
Definition last_is (l : bytes) (b : N) : bool :=
  match rev l with x :: _ => N.eqb x b | [] => false end.

(* (repaired in 74723f2: the emptiness test comes after the CR-LF rewind and compares start == end) *)
Definition ws_noeol (empty_ok : bool) (s : bytes) (c : nat) : pres (lv unit) :=
  let n := allowed ws_noeol_set s c in
  let c1 := c + n in
  (fun k => if last_is (sub s c c1) 13 && peek_is s c1 10 then decr c1 k else k c1) (fun c2 =>
  if Nat.eqb c c2 && negb empty_ok then PErr EGuard c2          (* not restored; c2 = c *)
  else POk (tt, c, c2) c2).

(* ------------------------------------------------------------------ Comment *)
Definition comment (s : bytes) (c : nat) : pres (lv bytes) :=
  if negb (peek_is s c 37) then PErr EGuard c
  else incr s c (fun c1 =>
    let n := until comment_stop s c1 in
    let c2 := c1 + n in
    let v := sub s c1 c2 in
    if peek_is s c2 10 then incr s c2 (fun c3 => POk (v, c, c3) c3)
    else POk (v, c, c2) c2).

(* ------------------------------------------------------------------ WhitespaceEOL *)
(* the loop: returns is_empty and the cursor reached *)
Fixpoint ws_eol_loop (fuel : nat) (s : bytes) (c : nat) (is_empty : bool) : pres bool :=
  match fuel with
  | O => PFuel
  | S f =>
    let n := allowed ws_eol_set s c in
    let c1 := c + n in
    let e1 := if Nat.eqb n 0 then is_empty else false in
    if peek_is s c1 37 then
      match comment s c1 with
      | POk _ c2 => ws_eol_loop f s c2 false
      | PErr k c' => PErr k c'             (* `?` *)
      | PPanic => PPanic
      | PFuel => PFuel
      end
    else POk e1 c1
  end.

Definition ws_eol (empty_ok : bool) (s : bytes) (c : nat) : pres (lv unit) :=
  match ws_eol_loop (S (len s - c)) s c true with
  | POk is_empty c1 =>
    if is_empty && negb empty_ok then PErr EGuard c1           (* not restored *)
    else POk (tt, c, c1) c1
  | PErr k c' => PErr k c'
  | PPanic => PPanic
  | PFuel => PFuel
  end.

(* ------------------------------------------------------------------ Boolean, Null *)
Definition boolean (s : bytes) (c : nat) : pres (lv bool) :=
  match exact kw_true s c with
  | Some c1 => POk (true, c, c1) c1
  | None => match exact kw_false s c with
            | Some c1 => POk (false, c, c1) c1
            | None => PErr EGuard c
            end
  end.

Definition null (s : bytes) (c : nat) : pres (lv unit) :=
  match exact kw_null s c with
  | Some c1 => POk (tt, c, c1) c1
  | None => PErr EGuard c
  end.

(* ------------------------------------------------------------------ IntegerP, RealP *)
Definition i64_max : Z := 9223372036854775807%Z.
Definition i128_max : Z := 170141183460469231731687303715884105727%Z.

(* for c in num_str { num = checked_mul(num,10)?; num = checked_add(num, c - 48)? } ; num >= 0 *)
Fixpoint acc_digits (maxv : Z) (ds : bytes) (num : Z) : option Z :=
  match ds with
  | [] => Some num
  | d :: r =>
    let t := (num * 10)%Z in
    if (maxv <? t)%Z then None
    else let t2 := (t + (Z.of_N d - 48))%Z in
         if (maxv <? t2)%Z then None else acc_digits maxv r t2
  end.

(* the fraction loop of RealP: num and den, three checked operations per digit *)
Fixpoint acc_frac (maxv : Z) (ds : bytes) (num den : Z) : option (Z * Z) :=
  match ds with
  | [] => Some (num, den)
  | d :: r =>
    let t := (num * 10)%Z in
    if (maxv <? t)%Z then None
    else let t2 := (t + (Z.of_N d - 48))%Z in
         if (maxv <? t2)%Z then None
         else let dn := (den * 10)%Z in
              if (maxv <? dn)%Z then None else acc_frac maxv r t2 dn
  end.

(* after the optional sign: [c] = start, [c1] = cursor after the sign *)
Definition integer_body (minus : bool) (s : bytes) (c c1 : nat) : pres (lv Z) :=
  let n := allowed digit_set s c1 in
  let c2 := c1 + n in
  if Nat.eqb n 0 then setc s c (fun c' => PErr EGuard c')      (* repaired in 83bfd7a: a digit is required *)
  else match acc_digits i64_max (sub s c1 c2) 0%Z with
       | None => setc s c (fun c' => PErr EGuard c')
       | Some num => POk ((if minus then (num * -1)%Z else num), c, c2) c2
       end.

Definition integer (s : bytes) (c : nat) : pres (lv Z) :=
  if peek_is s c 45 then incr s c (fun c1 => integer_body true s c c1)
  else if peek_is s c 43 then incr s c (fun c1 => integer_body false s c c1)
  else integer_body false s c c.

Definition real_body (minus : bool) (s : bytes) (c c1 : nat) : pres (lv realT) :=
  let n := allowed digit_set s c1 in
  let c2 := c1 + n in
  if Nat.eqb n 0 && negb (peek_is s c2 46) then setc s c (fun c' => PErr EGuard c')
  else match acc_digits i128_max (sub s c1 c2) 0%Z with
       | None => setc s c (fun c' => PErr EGuard c')
       | Some num =>
         if peek_is s c2 46 then
           incr s c2 (fun c3 =>
             let m := allowed digit_set s c3 in
             let c4 := c3 + m in
             match acc_frac i128_max (sub s c3 c4) num 1%Z with
             | None => setc s c (fun c' => PErr EGuard c')
             | Some (num', den) =>
               POk (((if minus then (num' * -1)%Z else num'), den), c, c4) c4
             end)
         else POk (((if minus then (num * -1)%Z else num), 1%Z), c, c2) c2
       end.

Definition real (s : bytes) (c : nat) : pres (lv realT) :=
  if peek_is s c 45 then incr s c (fun c1 => real_body true s c c1)
  else if peek_is s c 43 then incr s c (fun c1 => real_body false s c c1)
  else real_body false s c c.

(* RealT::is_integer / numerator, IntegerT::is_usize / usize_val (usize = u64) *)
Definition real_is_integer (r : realT) : bool :=
  let '(n, d) := r in
  if ((- i64_max - 1 <=? n) && (n <=? i64_max))%Z then (d =? 1)%Z else false.
Definition real_numerator (r : realT) : option Z :=
  let '(n, _) := r in
  if ((- i64_max - 1 <=? n) && (n <=? i64_max))%Z then Some n else None.
Definition int_is_usize (i : Z) : bool := (0 <=? i)%Z.
Definition int_usize_val (i : Z) : option nat := if (0 <=? i)%Z then Some (Z.to_nat i) else None.

(* ------------------------------------------------------------------ HexString *)
Definition is_digit_b (b : N) : bool := (48 <=? b)%N && (b <=? 57)%N.
Definition is_hex_b (b : N) : bool :=
  is_digit_b b || ((97 <=? b)%N && (b <=? 102)%N) || ((65 <=? b)%N && (b <=? 70)%N).

(* int_of_hex: assert!(b.is_ascii_hexdigit()) *)
Definition int_of_hex (b : N) : option N :=
  if negb (is_hex_b b) then None
  else if is_digit_b b then Some (b - 48)%N
  else if (97 <=? b)%N && (b <=? 102)%N then Some (b - 97 + 10)%N
  else Some (b - 65 + 10)%N.

(* for i in 0 .. hx.len()/2 { 16 * int_of_hex(hx[2i]) + int_of_hex(hx[2i+1]) }; None = panic *)
Fixpoint hex_pairs (l : bytes) : option bytes :=
  match l with
  | [] => Some []
  | [_] => Some []                          (* hx.len()/2 rounds down; hx.len() is even here *)
  | a :: b :: r =>
    match int_of_hex a, int_of_hex b, hex_pairs r with
    | Some x, Some y, Some v => Some ((16 * x + y)%N :: v)
    | _, _, _ => None
    end
  end.

Definition hex_ws : bytes := hex_skip_set.   (* the local HashSet in HexString::parse (gen/PrimConstants.v) *)

Definition hex_value (bs : bytes) : option bytes :=
  let hx := filter (fun b => negb (memb b hex_ws)) bs in
  let hx' := if Nat.eqb (Nat.modulo (len hx) 2) 0 then hx else hx ++ [48%N] in
  hex_pairs hx'.

Definition hexstring (s : bytes) (c : nat) : pres (lv bytes) :=
  if negb (peek_is s c 60) then PErr EGuard c
  else incr s c (fun c1 =>
    let n := allowed hexws_set s c1 in
    let c2 := c1 + n in
    if negb (peek_is s c2 62) then setc s c (fun c' => PErr EGuard c')
    else incr s c2 (fun c3 =>
      match hex_value (sub s c1 c2) with
      | Some v => POk (v, c, c3) c3
      | None => PPanic
      end)).

(* ------------------------------------------------------------------ RawLiteralString *)
(* `let mut depth = 1` is an i32; += 1 / -= 1 are unchecked: debug panics, release wraps *)
Definition i32_max : Z := 2147483647%Z.
Definition i32_min : Z := (-2147483648)%Z.
Definition i32_incr (rel : bool) (d : Z) : option Z :=
  if (d <? i32_max)%Z then Some (d + 1)%Z else if rel then Some i32_min else None.
Definition i32_decr (rel : bool) (d : Z) : option Z :=
  if (i32_min <? d)%Z then Some (d - 1)%Z else if rel then Some i32_max else None.

(* Some(pos) if pos + 1 == curpos *)
Definition escaped (last_slash : option nat) (curpos : nat) : bool :=
  match last_slash with Some pos => Nat.eqb (pos + 1) curpos | None => false end.

Fixpoint lit_loop (fuel : nat) (rel : bool) (s : bytes) (start c : nat)
         (last_slash : option nat) (depth : Z) (v : bytes) : pres (lv bytes) :=
  match fuel with
  | O => PFuel
  | S f =>
    let n := until lit_stops s c in
    let cp := c + n in                       (* curpos *)
    let bs := sub s c cp in
    match peek s cp with
    | None => setc s start (fun c' => PErr EEndOfBuffer c')
    | Some x =>
      if N.eqb x 40 then
        incr s cp (fun c1 =>
          let v1 := v ++ bs ++ [40%N] in
          if escaped last_slash cp then lit_loop f rel s start c1 last_slash depth v1
          else match i32_incr rel depth with
               | Some d => lit_loop f rel s start c1 None d v1
               | None => PPanic
               end)
      else if N.eqb x 41 then
        incr s cp (fun c1 =>
          let v1 := v ++ bs in
          if escaped last_slash cp then lit_loop f rel s start c1 last_slash depth (v1 ++ [41%N])
          else match i32_decr rel depth with
               | Some d =>
                 if (d =? 0)%Z then POk (v1, start, c1) c1
                 else lit_loop f rel s start c1 None d (v1 ++ [41%N])
               | None => PPanic
               end)
      else if N.eqb x 92 then
        incr s cp (fun c1 =>
          let v1 := v ++ bs ++ [92%N] in
          let ls := match last_slash with
                    | Some pos => if Nat.eqb (pos + 1) cp then None else Some cp
                    | None => Some cp
                    end in
          lit_loop f rel s start c1 ls depth v1)
      else PPanic                            (* panic!("unexpected lit string") *)
    end
  end.

Definition lit_string (rel : bool) (s : bytes) (c : nat) : pres (lv bytes) :=
  if negb (peek_is s c 40) then PErr EGuard c
  else incr s c (fun c1 => lit_loop (S (len s - c)) rel s c c1 None 1%Z []).

(* ------------------------------------------------------------------ NameP, OperatorP *)
Definition to_lower (b : N) : N := if (65 <=? b)%N && (b <=? 90)%N then (b + 32)%N else b.
(* the local fn from_hex: digit ⇒ b - '0', otherwise b - 'a' + 10 (applied to lower-cased hex digits) *)
Definition from_hex (b : N) : N := if is_digit_b b then (b - 48)%N else (b - 97 + 10)%N.

(* The windows(3) walker.  Invariant of the Rust loop: the iterator is always one window ahead
   of [w]; with [t] the suffix of the span that starts at window [w] = (a, b, c):
   - "#hh": push the decoded byte (0 ⇒ error); x = iter.next() is None iff [rest] is empty
     (break); y is None iff [rest] has one byte d (push x[2] = d, break); the next w is None iff
     [rest] has two bytes d e (push y[1] = d, y[2] = e, break); otherwise continue at [rest];
   - otherwise push a; the next w is None iff [rest] is empty (push b, c); else continue at b :: c :: rest.
   None = Err("null char in name"). *)
Fixpoint name_dec (t : bytes) : option bytes :=
  match t with
  | a :: ((b :: c :: rest) as t1) =>
    if N.eqb a 35 && is_hex_b b && is_hex_b c then
      let ch := (16 * from_hex (to_lower b) + from_hex (to_lower c))%N in
      if N.eqb ch 0 then None
      else match rest with
           | [] => Some [ch]
           | [d] => Some [ch; d]
           | [d; e] => Some [ch; d; e]
           | _ => match name_dec rest with Some r => Some (ch :: r) | None => None end
           end
    else match rest with
         | [] => Some [a; b; c]
         | _ => match name_dec t1 with Some r => Some (a :: r) | None => None end
         end
  | _ => Some t                              (* not reached: called with >= 3 bytes *)
  end.

Definition name_decode (span : bytes) : option bytes :=
  if Nat.ltb (len span) 3 then Some span else name_dec span.

Definition name (s : bytes) (c : nat) : pres (lv bytes) :=
  if negb (peek_is s c 47) then PErr EGuard c
  else incr s c (fun c1 =>
    let n := until name_stops s c1 in
    let e := c1 + n in
    match name_decode (sub s c1 e) with
    | None => setc s c (fun c' => PErr EGuard c')
    | Some r => POk (r, c, e) e
    end).

(* std::str::from_utf8(..).is_ok(): well-formed UTF-8 (Unicode table 3-7) *)
Definition in_rng (lo hi b : N) : bool := (lo <=? b)%N && (b <=? hi)%N.
Fixpoint utf8_valid (l : bytes) : bool :=
  match l with
  | [] => true
  | a :: r =>
    if (a <=? 127)%N then utf8_valid r
    else if in_rng 194 223 a then
      match r with b :: r1 => in_rng 128 191 b && utf8_valid r1 | _ => false end
    else if in_rng 224 239 a then
      match r with
      | b :: c :: r2 =>
        (if N.eqb a 224 then in_rng 160 191 b
         else if N.eqb a 237 then in_rng 128 159 b else in_rng 128 191 b)
        && in_rng 128 191 c && utf8_valid r2
      | _ => false
      end
    else if in_rng 240 244 a then
      match r with
      | b :: c :: d :: r3 =>
        (if N.eqb a 240 then in_rng 144 191 b
         else if N.eqb a 244 then in_rng 128 143 b else in_rng 128 191 b)
        && in_rng 128 191 c && in_rng 128 191 d && utf8_valid r3
      | _ => false
      end
    else false
  end.

Definition operator (s : bytes) (c : nat) : pres (lv bytes) :=
  let n := until op_stops s c in
  let e := c + n in
  if Nat.eqb c e then setc s c (fun c' => PErr EGuard c')
  else match name_decode (sub s c e) with
       | None => setc s c (fun c' => PErr EGuard c')
       | Some r =>
         if utf8_valid r then POk (r, c, e) e
         else setc s c (fun c' => PErr EGuard c')
       end.

(* ------------------------------------------------------------------ StreamContentP *)
Definition stream_content (length : nat) (eol_after : bool) (s : bytes) (c : nat) : pres (lv streamT) :=
  match exact kw_stream s c with
  | None => PErr EGuard c
  | Some c1 =>
    (* optional '\r' *)
    (fun k => if peek_is s c1 13 then incr s c1 k else k c1) (fun c2 =>
    if negb (peek_is s c2 10) then setc s c (fun c' => PErr EGuard c')
    else incr s c2 (fun c3 =>                (* c3 = stream_start_cursor *)
      match extract length s c3 with
      | PErr k _ => setc s c (fun c' => PErr k c')
      | PPanic => PPanic
      | PFuel => PFuel
      | POk v _ =>
        setc s (c3 + length) (fun c4 =>      (* c4 = end_eol *)
        (fun k => if peek_is s c4 13 then incr s c4 k else k c4) (fun c5 =>
        (fun k => if peek_is s c5 10 then incr s c5 k else k c5) (fun c6 =>
        if eol_after && Nat.eqb c4 c6 then
          setc s c (fun c' => PErr EGuard c')  (* repaired in a60b266: was buf.peek().unwrap() *)
        else match exact kw_endstream s c6 with
             | None => setc s c (fun c' => PErr EGuard c')
             | Some c7 => POk ((c3, length, v), c, c7) c7
             end)))
      end))
  end.

(* ------------------------------------------------------------------ BinaryScanner / BinaryMatcher *)
Definition bin_scanner (tag : bytes) (s : bytes) (c : nat) : pres (lv nat) :=
  match scan tag s c with
  | POk k c1 => POk (k, c, c1) c1
  | PErr k c' => PErr k c'
  | PPanic => PPanic
  | PFuel => PFuel
  end.

Definition bin_matcher (tag : bytes) (s : bytes) (c : nat) : pres (lv bool) :=
  match exact tag s c with
  | Some c1 => POk (true, c, c1) c1
  | None => PErr EGuard c
  end.

(* ------------------------------------------------------------------ case protocol
   case: kind arg hexbuf cursor [@profile]
     kind ∈ wsn wse (arg = empty_ok 0/1) | com bool null int real hex lit name op (arg = "-")
          | sc (arg = 2*length + eol_after) | scan match (arg = hex tag)
   observation: <result> | <result of the same parser on the reported span alone, at cursor 0>
     (second part "-" when the first is not a success; for scan the span is extended by the tag).  Values: () / true / false / decimal /
     num/den / hex / start:size:hex. *)
Definition show_unit (_ : unit) : bytes := B "()".
Definition show_bool (b : bool) : bytes := if b then B "true" else B "false".
Definition show_real (r : realT) : bytes := let '(n, d) := r in show_Z n ++ B "/" ++ show_Z d.
Definition show_stream (x : streamT) : bytes :=
  let '(st, sz, v) := x in show_nat st ++ B ":" ++ show_nat sz ++ B ":" ++ show_hex_tok v.

Definition show_lv {A} (sh : A -> bytes) (x : lv A) : bytes :=
  let '(v, a, b) := x in sh v ++ B " " ++ show_nat a ++ B " " ++ show_nat b.

(* [ext] = number of look-ahead bytes appended to the span for the re-parse (0 except for the
   scanner, whose value is determined by span ++ tag) *)
Definition run2x {A} (ext : nat) (sh : A -> bytes) (p : bytes -> nat -> pres (lv A)) (s : bytes) (c : nat) : bytes :=
  let r := p s c in
  show_pres (show_lv sh) r ++ B " | " ++
  match r with
  | POk (_, a, b) _ => show_pres (show_lv sh) (p (sub s a (b + ext)) 0)
  | _ => B "-"
  end.
Definition run2 {A} := @run2x A 0.

Definition entry (args : list bytes) : bytes :=
  let kind := nth_arg args 0 in
  let a1 := nth_arg args 1 in
  let s := unhex (nth_arg args 2) in
  let c := parse_nat (nth_arg args 3) in
  let rel := bytes_eqb (nth_arg args 4) (B "@release") in
  let flag := negb (bytes_eqb a1 (B "0")) in
  if Nat.ltb (len s) c then B "badcase"
  else if bytes_eqb kind (B "wsn") then run2 show_unit (ws_noeol flag) s c
  else if bytes_eqb kind (B "com") then run2 show_hex_tok comment s c
  else if bytes_eqb kind (B "wse") then run2 show_unit (ws_eol flag) s c
  else if bytes_eqb kind (B "bool") then run2 show_bool boolean s c
  else if bytes_eqb kind (B "null") then run2 show_unit null s c
  else if bytes_eqb kind (B "int") then run2 show_Z integer s c
  else if bytes_eqb kind (B "real") then run2 show_real real s c
  else if bytes_eqb kind (B "hex") then run2 show_hex_tok hexstring s c
  else if bytes_eqb kind (B "lit") then run2 show_hex_tok (lit_string rel) s c
  else if bytes_eqb kind (B "name") then run2 show_hex_tok name s c
  else if bytes_eqb kind (B "op") then run2 show_hex_tok operator s c
  else if bytes_eqb kind (B "sc") then
    let k := parse_nat a1 in
    run2 show_stream (stream_content (Nat.div k 2) (Nat.eqb (Nat.modulo k 2) 1)) s c
  else if bytes_eqb kind (B "scan") then run2x (len (unhex a1)) show_nat (bin_scanner (unhex a1)) s c
  else if bytes_eqb kind (B "match") then run2 show_bool (bin_matcher (unhex a1)) s c
  else B "badcase".
