(* Model/A85.v — ASCII85Decode::transform (src/pdf_lib/pdf_filters.rs) over the vendored crate
   ascii85-0.2.1 (src/decode.rs), transcribed directly.  Definitions only.

   The staged text is a Rust String built with `stage.push(c as char)` for every byte c: a list of chars 0..255 here.
   Chars >= 128 occupy two UTF-8 bytes, both >= 0x80 > 117, so `.bytes()` fails the range check on
   the first of them exactly as the char itself does: the byte loop is modelled on chars.
   u32 accumulation: debug builds panic on overflow (caught by catch_unwind => Err), release
   builds wrap. *)
From PV Require Export Base.Res.

Definition is_pdf_ws (b : N) : bool := memb b [0; 9; 10; 12; 13; 32]%N.

(* char::is_whitespace (Unicode White_Space) for chars < 256 *)
Definition is_uws (c : N) : bool :=
  ((9 <=? c) && (c <=? 13) || (c =? 32) || (c =? 133) || (c =? 160))%N.
(* u8::is_ascii_whitespace: space, \t, \n, \x0C, \r *)
Definition is_ascii_ws (c : N) : bool := memb c [32; 9; 10; 12; 13]%N.

Fixpoint trim_start (s : bytes) : bytes :=
  match s with
  | c :: r => if is_uws c then trim_start r else s
  | [] => []
  end.
(* linear-time reverse (List.rev is quadratic); rev_alt: rev l = rev_append l [] *)
Definition frev (s : bytes) : bytes := rev_append s [].
Definition trim_end (s : bytes) : bytes := frev (trim_start (frev s)).

(* trim_start_matches("<~"): removes the prefix repeatedly *)
Fixpoint strip_lt_tilde (s : bytes) : bytes :=
  match s with
  | a :: b :: r => if (a =? 60)%N && (b =? 126)%N then strip_lt_tilde r else s
  | _ => s
  end.
(* trim_end_matches("~>") on the reversed text *)
Fixpoint strip_gt_tilde_rev (s : bytes) : bytes :=
  match s with
  | a :: b :: r => if (a =? 62)%N && (b =? 126)%N then strip_gt_tilde_rev r else s
  | _ => s
  end.
Definition trim_end_eod (s : bytes) : bytes := frev (strip_gt_tilde_rev (frev s)).

Definition two32 : N := 4294967296.
Definition u32_mul (dbg : bool) (a b : N) : option N :=
  if (a * b <? two32)%N then Some (a * b)%N else if dbg then None else Some ((a * b) mod two32)%N.
Definition u32_add (dbg : bool) (a b : N) : option N :=
  if (a + b <? two32)%N then Some (a + b)%N else if dbg then None else Some ((a + b) mod two32)%N.

(* TABLE *)
Definition pow85 (counter : nat) : N :=
  match counter with O => 52200625%N | 1%nat => 614125%N | 2%nat => 7225%N | 3%nat => 85%N | _ => 1%N end.

(* *chunk += (digit - 33) as u32 * TABLE[*counter] *)
Definition a85_acc (dbg : bool) (digit : N) (counter : nat) (chunk : N) : option N :=
  match u32_mul dbg (digit - 33) (pow85 counter) with
  | Some p => u32_add dbg chunk p
  | None => None
  end.

Definition be4 (v : N) : bytes := [v / 16777216; (v / 65536) mod 256; (v / 256) mod 256; v mod 256]%N.

Inductive a85res := AOk (r : bytes) | AErr | APanic.
Definition a85_cons (pre : bytes) (r : a85res) : a85res :=
  match r with AOk x => AOk (pre ++ x) | e => e end.

(* the padding loop: decode_digit(b'u') until the counter wraps; returns the completed chunk *)
Fixpoint a85_pad (dbg : bool) (n : nat) (counter : nat) (chunk : N) : option N :=
  match n with
  | O => Some chunk
  | S n' => match a85_acc dbg 117 counter chunk with
            | Some c' => a85_pad dbg n' (S counter) c'
            | None => None
            end
  end.

(* the `for digit in …` loop followed by the padding loop and the drain *)
Fixpoint a85_loop (dbg : bool) (s : bytes) (counter : nat) (chunk : N) : a85res :=
  match s with
  | [] =>
    if Nat.eqb counter 0 then AOk []
    else match a85_pad dbg (5 - counter) counter chunk with
         | Some v => AOk (firstn (counter - 1) (be4 v))     (* to_remove = 5 - counter of the 4 bytes *)
         | None => APanic
         end
  | d :: r =>
    (* `z`: zeros are appended when aligned, an error otherwise; either way control then reaches the
       range check, which rejects 'z' = 122 > 117 *)
    if (d =? 122)%N && negb (Nat.eqb counter 0) then AErr
    else if (d <? 33)%N || (117 <? d)%N then AErr
    else match a85_acc dbg d counter chunk with
         | None => APanic
         | Some c' =>
           if Nat.eqb counter 4 then a85_cons (be4 c') (a85_loop dbg r 0 0%N)
           else a85_loop dbg r (S counter) c'
         end
  end.

(* ascii85::decode *)
Definition crate_decode (dbg : bool) (input : bytes) : a85res :=
  let body := trim_end_eod (trim_end (strip_lt_tilde (trim_start input))) in
  a85_loop dbg (filter (fun c => negb (is_ascii_ws c)) body) 0 0%N.

Definition a85_stage (data : bytes) : bytes := filter (fun b => negb (is_pdf_ws b)) data.

Definition of_a85res (r : a85res) : res bytes :=
  match r with AOk x => Ok x | AErr => Err ETransform | APanic => Err ETransform end.

(* ASCII85Decode::transform as pinned (staging = whitespace removal only) *)
Definition a85_decode_pinned (dbg : bool) (data : bytes) : res bytes :=
  of_a85res (crate_decode dbg (a85_stage data)).

(* ---------- ASCII85Decode::transform after the C06 repairs (/repo 3276132) ---------- *)
(* stage.strip_suffix("~>") *)
Definition strip_eod (stage : bytes) : option bytes :=
  match frev stage with
  | a :: b :: r => if (a =? 62)%N && (b =? 126)%N then Some (frev r) else None
  | _ => None
  end.
(* body.strip_prefix("<~").unwrap_or(body) *)
Definition strip_start_marker (body : bytes) : bytes :=
  match body with
  | a :: b :: r => if (a =? 60)%N && (b =? 126)%N then r else body
  | _ => body
  end.

Definition u32_max : N := 4294967295.

(* for _ in n .. 5 { value = value * 85 + 84 } *)
Fixpoint pad_value (k : nat) (value : N) : N :=
  match k with O => value | S k' => pad_value k' (value * 85 + 84)%N end.

(* the group-checking loop and the two tests after it; n = characters in the current group, value = their
   value (u64 arithmetic; the value stays below 85^5 < 2^33, no overflow).  Returns the digits handed to the
   crate, [None] = one of the error returns. *)
Fixpoint a85_check (n : nat) (value : N) (s : bytes) : option bytes :=
  match s with
  | [] =>
    if Nat.eqb n 1 then None
    else if Nat.ltb 1 n then (if (u32_max <? pad_value (5 - n) value)%N then None else Some [])
    else Some []
  | c :: r =>
    if (c =? 122)%N && Nat.eqb n 0 then
      match a85_check n value r with Some d => Some (33 :: 33 :: 33 :: 33 :: 33 :: d)%N | None => None end
    else if (33 <=? c)%N && (c <=? 117)%N then
      let value' := (value * 85 + (c - 33))%N in
      let n' := Nat.modulo (n + 1) 5 in
      if Nat.eqb n' 0 then
        if (u32_max <? value')%N then None
        else match a85_check 0 0%N r with Some d => Some (c :: d) | None => None end
      else match a85_check n' value' r with Some d => Some (c :: d) | None => None end
    else None
  end.

Definition a85_decode (dbg : bool) (data : bytes) : res bytes :=
  match strip_eod (a85_stage data) with
  | None => Err ETransform
  | Some body =>
    match a85_check 0 0%N (strip_start_marker body) with
    | None => Err ETransform
    | Some digits => of_a85res (crate_decode dbg digits)
    end
  end.
