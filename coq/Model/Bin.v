(* Model/Bin.v — transcription of src/pcore/prim_binary.rs: UInt8P … UInt64P, IntNP, ByteVecP,
   over the abstract buffer (bytes, cursor) (a view is its window — C17).  Definitions only. *)
From PV Require Export Base.Res.

Inductive endian := Big | Little.

(* located value: value, loc_start, loc_end *)
Definition lv (A : Type) := (A * nat * nat)%type.
Definition lv_val {A} (x : lv A) : A := fst (fst x).

(* UInt8P::parse — peek, incr_cursor_unsafe; EndOfBuffer located at start otherwise *)
Definition u8 (s : bytes) (c : nat) : pres (lv N) :=
  match nth_error s c with
  | Some b => POk (b, c, S c) (S c)
  | None => PErr EEndOfBuffer c
  end.

(* ((hi as uW) << W/2) + (lo as uW) in W-bit unsigned arithmetic; the addition is a checked add
   in debug builds: [None] is the overflow (proved unreachable for well-formed halves). *)
Definition comb (halfbits : N) (hi lo : N) : option N :=
  let w := (2 * halfbits)%N in
  let h := ((hi * 2 ^ halfbits) mod 2 ^ w)%N in
  if (h + lo <? 2 ^ w)%N then Some (h + lo)%N else None.

(* UInt16P / UInt32P / UInt64P share one shape: parse two halves with the next-smaller parser;
   if the first half fails its error is returned as is; if the second fails the cursor is
   restored to [start]; otherwise combine according to the byte order.  [k] = log2(width in
   bytes): uN 0 = UInt8P, uN 1 = UInt16P, uN 2 = UInt32P, uN 3 = UInt64P. *)
Fixpoint uN (k : nat) (e : endian) (s : bytes) (c : nat) : pres (lv N) :=
  match k with
  | O => u8 s c
  | S k' =>
    match uN k' e s c with
    | POk (v1, _, _) c1 =>
      match uN k' e s c1 with
      | POk (v2, _, _) c2 =>
        let halfbits := (8 * 2 ^ N.of_nat k')%N in
        match (match e with Big => comb halfbits v1 v2 | Little => comb halfbits v2 v1 end) with
        | Some v => POk (v, c, c2) c2
        | None => PPanic
        end
      | PErr k2 _ => PErr k2 c
      | PPanic => PPanic
      | PFuel => PFuel
      end
    | r => r
    end
  end.

(* `as iN` reinterpretation *)
Definition to_signed (bits : N) (v : N) : Z :=
  if (v <? 2 ^ (bits - 1))%N then Z.of_N v else (Z.of_N v - 2 ^ Z.of_N bits)%Z.

Definition iN (k : nat) (e : endian) (s : bytes) (c : nat) : pres (lv Z) :=
  match uN k e s c with
  | POk (v, a, b) c' => POk (to_signed (8 * 2 ^ N.of_nat k) v, a, b) c'
  | PErr k0 c' => PErr k0 c'
  | PPanic => PPanic
  | PFuel => PFuel
  end.

(* ByteVecP over ParseBufferT::extract *)
Definition bytevec (n : nat) (s : bytes) (c : nat) : pres (lv bytes) :=
  if Nat.ltb (len s - c) n then PErr EEndOfBuffer c
  else POk (sub s c (c + n), c, c + n) (c + n).

(* the length of ByteVecP is a usize: any value up to 2^64-1.  [bytevecN] takes it as a binary number so that
   absurd lengths (usize::MAX) can be run; it is [bytevec] whenever the length fits the buffer *)
Definition bytevecN (n : N) (s : bytes) (c : nat) : pres (lv bytes) :=
  if (N.of_nat (len s - c) <? n)%N then PErr EEndOfBuffer c else bytevec (N.to_nat n) s c.

(* ---------- case protocol entry ----------
   args: kind ("u8" "u16" "u32" "u64" "i8" … "bytes"), endian ("be"/"le") or length, hex buffer, cursor *)
Definition show_lvN (x : lv N) : bytes :=
  let '(v, a, b) := x in show_N v ++ B " " ++ show_nat a ++ B " " ++ show_nat b.
Definition show_lvZ (x : lv Z) : bytes :=
  let '(v, a, b) := x in show_Z v ++ B " " ++ show_nat a ++ B " " ++ show_nat b.
Definition show_lvB (x : lv bytes) : bytes :=
  let '(v, a, b) := x in show_hex_tok v ++ B " " ++ show_nat a ++ B " " ++ show_nat b.

Definition entry (args : list bytes) : bytes :=
  let kind := nth_arg args 0 in
  let a1 := nth_arg args 1 in
  let s := unhex (nth_arg args 2) in
  let c := parse_nat (nth_arg args 3) in
  let e := if bytes_eqb a1 (B "le") then Little else Big in
  if bytes_eqb kind (B "u8") then show_pres show_lvN (uN 0 e s c)
  else if bytes_eqb kind (B "u16") then show_pres show_lvN (uN 1 e s c)
  else if bytes_eqb kind (B "u32") then show_pres show_lvN (uN 2 e s c)
  else if bytes_eqb kind (B "u64") then show_pres show_lvN (uN 3 e s c)
  else if bytes_eqb kind (B "i8") then show_pres show_lvZ (iN 0 e s c)
  else if bytes_eqb kind (B "i16") then show_pres show_lvZ (iN 1 e s c)
  else if bytes_eqb kind (B "i32") then show_pres show_lvZ (iN 2 e s c)
  else if bytes_eqb kind (B "i64") then show_pres show_lvZ (iN 3 e s c)
  else if bytes_eqb kind (B "bytes") then show_pres show_lvB (bytevecN (parse_N a1) s c)
  else B "badcase".
