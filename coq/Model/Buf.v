(* Model/Buf.v — transcription of src/pcore/parsebuffer.rs (ParseBuffer: every ParseBufferT and
   StreamBufferT operation, new_view) and src/pcore/transforms.rs (RestrictView, RestrictViewFrom).
   Definitions only.

   The concrete view is the record the Rust struct is: the whole underlying vector [data]
   (Rc<Vec<u8>>), [st]/[en]/[ofs] absolute (usize -> N) and [shared] = (Rc::strong_count > 1).
   Every operation is transcribed literally: each `self.start + x`, each subtraction, each slice
   `self.buf[a .. b]`, each index, each assert.  [Panic] = the Rust panics (assert, slice/index
   out of range, windows(0), arithmetic overflow in a debug build).  The build profile is a
   parameter: [uadd]/[usub] panic in Debug and wrap modulo 2^64 in Release.
   Additions whose result is bounded by an existing usize (ofs + consumed <= end) are written
   with [uadd] as well; they are proved never to overflow.  One idealisation: Vec lengths are
   not bounded by 2^64 in the model (allocation fails long before). *)
From PV Require Export Base.Res.
Local Open Scope N_scope.

Inductive mode := Debug | Release.

Definition W : N := 18446744073709551616.   (* 2^64 *)

Definition uadd (m : mode) (a b : N) : res N :=
  if a + b <? W then Ok (a + b)
  else match m with Debug => Panic | Release => Ok ((a + b) mod W) end.

Definition usub (m : mode) (a b : N) : res N :=
  if b <=? a then Ok (a - b)
  else match m with Debug => Panic | Release => Ok (a + W - b) end.

(* bind over [res]; only Ok/Panic are used in this file: an Err of the Rust API is a value
   ([RErr]) because the state it leaves behind is part of what is modelled *)
Definition bind {A B} (r : res A) (f : A -> res B) : res B :=
  match r with Ok a => f a | Err k => Err k | Panic => Panic | Fuel => Fuel end.
Notation "x <- e ;; f" := (bind e (fun x => f)) (at level 61, e at next level, right associativity).

Definition lenN {A} (l : list A) : N := N.of_nat (List.length l).

(* &v[a .. b] : panics unless a <= b <= len.  N.to_nat only on numbers already known small *)
Definition slice (d : bytes) (a b : N) : res bytes :=
  if (a <=? b) && (b <=? lenN d) then Ok (sub d (N.to_nat a) (N.to_nat b)) else Panic.

(* v[i] *)
Definition index (d : bytes) (i : N) : res N :=
  if i <? lenN d then match nth_error d (N.to_nat i) with Some b => Ok b | None => Panic end else Panic.

Record pb := { data : bytes; st : N; en : N; ofs : N; shared : bool }.

Definition with_ofs (v : pb) (o : N) : pb :=
  {| data := data v; st := st v; en := en v; ofs := o; shared := shared v |}.

(* values an operation can return *)
Inductive rv :=
| RUnit | RBool (b : bool) | RNat (n : N) | RBytes (l : bytes) | RErr (k : ekind).

(* ParseBuffer::new *)
Definition pb_new (d : bytes) : pb := {| data := d; st := 0; en := lenN d; ofs := 0; shared := false |}.

(* ---------- state queries ---------- *)
(* fn size(&self) -> usize { self.end - self.start } *)
Definition size (m : mode) (v : pb) : res N := usub m (en v) (st v).
(* fn remaining: assert!(self.ofs <= self.end); self.end - self.ofs *)
Definition remaining (m : mode) (v : pb) : res N :=
  if ofs v <=? en v then usub m (en v) (ofs v) else Panic.
(* fn peek: if self.ofs < self.end { Some(self.buf[self.ofs]) } else { None } *)
Definition peek (v : pb) : res (option N) :=
  if ofs v <? en v then (b <- index (data v) (ofs v);; Ok (Some b)) else Ok None.
(* fn buf(&self) -> &[u8] { &self.buf[self.ofs .. self.end] } *)
Definition buf (v : pb) : res bytes := slice (data v) (ofs v) (en v).
(* fn get_cursor(&self) -> usize { self.ofs - self.start } *)
Definition get_cursor (m : mode) (v : pb) : res N := usub m (ofs v) (st v).

(* ---------- cursor management ---------- *)
(* if ofs <= self.size() { self.ofs = self.start + ofs; Ok(()) } else { Err(EndOfBuffer) } *)
Definition set_cursor (m : mode) (v : pb) (o : N) : res (rv * pb) :=
  sz <- size m v;;
  if o <=? sz then (a <- uadd m (st v) o;; Ok (RUnit, with_ofs v a)) else Ok (RErr EEndOfBuffer, v).
Definition incr_cursor (m : mode) (v : pb) : res (rv * pb) :=
  if ofs v <? en v then (a <- uadd m (ofs v) 1;; Ok (RUnit, with_ofs v a)) else Ok (RErr EEndOfBuffer, v).
Definition decr_cursor (m : mode) (v : pb) : res (rv * pb) :=
  if st v <? ofs v then (a <- usub m (ofs v) 1;; Ok (RUnit, with_ofs v a)) else Ok (RErr EEndOfBuffer, v).
(* fn check_cursor(&self, ofs) -> bool { ofs < self.size() } *)
Definition check_cursor (m : mode) (v : pb) (o : N) : res (rv * pb) :=
  sz <- size m v;; Ok (RBool (o <? sz), v).
(* assert!(ofs <= self.size()); self.ofs = self.start + ofs *)
Definition set_cursor_unsafe (m : mode) (v : pb) (o : N) : res (rv * pb) :=
  sz <- size m v;;
  if o <=? sz then (a <- uadd m (st v) o;; Ok (RUnit, with_ofs v a)) else Panic.
Definition incr_cursor_unsafe (m : mode) (v : pb) : res (rv * pb) :=
  if ofs v <? en v then (a <- uadd m (ofs v) 1;; Ok (RUnit, with_ofs v a)) else Panic.
Definition decr_cursor_unsafe (m : mode) (v : pb) : res (rv * pb) :=
  if st v <? ofs v then (a <- usub m (ofs v) 1;; Ok (RUnit, with_ofs v a)) else Panic.

(* ---------- parsing primitives ---------- *)
Fixpoint take_while (f : N -> bool) (s : bytes) : bytes :=
  match s with [] => [] | b :: r => if f b then b :: take_while f r else [] end.

(* for b in self.buf[self.ofs .. self.end].iter() { if !allow.contains(b) { break } … } self.ofs += consumed *)
Definition parse_allowed_bytes (m : mode) (v : pb) (allow : bytes) : res (rv * pb) :=
  s <- slice (data v) (ofs v) (en v);;
  let r := take_while (fun b => memb b allow) s in
  a <- uadd m (ofs v) (lenN r);; Ok (RBytes r, with_ofs v a).
Definition parse_bytes_until (m : mode) (v : pb) (term : bytes) : res (rv * pb) :=
  s <- slice (data v) (ofs v) (en v);;
  let r := take_while (fun b => negb (memb b term)) s in
  a <- uadd m (ofs v) (lenN r);; Ok (RBytes r, with_ofs v a).
(* Ok(self.buf[self.ofs .. self.end].starts_with(prefix)) *)
Definition check_prefix (v : pb) (p : bytes) : res (rv * pb) :=
  s <- slice (data v) (ofs v) (en v);; Ok (RBool (prefixb p s), v).

(* slice::windows(n), n > 0: all contiguous sub-slices of length n, in order *)
Fixpoint windows (n : nat) (s : bytes) : list bytes :=
  match s with
  | [] => []
  | _ :: s' => if Nat.leb n (List.length s) then firstn n s :: windows n s' else []
  end.

(* for (skip, w) in ….windows(tag.len()).enumerate() { if w.starts_with(tag) { return skip } } *)
Fixpoint scan_loop (tag : bytes) (ws : list bytes) (skip : N) : option N :=
  match ws with
  | [] => None
  | w :: r => if prefixb tag w then Some skip else scan_loop tag r (skip + 1)
  end.

(* if tag.is_empty() { return Ok(0) } comes first (windows(0) would panic) *)
Definition scan (m : mode) (v : pb) (tag : bytes) : res (rv * pb) :=
  match tag with
  | [] => Ok (RNat 0, v)
  | _ =>
    start <- get_cursor m v;;
    s <- slice (data v) (ofs v) (en v);;
    match scan_loop tag (windows (List.length tag) s) 0 with
    | Some skip => a <- uadd m (ofs v) skip;; Ok (RNat skip, with_ofs v a)
    | None => Ok (RErr EEndOfBuffer, v)
    end
  end.

(* let mut skip = 1; for w in self.buf[self.start .. self.ofs].windows(tag.len()).rev() {
     if w.starts_with(tag) { skip = skip + tag.len() - 1; self.ofs -= skip; return Ok(skip) } skip += 1 } *)
Fixpoint bscan_loop (m : mode) (tag : bytes) (ws : list bytes) (skip : N) : option (res N) :=
  match ws with
  | [] => None
  | w :: r => if prefixb tag w then Some (x <- uadd m skip (lenN tag);; usub m x 1)
              else bscan_loop m tag r (skip + 1)
  end.

Definition backward_scan (m : mode) (v : pb) (tag : bytes) : res (rv * pb) :=
  match tag with
  | [] => Ok (RNat 0, v)
  | _ =>
    start <- get_cursor m v;;
    s <- slice (data v) (st v) (ofs v);;
    match bscan_loop m tag (rev (windows (List.length tag) s)) 1 with
    | Some rskip => skip <- rskip;; a <- usub m (ofs v) skip;; Ok (RNat skip, with_ofs v a)
    | None => Ok (RErr EEndOfBuffer, v)
    end
  end.

(* if self.buf[self.ofs .. self.end].starts_with(tag) { self.ofs += tag.len(); Ok(true) } else { Err(GuardError) } *)
Definition exact (m : mode) (v : pb) (tag : bytes) : res (rv * pb) :=
  start <- get_cursor m v;;
  s <- slice (data v) (ofs v) (en v);;
  if prefixb tag s then (a <- uadd m (ofs v) (lenN tag);; Ok (RBool true, with_ofs v a))
  else Ok (RErr EGuard, v).

(* if self.remaining() < len { Err(EndOfBuffer) } else { let ret = &self.buf[self.ofs .. (self.ofs + len)]; self.ofs += len; Ok(ret) } *)
Definition extract (m : mode) (v : pb) (n : N) : res (rv * pb) :=
  rem <- remaining m v;;
  if rem <? n then (start <- get_cursor m v;; Ok (RErr EEndOfBuffer, v))
  else
    e <- uadd m (ofs v) n;;
    r <- slice (data v) (ofs v) e;;
    Ok (RBytes r, with_ofs v e).

(* ---------- StreamBufferT ---------- *)
(* match Rc::get_mut(&mut self.buf) { Some(b) => if self.ofs - self.start < len { false } else {
       let cut = self.start + len; let mut tail = b.split_off(cut); b.clear(); b.append(&mut tail);
       self.start = 0; self.ofs -= cut; self.end -= cut; true }, None => false } *)
Definition drop (m : mode) (v : pb) (n : N) : res (rv * pb) :=
  if shared v then Ok (RBool false, v)
  else
    c <- usub m (ofs v) (st v);;
    if c <? n then Ok (RBool false, v)
    else
      cut <- uadd m (st v) n;;
      if lenN (data v) <? cut then Panic               (* Vec::split_off: at > len *)
      else
        let d := skipn (N.to_nat cut) (data v) in
        o <- usub m (ofs v) cut;;
        e <- usub m (en v) cut;;
        Ok (RBool true, {| data := d; st := 0; en := e; ofs := o; shared := false |}).

(* Some(b) => { b.truncate(self.end); b.extend_from_slice(buf); self.end += buf.len(); true }, None => false *)
Definition append (m : mode) (v : pb) (b : bytes) : res (rv * pb) :=
  if shared v then Ok (RBool false, v)
  else
    let d := if en v <? lenN (data v) then firstn (N.to_nat (en v)) (data v) else data v in
    e <- uadd m (en v) (lenN b);;
    Ok (RBool true, {| data := d ++ b; st := st v; en := e; ofs := ofs v; shared := false |}).

(* ---------- views ---------- *)
(* fn new_view(buf, start, size): assert!(start + size <= buf.size());
   ParseBuffer { buf: buf.rc_buf(), start: buf.start() + start, ofs: buf.start() + start, end: buf.start() + start + size }
   The new view holds a second reference to the Rc: it is shared as long as the parent lives. *)
Definition new_view (m : mode) (v : pb) (a n : N) : res pb :=
  e <- uadd m a n;;
  sz <- size m v;;
  if e <=? sz then
    s1 <- uadd m (st v) a;;
    e1 <- uadd m s1 n;;
    Ok {| data := data v; st := s1; en := e1; ofs := s1; shared := true |}
  else Panic.

(* RestrictView::transform: if self.start <= buf.size() && self.size <= buf.size() - self.start { Ok(new_view(..)) }
   else { Err(BoundsError) } *)
Definition restrict_view (m : mode) (v : pb) (a n : N) : res (rv * pb) :=
  sz <- size m v;;
  if a <=? sz then
    (sz' <- size m v;; d <- usub m sz' a;;
     if n <=? d then (w <- new_view m v a n;; Ok (RUnit, w)) else Ok (RErr EBounds, v))
  else Ok (RErr EBounds, v).

(* RestrictViewFrom::transform: if self.start < buf.size() { Ok(new_view(buf, self.start, buf.size() - self.start)) } else { Err } *)
Definition restrict_view_from (m : mode) (v : pb) (a : N) : res (rv * pb) :=
  sz <- size m v;;
  if a <? sz then
    (sz' <- size m v;; n <- usub m sz' a;; w <- new_view m v a n;; Ok (RUnit, w))
  else Ok (RErr EBounds, v).

(* every other holder of the Rc (parents, siblings) is dropped: the view becomes sole owner *)
Definition release (v : pb) : pb :=
  {| data := data v; st := st v; en := en v; ofs := ofs v; shared := false |}.

(* ---------- histories ---------- *)
Inductive op :=
| OSetCursor (o : N) | OIncr | ODecr | OCheckCursor (o : N)
| OSetCursorU (o : N) | OIncrU | ODecrU
| OCheckPrefix (t : bytes) | OAllowed (t : bytes) | OUntil (t : bytes)
| OScan (t : bytes) | OBScan (t : bytes) | OExact (t : bytes) | OExtract (n : N)
| ODrop (n : N) | OAppend (t : bytes)
| OView (a n : N) | OViewFrom (a : N) | ORelease.

Definition step (m : mode) (v : pb) (o : op) : res (rv * pb) :=
  match o with
  | OSetCursor o => set_cursor m v o
  | OIncr => incr_cursor m v
  | ODecr => decr_cursor m v
  | OCheckCursor o => check_cursor m v o
  | OSetCursorU o => set_cursor_unsafe m v o
  | OIncrU => incr_cursor_unsafe m v
  | ODecrU => decr_cursor_unsafe m v
  | OCheckPrefix t => check_prefix v t
  | OAllowed t => parse_allowed_bytes m v t
  | OUntil t => parse_bytes_until m v t
  | OScan t => scan m v t
  | OBScan t => backward_scan m v t
  | OExact t => exact m v t
  | OExtract n => extract m v n
  | ODrop n => drop m v n
  | OAppend t => append m v t
  | OView a n => restrict_view m v a n
  | OViewFrom a => restrict_view_from m v a
  | ORelease => Ok (RUnit, release v)
  end.

(* what a caller can see of the state through the public queries, in the order the runner asks:
   get_cursor, size, remaining, peek, buf *)
Record sobs := { o_cur : N; o_size : N; o_rem : N; o_peek : option N; o_buf : bytes }.

Definition observe (m : mode) (v : pb) : res sobs :=
  c <- get_cursor m v;;
  s <- size m v;;
  r <- remaining m v;;
  p <- peek v;;
  b <- buf v;;
  Ok {| o_cur := c; o_size := s; o_rem := r; o_peek := p; o_buf := b |}.

(* one observation per operation: its result and the visible state after it; a panic ends the history *)
Inductive obs := OStep (r : rv) (s : sobs) | OPanic.

Fixpoint run (m : mode) (ops : list op) (v : pb) : list obs :=
  match ops with
  | [] => []
  | o :: rest =>
    match step m v o with
    | Ok (r, v') =>
      match observe m v' with
      | Ok s => OStep r s :: run m rest v'
      | _ => [OPanic]
      end
    | _ => [OPanic]
    end
  end.

(* ---------- case protocol ----------
   tokens: <hex base> <chain> <keep|drop> <ops> @<profile>
     chain = "-" or comma-separated  view:<start>:<size> | viewfrom:<start>
     ops   = "-" or comma-separated  name[:arg]   (numbers decimal, byte strings hex, empty = "")
   answer: the observations of the view, then of a fresh buffer holding a copy of the window
   (made shared by a dummy view iff the view is shared):  V=<obs>;… C=<obs>;…   or, when the chain
   fails at step i,  E<i>:<kind> / P<i>. *)
Fixpoint split_on (sep : N) (s : bytes) (cur : bytes) : list bytes :=
  match s with
  | [] => [rev cur]
  | c :: r => if N.eqb c sep then rev cur :: split_on sep r [] else split_on sep r (c :: cur)
  end.

Definition fields (tok : bytes) : list bytes := split_on 58 tok [].      (* ':' *)
Definition items (tok : bytes) : list bytes :=
  if bytes_eqb tok (B "-") then [] else split_on 44 tok [].              (* ',' *)

Definition parse_op (tok : bytes) : option op :=
  let f := fields tok in
  let name := nth_arg f 0 in
  let a1 := nth_arg f 1 in
  let a2 := nth_arg f 2 in
  if bytes_eqb name (B "set_cursor") then Some (OSetCursor (parse_N a1))
  else if bytes_eqb name (B "incr") then Some OIncr
  else if bytes_eqb name (B "decr") then Some ODecr
  else if bytes_eqb name (B "check_cursor") then Some (OCheckCursor (parse_N a1))
  else if bytes_eqb name (B "set_cursor_u") then Some (OSetCursorU (parse_N a1))
  else if bytes_eqb name (B "incr_u") then Some OIncrU
  else if bytes_eqb name (B "decr_u") then Some ODecrU
  else if bytes_eqb name (B "check_prefix") then Some (OCheckPrefix (unhex a1))
  else if bytes_eqb name (B "allowed") then Some (OAllowed (unhex a1))
  else if bytes_eqb name (B "until") then Some (OUntil (unhex a1))
  else if bytes_eqb name (B "scan") then Some (OScan (unhex a1))
  else if bytes_eqb name (B "bscan") then Some (OBScan (unhex a1))
  else if bytes_eqb name (B "exact") then Some (OExact (unhex a1))
  else if bytes_eqb name (B "extract") then Some (OExtract (parse_N a1))
  else if bytes_eqb name (B "drop") then Some (ODrop (parse_N a1))
  else if bytes_eqb name (B "append") then Some (OAppend (unhex a1))
  else if bytes_eqb name (B "view") then Some (OView (parse_N a1) (parse_N a2))
  else if bytes_eqb name (B "viewfrom") then Some (OViewFrom (parse_N a1))
  else None.

Fixpoint parse_ops (l : list bytes) : option (list op) :=
  match l with
  | [] => Some []
  | t :: r => match parse_op t, parse_ops r with Some o, Some os => Some (o :: os) | _, _ => None end
  end.

Definition show_rv (r : rv) : bytes :=
  match r with
  | RUnit => B "ok"
  | RBool true => B "t"
  | RBool false => B "f"
  | RNat n => B "ok:" ++ show_N n
  | RBytes l => B "ok:" ++ show_hex_tok l
  | RErr k => B "err:" ++ show_ekind k
  end.

Definition show_sobs (s : sobs) : bytes :=
  show_N (o_cur s) ++ B "," ++ show_N (o_size s) ++ B "," ++ show_N (o_rem s) ++ B ","
  ++ (match o_peek s with Some b => show_hex [b] | None => B "n" end) ++ B "," ++ show_hex_tok (o_buf s).

Definition show_obs (o : obs) : bytes :=
  match o with
  | OStep r s => show_rv r ++ B "/" ++ show_sobs s
  | OPanic => B "panic"
  end.

Fixpoint show_obs_list (l : list obs) : bytes :=
  match l with
  | [] => []
  | [x] => show_obs x
  | x :: r => show_obs x ++ B ";" ++ show_obs_list r
  end.

(* the runner's own bookkeeping of the window, on the plain base vector: (offset, size) *)
Definition win_step (w : N * N) (o : op) : option (N * N) :=
  let '(off, sz) := w in
  match o with
  | OView a n => if (a + n <? W) && (a + n <=? sz) then Some (off + a, n) else None
  | OViewFrom a => if a <? sz then Some (off + a, sz - a) else None
  | _ => Some w
  end.

(* applies the chain; Ok (view, window) or the index and outcome of the failing step *)
Fixpoint run_chain (m : mode) (chain : list op) (i : N) (v : pb) (w : option (N * N))
  : (pb * option (N * N)) + bytes :=
  match chain with
  | [] => inl (v, w)
  | o :: rest =>
    match step m v o with
    | Ok (RErr k, _) => inr (B "E" ++ show_N i ++ B ":" ++ show_ekind k)
    | Ok (_, v') => run_chain m rest (i + 1) v' (match w with Some w0 => win_step w0 o | None => None end)
    | _ => inr (B "P" ++ show_N i)
    end
  end.

Definition is_view_op (o : op) : bool :=
  match o with OView _ _ | OViewFrom _ | ORelease => true | _ => false end.

Definition entry (args : list bytes) : bytes :=
  let base := unhex (nth_arg args 0) in
  let m := if bytes_eqb (nth_arg args 4) (B "@release") then Release else Debug in
  let keep := bytes_eqb (nth_arg args 2) (B "keep") in
  match parse_ops (items (nth_arg args 1)), parse_ops (items (nth_arg args 3)) with
  | Some chain, Some ops =>
    if existsb is_view_op ops || negb (forallb is_view_op chain) then B "badcase" else
    match run_chain m chain 0 (pb_new base) (Some (0, lenN base)) with
    | inr e => e
    | inl (v0, w) =>
      let sh := keep && negb (match chain with [] => true | _ => false end) in
      let v := if sh then v0 else release v0 in
      let first (x : pb) := match observe m x with Ok s => OStep RUnit s | _ => OPanic end in
      let vobs := match first v with OPanic => [OPanic] | o => o :: run m ops v end in
      B "V=" ++ show_obs_list vobs ++ B " C=" ++
      match w with
      | None => B "none"
      | Some (off, sz) =>
        let c0 := pb_new (sub base (N.to_nat off) (N.to_nat (off + sz))) in
        let c := {| data := data c0; st := st c0; en := en c0; ofs := ofs c0; shared := sh |} in
        show_obs_list (match first c with OPanic => [OPanic] | o => o :: run m ops c end)
      end
    end
  | _, _ => B "badcase"
  end.
