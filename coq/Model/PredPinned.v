(* Model/PredPinned.v — transcription of the predictor stage of src/pdf_lib/pdf_filters.rs AS PINNED
   (commit 08d0369, before the C07 repairs): parameter extraction + `as usize` (lines 43-115),
   paeth (119-133), flate_lzw_filter (233-406).  Kept for the record: the `…_refuted` witnesses of
   Proofs/PredPinned.v are statements about this model, which agreed with the pinned code on the
   whole C07 case set in both build profiles before the repairs were committed.
   The current code is modelled in Model/Pred.v.  Definitions only. *)
From PV Require Export Base.PdfObj.

Definition two64 : N := 18446744073709551616.
(* `x as usize` of an i64 *)
Definition as_usize (z : Z) : N := Z.to_N (z mod 18446744073709551616).

(* usize arithmetic: debug builds panic on overflow ([None]), release builds wrap *)
Definition umul (dbg : bool) (a b : N) : option N :=
  if (a * b <? two64)%N then Some (a * b)%N else if dbg then None else Some ((a * b) mod two64)%N.
Definition uadd (dbg : bool) (a b : N) : option N :=
  if (a + b <? two64)%N then Some (a + b)%N else if dbg then None else Some ((a + b) mod two64)%N.

(* Wrapping<u8> *)
Definition wadd (x y : N) : N := ((x + y) mod 256)%N.
Definition wsub (x y : N) : N := ((x + 256 - y) mod 256)%N.

(* checked indexing of a Vec: [None] = index out of bounds panic *)
Definition get (l : list N) (i : nat) : option N := nth_error l i.
Fixpoint set (l : list N) (i : nat) (v : N) : option (list N) :=
  match l, i with
  | [], _ => None
  | _ :: r, O => Some (v :: r)
  | x :: r, S i' => match set r i' v with Some r' => Some (x :: r') | None => None end
  end.

(* for j in a .. a+n { row = body j row } *)
Fixpoint loop {St : Type} (n a : nat) (body : nat -> St -> option St) (st : St) : option St :=
  match n with
  | O => Some st
  | S n' => match body a st with Some s' => loop n' (S a) body s' | None => None end
  end.
Definition for_ {St : Type} (a b : nat) (body : nat -> St -> option St) (st : St) : option St :=
  loop (b - a) a body st.

Definition bind {A B} (o : option A) (f : A -> option B) : option B :=
  match o with Some a => f a | None => None end.

(* fn paeth on Wrapping<u8>, as written *)
Definition paeth_w (a b c : N) : N :=
  let p := wsub (wadd a b) c in
  let pa := if (a <? p)%N then wsub p a else wsub a p in
  let pb := if (b <? p)%N then wsub p b else wsub b p in
  let pc := if (c <? p)%N then wsub p c else wsub c p in
  if (pa <=? pb)%N && (pa <=? pc)%N then a else if (pb <=? pc)%N then b else c.

(* row_data[j] = row_data[j] + row_data[j - d] *)
Definition body_sub (d : nat) (j : nat) (row : list N) : option (list N) :=
  bind (get row j) (fun x => bind (get row (j - d)) (fun y => set row j (wadd x y))).

Inductive rowres := ROk (r : list N) | RErr | RPanic.
Definition of_opt (o : option (list N)) : rowres := match o with Some r => ROk r | None => RPanic end.

(* one PNG row; [row] includes the tag byte at index 0, [prev] is the previous row_data *)
Definition png_row (pred rl bpp : N) (prev row : list N) : rowres :=
  match get row 0 with
  | None => RPanic
  | Some tag =>
    if (pred =? 10)%N then if (tag =? 0)%N then ROk row else RErr
    else if (pred =? 11)%N then
      if negb (tag =? 1)%N then RErr
      else if (1 + bpp <? rl)%N
           then of_opt (for_ (N.to_nat (1 + bpp)) (N.to_nat rl) (body_sub (N.to_nat bpp)) row)
           else ROk row
    else if (pred =? 12)%N then
      if negb (tag =? 2)%N then RErr
      else of_opt (for_ 1 (N.to_nat rl)
                     (fun j r => bind (get r j) (fun x => bind (get prev j) (fun y => set r j (wadd x y)))) row)
    else if (pred =? 13)%N then
      if negb (tag =? 3)%N then RErr
      else
        (* for j in 1 .. 1+bpp: index j = rl panics, so later indices are never reached *)
        let hi := N.min (1 + bpp) (rl + 1) in
        match for_ 1 (N.to_nat hi)
                (fun j r => bind (get r j) (fun x => bind (get prev j) (fun y => set r j (wadd x (y / 2))))) row with
        | None => RPanic
        | Some r1 =>
          if (bpp <? rl)%N then
            of_opt (for_ (N.to_nat bpp) (N.to_nat rl)
                      (fun j r => bind (get r (j - N.to_nat bpp)) (fun l => bind (get prev j) (fun u =>
                                  bind (get r j) (fun x => set r j (wadd x (wadd l u / 2)))))) r1)
          else ROk r1
        end
    else if (pred =? 14)%N then
      if negb (tag =? 4)%N then RErr
      else
        (* a, c keep their previous values (initially 0) while j <= bpp: loop state (row, a, c) *)
        match for_ 1 (N.to_nat rl)
                (fun j st =>
                   let '(r, a0, c0) := st in
                   bind (get prev j) (fun b =>
                   bind (if (bpp <? N.of_nat j)%N
                         then bind (get r (j - N.to_nat bpp)) (fun a => bind (get prev (j - N.to_nat bpp)) (fun c => Some (a, c)))
                         else Some (a0, c0)) (fun ac =>
                   bind (set r j (paeth_w (fst ac) b (snd ac))) (fun r' => Some (r', fst ac, snd ac)))))
                (row, 0%N, 0%N) with
        | None => RPanic
        | Some (r, _, _) => ROk r
        end
    else RErr
  end.

(* rows of the PNG branch; rl <= len data is established by the caller *)
Fixpoint png_rows (rows : nat) (pred rl bpp : N) (prev data : list N) : res bytes :=
  match rows with
  | O => Ok []
  | S k =>
    let n := N.to_nat rl in
    match png_row pred rl bpp prev (firstn n data) with
    | RPanic => Panic
    | RErr => Err ETransform
    | ROk r =>
      match png_rows k pred rl bpp r (skipn n data) with
      | Ok out => Ok (tl r ++ out)
      | e => e
      end
    end
  end.

Fixpoint tiff_rows (rows : nat) (rl colors : N) (data : list N) : res bytes :=
  match rows with
  | O => Ok []
  | S k =>
    let n := N.to_nat rl in
    let row := firstn n data in
    match (if (colors <? rl)%N then for_ (N.to_nat colors) n (body_sub (N.to_nat colors)) row else Some row) with
    | None => Panic
    | Some r =>
      match tiff_rows k rl colors (skipn n data) with
      | Ok out => Ok (r ++ out)
      | e => e
      end
    end
  end.

Definition flate_lzw_filter (dbg : bool) (predictor colors columns bits : N) (decoded : bytes) : res bytes :=
  let n := N.of_nat (len decoded) in
  if (predictor =? 1)%N then Ok decoded
  else if (predictor =? 2)%N then
    match umul dbg columns colors with
    | None => Panic
    | Some rl =>
      if (rl <? 1)%N then Ok []
      else if negb (n mod rl =? 0)%N then Err ETransform
      else tiff_rows (N.to_nat (n / rl)) rl colors decoded
    end
  else if (10 <=? predictor)%N && (predictor <=? 15)%N then
    match bind (umul dbg columns colors) (fun cc => uadd dbg cc 1) with
    | None => Panic
    | Some rl =>
      if (rl =? 0)%N then Panic      (* decoded.len() / row_length *)
      else if (n <? rl)%N then Err ETransform
      else if negb (n mod rl =? 0)%N then Err ETransform
      else png_rows (N.to_nat (n / rl)) predictor rl (bits / 8) (repeat 0%N (N.to_nat rl)) decoded
    end
  else Err ETransform.

(* options.and_then(get key).and_then(Integer).unwrap_or(default) *)
Definition int_param (o : option (list (bytes * obj))) (k : bytes) (d : Z) : Z :=
  match o with
  | None => d
  | Some l => match dict_get l k with Some (OInt z) => z | _ => d end
  end.

(* FlateDecode::transform after a successful inflate that produced [decoded] *)
Definition flate_post (dbg : bool) (o : option (list (bytes * obj))) (decoded : bytes) : res bytes :=
  flate_lzw_filter dbg
    (as_usize (int_param o (B "Predictor") 1))
    (as_usize (int_param o (B "Colors") 1))
    (as_usize (int_param o (B "Columns") 1))
    (as_usize (int_param o (B "BitsPerComponent") 8))
    decoded.

(* case: <parms> <hex rows> @profile *)
Definition entry (args : list bytes) : bytes :=
  let data := unhex (nth_arg args 1) in
  let dbg := bytes_eqb (nth_arg args 2) (B "@debug") in
  match read_obj_tok (nth_arg args 0) with
  | Some (ODict d) => show_res show_hex_tok (flate_post dbg (Some d) data)
  | Some ONull => show_res show_hex_tok (flate_post dbg None data)
  | _ => B "badcase"
  end.
