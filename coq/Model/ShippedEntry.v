(* Model/ShippedEntry.v — case protocol of C10: the checker model (Model/TypeCheck.v) and the
   declarative semantics (Spec/Conforms.v) run on the DUMPED shipped specification
   (gen/Shipped.v: what catalog_type(&mut tctx) constructs at run time).  Definitions only.

   case:  tag octx root
     tag   "ok" (a conforming document by construction), "bad:<mutation>" (one rule violated),
           "any" (no expectation: malformed stream), or "sub:<path>:<exp>": [root] is checked against
           the sub-check of the shipped specification reached by <path> = steps separated by '/':
           k<hexkey> the entry of a Dict/Stream type, e the element check of an Array, a<i> / h<i>
           the i-th alternative of a Disjunct / member of a HetArray (named checks are resolved on
           the way) — this is how every predicate and every leaf type is exercised on its own
     octx  "num.gen=obj;…" | "-"     root  the catalog object
   answer: "<verdict>" for tag any, else "<verdict> spec=conforms|violates" where
     verdict = accept | reject <kind> | specerr <kind> | panic | fuel    (checker model)
     spec    = the declarative verdict [approx spec_depth] of Spec/Conforms.v: exact whenever every
               chain of nested values is shorter than [spec_depth] (the generator's documents
               have depth <= 4, i.e. chains of <= 30), an over-approximation of [conforms] otherwise.
   The implementation runner prints the verdict of the real check_type and, for spec=, what the
   tag promises: a difference in that field means the dumped specification (read declaratively)
   does not enforce the rule the generator violated — or rejects a conforming document. *)
From PV Require Export Model.ShippedPreds Spec.Conforms gen.Shipped.

Definition shipped_opq : N -> obj -> bool := shipped_opq_with shipped_nd.

Definition shipped_check (oc : octx) (o : obj) : outcome :=
  fst (check shipped_opq oc shipped_tctx o shipped_root).

Definition spec_depth : nat := 64.
Definition shipped_spec (oc : octx) (o : obj) : bool :=
  approx shipped_opq oc shipped_tctx spec_depth o shipped_root.

(* sub-check reached by a path *)
Definition nav_step (st : bytes) (c : chk) : option chk :=
  match @resolve shipped_tctx c, st with
  | Some r, t :: arg =>
    if N.eqb t 107 then                                     (* k<hexkey> *)
      match r_ty r with
      | TDict ents _ | TStream ents =>
        match find (fun e => bytes_eqb (ent_key e) (unhex arg)) ents with
        | Some e => Some (ent_chk e)
        | None => None
        end
      | _ => None
      end
    else if N.eqb t 101 then                                (* e *)
      match r_ty r with TArr e _ => Some e | _ => None end
    else if N.eqb t 97 then                                 (* a<i> *)
      match r_ty r with TDisj l => nth_error l (parse_nat arg) | _ => None end
    else if N.eqb t 104 then                                (* h<i> *)
      match r_ty r with THet l => nth_error l (parse_nat arg) | _ => None end
    else None
  | _, _ => None
  end.
Fixpoint nav (steps : list bytes) (c : chk) : option chk :=
  match steps with
  | [] => Some c
  | st :: r => match st with
               | [] => nav r c
               | _ => match nav_step st c with Some c' => nav r c' | None => None end
               end
  end.

Definition is_sub (tag : bytes) : bool := prefixb (B "sub:") tag.
(* "sub:<path>:<exp>" -> path steps *)
Definition sub_path (tag : bytes) : list bytes :=
  match split_on 58 tag with
  | _ :: p :: _ => split_on 47 p
  | _ => []
  end.

Definition entry (args : list bytes) : bytes :=
  let tag := nth_arg args 0 in
  match read_octx (nth_arg args 1), read_obj_tok (nth_arg args 2) with
  | Some oc, Some o =>
    let o := canon_obj o in
    if is_sub tag then
      match nav (sub_path tag) shipped_root with
      | Some c => show_outcome (fst (check shipped_opq oc shipped_tctx o c))
      | None => B "badpath"
      end
    else
    let v := show_outcome (shipped_check oc o) in
    if bytes_eqb tag (B "any") then v
    else v ++ B " spec=" ++ (if shipped_spec oc o then B "conforms" else B "violates")
  | _, _ => B "badcase"
  end.
