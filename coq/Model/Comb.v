(* Model/Comb.v — transcription of src/pcore/prim_combinators.rs (Sequence, Alternate, Star, Not),
   src/pcore/prim_ascii.rs (AsciiCharPrimitive, AsciiChar with optional guard) and
   parse_prim / parse_guarded of src/pcore/parsebuffer.rs, over the abstract buffer (bytes, cursor)
   (a view is its window — C17).  Definitions only. *)
From PV Require Export Base.Res.

(* ---------- syntax of parser expressions ---------- *)
(* the closure handed to AsciiChar::new_guarded, restricted to what the harness can build *)
Inductive guard :=
| GAny                  (* AsciiChar::new(): no guard, parse_prim *)
| GEq (b : N)           (* new_guarded(|c| *c == b as char) *)
| GSet (l : bytes).     (* new_guarded(|c| l.contains(c)) *)

Definition guard_ok (g : guard) (b : N) : bool :=
  match g with
  | GAny => true
  | GEq x => N.eqb b x
  | GSet l => memb b l
  end.

(* [Dty g] is not library code: it is the harness's test double `DirtyChar`, a leaf parser that
   accepts what [Chr g] accepts but advances the cursor *before* deciding and does not restore it
   on failure.  The combinators are generic over arbitrary sub-parsers and nothing obliges a
   sub-parser to restore the cursor (several parsers of pdf_lib do not); with this leaf the
   combinators' own set_cursor_unsafe(start) calls are observable. *)
Inductive expr :=
| Chr (g : guard)
| Dty (g : guard)
| Seq (a b : expr)
| Alt (a b : expr)
| Star (a : expr)
| Not (a : expr).

(* syntactic over-approximation of "can succeed without consuming" *)
Fixpoint nullable (e : expr) : bool :=
  match e with
  | Chr _ => false
  | Dty _ => false
  | Seq a b => nullable a && nullable b
  | Alt a b => nullable a || nullable b
  | Star _ => true
  | Not _ => true
  end.

(* every Star operand is syntactically non-nullable: the property's "operands that consume input" *)
Fixpoint wfe (e : expr) : bool :=
  match e with
  | Chr _ => true
  | Dty _ => true
  | Seq a b => wfe a && wfe b
  | Alt a b => wfe a && wfe b
  | Star a => wfe a && negb (nullable a)
  | Not a => wfe a
  end.

(* ---------- located value trees: LocatedVal::new(v, start, end) at every node ---------- *)
Inductive tree :=
| TChr (b : N) (a e : nat)             (* LocatedVal<char> *)
| TSeq (x y : tree) (a e : nat)        (* LocatedVal<(T1, T2)> *)
| TL (x : tree) (a e : nat)            (* LocatedVal<Alt::Left(T1)> *)
| TR (x : tree) (a e : nat)            (* LocatedVal<Alt::Right(T2)> *)
| TStar (l : list tree) (a e : nat)    (* LocatedVal<Vec<T>> *)
| TNot (a e : nat).                    (* LocatedVal<()> *)

(* ParseBufferT::set_cursor_unsafe(ofs): assert!(start + ofs <= end); then continue with k *)
Definition set_cur {A} (s : bytes) (ofs : nat) (k : pres A) : pres A :=
  if Nat.leb ofs (len s) then k else PPanic.

(* AsciiCharPrimitive::parse(buf.buf()): empty => EndOfBuffer; non-ASCII => PrimitiveError; else (c, 1) *)
Definition ascii_prim (s : bytes) (c : nat) : res (N * nat) :=
  match nth_error s c with
  | None => Err EEndOfBuffer
  | Some b => if (128 <=? b)%N then Err EPrim else Ok (b, 1)
  end.

(* AsciiChar::parse: start = cursor; parse_prim / parse_guarded (the `?` returns the primitive's
   error without touching the cursor; a failed guard returns GuardError without touching the
   cursor); success: set_cursor_unsafe(start + consumed); LocatedVal::new(c, start, end). *)
Definition chr (g : guard) (s : bytes) (c : nat) : pres tree :=
  match ascii_prim s c with
  | Err k => PErr k c
  | Ok (b, consumed) =>
    (* guard = None: parse_prim; Some(g): parse_guarded.  [guard_ok GAny] is constantly true, so
       one conditional covers both. *)
    if guard_ok g b
    then set_cur s (c + consumed) (POk (TChr b c (c + consumed)) (c + consumed))
    else PErr EGuard c
  | Panic => PPanic
  | Fuel => PFuel
  end.

(* harness/src/bin/c18.rs DirtyChar::parse: start = cursor; peek() = None => EndOfBuffer (cursor
   untouched); otherwise incr_cursor_unsafe() (its assert holds: peek returned Some), then
   non-ASCII => PrimitiveError, guard false => GuardError, both leaving the cursor advanced. *)
Definition dty (g : guard) (s : bytes) (c : nat) : pres tree :=
  match nth_error s c with
  | None => PErr EEndOfBuffer c
  | Some b =>
    if (128 <=? b)%N then PErr EPrim (c + 1)
    else if guard_ok g b then POk (TChr b c (c + 1)) (c + 1)
    else PErr EGuard (c + 1)
  end.

(* Star::parse: c = start; v = []; r = p.parse; while let Ok(o) = r { v.push(o); c = cursor; r = p.parse }
   set_cursor_unsafe(c); Ok(LocatedVal::new(v, start, c)).  [n] is loop fuel: the Rust loop does not
   terminate when p keeps succeeding without consuming. *)
Fixpoint star_loop (p : nat -> pres tree) (s : bytes) (start : nat) (n : nat) (c : nat) (v : list tree)
  : pres tree :=
  match n with
  | O => PFuel
  | S n' =>
    match p c with
    | POk o c' => star_loop p s start n' c' (v ++ [o])
    | PErr _ _ => set_cur s c (POk (TStar v start c) c)
    | PPanic => PPanic
    | PFuel => PFuel
    end
  end.

Fixpoint impl (fuel : nat) (e : expr) (s : bytes) (c : nat) {struct e} : pres tree :=
  match e with
  | Chr g => chr g s c
  | Dty g => dty g s c
  | Seq a b =>
    (* start = cursor *)
    match impl fuel a s c with
    | PErr k _ => set_cur s c (PErr k c)                    (* set_cursor_unsafe(start); return Err(err) *)
    | POk o1 c1 =>
      match impl fuel b s c1 with
      | PErr k _ => set_cur s c (PErr k c)                  (* set_cursor_unsafe(start); return Err(err) *)
      | POk o2 c2 => POk (TSeq o1 o2 c c2) c2               (* end = cursor *)
      | PPanic => PPanic
      | PFuel => PFuel
      end
    | PPanic => PPanic
    | PFuel => PFuel
    end
  | Alt a b =>
    match impl fuel a s c with
    | POk o c1 => POk (TL o c c1) c1
    | PErr _ _ =>
      set_cur s c                                            (* set_cursor_unsafe(start) before p2 *)
        (match impl fuel b s c with
         | PErr k _ => set_cur s c (PErr k c)
         | POk o2 c2 => POk (TR o2 c c2) c2
         | PPanic => PPanic
         | PFuel => PFuel
         end)
    | PPanic => PPanic
    | PFuel => PFuel
    end
  | Star a => star_loop (fun c' => impl fuel a s c') s c fuel c []
  | Not a =>
    (* r = p.parse; end = cursor; set_cursor_unsafe(start) *)
    match impl fuel a s c with
    | POk _ _ => set_cur s c (PErr EGuard c)
    | PErr _ _ => set_cur s c (POk (TNot c c) c)
    | PPanic => PPanic
    | PFuel => PFuel
    end
  end.

(* ---------- case protocol ----------
   case: <expr> <hex input> <cursor>
   expr is a prefix term in one token; '(' ',' ')' are decoration and skipped:
     =HH  Chr (GEq 0xHH)     .  Chr GAny     [HH..]  Chr (GSet ..)     ~<guard>  Dty <guard>
     S(a,b)  Seq    A(a,b)  Alt    *(a)  Star    !(a)  Not *)
Fixpoint read_set (fuel : nat) (l : bytes) (acc : bytes) : option (bytes * bytes) :=
  match fuel with
  | O => None
  | S f =>
    match l with
    | 93%N :: r => Some (acc, r)                             (* ']' *)
    | h1 :: h2 :: r => read_set f r (acc ++ [(unhexdig h1 * 16 + unhexdig h2)%N])
    | _ => None
    end
  end.

Definition read_guard (fuel : nat) (l : bytes) : option (guard * bytes) :=
  match l with
  | 61%N :: h1 :: h2 :: r => Some (GEq (unhexdig h1 * 16 + unhexdig h2)%N, r)    (* =HH *)
  | 46%N :: r => Some (GAny, r)                                                  (* . *)
  | 91%N :: r =>                                                                 (* [HH..] *)
    match read_set fuel r [] with Some (st, r') => Some (GSet st, r') | None => None end
  | _ => None
  end.

Fixpoint read_expr (fuel : nat) (l : bytes) : option (expr * bytes) :=
  match fuel with
  | O => None
  | S f =>
    match l with
    | [] => None
    | ch :: r =>
      if (ch =? 40)%N || (ch =? 41)%N || (ch =? 44)%N then read_expr f r      (* ( ) , *)
      else if (ch =? 126)%N then                                                (* ~ *)
        match read_guard f r with Some (g, r') => Some (Dty g, r') | None => None end
      else if (ch =? 61)%N || (ch =? 46)%N || (ch =? 91)%N then                 (* = . [ *)
        match read_guard f l with Some (g, r') => Some (Chr g, r') | None => None end
      else if (ch =? 83)%N then                                                 (* S *)
        match read_expr f r with
        | Some (a, r1) =>
          match read_expr f r1 with Some (b, r2) => Some (Seq a b, r2) | None => None end
        | None => None
        end
      else if (ch =? 65)%N then                                                 (* A *)
        match read_expr f r with
        | Some (a, r1) =>
          match read_expr f r1 with Some (b, r2) => Some (Alt a b, r2) | None => None end
        | None => None
        end
      else if (ch =? 42)%N then                                                 (* * *)
        match read_expr f r with Some (a, r1) => Some (Star a, r1) | None => None end
      else if (ch =? 33)%N then                                                 (* ! *)
        match read_expr f r with Some (a, r1) => Some (Not a, r1) | None => None end
      else None
    end
  end.

Fixpoint skip_deco (l : bytes) : bytes :=
  match l with
  | ch :: r => if (ch =? 40)%N || (ch =? 41)%N || (ch =? 44)%N then skip_deco r else l
  | [] => []
  end.

(* tag[a,e](kids): 'HH char, S sequence, L / R alternative taken, * repetition, ! negation *)
Definition show_span (a e : nat) : bytes := B "[" ++ show_nat a ++ B "," ++ show_nat e ++ B "]".

Fixpoint show_tree (t : tree) : bytes :=
  match t with
  | TChr b a e => B "'" ++ show_hex [b] ++ show_span a e
  | TSeq x y a e => B "S" ++ show_span a e ++ B "(" ++ show_tree x ++ B "," ++ show_tree y ++ B ")"
  | TL x a e => B "L" ++ show_span a e ++ B "(" ++ show_tree x ++ B ")"
  | TR x a e => B "R" ++ show_span a e ++ B "(" ++ show_tree x ++ B ")"
  | TStar l a e =>
    B "*" ++ show_span a e ++ B "(" ++
    (fix go (first : bool) (l : list tree) : bytes :=
       match l with
       | [] => []
       | t :: r => (if first then [] else B ",") ++ show_tree t ++ go false r
       end) true l ++ B ")"
  | TNot a e => B "!" ++ show_span a e
  end.

Definition entry (args : list bytes) : bytes :=
  let tok := nth_arg args 0 in
  let s := unhex (nth_arg args 1) in
  let c := parse_nat (nth_arg args 2) in
  match read_expr (S (len tok)) tok with
  | Some (e, rest) =>
    if negb (match skip_deco rest with [] => true | _ => false end) then B "badcase" else
    if negb (Nat.leb c (len s)) then B "badcase"          (* ParseBuffer::set_cursor refuses *)
    else if negb (wfe e) then B "notwf"                   (* outside the property's domain: never run *)
    else show_pres show_tree (impl (S (len s)) e s c)
  | _ => B "badcase"
  end.
