(* Model/Pipeline.v — C01: the complete processing pipeline of src/bin/pdf_printer.rs AFTER loading,
   composed from the component models: dump_file/dump_root (breadth-first walk of everything
   reachable from the root, decode_stream on every stream — Model/Filters.v, Pred.v, A85.v, AHex.v,
   Flate.v with the zlib oracle), type_check_file (Model/TypeCheck.v on the DUMPED shipped specification
   gen/Shipped.v), file_extract_text (Model/Dom.v, then per page: fonts embedded?, decode and
   concatenate the content streams, Model/ContentLex.v + Content.v).  Definitions only.

   The loader in front of it is property C03/C04's (Model/Loader.v); the cases of this model are
   documents rendered with a classic cross-reference table that load to exactly the given object
   context (checked by the correspondence: the real binary's verdict on the rendered file must equal
   the model's verdict on the context).

   Outcomes: every exit_log! is [PRejected]; [PPanicked] = a modelled panic site; [PUnmodelled] = the
   case needs something outside the model (zlib answer missing from the case's oracle table, DCTDecode). *)
From PV Require Import Base.PdfObj.
From PV Require Import Model.Flate Model.Filters Model.TypeCheck Model.ShippedEntry Model.Dom Model.ContentLex.

Inductive pout := PAccepted | PRejected | PPanicked | PUnmodelled.
(* dump_root: done | a decoder panicked | a decoder needs an answer the case does not carry | loop fuel *)
Inductive dump := DumpOk | DumpPanic | DumpNoOracle | DumpFuel.

Section Pipeline.
  (* the four components, abstract here so that the composition lemmas (Proofs/Pipeline.v) do not
     depend on their size; instantiated below *)
  Variable dec : list (bytes * obj) -> bytes -> res (list (bytes * obj) * bytes).   (* decode_stream *)
  Variable chk : octx -> obj -> outcome.                                              (* check_type on the shipped spec *)
  Variable domf : octx -> obj -> dres (option resources * pages).                    (* to_page_dom *)
  Variable T : Type.
  Variable ext : bytes -> res T.                              (* TextExtractor::parse *)
  Variable ctx : octx.

  (* ---- dump_root: `processed` is a BTreeSet<Rc<LocatedVal<PDFObjT>>>, i.e. a set of VALUES ---- *)
  Definition omem (x : obj) (p : list obj) : bool := existsb (TypeCheck.obj_eqb x) p.

  Definition push1 (acc : list obj * list obj) (x : obj) : list obj * list obj :=
    let '(q, p) := acc in if omem x p then (q, p) else (q ++ [x], x :: p).

  Fixpoint dump_loop (fuel : nat) (q processed : list obj) : dump :=
    match fuel with
    | O => DumpFuel
    | S f =>
      match q with
      | [] => DumpOk
      | o :: q' =>
        match o with
        | OArr l => let '(q2, p2) := fold_left push1 l (q', processed) in dump_loop f q2 p2
        | ODict d => let '(q2, p2) := fold_left push1 (List.map snd d) (q', processed) in dump_loop f q2 p2
        | OStream d c =>
          let '(q2, p2) := fold_left push1 (List.map snd d) (q', processed) in
          match dec d c with
          | Panic => DumpPanic
          | Fuel => DumpNoOracle
          | _ => dump_loop f q2 p2              (* a decoding error is only a warning *)
          end
        | ORef n g =>
          match octx_get ctx (n, g) with
          | Some x => let '(q2, p2) := push1 (q', processed) x in dump_loop f q2 p2
          | None => dump_loop f q' processed
          end
        | _ => dump_loop f q' processed
        end
      end
    end.

  Fixpoint osize (o : obj) : nat :=
    match o with
    | OArr l => S (fold_right (fun x n => osize x + n) 0 l)
    | ODict d => S (fold_right (fun kv n => osize (snd kv) + n) 0 d)
    | OStream d _ => S (fold_right (fun kv n => osize (snd kv) + n) 0 d)
    | _ => 1
    end.
  Definition ctx_size : nat := fold_right (fun e n => osize (snd e) + n) 0 ctx.

  Definition dump_root (root : obj) : dump :=
    dump_loop (S (S (ctx_size + osize root))) [root] [root].

  (* ---- file_extract_text ---- *)
  (* the content streams of one page: Some buffer | None = "go to the next page" *)
  Fixpoint page_buf (cs : list obj) (acc : bytes) : res (option bytes) :=
    match cs with
    | [] => Ok (Some acc)
    | OStream d c :: r =>
      match dec d c with
      | Ok (_, out) => page_buf r (acc ++ 32%N :: out)
      | Err _ => Ok None
      | Panic => Panic
      | Fuel => Fuel
      end
    | _ :: _ => Ok None
    end.

  Definition not_embedded (r : resources) : bool :=
    existsb (fun kv => match fd_is_embedded (snd kv) with Some false => true | _ => false end) r.

  Fixpoint pages_loop (pg : list (oid * pagekid)) : pout :=
    match pg with
    | [] => PAccepted
    | (_, PNode _ _ _ _) :: r => pages_loop r
    | (_, PLeaf _ res cs) :: r =>
      if not_embedded res then PRejected
      else match page_buf cs [] with
           | Ok (Some buf) =>
             match ext buf with
             | Ok _ => pages_loop r
             | Err _ => PRejected
             | Panic => PPanicked
             | Fuel => PUnmodelled
             end
           | Ok None => pages_loop r
           | Err _ => pages_loop r
           | Panic => PPanicked
           | Fuel => PUnmodelled
           end
    end.

  Definition pipeline_gen (rootid : N * N) : pout :=
    match octx_get ctx rootid with
    | None => PRejected                                   (* "Root object not found" *)
    | Some root =>
      match dump_root root with
      | DumpPanic => PPanicked
      | DumpNoOracle | DumpFuel => PUnmodelled
      | DumpOk =>
        match chk ctx root with
        | Accept =>
          match domf ctx root with
          | DOk (_, pg) => pages_loop pg
          | DErr _ => PRejected
          | DFuel => PUnmodelled
          end
        | Reject _ | SpecErr _ => PRejected
        | Panicked => PPanicked
        | Stuck => PUnmodelled
        end
      end
    end.
End Pipeline.

(* the instantiation: rel = release build, toks = the zlib oracle table of the case (Model/Filters.v) *)
Definition dec (rel : bool) (toks : list bytes) (d : list (bytes * obj)) (content : bytes) :=
  Filters.decode_stream (Filters.transform_run (negb rel) toks) d content.
Definition dom_run (c : octx) (o : obj) := to_page_dom (S (len c)) c o.
Definition pipeline (rel : bool) (toks : list bytes) (ctx : octx) (rootid : N * N) : pout :=
  pipeline_gen (dec rel toks) shipped_check dom_run _ (ContentLex.extract_bytes rel 50) ctx rootid.

Definition show_pout (p : pout) : bytes :=
  match p with
  | PAccepted => B "accepted" | PRejected => B "rejected" | PPanicked => B "panic" | PUnmodelled => B "unmodelled"
  end.

(* ---------- case protocol ----------
   M <hex of the rendered file> <octx> <num.gen of the root> [oracle triples …] [@profile]
   B <hex of a file>                                           (byte-level case: not modelled) *)
Definition is_profile_tok (t : bytes) : bool := match t with 64%N :: _ => true | _ => false end.

Fixpoint read_octx_items (fuel : nat) (s : bytes) (acc : octx) : octx :=
  match fuel with
  | O => rev acc
  | S f =>
    match s with
    | [] => rev acc
    | 59%N :: r => read_octx_items f r acc                      (* ';' *)
    | _ =>
      let '(n, r1) := span_while is_digit s in
      match r1 with
      | 46%N :: r2 =>
        let '(g, r3) := span_while is_digit r2 in
        match r3 with
        | 61%N :: r4 =>
          match read_obj (S (len r4)) r4 with
          | Some (o, r5) =>
            (* PDFObjContext::register_obj keeps the first definition of an id *)
            let id := (parse_N n, parse_N g) in
            read_octx_items f r5 (match octx_get (rev acc) id with Some _ => acc | None => (id, o) :: acc end)
          | None => rev acc
          end
        | _ => rev acc
        end
      | _ => rev acc
      end
    end
  end.

Definition read_id (s : bytes) : N * N :=
  let '(n, r) := span_while is_digit s in
  match r with 46%N :: g => (parse_N n, parse_N g) | _ => (parse_N n, 0%N) end.

Definition entry_ctx (args : list bytes) : bytes :=
  let fam := nth_arg args 0 in
  if bytes_eqb fam (B "M") then
    let rest := skipn 4 args in
    let rel := existsb (fun t => bytes_eqb t (B "@release")) rest in
    let toks := filter (fun t => negb (is_profile_tok t)) rest in
    let cs := nth_arg args 2 in
    let ctx := if bytes_eqb cs (B "-") then [] else read_octx_items (S (len cs)) cs [] in
    show_pout (pipeline rel toks ctx (read_id (nth_arg args 3)))
  else B "unmodelled".
