(* Model/Content.v — transcription of TextExtractor::parse_internal (src/pdf_lib/pdf_content_streams.rs)
   on the list of content-stream objects that CSObjP produces.  Definitions only.

   * [operators] (gen/OpTable.v) and [trans] (gen/Trans.v) are TRANSLATED from the Rust sources on every run.
   * everything else here is a hand transcription, arm by arm, of the loop body.
   * A cstoken is a CSObjT: [TOp n] = Op(n); [TObj o] = the operand alternatives (Array, Dict, Boolean, String,
     Name, Null, Comment, Integer, Real).  CSObjP::parse skips white space and comments (WhitespaceEOL consumes
     comments) before every object, so the end of the token list is `buf.remaining() == 0` after `ws.parse`,
     and [TObj (OComment _)] — although an alternative of CSObjT that the loop handles — is never produced.
   * errors: every `return Err` of the loop is a GuardError (the lexer's own error is wrapped into one).
   * `self.nested_compats += 1` on a usize: overflow needs 2^64 BX operators, i.e. a buffer larger than the
     address space; modelled on nat without overflow.
   * `self.state` is a field and survives only inside this call (a TextExtractor is used once).
   * transcribed from the code AFTER the repairs e3c03fc (TJ operand count), 6671623 (operand kinds of the
     double-quote operator), 50f0ff6 (q/Q class, in gen/OpTable.v), 58025b3 (end of stream after an unknown
     operator inside BX), 2fa7dae (empty stream); the witnesses against the pinned code are in corpus/c12.txt. *)
From PV Require Export Spec.Fig9.
From PV Require Export gen.OpTable gen.Trans.

(* self.opinfo: BTreeMap built by inserting the rows of OPERATORS in order — a later row with the same name
   replaces an earlier one *)
Fixpoint op_lookup_in (tbl : list (bytes * (optype * list argtype))) (n : bytes) (acc : option (optype * list argtype))
  : option (optype * list argtype) :=
  match tbl with
  | [] => acc
  | (k, info) :: r => op_lookup_in r n (if bytes_eqb n k then Some info else acc)
  end.
Definition op_lookup (n : bytes) : option (optype * list argtype) := op_lookup_in operators n None.

Definition nm_Tj : bytes := B "Tj".
Definition nm_TJ : bytes := B "TJ".
Definition nm_quote : bytes := [39%N].     (* the quote operator *)
Definition nm_dquote : bytes := [34%N].    (* the double-quote operator *)

(* which arm of `match (op_type, op_name.as_str())` (the operand handling) is selected; arms in source order *)
Inductive harm := HShow3 | HShowTJ | HLineMove | HTextObject | HBX | HEX | HNone.

Definition handle_arm (ty : optype) (n : bytes) : harm :=
  if optype_eqb ty OpTextShow && (bytes_eqb n nm_Tj || bytes_eqb n nm_quote || bytes_eqb n nm_dquote) then HShow3
  else if optype_eqb ty OpTextShow && bytes_eqb n nm_TJ then HShowTJ
  else if optype_eqb ty OpTextPositioning && (bytes_eqb n (B "Td") || bytes_eqb n (B "TD") || bytes_eqb n (B "T*"))
       then HLineMove
  else if optype_eqb ty OpTextObject then HTextObject
  else if optype_eqb ty OpCompat && bytes_eqb n (B "BX") then HBX
  else if optype_eqb ty OpCompat && bytes_eqb n (B "EX") then HEX
  else HNone.

(* `for (i, a) in args.iter().enumerate() { match a.val() { … } }` of the Tj / quote / double-quote arm:
   [total] = args.len(), [i] the index; [texts] grows at the end.  The string must be the last operand, the
   operands before it (double-quote operator only) numbers. *)
Fixpoint show3_args (n : bytes) (total i : nat) (args : list cstoken) (texts : list texttoken) : res (list texttoken) :=
  match args with
  | [] => Ok texts
  | a :: r =>
    match a with
    | TObj (OStr v) =>
      if Nat.eqb (i + 1) total then
        let texts1 := if negb (bytes_eqb n nm_Tj) then texts ++ [Space] else texts in
        show3_args n total (S i) r (texts1 ++ [RawText v])
      else Err EGuard
    | TObj (OInt _) | TObj (OReal _ _) =>
      if bytes_eqb n nm_dquote && Nat.ltb (i + 1) total then show3_args n total (S i) r texts else Err EGuard
    | _ => Err EGuard
    end
  end.

(* `for o in array.objs() { match o.val() { … } }` of the TJ arm *)
Fixpoint tj_elems (l : list obj) (texts : list texttoken) : res (list texttoken) :=
  match l with
  | [] => Ok texts
  | OStr v :: r => tj_elems r (texts ++ [RawText v])
  | OInt _ :: r | OReal _ _ :: r => tj_elems r texts
  | _ :: _ => Err EGuard
  end.

(* Vec::pop *)
Definition last_opt {A} (l : list A) : option A :=
  match rev l with [] => None | x :: _ => Some x end.

(* the operand-handling match; result = (nested_compats, texts) *)
Definition handle (ty : optype) (n : bytes) (op_args : list argtype) (args : list cstoken)
           (nc : nat) (texts : list texttoken) : res (nat * list texttoken) :=
  match handle_arm ty n with
  | HShow3 =>
    if negb (Nat.eqb (len args) (len op_args)) then Err EGuard
    else match show3_args n (len args) 0 args texts with
         | Ok t => Ok (nc, t)
         | Err k => Err k | Panic => Panic | Fuel => Fuel
         end
  | HShowTJ =>
    if negb (Nat.eqb (len args) (len op_args)) then Err EGuard else
    match last_opt args with
    | Some (TObj (OArr l)) =>
      match tj_elems l texts with
      | Ok t => Ok (nc, t)
      | Err k => Err k | Panic => Panic | Fuel => Fuel
      end
    | Some _ => Err EGuard
    | None => Ok (nc, texts)
    end
  | HLineMove => Ok (nc, texts ++ [Space])
  | HTextObject => Ok (nc, texts ++ [Space])
  | HBX => Ok (S nc, texts)
  | HEX => Ok (if Nat.ltb 0 nc then nc - 1 else nc, texts)
  | HNone => Ok (nc, texts)
  end.

(* the `loop { … }`, one token per step (structural on the token list) *)
Fixpoint loop (toks : list cstoken) (st : state) (nc : nat) (args : list cstoken) (texts : list texttoken)
  : res (list texttoken) :=
  match toks with
  | [] => Err EGuard                                   (* op.parse fails with EndOfBuffer -> GuardError *)
  | TObj (OComment _) :: rest => loop rest st nc args texts              (* drop comments *)
  | TObj o :: rest => loop rest st nc (args ++ [TObj o]) texts           (* args.push(o) *)
  | TOp n :: rest =>
    match op_lookup n with
    | None =>
      if Nat.ltb 0 nc then                                               (* args.clear(); *)
        match rest with
        | [] => Ok texts                                                 (* ws.parse; remaining() == 0: break *)
        | _ => loop rest st nc [] texts                                  (* continue *)
        end
      else Err EGuard                                                    (* unknown PDF operator *)
    | Some (ty, op_args) =>
      match trans st ty n with
      | None => Err EGuard                                               (* unexpected operator in state *)
      | Some next_state =>
        match handle ty n op_args args nc texts with
        | Ok (nc', texts') =>
          (* args.clear(); ws.parse; if buf.remaining() == 0 { break } *)
          match rest with
          | [] => Ok texts'
          | _ => loop rest next_state nc' [] texts'
          end
        | Err k => Err k | Panic => Panic | Fuel => Fuel
        end
      end
    end
  end.

(* TextExtractor::new(..).parse(buf): state Content, nested_compats 0.
   Before the loop: `ws.parse(buf)?; if buf.remaining() == 0 { return Ok(texts) }` — a stream without any object
   (nothing but white space and comments) has no text. *)
Definition extract (toks : list cstoken) : res (list texttoken) :=
  match toks with
  | [] => Ok []
  | _ => loop toks SContent 0 [] []
  end.

(* ---------- case protocol ----------
   "T <hex stream> tok tok …": the model works on the tokens (the implementation on the bytes, after checking
   that its lexer produces exactly these tokens).  o<hex> = operator; otherwise the shared object text form. *)
Definition read_tok (t : bytes) : option cstoken :=
  match t with
  | 111%N :: h => Some (TOp (unhex h))                  (* 'o' *)
  | _ => match read_obj_tok t with
         | Some (ORef _ _) | Some (OStream _ _) | None => None
         | Some o => Some (TObj o)
         end
  end.

Fixpoint read_toks (l : list bytes) : option (list cstoken) :=
  match l with
  | [] => Some []
  | t :: r => match read_tok t, read_toks r with
              | Some x, Some xs => Some (x :: xs)
              | _, _ => None
              end
  end.

Definition show_texttoken (t : texttoken) : bytes :=
  match t with
  | Space => B " S"
  | RawText s => B " x" ++ show_hex_tok s
  end.

Definition show_out (r : res (list texttoken)) : bytes :=
  match r with
  | Ok l => B "ok" ++ concat (List.map show_texttoken l)
  | Err k => B "err " ++ show_ekind k
  | Panic => B "panic"
  | Fuel => B "fuel"
  end.

Definition entry (args : list bytes) : bytes :=
  match args with
  | kind :: _ :: toks =>
    if bytes_eqb kind (B "T") then
      match read_toks toks with
      | Some l => show_out (extract l)
      | None => B "badcase"
      end
    else B "badcase"
  | _ => B "badcase"
  end.
