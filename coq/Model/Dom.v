(* Model/Dom.v — transcription of src/pdf_lib/pdf_page_dom.rs (to_page_dom and everything it calls)
   and of DictT::get_resolved / get_resolved_dict (src/pdf_lib/pdf_obj.rs), over an object context
   (id ↦ object).  Definitions only.

   Transcribed from /repo at the commits
     b59123f  fix: a looping chain of references in /Kids, /Contents, a /Font value or an /Encoding …
     989a639  fix: get_resolved_dict/get_resolved_array followed only one reference …
   The reference-following helpers of the tree before these commits are kept in [Module Pinned] at the
   end of the file (they recursed without bound; Proofs/DomPinned.v shows what that meant).

   The only loops left without a structural bound are `while let Reference(r)` in follow_references /
   get_resolved (bounded by the visited set) and `while !q.is_empty()` in to_page_dom (bounded by the
   examined set).  Both run on explicit fuel here; Proofs/DomTerm.v shows that [len c] resp. [S (len c)]
   is never exhausted.

   Not modelled (write-only or unobservable state):
   * DOMContext.font_dicts is only written;
   * DOMContext.font_descrs caches successful to_font_descriptor results by object id; conversion
     is a function of the (immutable) context object, so a cache hit returns what a fresh
     conversion would return;
   * locations (every object built by the harness is located at (0,0));
   * the flag set and the font name of a font descriptor (never read by the DOM builder or by
     FontDictionary::is_embedded). *)
From PV Require Export Base.PdfObj.

Definition oid := (N * N)%type.
Definition oid_eqb (a b : oid) : bool := (N.eqb (fst a) (fst b) && N.eqb (snd a) (snd b))%bool.
Definition oid_mem (x : oid) (l : list oid) : bool := existsb (oid_eqb x) l.
(* Ord on (usize, usize) *)
Definition oid_cmp (a b : oid) : comparison :=
  match N.compare (fst a) (fst b) with Eq => N.compare (snd a) (snd b) | c => c end.

(* PDFObjContext::lookup_obj *)
Definition lookup (c : octx) (id : oid) : option obj := octx_get c id.

(* ---------- DictT accessors (pdf_obj.rs) ---------- *)
Definition dict := list (bytes * obj).
Definition dget (d : dict) (k : bytes) : option obj := dict_get d k.
(* get_usize: an IntegerT (i64) that converts to usize *)
Definition get_usize (d : dict) (k : bytes) : option N :=
  match dget d k with
  | Some (OInt z) => if (0 <=? z)%Z then Some (Z.to_N z) else None
  | _ => None
  end.
Definition get_name (d : dict) (k : bytes) : option bytes :=
  match dget d k with Some (OName s) => Some s | _ => None end.
Definition get_ref (d : dict) (k : bytes) : option oid :=
  match dget d k with Some (ORef n g) => Some (n, g) | _ => None end.
(* ---------- errors and outcomes ---------- *)
Inductive derr :=
| CatalogConversionBadCatalog | CatalogConversionNoPages | CatalogConversionPagesIdNotFound
| PageTreeNodeNotDict | PageTreeNodeUnexpectedType (t : bytes)
| PageTreeNodeConversionNoCount | PageTreeNodeConversionNoKids | PageTreeNodeConversionNoParent
| PageTreeNodeConversionBadKids | PageTreeNodeConversionBadRoot | PageTreeNodeConversionBadNode
| PageNodeConversionNoParent | PageNodeConversionNoContents | PageNodeConversionBadContents
| PageNodeConversionBadPage | NoObjectType
| ResourceFontValueUnknownObjectId (id : oid) | ResourceFontValueNotDict | FontResourceNotDict
| FontDescrConversionUnknownObjectId (id : oid) | FontDescrConversionNoFontName
| FontDescrConversionNoFlags | FontDescrConversionBadFontDescr
| FontDictConversionNoBaseFont | FontDictConversionNoSubtype
| FontDictConversionUnknownEncoding | FontDictConversionBadEncoding
| FontDictConversionBadFontDictionary | FontDictUnresolvedId (id : oid)
| ReferenceLoop (id : oid).

(* value / located error / model fuel exhausted (the Rust recursion does not return) *)
Inductive dres (A : Type) :=
| DOk (a : A)
| DErr (e : derr)
| DFuel.
Arguments DOk {A} a.
Arguments DErr {A} e.
Arguments DFuel {A}.

(* Option-returning helpers that recurse: Some / None / fuel *)
Inductive ores (A : Type) :=
| OSome (a : A)
| ONone
| OFuel.
Arguments OSome {A} a.
Arguments ONone {A}.
Arguments OFuel {A}.

(* ---------- following chains of references ---------- *)
(* ChainEnd (pdf_page_dom.rs); the reference object at which the chain stopped only carries the
   location, which is not modelled.  [CEFuel]: the model's fuel ran out. *)
Inductive chain_end :=
| CEObject (o : obj)
| CEUndefined (id : oid)
| CELoop (id : oid)
| CEFuel.

Definition is_ref (o : obj) : bool := match o with ORef _ _ => true | _ => false end.

(* follow_references: `while let Reference(r) = o.val()` — stop at an id already visited, or at an
   undefined id; otherwise move on to the definition *)
Fixpoint follow_references (fuel : nat) (c : octx) (visited : list oid) (o : obj) : chain_end :=
  match o with
  | ORef n g =>
    if oid_mem (n, g) visited then CELoop (n, g)
    else
      match lookup c (n, g) with
      | None => CEUndefined (n, g)
      | Some o' =>
        match fuel with
        | O => CEFuel
        | S f => follow_references f c ((n, g) :: visited) o'
        end
      end
  | _ => CEObject o
  end.

Definition follow (c : octx) (o : obj) : chain_end := follow_references (len c) c [] o.

(* DictT::get_resolved (pdf_obj.rs): the same loop on the value of a key; a loop or an undefined id
   gives None *)
Definition get_resolved (c : octx) (d : dict) (k : bytes) : ores obj :=
  match dget d k with
  | None => ONone
  | Some v =>
    match follow c v with
    | CEObject o => OSome o
    | CEUndefined _ => ONone
    | CELoop _ => ONone
    | CEFuel => OFuel
    end
  end.
Definition get_resolved_dict (c : octx) (d : dict) (k : bytes) : ores dict :=
  match get_resolved c d k with
  | OSome (ODict d') => OSome d'
  | OSome _ => ONone
  | ONone => ONone
  | OFuel => OFuel
  end.

(* ---------- DOM types ---------- *)
Inductive fenc := EncMacRoman | EncMacExpert | EncWinAnsi | EncUnknown (s : bytes) | EncDict.
Record fontdict := mkfd {
  fd_subtype : bytes;       (* FontType is an injective image of the /Subtype name *)
  fd_basefont : bytes;
  fd_descr : option bool;   (* the descriptor, if attached, as FontDescriptor::is_embedded():
                               one of /FontFile, /FontFile2, /FontFile3 is a reference *)
  fd_enc : option fenc }.
Definition resources := list (bytes * fontdict).   (* BTreeMap<DictKey, Rc<FontDictionary>> *)

(* STANDARD_FONTS *)
Definition standard_fonts : list bytes :=
  [B "Times-Roman"; B "Times-Bold"; B "Times-Italic"; B "Times-BoldItalic";
   B "Helvetica"; B "Helvetica-Bold"; B "Helvetica-Oblique"; B "Helvetica-BoldOblique";
   B "Courier"; B "Courier-Bold"; B "Courier-Oblique"; B "Courier-BoldOblique";
   B "Symbol"; B "ZapfDingbats"].
(* FontDictionary::is_base_font: subtype is FontType::Type1 (the /Subtype name is exactly "Type1") and the
   base font, read as UTF-8, equals one of the 14 names (all ASCII, so equality of the bytes) *)
Definition fd_is_base_font (fd : fontdict) : bool :=
  bytes_eqb (fd_subtype fd) (B "Type1") && existsb (bytes_eqb (fd_basefont fd)) standard_fonts.
(* FontDictionary::is_embedded as FeaturePresence: Some true = True, Some false = False, None = Unknown *)
Definition fd_is_embedded (fd : fontdict) : option bool :=
  if fd_is_base_font fd then Some true else fd_descr fd.

Inductive pagekid :=
| PNode (parent : oid) (res : option resources) (count : N) (kids : list oid)
| PLeaf (parent : oid) (res : resources) (contents : list obj).

(* BTreeMap<ObjectId, PageKid>::insert *)
Fixpoint pages_insert (id : oid) (p : pagekid) (m : list (oid * pagekid)) : list (oid * pagekid) :=
  match m with
  | [] => [(id, p)]
  | (id', p') :: r =>
    match oid_cmp id id' with
    | Lt => (id, p) :: m
    | Eq => (id, p) :: r
    | Gt => (id', p') :: pages_insert id p r
    end
  end.

(* ---------- ConversionQ ---------- *)
Definition qentry := (oid * option resources * obj)%type.
Record cq := mkq { q_nodes : list qentry; q_examined : list oid }.
Definition cq_new : cq := mkq [] [].
Definition cq_add (q : cq) (id : oid) (r : option resources) (o : obj) : cq :=
  if oid_mem id (q_examined q) then q
  else mkq (q_nodes q ++ [(id, r, o)]) (id :: q_examined q).

(* ---------- std::str::from_utf8(..).is_ok() ---------- *)
Fixpoint utf8_go (k : nat) (lo hi : N) (s : bytes) : bool :=
  match s with
  | [] => Nat.eqb k 0
  | b :: r =>
    match k with
    | O =>
      if (b <=? 127)%N then utf8_go 0 128 191 r
      else if ((194 <=? b) && (b <=? 223))%N then utf8_go 1 128 191 r
      else if (b =? 224)%N then utf8_go 2 160 191 r
      else if ((225 <=? b) && (b <=? 236) || (238 <=? b) && (b <=? 239))%N then utf8_go 2 128 191 r
      else if (b =? 237)%N then utf8_go 2 128 159 r
      else if (b =? 240)%N then utf8_go 3 144 191 r
      else if ((241 <=? b) && (b <=? 243))%N then utf8_go 3 128 191 r
      else if (b =? 244)%N then utf8_go 3 128 143 r
      else false
    | S k' => if ((lo <=? b) && (b <=? hi))%N then utf8_go k' 128 191 r else false
    end
  end.
Definition utf8_valid (s : bytes) : bool := utf8_go 0 128 191 s.

(* ---------- to_page_kids ---------- *)
(* the loop over the array: non-references are reported on stdout and skipped; a reference is
   queued if the context defines it, and recorded in kids either way *)
Fixpoint kids_loop (c : octx) (r : option resources) (a : list obj) (q : cq) (kids : list oid)
  : cq * list oid :=
  match a with
  | [] => (q, kids)
  | ORef n g :: a' =>
    let q' := match lookup c (n, g) with Some o => cq_add q (n, g) r o | None => q end in
    kids_loop c r a' q' (kids ++ [(n, g)])
  | _ :: a' => kids_loop c r a' q kids
  end.

(* after follow_references the object is not a reference: the Reference arm of the recursive call is dead *)
Definition page_kids_obj (c : octx) (q : cq) (r : option resources) (o : obj) : ores (cq * list oid) :=
  match o with
  | OArr a => OSome (kids_loop c r a q [])
  | _ => ONone
  end.
Definition to_page_kids (c : octx) (q : cq) (r : option resources) (o : obj) : ores (cq * list oid) :=
  match o with
  | ORef _ _ =>
    match follow c o with
    | CEObject o' => page_kids_obj c q r o'
    | CEFuel => OFuel
    | _ => ONone
    end
  | _ => page_kids_obj c q r o
  end.

(* ---------- to_page_content / to_page_contents ---------- *)
Definition page_content_obj (o : obj) : ores obj :=
  match o with
  | OStream _ _ => OSome o
  | _ => ONone
  end.
Definition to_page_content (c : octx) (o : obj) : ores obj :=
  match o with
  | ORef _ _ =>
    match follow c o with
    | CEObject o' => page_content_obj o'
    | CEFuel => OFuel
    | _ => ONone
    end
  | _ => page_content_obj o
  end.

Fixpoint contents_loop (c : octx) (a : list obj) (v : list obj) : ores (list obj) :=
  match a with
  | [] => OSome v
  | o :: a' =>
    match to_page_content c o with
    | OSome cs => contents_loop c a' (v ++ [cs])
    | ONone => ONone
    | OFuel => OFuel
    end
  end.

Definition page_contents_obj (c : octx) (o : obj) : ores (list obj) :=
  match o with
  | OStream _ _ => OSome [o]
  | OArr a => contents_loop c a []
  | _ => ONone
  end.
Definition to_page_contents (c : octx) (o : obj) : ores (list obj) :=
  match o with
  | ORef _ _ =>
    match follow c o with
    | CEObject o' => page_contents_obj c o'
    | CEFuel => OFuel
    | _ => ONone
    end
  | _ => page_contents_obj c o
  end.

(* ---------- fonts ---------- *)
(* the result is FontDescriptor::is_embedded() of the descriptor built: fontfile/fontfile2/fontfile3
   are `d.get_ref(..)`, i.e. present only when the value is a reference (never followed) *)
Definition is_some {A} (x : option A) : bool := match x with Some _ => true | None => false end.
Definition to_font_descriptor (d : dict) : dres bool :=
  match get_name d (B "FontName") with
  | None => DErr FontDescrConversionNoFontName
  | Some _ =>
    match get_usize d (B "Flags") with
    | None => DErr FontDescrConversionNoFlags
    | Some _ =>
      DOk (is_some (get_ref d (B "FontFile")) || is_some (get_ref d (B "FontFile2"))
           || is_some (get_ref d (B "FontFile3")))%bool
    end
  end.

Definition encoding_obj (o : obj) : dres fenc :=
  match o with
  | OName n =>
    if utf8_valid n then
      if bytes_eqb n (B "MacRomanEncoding") then DOk EncMacRoman
      else if bytes_eqb n (B "MacExpertEncoding") then DOk EncMacExpert
      else if bytes_eqb n (B "WinAnsiEncoding") then DOk EncWinAnsi
      else DOk (EncUnknown n)
    else DErr FontDictConversionUnknownEncoding
  | ODict _ => DOk EncDict
  | _ => DErr FontDictConversionBadEncoding
  end.
Definition to_encoding (c : octx) (o : obj) : dres fenc :=
  match o with
  | ORef _ _ =>
    match follow c o with
    | CEObject o' => encoding_obj o'
    | CEUndefined _ => DErr FontDictConversionBadEncoding
    | CELoop id => DErr (ReferenceLoop id)
    | CEFuel => DFuel
    end
  | _ => encoding_obj o
  end.

Definition to_font_dict (c : octx) (d : dict) : dres fontdict :=
  match get_name d (B "BaseFont") with
  | None => DErr FontDictConversionNoBaseFont
  | Some basefont =>
    match get_name d (B "Subtype") with
    | None => DErr FontDictConversionNoSubtype
    | Some subtype =>
      let descr : dres (option bool) :=
        match dget d (B "FontDescriptor") with
        | Some (ODict dd) =>
          match to_font_descriptor dd with DOk e => DOk (Some e) | DErr e => DErr e | DFuel => DFuel end
        | Some (ORef n g) =>
          match lookup c (n, g) with
          | None => DErr (FontDescrConversionUnknownObjectId (n, g))
          | Some (ODict dd) =>
            match to_font_descriptor dd with DOk e => DOk (Some e) | DErr e => DErr e | DFuel => DFuel end
          | Some _ => DErr FontDescrConversionBadFontDescr
          end
        | Some _ => DErr FontDescrConversionBadFontDescr
        | None => DOk None
        end in
      match descr with
      | DErr e => DErr e
      | DFuel => DFuel
      | DOk hasd =>
        match dget d (B "Encoding") with
        | Some o =>
          match to_encoding c o with
          | DErr e => DErr e
          | DFuel => DFuel
          | DOk e => DOk (mkfd subtype basefont hasd (Some e))
          end
        | None => DOk (mkfd subtype basefont hasd None)
        end
      end
    end
  end.

Definition obj_to_font_dict (c : octx) (o : obj) : dres fontdict :=
  match o with
  | ODict d => to_font_dict c d
  | _ => DErr FontDictConversionBadFontDictionary
  end.

(* the loop over the font-resource dictionary: an entry is a dictionary or ONE reference to one *)
Fixpoint fonts_loop (c : octx) (ents : dict) (fonts : resources) : dres resources :=
  match ents with
  | [] => DOk fonts
  | (frn, fr) :: rest =>
    match fr with
    | ORef n g =>
      match lookup c (n, g) with
      | None => DErr (FontDictUnresolvedId (n, g))
      | Some o =>
        match obj_to_font_dict c o with
        | DErr e => DErr e
        | DFuel => DFuel
        | DOk fd => fonts_loop c rest (fst (dict_insert frn fd fonts))
        end
      end
    | ODict dd =>
      match to_font_dict c dd with
      | DErr e => DErr e
      | DFuel => DFuel
      | DOk fd => fonts_loop c rest (fst (dict_insert frn fd fonts))
      end
    | _ => DErr FontResourceNotDict
    end
  end.

Definition font_value_obj (c : octx) (o : obj) : dres resources :=
  match o with
  | ODict d => fonts_loop c d []
  | _ => DErr ResourceFontValueNotDict
  end.
Definition to_resource_font_value (c : octx) (o : obj) : dres resources :=
  match o with
  | ORef _ _ =>
    match follow c o with
    | CEObject o' => font_value_obj c o'
    | CEUndefined id => DErr (ResourceFontValueUnknownObjectId id)
    | CELoop id => DErr (ReferenceLoop id)
    | CEFuel => DFuel
    end
  | _ => font_value_obj c o
  end.

(* to_resources: every entry whose key is "Font" is converted; the last one wins *)
Fixpoint resources_loop (c : octx) (ents : dict) (fonts : option resources)
  : dres (option resources) :=
  match ents with
  | [] => DOk fonts
  | (k, v) :: rest =>
    if bytes_eqb k (B "Font") then
      match to_resource_font_value c v with
      | DErr e => DErr e
      | DFuel => DFuel
      | DOk f => resources_loop c rest (Some f)
      end
    else resources_loop c rest fonts
  end.

Definition to_resources (c : octx) (rd : dict) : dres resources :=
  match resources_loop c rd None with
  | DErr e => DErr e
  | DFuel => DFuel
  | DOk None => DOk []
  | DOk (Some f) => DOk f
  end.

(* ---------- page tree nodes and pages ---------- *)
(* the resources in scope at a node: its own /Resources if that leads to a dictionary, else what
   was handed down *)
Definition node_resources (c : octx) (d : dict) (r : option resources) : dres (option resources) :=
  match get_resolved_dict c d (B "Resources") with
  | OFuel => DFuel
  | OSome rd =>
    match to_resources c rd with DOk x => DOk (Some x) | DErr e => DErr e | DFuel => DFuel end
  | ONone => DOk r
  end.

(* root: (resources, count, kids) and the queue *)
Definition to_root_page_tree_node (c : octx) (q : cq) (o : obj)
  : dres (option resources * N * list oid * cq) :=
  match o with
  | ODict d =>
    match node_resources c d None with
    | DErr e => DErr e
    | DFuel => DFuel
    | DOk res =>
      match get_usize d (B "Count") with
      | None => DErr PageTreeNodeConversionNoCount
      | Some count =>
        match dget d (B "Kids") with
        | None => DErr PageTreeNodeConversionNoKids
        | Some ko =>
          match to_page_kids c q res ko with
          | OFuel => DFuel
          | ONone => DErr PageTreeNodeConversionBadKids
          | OSome (q', kids) => DOk (res, count, kids, q')
          end
        end
      end
    end
  | _ => DErr PageTreeNodeConversionBadRoot
  end.

Definition to_page_tree_node (c : octx) (q : cq) (r : option resources) (o : obj)
  : dres (pagekid * cq) :=
  match o with
  | ODict d =>
    match get_ref d (B "Parent") with
    | None => DErr PageTreeNodeConversionNoParent
    | Some parent =>
      match node_resources c d r with
      | DErr e => DErr e
      | DFuel => DFuel
      | DOk res =>
        match get_usize d (B "Count") with
        | None => DErr PageTreeNodeConversionNoCount
        | Some count =>
          match dget d (B "Kids") with
          | None => DErr PageTreeNodeConversionNoKids
          | Some ko =>
            match to_page_kids c q res ko with
            | OFuel => DFuel
            | ONone => DErr PageTreeNodeConversionBadKids
            | OSome (q', kids) => DOk (PNode parent res count kids, q')
            end
          end
        end
      end
    end
  | _ => DErr PageTreeNodeConversionBadNode
  end.

Definition to_page (c : octx) (r : option resources) (o : obj) : dres pagekid :=
  match o with
  | ODict d =>
    match get_ref d (B "Parent") with
    | None => DErr PageNodeConversionNoParent
    | Some parent =>
      match node_resources c d r with
      | DErr e => DErr e
      | DFuel => DFuel
      | DOk ores' =>
        (* (_, _) => Rc::new(Resources::default()) *)
        let res := match ores' with Some x => x | None => [] end in
        match dget d (B "Contents") with
        | None => DErr PageNodeConversionNoContents
        | Some co =>
          match to_page_contents c co with
          | OFuel => DFuel
          | ONone => DErr PageNodeConversionBadContents
          | OSome v => DOk (PLeaf parent res v)
          end
        end
      end
    end
  | _ => DErr PageNodeConversionBadPage
  end.

(* to_catalog: the root page-tree node's (resources, count, kids) *)
Definition to_catalog (c : octx) (q : cq) (o : obj)
  : dres (option resources * N * list oid * cq) :=
  match o with
  | ODict d =>
    match get_ref d (B "Pages") with
    | Some r =>
      match lookup c r with
      | Some o' => to_root_page_tree_node c q o'
      | None => DErr CatalogConversionPagesIdNotFound
      end
    | None => DErr CatalogConversionNoPages
    end
  | _ => DErr CatalogConversionBadCatalog
  end.

(* ---------- to_page_dom ---------- *)
Definition pages := list (oid * pagekid).

(* the `while !q.is_empty()` loop *)
Fixpoint dom_loop (fuel : nat) (c : octx) (q : cq) (pg : pages) : dres pages :=
  match fuel with
  | O => DFuel
  | S f =>
    match q_nodes q with
    | [] => DOk pg
    | (id, r, o) :: rest =>
      let q := mkq rest (q_examined q) in
      match o with
      | ODict d =>
        match get_name d (B "Type") with
        | Some t =>
          if bytes_eqb t (B "Pages") then
            match to_page_tree_node c q r o with
            | DOk (n, q') => dom_loop f c q' (pages_insert id n pg)
            | DErr e => DErr e
            | DFuel => DFuel
            end
          else if bytes_eqb t (B "Page") then
            match to_page c r o with
            | DOk p => dom_loop f c q (pages_insert id p pg)
            | DErr e => DErr e
            | DFuel => DFuel
            end
          else DErr (PageTreeNodeUnexpectedType t)
        | None => DErr NoObjectType
        end
      | _ => DErr PageTreeNodeNotDict
      end
    end
  end.

(* result: the root node's resources and the page map *)
Definition to_page_dom (fuel : nat) (c : octx) (o : obj) : dres (option resources * pages) :=
  match to_catalog c cq_new o with
  | DErr e => DErr e
  | DFuel => DFuel
  | DOk (res, _, _, q) =>
    match dom_loop fuel c q [] with
    | DOk pg => DOk (res, pg)
    | DErr e => DErr e
    | DFuel => DFuel
    end
  end.

(* ---------- case protocol ---------- *)
Fixpoint split_on (sep : N) (s : bytes) (cur : bytes) : list bytes :=
  match s with
  | [] => [cur]
  | b :: r => if N.eqb b sep then cur :: split_on sep r [] else split_on sep r (cur ++ [b])
  end.

Definition parse_id (s : bytes) : oid :=
  let '(n, r) := span_while is_digit s in
  match r with
  | _ :: g => (parse_N n, parse_N g)
  | [] => (parse_N n, 0%N)
  end.

(* PDFObjContext::register_obj (as of commit f218988): the first definition of an id is kept *)
Fixpoint ctx_set (c : octx) (id : oid) (o : obj) : octx :=
  match c with
  | [] => [(id, o)]
  | (id', o') :: r => if oid_eqb id id' then (id', o') :: r else (id', o') :: ctx_set r id o
  end.

Definition parse_ctx (s : bytes) : option octx :=
  if bytes_eqb s (B "-") then Some [] else
  fold_left (fun acc part =>
    match acc with
    | None => None
    | Some c =>
      let '(idt, r) := span_while (fun b => negb (N.eqb b 61)) part in
      match r with
      | _ :: ot => match read_obj_tok ot with Some o => Some (ctx_set c (parse_id idt) o) | None => None end
      | [] => None
      end
    end) (split_on 59 s []) (Some []).

Definition show_id (id : oid) : bytes := show_N (fst id) ++ B "." ++ show_N (snd id).
Definition dash (s : bytes) : bytes := match s with [] => B "-" | _ => s end.
Definition show_ids (l : list oid) : bytes := dash (intercalate (B ",") (List.map show_id l)).
Definition show_enc (e : option fenc) : bytes :=
  match e with
  | None => B "-"
  | Some EncMacRoman => B "R" | Some EncMacExpert => B "E" | Some EncWinAnsi => B "W"
  | Some (EncUnknown s) => B "U" ++ show_hex s
  | Some EncDict => B "D"
  end.
Definition show_res (r : resources) : bytes :=
  dash (intercalate (B ",") (List.map (fun kv =>
    show_hex (fst kv) ++ B ":" ++ show_hex (fd_basefont (snd kv)) ++ B ":" ++ show_enc (fd_enc (snd kv))
    ++ B ":" ++ (if is_some (fd_descr (snd kv)) then B "d" else B "-")
    ++ B ":e=" ++ (match fd_is_embedded (snd kv) with Some true => B "t" | Some false => B "f" | None => B "u" end)) r)).
Definition show_optres (r : option resources) : bytes :=
  match r with None => B "~" | Some r => show_res r end.
Definition show_contents (l : list obj) : bytes :=
  dash (intercalate (B ",") (List.map (fun o =>
    match o with OStream _ cnt => show_hex_tok cnt | _ => B "?" end) l)).
Definition show_page (kv : oid * pagekid) : bytes :=
  show_id (fst kv) ++ B "=" ++
  match snd kv with
  | PNode _ res _ kids => B "N/" ++ show_optres res ++ B "/" ++ show_ids kids
  | PLeaf _ res cs => B "L/" ++ show_res res ++ B "/" ++ show_contents cs
  end.
Definition show_derr (e : derr) : bytes :=
  match e with
  | CatalogConversionBadCatalog => B "CatalogConversionBadCatalog"
  | CatalogConversionNoPages => B "CatalogConversionNoPages"
  | CatalogConversionPagesIdNotFound => B "CatalogConversionPagesIdNotFound"
  | PageTreeNodeNotDict => B "PageTreeNodeNotDict"
  | PageTreeNodeUnexpectedType t => B "PageTreeNodeUnexpectedType:" ++ show_hex_tok t
  | PageTreeNodeConversionNoCount => B "PageTreeNodeConversionNoCount"
  | PageTreeNodeConversionNoKids => B "PageTreeNodeConversionNoKids"
  | PageTreeNodeConversionNoParent => B "PageTreeNodeConversionNoParent"
  | PageTreeNodeConversionBadKids => B "PageTreeNodeConversionBadKids"
  | PageTreeNodeConversionBadRoot => B "PageTreeNodeConversionBadRoot"
  | PageTreeNodeConversionBadNode => B "PageTreeNodeConversionBadNode"
  | PageNodeConversionNoParent => B "PageNodeConversionNoParent"
  | PageNodeConversionNoContents => B "PageNodeConversionNoContents"
  | PageNodeConversionBadContents => B "PageNodeConversionBadContents"
  | PageNodeConversionBadPage => B "PageNodeConversionBadPage"
  | NoObjectType => B "NoObjectType"
  | ResourceFontValueUnknownObjectId id => B "ResourceFontValueUnknownObjectId:" ++ show_id id
  | ResourceFontValueNotDict => B "ResourceFontValueNotDict"
  | FontResourceNotDict => B "FontResourceNotDict"
  | FontDescrConversionUnknownObjectId id => B "FontDescrConversionUnknownObjectId:" ++ show_id id
  | FontDescrConversionNoFontName => B "FontDescrConversionNoFontName"
  | FontDescrConversionNoFlags => B "FontDescrConversionNoFlags"
  | FontDescrConversionBadFontDescr => B "FontDescrConversionBadFontDescr"
  | FontDictConversionNoBaseFont => B "FontDictConversionNoBaseFont"
  | FontDictConversionNoSubtype => B "FontDictConversionNoSubtype"
  | FontDictConversionUnknownEncoding => B "FontDictConversionUnknownEncoding"
  | FontDictConversionBadEncoding => B "FontDictConversionBadEncoding"
  | FontDictConversionBadFontDictionary => B "FontDictConversionBadFontDictionary"
  | FontDictUnresolvedId id => B "FontDictUnresolvedId:" ++ show_id id
  | ReferenceLoop id => B "ReferenceLoop:" ++ show_id id
  end.

Definition show_dom (r : dres (option resources * pages)) : bytes :=
  match r with
  | DOk (res, pg) =>
    B "ok root=" ++ show_optres res ++ List.concat (List.map (fun kv => B " " ++ show_page kv) pg)
  | DErr e => B "err " ++ show_derr e
  | DFuel => B "fuel"
  end.

(* args: context text, root id *)
Definition entry (args : list bytes) : bytes :=
  match parse_ctx (nth_arg args 0) with
  | None => B "badcase"
  | Some c =>
    match lookup c (parse_id (nth_arg args 1)) with
    | None => B "noroot"
    | Some root => show_dom (to_page_dom (S (len c)) c root)
    end
  end.

(* ---------- the reference-following helpers as they were before commits b59123f / 989a639 ----------
   Kept for the record (finding C11-10, C11-11): plain recursion on every reference, no visited set;
   get_resolved_dict resolved exactly one reference.  Fuel stands for the Rust call stack (debug) or
   for time (release, where the tail calls became loops). *)
Module Pinned.

Definition get_resolved_dict (c : octx) (d : dict) (k : bytes) : option dict :=
  match dget d k with
  | Some (ODict d') => Some d'
  | Some (ORef n g) => match lookup c (n, g) with Some (ODict d') => Some d' | _ => None end
  | _ => None
  end.

Fixpoint to_page_kids (fuel : nat) (c : octx) (q : cq) (r : option resources) (o : obj)
  : ores (cq * list oid) :=
  match fuel with
  | O => OFuel
  | S f =>
    match o with
    | ORef n g =>
      match lookup c (n, g) with
      | Some o' => to_page_kids f c q r o'
      | None => ONone
      end
    | OArr a => OSome (kids_loop c r a q [])
    | _ => ONone
    end
  end.

Fixpoint to_page_content (fuel : nat) (c : octx) (o : obj) : ores obj :=
  match fuel with
  | O => OFuel
  | S f =>
    match o with
    | ORef n g =>
      match lookup c (n, g) with
      | Some o' => to_page_content f c o'
      | None => ONone
      end
    | OStream _ _ => OSome o
    | _ => ONone
    end
  end.

Fixpoint contents_loop (fuel : nat) (c : octx) (a : list obj) (v : list obj) : ores (list obj) :=
  match a with
  | [] => OSome v
  | o :: a' =>
    match to_page_content fuel c o with
    | OSome cs => contents_loop fuel c a' (v ++ [cs])
    | ONone => ONone
    | OFuel => OFuel
    end
  end.

Fixpoint to_page_contents (fuel : nat) (c : octx) (o : obj) : ores (list obj) :=
  match fuel with
  | O => OFuel
  | S f =>
    match o with
    | ORef n g =>
      match lookup c (n, g) with
      | Some o' => to_page_contents f c o'
      | None => ONone
      end
    | OStream _ _ => OSome [o]
    | OArr a => contents_loop f c a []
    | _ => ONone
    end
  end.

Fixpoint to_encoding (fuel : nat) (c : octx) (o : obj) : dres fenc :=
  match fuel with
  | O => DFuel
  | S f =>
    match o with
    | ORef n g =>
      match lookup c (n, g) with
      | Some o' => to_encoding f c o'
      | None => DErr FontDictConversionBadEncoding
      end
    | _ => encoding_obj o
    end
  end.

(* [on_dict]: the loop over the font-resource dictionary (unchanged by the repair but for its use of
   to_encoding) *)
Fixpoint to_resource_font_value (on_dict : dict -> dres resources) (fuel : nat) (c : octx) (o : obj)
  : dres resources :=
  match fuel with
  | O => DFuel
  | S f =>
    match o with
    | ODict d => on_dict d
    | ORef n g =>
      match lookup c (n, g) with
      | Some o' => to_resource_font_value on_dict f c o'
      | None => DErr (ResourceFontValueUnknownObjectId (n, g))
      end
    | _ => DErr ResourceFontValueNotDict
    end
  end.

End Pinned.
