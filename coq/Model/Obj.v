(* Model/Obj.v — transcription of src/pdf_lib/pdf_obj.rs on top of the token parsers of
   Model/Prim.v:  PDFObjContext::enter_obj / leave_obj / lookup_obj, ArrayP, DictP, ReferenceP,
   PDFObjP (dispatcher with the integer / real / reference look-ahead and its rewinds), the
   parse_pdf_obj wrapper, IndirectP (stream detection, /Length lookup, StreamContentP, endobj,
   duplicate-id check), parse_pdf_indirect_obj.   Definitions only.

   Values are [obj] of Base/PdfObj.v (locations dropped, as LocatedVal's equality does); the
   top-level results keep their location ([lv obj]) because C02 speaks of it.

   The recursion  parse_pdf_obj → PDFObjP → ArrayP/DictP → parse_pdf_obj  is transcribed TWICE:

   * [parse_obj b] — "budget" form, structurally recursive on  b = max_depth - cur_depth
     (enter_obj fails iff b = 0; leave_obj has nothing to do).  Nested calls go to [b - 1]:
     the nesting of recursive calls is at most b whatever the input is.  The element loops of
     ArrayP / DictP run on explicit fuel [S (len s)] (every iteration consumes >= 1 byte).
     All theorems of C02 / C05 / C16 are about this form.
   * [parse_obj_st fuel max] — "counter" form: threads cur_depth through every call exactly as
     the Rust does (enter_obj: `cur_depth == max_depth` ⇒ false, else += 1; leave_obj:
     assert!(cur_depth != 0) ⇒ PPanic, -= 1), recursion on [fuel].  This is the form that is
     extracted and compared with the implementation (it yields ctxt.depth() after the call).
     Proofs/ObjDepth.v proves  parse_obj_st f max s c cur = (parse_obj (max - cur) s c, cur)
     for f >= max - cur, so the two transcriptions validate each other.

   [rel] is the build profile flag that Model/Prim.v's lit_string needs (i32 `depth` overflow
   after 2^31 unescaped parentheses: debug panics, release wraps). *)
From PV Require Export Model.Prim Base.PdfObj.

(* `?` and plain sequencing on parser outcomes *)
Definition bind {A B} (r : pres A) (k : A -> nat -> pres B) : pres B :=
  match r with
  | POk a c => k a c
  | PErr e c => PErr e c
  | PPanic => PPanic
  | PFuel => PFuel
  end.

(* keywords / delimiters handed to exact / check_prefix in pdf_obj.rs *)
Definition kw_lbrack : bytes := [91]%N.                      (* "[" *)
Definition kw_rbrack : bytes := [93]%N.                      (* "]" *)
Definition kw_ldict : bytes := [60; 60]%N.                   (* "<<" *)
Definition kw_rdict : bytes := [62; 62]%N.                   (* ">>" *)
Definition kw_R : bytes := [82]%N.                           (* "R" *)
Definition kw_obj : bytes := [111; 98; 106]%N.               (* "obj" *)
Definition kw_endobj : bytes := [101; 110; 100; 111; 98; 106]%N.   (* "endobj" *)
Definition key_Length : bytes := [76; 101; 110; 103; 116; 104]%N.  (* "Length" *)

(* IntegerT::usize_val after an is_usize / is_zero check, kept in N (no unary blow-up) *)
Definition usize_N (i : Z) : option N := if (0 <=? i)%Z then Some (Z.to_N i) else None.

(* ------------------------------------------------------------------ ReferenceP::parse *)
Definition reference (s : bytes) (c : nat) : pres obj :=
  (* let mut cursor = buf.get_cursor(); let num = int.parse(buf)?; *)
  bind (integer s c) (fun num c1 =>
    let num := lv_val num in
    if negb ((num =? 0)%Z || int_is_usize num)
    then setc s c (fun c' => PErr EGuard c')                (* buf.set_cursor_unsafe(cursor) *)
    else
    bind (ws_eol true s c1) (fun _ c2 =>                    (* ws.parse(buf)?; cursor = get_cursor() *)
    bind (integer s c2) (fun gen c3 =>
      let gen := lv_val gen in
      if negb ((gen =? 0)%Z || int_is_usize gen)
      then setc s c2 (fun c' => PErr EGuard c')
      else
      bind (ws_eol true s c3) (fun _ c4 =>
      match exact kw_R s c4 with
      | None => PErr EGuard c4                              (* e.place(err): cursor unmoved by exact *)
      | Some c5 =>
        match usize_N num, usize_N gen with                 (* usize_val(): unwrap *)
        | Some n, Some g => POk (ORef n g) c5
        | _, _ => PPanic
        end
      end)))).

(* ================================================================== budget form *)
Section Budget.
  Variable rel : bool.
  (* parse_pdf_obj at the nested depth *)
  Variable rec : bytes -> nat -> pres (lv obj).

  (* ArrayP::parse — the `while !end` loop *)
  Fixpoint array_loop (fuel : nat) (s : bytes) (c : nat) (objs : list obj) : pres (list obj) :=
    match fuel with
    | O => PFuel
    | S f =>
      bind (ws_eol true s c) (fun _ c1 =>                   (* ws.parse(buf)? *)
      match exact kw_rbrack s c1 with
      | Some c2 => POk objs c2                              (* end = true *)
      | None =>
        bind (rec s c1) (fun o c2 =>                        (* parse_pdf_obj(self.ctxt, buf)? *)
          array_loop f s c2 (objs ++ [lv_val o]))
      end)
    end.

  Definition array_p (s : bytes) (c : nat) : pres obj :=
    match exact kw_lbrack s c with
    | None => PErr EGuard c                                 (* "not at array object", cursor unmoved *)
    | Some c1 => bind (array_loop (S (len s)) s c1 []) (fun objs c2 => POk (OArr objs) c2)
    end.

  (* DictP::parse — the loop; [map] is the BTreeMap, [names] the HashSet of keys already bound *)
  Fixpoint dict_loop (fuel : nat) (s : bytes) (c : nat) (map : list (bytes * obj)) (names : list bytes)
    : pres (list (bytes * obj)) :=
    match fuel with
    | O => PFuel
    | S f =>
      bind (ws_eol true s c) (fun _ c1 =>
      match exact kw_rdict s c1 with
      | Some c2 => POk map c2
      | None =>
        bind (name s c1) (fun n c2 =>                       (* NameP.parse(buf)? *)
          let key := lv_val n in                            (* normalize() = clone *)
          if existsb (bytes_eqb key) names
          then PErr EGuard c2                               (* non-unique key: n.place(err); cursor after the name *)
          else
          bind (ws_eol true s c2) (fun _ c3 =>
          bind (rec s c3) (fun o c4 =>
            match lv_val o with
            | ONull => dict_loop f s c4 map names           (* entry dropped *)
            | v => dict_loop f s c4 (fst (dict_insert key v map)) (key :: names)
            end)))
      end)
    end.

  Definition dict_p (s : bytes) (c : nat) : pres obj :=
    match exact kw_ldict s c with
    | None => PErr EGuard c                                 (* buf.exact(b"<<")? *)
    | Some c1 => bind (dict_loop (S (len s)) s c1 [] []) (fun m c2 => POk (ODict m) c2)
    end.

  (* the `Some(b)` arm of PDFObjP::parse_internal after the digit / '-' / '+' / '.' test:
     RealP, is_integer, then the look-ahead  ws+ IntegerP ws+ "R"  with its rewinds *)
  Definition number_or_ref (s : bytes) (c : nat) : pres obj :=
    bind (real s c) (fun r c1 =>                            (* real.parse(buf)? *)
      let r := lv_val r in
      if negb (real_is_integer r) then POk (OReal (fst r) (snd r)) c1
      else
      match real_numerator r with                           (* IntegerT::new(r.val().numerator()): unwrap *)
      | None => PPanic
      | Some n1 =>
        let back := setc s c1 (fun c' => POk (OInt n1) c') in   (* set_cursor_unsafe(n1_end_cursor); Ok(Integer(n1)) *)
        match ws_eol false s c1 with                        (* ws.parse(buf).is_err() *)
        | PErr _ _ => back
        | PPanic => PPanic
        | PFuel => PFuel
        | POk _ c2 =>
          match integer s c2 with                           (* n2.is_err() *)
          | PErr _ _ => back
          | PPanic => PPanic
          | PFuel => PFuel
          | POk _ c3 =>
            match ws_eol false s c3 with
            | PErr _ _ => back
            | PPanic => PPanic
            | PFuel => PFuel
            | POk _ c4 =>
              if check_prefix kw_R s c4                     (* never an Err *)
              then setc s c (fun c' => reference s c')      (* rewind to the start; ReferenceP.parse(buf)? *)
              else back
            end
          end
        end
      end).

  (* PDFObjP::parse_internal *)
  Definition parse_internal (s : bytes) (c : nat) : pres obj :=
    match peek s c with
    | None => PErr EEndOfBuffer c
    | Some b =>
      if (N.eqb b 116 || N.eqb b 102)%bool then             (* 't' | 'f' *)
        bind (boolean s c) (fun v c1 => POk (OBool (lv_val v)) c1)
      else if N.eqb b 110 then                              (* 'n' *)
        bind (null s c) (fun _ c1 => POk ONull c1)
      else if N.eqb b 40 then                               (* '(' *)
        bind (lit_string rel s c) (fun v c1 => POk (OStr (lv_val v)) c1)
      else if N.eqb b 37 then                               (* '%' *)
        bind (comment s c) (fun v c1 => POk (OComment (lv_val v)) c1)
      else if N.eqb b 47 then                               (* '/' *)
        bind (name s c) (fun v c1 => POk (OName (lv_val v)) c1)
      else if N.eqb b 91 then                               (* '[' *)
        array_p s c
      else if N.eqb b 60 then                               (* '<': peek one ahead *)
        incr s c (fun c1 =>
          let next := peek s c1 in
          setc s c (fun c' =>
            match next with
            | Some 60%N => dict_p s c'
            | _ => bind (hexstring s c') (fun v c2 => POk (OStr (lv_val v)) c2)
            end))
      else if (negb (is_digit_b b) && negb (N.eqb b 45) && negb (N.eqb b 43) && negb (N.eqb b 46))%bool then
        PErr EGuard c                                       (* "not at PDF object"; '+' admitted since repo commit 8188ffd *)
      else number_or_ref s c
    end.

  (* impl ParsleyParser for PDFObjP: leading whitespace, then the located value *)
  Definition pdfobj_p (s : bytes) (c : nat) : pres (lv obj) :=
    bind (ws_eol true s c) (fun _ start =>
    bind (parse_internal s start) (fun v e => POk (v, start, e) e)).
End Budget.

(* parse_pdf_obj with  b = max_depth - cur_depth  levels left *)
Fixpoint parse_obj (rel : bool) (b : nat) (s : bytes) (c : nat) {struct b} : pres (lv obj) :=
  match b with
  | O => PErr EGuard c                                      (* enter_obj() = false: "max recursion bound exceeded" *)
  | S b' => pdfobj_p rel (parse_obj rel b') s c             (* … ctxt.leave_obj(); o *)
  end.

(* ================================================================== counter form *)
Section Counter.
  Variable rel : bool.
  (* parse_pdf_obj(ctxt, buf): buffer, cursor, ctxt.cur_depth ⇒ outcome, ctxt.cur_depth *)
  Variable rec : bytes -> nat -> nat -> pres (lv obj) * nat.

  Fixpoint array_loop_st (fuel : nat) (s : bytes) (c : nat) (objs : list obj) (cur : nat)
    : pres (list obj) * nat :=
    match fuel with
    | O => (PFuel, cur)
    | S f =>
      match ws_eol true s c with
      | POk _ c1 =>
        match exact kw_rbrack s c1 with
        | Some c2 => (POk objs c2, cur)
        | None =>
          match rec s c1 cur with
          | (POk o c2, cur') => array_loop_st f s c2 (objs ++ [lv_val o]) cur'
          | (PErr e c', cur') => (PErr e c', cur')
          | (PPanic, cur') => (PPanic, cur')
          | (PFuel, cur') => (PFuel, cur')
          end
        end
      | PErr e c' => (PErr e c', cur)
      | PPanic => (PPanic, cur)
      | PFuel => (PFuel, cur)
      end
    end.

  Definition array_p_st (s : bytes) (c cur : nat) : pres obj * nat :=
    match exact kw_lbrack s c with
    | None => (PErr EGuard c, cur)
    | Some c1 =>
      let '(r, cur') := array_loop_st (S (len s)) s c1 [] cur in
      (bind r (fun objs c2 => POk (OArr objs) c2), cur')
    end.

  Fixpoint dict_loop_st (fuel : nat) (s : bytes) (c : nat) (map : list (bytes * obj)) (names : list bytes)
           (cur : nat) : pres (list (bytes * obj)) * nat :=
    match fuel with
    | O => (PFuel, cur)
    | S f =>
      match ws_eol true s c with
      | POk _ c1 =>
        match exact kw_rdict s c1 with
        | Some c2 => (POk map c2, cur)
        | None =>
          match name s c1 with
          | POk n c2 =>
            let key := lv_val n in
            if existsb (bytes_eqb key) names then (PErr EGuard c2, cur)
            else
            match ws_eol true s c2 with
            | POk _ c3 =>
              match rec s c3 cur with
              | (POk o c4, cur') =>
                match lv_val o with
                | ONull => dict_loop_st f s c4 map names cur'
                | v => dict_loop_st f s c4 (fst (dict_insert key v map)) (key :: names) cur'
                end
              | (PErr e c', cur') => (PErr e c', cur')
              | (PPanic, cur') => (PPanic, cur')
              | (PFuel, cur') => (PFuel, cur')
              end
            | PErr e c' => (PErr e c', cur)
            | PPanic => (PPanic, cur)
            | PFuel => (PFuel, cur)
            end
          | PErr e c' => (PErr e c', cur)
          | PPanic => (PPanic, cur)
          | PFuel => (PFuel, cur)
          end
        end
      | PErr e c' => (PErr e c', cur)
      | PPanic => (PPanic, cur)
      | PFuel => (PFuel, cur)
      end
    end.

  Definition dict_p_st (s : bytes) (c cur : nat) : pres obj * nat :=
    match exact kw_ldict s c with
    | None => (PErr EGuard c, cur)
    | Some c1 =>
      let '(r, cur') := dict_loop_st (S (len s)) s c1 [] [] cur in
      (bind r (fun m c2 => POk (ODict m) c2), cur')
    end.

  (* the arms that do not touch the context are shared with the budget form through a [rec]
     that is never called: only '[' and '<<' reach ArrayP / DictP *)
  Definition parse_internal_st (s : bytes) (c cur : nat) : pres obj * nat :=
    match peek s c with
    | None => (PErr EEndOfBuffer c, cur)
    | Some b =>
      if (N.eqb b 116 || N.eqb b 102)%bool then
        (bind (boolean s c) (fun v c1 => POk (OBool (lv_val v)) c1), cur)
      else if N.eqb b 110 then
        (bind (null s c) (fun _ c1 => POk ONull c1), cur)
      else if N.eqb b 40 then
        (bind (lit_string rel s c) (fun v c1 => POk (OStr (lv_val v)) c1), cur)
      else if N.eqb b 37 then
        (bind (comment s c) (fun v c1 => POk (OComment (lv_val v)) c1), cur)
      else if N.eqb b 47 then
        (bind (name s c) (fun v c1 => POk (OName (lv_val v)) c1), cur)
      else if N.eqb b 91 then
        array_p_st s c cur
      else if N.eqb b 60 then
        if Nat.ltb c (len s) then                            (* incr_cursor_unsafe *)
          let next := peek s (S c) in
          if Nat.leb c (len s) then                          (* set_cursor_unsafe(cursor) *)
            match next with
            | Some 60%N => dict_p_st s c cur
            | _ => (bind (hexstring s c) (fun v c2 => POk (OStr (lv_val v)) c2), cur)
            end
          else (PPanic, cur)
        else (PPanic, cur)
      else if (negb (is_digit_b b) && negb (N.eqb b 45) && negb (N.eqb b 43) && negb (N.eqb b 46))%bool then
        (PErr EGuard c, cur)
      else (number_or_ref s c, cur)
    end.

  Definition pdfobj_p_st (s : bytes) (c cur : nat) : pres (lv obj) * nat :=
    match ws_eol true s c with
    | POk _ start =>
      let '(r, cur') := parse_internal_st s start cur in
      (bind r (fun v e => POk (v, start, e) e), cur')
    | PErr e c' => (PErr e c', cur)
    | PPanic => (PPanic, cur)
    | PFuel => (PFuel, cur)
    end.
End Counter.

Fixpoint parse_obj_st (rel : bool) (fuel max : nat) (s : bytes) (c cur : nat) {struct fuel}
  : pres (lv obj) * nat :=
  match fuel with
  | O => (PFuel, cur)
  | S f =>
    if Nat.eqb cur max then (PErr EGuard c, cur)            (* enter_obj(): cur_depth == max_depth ⇒ false *)
    else
      let '(r, cur1) := pdfobj_p_st rel (parse_obj_st rel f max) s c (S cur) in   (* cur_depth += 1; p.parse(buf) *)
      match cur1 with                                       (* leave_obj(): assert!(cur_depth != 0); -= 1 *)
      | O => (PPanic, cur1)
      | S cur2 => (r, cur2)
      end
  end.

(* ================================================================== IndirectP *)
(* what parse_pdf_indirect_obj returns: IndirectT { num, gen, obj } with the location of obj and,
   for a stream, StreamContentT.start / .size *)
Record indirect := mkInd {
  i_num : N; i_gen : N; i_obj : obj; i_ostart : nat; i_oend : nat; i_stream : option (nat * nat) }.

(* convert_stream_length; the cursor is not touched *)
Definition convert_stream_length (o : obj) : option Z :=
  match o with
  | OInt i => if int_is_usize i then Some i else None       (* "unsupported Length" *)
  | _ => None                                               (* "invalid Length" *)
  end.

(* the `let length = match dict.get(b"Length")` block: Ok(length) | Err(kind) *)
Definition stream_length (ctx : octx) (d : list (bytes * obj)) : res Z :=
  match dict_get d key_Length with
  | None => Err EGuard                                      (* "no Length specified for stream" *)
  | Some (OInt i) =>
    match convert_stream_length (OInt i) with Some l => Ok l | None => Err EGuard end
  | Some (ORef n g) =>
    match octx_get ctx (n, g) with                          (* self.ctxt.lookup_obj(r.id()) *)
    | Some o => match convert_stream_length o with Some l => Ok l | None => Err EGuard end
    | None => Err EInsufficientContext
    end
  | Some _ => Err EGuard                                    (* "invalid Length specified for stream" *)
  end.

(* usize → nat for StreamContentP::new(length, …).  Lengths above the buffer size all behave
   alike (extract fails with EndOfBuffer — Proofs/ObjStream.v, stream_content_clamp), so the value
   is clamped to [S (len s)] to keep the unary [nat] small in the extracted program. *)
Definition clamp_len (s : bytes) (l : Z) : nat := Z.to_nat (Z.min l (Z.of_nat (S (len s)))).

(* after a dictionary [d] (located [os, oe)) has been parsed and whitespace skipped, cursor [c]
   at the `stream` keyword: length lookup, StreamContentP *)
Definition stream_tail (ctx : octx) (d : list (bytes * obj)) (os : nat) (s : bytes) (c : nat)
  : pres (obj * nat * nat * option (nat * nat)) :=
  match stream_length ctx d with
  | Err k => PErr k c
  | Panic => PPanic
  | Fuel => PFuel
  | Ok l =>
    (* self.ctxt.eol_after_stream_content is false: set in new(), no setter *)
    bind (stream_content (clamp_len s l) false s c) (fun st c1 =>
      let '(x, _, send) := st in
      let '(sstart, ssize, content) := x in
      POk (OStream d content, os, send, Some (sstart, ssize)) c1)
  end.

(* the `let obj = if let PDFObjT::Dict(_) = o.val() { … } else { o }` block *)
Definition maybe_stream (ctx : octx) (o : lv obj) (s : bytes) (c : nat)
  : pres (obj * nat * nat * option (nat * nat)) :=
  let '(v, os, oe) := o in
  match v with
  | ODict d =>
    bind (ws_eol true s c) (fun _ c1 =>
      if check_prefix kw_stream s c1 then stream_tail ctx d os s c1
      else POk (v, os, oe, None) c1)
  | _ => POk (v, os, oe, None) c
  end.

(* IndirectP::parse_internal, cut in two at the point where the object has been parsed.
   [b] = levels left in the context (max_depth - cur_depth).
   First half: `num gen obj` and the object; yields (num, gen, located object). *)
Definition indirect_head (rel : bool) (b : nat) (s : bytes) (c : nat) : pres (Z * Z * lv obj) :=
  bind (integer s c) (fun num c1 =>
    let num := lv_val num in
    if negb (int_is_usize num) then setc s c (fun c' => PErr EGuard c')
    else
    bind (ws_eol true s c1) (fun _ c2 =>
    bind (integer s c2) (fun gen c3 =>
      let gen := lv_val gen in
      if negb ((gen =? 0)%Z || int_is_usize gen) then setc s c2 (fun c' => PErr EGuard c')
      else
      bind (ws_eol true s c3) (fun _ c4 =>
      match exact kw_obj s c4 with
      | None => PErr EGuard c4                              (* "invalid object tag" *)
      | Some c5 =>
        bind (ws_eol true s c5) (fun _ c6 =>
        bind (parse_obj rel b s c6) (fun o c7 =>            (* parse_pdf_obj(self.ctxt, buf)? *)
          POk (num, gen, o) c7))
      end)))).

(* second half: stream detection, endobj, registration; [start] is the cursor at `num` *)
Definition indirect_tail (ctx : octx) (start : nat) (num gen : Z) (o : lv obj) (s : bytes) (c : nat)
  : pres (lv indirect) :=
  bind (maybe_stream ctx o s c) (fun ob c8 =>
    let '(v, os, oe, strm) := ob in
    bind (ws_eol true s c8) (fun _ c9 =>
    match exact kw_endobj s c9 with
    | None => PErr EGuard c9                                (* "invalid endobject tag" *)
    | Some c10 =>
      match usize_N num, usize_N gen with                   (* usize_val(): unwrap *)
      | Some n, Some g =>
        match octx_get ctx (n, g) with                      (* self.ctxt.register_obj(&ind): Some(old) iff already defined *)
        | None => POk (mkInd n g v os oe strm, start, c10) c10
        | Some _ => PErr EGuard c10                         (* "non-unique object id" *)
        end
      | _, _ => PPanic
      end
    end)).

Definition indirect_internal (rel : bool) (b : nat) (ctx : octx) (s : bytes) (c : nat) : pres (lv indirect) :=
  bind (indirect_head rel b s c) (fun h c7 =>
    let '(num, gen, o) := h in indirect_tail ctx c num gen o s c7).

(* impl ParsleyParser for IndirectP / parse_pdf_indirect_obj *)
Definition indirect_p (rel : bool) (b : nat) (ctx : octx) (s : bytes) (c : nat) : pres (lv indirect) :=
  bind (ws_eol true s c) (fun _ c0 => indirect_internal rel b ctx s c0).

(* ================================================================== case protocol
   obj  <max_depth> <pre_entered> <hexbuf>          counter form, ctxt.depth() printed as d<n>
   deep <max_depth> <pre_entered> <kind> <n>        generated deep input (see harness/src/bin/c16.rs)
   ind  <max_depth> <ctx> <hexbuf>                  parse_pdf_indirect_obj on a fresh context + ctx *)
Definition show_lvobj (x : lv obj) : bytes :=
  let '(v, a, b) := x in show_obj v ++ B " " ++ show_nat a ++ B " " ++ show_nat b.

Definition run_obj (d k : nat) (s : bytes) : bytes :=
  if Nat.ltb d k then B "badcase"
  else
    let '(r, cur) := parse_obj_st false (S d) d s 0 k in
    show_pres show_lvobj r ++
    match r with POk _ _ | PErr _ _ => B " d" ++ show_nat cur | _ => [] end.

Fixpoint rep {A} (n : nat) (x : list A) (tail : list A) : list A :=
  match n with O => tail | S n' => x ++ rep n' x tail end.
Fixpoint rep_alt (n : nat) (x y : bytes) : bytes :=
  match n with O => [] | S n' => x ++ rep_alt n' y x end.

Definition deep_buf (kind : bytes) (n : nat) : option bytes :=
  if bytes_eqb kind (B "a") then Some (rep n kw_lbrack [])
  else if bytes_eqb kind (B "A") then Some (rep n kw_lbrack (rep n kw_rbrack []))
  else if bytes_eqb kind (B "d") then Some (rep n (B "<</a") [])
  else if bytes_eqb kind (B "D") then Some (rep n (B "<</a") (rep n kw_rdict []))
  else if bytes_eqb kind (B "m") then Some (rep_alt n kw_lbrack (B "<</a"))
  else None.

(* "num.gen=obj;num.gen=obj": register_obj keeps the FIRST definition of an id (repo commit f218988) and
   octx_get returns the first match, so entries are appended *)
Fixpoint split_on (sep : N) (s : bytes) (cur : bytes) : list bytes :=
  match s with
  | [] => [rev cur]
  | x :: r => if N.eqb x sep then rev cur :: split_on sep r [] else split_on sep r (x :: cur)
  end.

Definition read_ctx (t : bytes) : option octx :=
  if bytes_eqb t (B "-") then Some []
  else
    fold_left (fun acc part =>
      match acc with
      | None => None
      | Some ctx =>
        match split_on 61 part [] with                      (* '=' *)
        | [id; o] =>
          match split_on 46 id [], read_obj_tok o with      (* '.' *)
          | [n; g], Some v => Some (ctx ++ [((parse_N n, parse_N g), v)])
          | _, _ => None
          end
        | _ => None
        end
      end) (split_on 59 t []) (Some []).                    (* ';' *)

Definition show_ind (x : lv indirect) : bytes :=
  let '(i, a, b) := x in
  show_N (i_num i) ++ B "." ++ show_N (i_gen i) ++ B " " ++ show_obj (i_obj i) ++ B " " ++
  show_nat a ++ B " " ++ show_nat b ++ B " " ++ show_nat (i_ostart i) ++ B " " ++ show_nat (i_oend i) ++ B " " ++
  match i_stream i with
  | Some (st, sz) => show_nat st ++ B " " ++ show_nat sz
  | None => B "- -"
  end.

Definition run_ind (d : nat) (ctx : octx) (s : bytes) : bytes :=
  let r := indirect_p false d ctx s 0 in
  show_pres show_ind r ++ match r with POk _ _ | PErr _ _ => B " d0" | _ => [] end.

Definition entry (args : list bytes) : bytes :=
  let kind := nth_arg args 0 in
  let d := parse_nat (nth_arg args 1) in
  if bytes_eqb kind (B "obj") then
    run_obj d (parse_nat (nth_arg args 2)) (unhex (nth_arg args 3))
  else if bytes_eqb kind (B "deep") then
    match deep_buf (nth_arg args 3) (parse_nat (nth_arg args 4)) with
    | Some s => run_obj d (parse_nat (nth_arg args 2)) s
    | None => B "badcase"
    end
  else if bytes_eqb kind (B "ind") then
    match read_ctx (nth_arg args 2) with
    | Some ctx => run_ind d ctx (unhex (nth_arg args 3))
    | None => B "badcase"
    end
  else B "badcase".
