(* Model/XrefStm.v — transcription of src/pdf_lib/pdf_streams.rs XrefStreamP: get_dict_info
   (validation of /Type /Size /Index /W and of the filter declaration, StreamT::filters in
   pdf_obj.rs), parse_usize_with_width, parse_stream (row decoding, type defaulting, numbering)
   and parse.  The stream dictionary is a canonical object (Base/PdfObj.v).  The filter decoders
   themselves are another property (C06/C07): when the dictionary declares filters the case
   supplies the decoded bytes and the model parses those, as the code parses the decoder output.
   Definitions only. *)
From PV Require Import Model.Prim.
From PV Require Export Model.XrefTab.

Definition dict := list (bytes * obj).

(* DictT conveniences (pdf_obj.rs) *)
Definition get_usize (d : dict) (k : bytes) : option N :=
  match dict_get d k with
  | Some (OInt z) => if int_is_usize z then Some (Z.to_N z) else None
  | _ => None
  end.
Definition get_name (d : dict) (k : bytes) : option bytes :=
  match dict_get d k with Some (OName n) => Some n | _ => None end.
Definition get_array (d : dict) (k : bytes) : option (list obj) :=
  match dict_get d k with Some (OArr a) => Some a | _ => None end.
Definition get_dict (d : dict) (k : bytes) : option dict :=
  match dict_get d k with Some (ODict x) => Some x | _ => None end.

(* StreamT::filters: every failure is a GuardError *)
Definition filter_t := (bytes * option dict)%type.

Fixpoint filters_zip (fa da : list obj) : res (list filter_t) :=
  match fa, da with
  | f :: fa', p :: da' =>
    match f, p with
    | OName n, ONull => match filters_zip fa' da' with Ok l => Ok ((n, None) :: l) | r => r end
    | OName n, ODict x => match filters_zip fa' da' with Ok l => Ok ((n, Some x) :: l) | r => r end
    | _, _ => Err EGuard
    end
  | _, _ => Ok []
  end.

Fixpoint filters_names (fa : list obj) : res (list filter_t) :=
  match fa with
  | [] => Ok []
  | OName n :: r => match filters_names r with Ok l => Ok ((n, None) :: l) | e => e end
  | _ :: _ => Err EGuard
  end.

Definition stream_filters (d : dict) : res (list filter_t) :=
  match get_name d (B "Filter") with
  | Some name =>
    match get_dict d (B "DecodeParms") with
    | Some p => Ok [(name, Some p)]
    | None =>
      match get_array d (B "DecodeParms") with
      | Some _ => Err EGuard
      | None => Ok [(name, None)]
      end
    end
  | None =>
    match get_array d (B "Filter") with
    | Some fa =>
      match get_array d (B "DecodeParms") with
      | Some da => if negb (Nat.eqb (len da) (len fa)) then Err EGuard else filters_zip fa da
      | None => filters_names fa
      end
    | None => Ok []
    end
  end.

Record xinfo := mk_xinfo {
  xi_size : N;
  xi_index : option (list (N * N));
  xi_w : N * N * N;
  xi_filters : list filter_t }.

(* the (s, c) pairs of /Index: objs().iter().step_by(2) zipped with skip(1).step_by(2) *)
Fixpoint index_pairs (l : list obj) : res (list (N * N)) :=
  match l with
  | s :: c :: r =>
    match s, c with
    | OInt sv, OInt cv =>
      if negb (int_is_usize sv) then Err EGuard
      else if negb (int_is_usize cv) then Err EGuard
      else match index_pairs r with Ok l' => Ok ((Z.to_N sv, Z.to_N cv) :: l') | e => e end
    | _, _ => Err EGuard
    end
  | _ => Ok []
  end.

Fixpoint w_fields (l : list obj) : res (list N) :=
  match l with
  | [] => Ok []
  | OInt i :: r =>
    if negb (int_is_usize i) then Err EGuard
    else if (xrefstm_width_max <? Z.to_N i)%N then Err EGuard
    else match w_fields r with Ok l' => Ok (Z.to_N i :: l') | e => e end
  | _ :: _ => Err EGuard
  end.

(* XrefStreamP::get_dict_info *)
Definition get_dict_info (d : dict) : res xinfo :=
  match get_name d (B "Type") with
  | None => Err EGuard
  | Some t =>
    if negb (bytes_eqb t (B "XRef")) then Err EGuard
    else
      match get_usize d (B "Size") with
      | None => Err EGuard
      | Some size =>
        let index :=
          match get_array d (B "Index") with
          | Some i =>
            if negb (Nat.eqb (Nat.modulo (len i) 2) 0) then Err EGuard
            else match index_pairs i with Ok l => Ok (Some l) | Err k => Err k | Panic => Panic | Fuel => Fuel end
          | None => Ok None
          end in
        match index with
        | Ok index =>
          match get_array d (B "W") with
          | None => Err EGuard
          | Some w =>
            if negb (Nat.eqb (len w) 3) then Err EGuard
            else match w_fields w with
                 | Ok [w0; w1; w2] =>
                   if N.eqb w1 0 then Err EGuard
                   else match stream_filters d with
                        | Ok fl => Ok (mk_xinfo size index (w0, w1, w2) fl)
                        | Err k => Err k | Panic => Panic | Fuel => Fuel
                        end
                 | Ok _ => Panic                      (* w_array[0..2] of a 3-element Vec: not reached *)
                 | Err k => Err k | Panic => Panic | Fuel => Fuel
                 end
          end
        | Err k => Err k | Panic => Panic | Fuel => Fuel
        end
      end
  end.

(* parse_usize_with_width: val = (val << 8) | byte, [width] times; EndOfBuffer located at the
   cursor reached (nothing is restored).  usize shift: bits shifted out are lost. *)
Fixpoint usize_w (width : nat) (val : N) (s : bytes) (c : nat) : pres N :=
  match width with
  | O => POk val c
  | S w =>
    match peek s c with
    | None => PErr EEndOfBuffer c
    | Some b => incr s c (fun c1 => usize_w w (N.lor ((val * 256) mod usize_lim) b) s c1)
    end
  end.

(* one row of parse_stream *)
Definition xrow (ws : N * N * N) (obj : N) (s : bytes) (c : nat) : pres xent :=
  let '(w0, w1, w2) := ws in
  let k (typ : N) (c1 : nat) : pres xent :=
    match usize_w (N.to_nat w1) 0 s c1 with
    | POk f2 c2 =>
      let k3 (f3 : N) (c3 : nat) : pres xent :=
        if N.eqb typ 0 then POk (mk_xent obj f3 (XFree f2)) c3
        else if N.eqb typ 1 then POk (mk_xent obj f3 (XInUse f2)) c3
        else if N.eqb typ 2 then POk (mk_xent obj 0 (XInStream f2 f3)) c3
        else PPanic in
      if N.ltb 0 w2 then
        match usize_w (N.to_nat w2) 0 s c2 with
        | POk f3 c3 => k3 f3 c3
        | PErr e c' => PErr e c'
        | PPanic => PPanic
        | PFuel => PFuel
        end
      else k3 0%N c2
    | PErr e c' => PErr e c'
    | PPanic => PPanic
    | PFuel => PFuel
    end in
  if N.eqb w0 0 then k xrefstm_default_type c
  else match usize_w (N.to_nat w0) 0 s c with
       | POk f c1 => if (xrefstm_type_max <? f)%N then PErr EGuard c1 else k f c1
       | PErr e c' => PErr e c'
       | PPanic => PPanic
       | PFuel => PFuel
       end.

(* for c in 0 .. count { … XrefEntT::new(start_obj + c, …) }: [obj] = start_obj + c.
   Fuel: a row consumes >= 1 byte (w1 >= 1). *)
Fixpoint xrows (fuel : nat) (ws : N * N * N) (obj cnt : N) (s : bytes) (c : nat) : pres (list xent) :=
  if N.eqb cnt 0 then POk [] c
  else match fuel with
       | O => PFuel
       | S f =>
         if (usize_lim <=? obj)%N then PPanic
         else match xrow ws obj s c with
              | POk e c1 =>
                match xrows f ws (obj + 1) (cnt - 1) s c1 with
                | POk l c2 => POk (e :: l) c2
                | r => r
                end
              | PErr k c' => PErr k c'
              | PPanic => PPanic
              | PFuel => PFuel
              end
       end.

Fixpoint xsections (ws : N * N * N) (index : list (N * N)) (s : bytes) (c : nat) : pres (list xent) :=
  match index with
  | [] => POk [] c
  | (start_obj, count) :: r =>
    match xrows (S (len s)) ws start_obj count s c with
    | POk l c1 =>
      match xsections ws r s c1 with
      | POk l' c2 => POk (l ++ l') c2
      | e => e
      end
    | e => e
    end
  end.

Definition parse_xstream (m : xinfo) (s : bytes) (c : nat) : pres (list xent) :=
  let index := match xi_index m with Some i => i | None => [(0%N, xi_size m)] end in
  xsections (xi_w m) index s c.

Definition supported_filters : list bytes :=
  [B "FlateDecode"; B "ASCII85Decode"; B "ASCIIHexDecode"; B "DCTDecode"].

(* XrefStreamP::parse on the buffer (content, c); [decoded] = output of the declared filter chain
   (supplied by the case; ignored when no filter is declared).  The result is located [c, end) where end is the
   cursor of the buffer that was parsed (the decoder output when filters are declared); the last
   component is the cursor of the caller's buffer, which only moves when there is no filter. *)
Inductive xsres :=
| XSOk (l : list xent) (a b : nat) (cur : nat)
| XSErr (k : ekind) (cur : nat)
| XSPanic | XSFuel.

Definition xrefstm_parse (enc : bool) (d : dict) (content : bytes) (decoded : bytes) (c : nat) : xsres :=
  match get_dict_info d with
  | Err k => XSErr k c
  | Panic => XSPanic
  | Fuel => XSFuel
  | Ok m =>
    if enc then XSErr EGuard c
    else if negb (forallb (fun f => existsb (bytes_eqb (fst f)) supported_filters) (xi_filters m))
    then XSErr EGuard c
    else match xi_filters m with
         | [] =>
           match parse_xstream m content c with
           | POk l c1 => XSOk l c c1 c1
           | PErr k c1 => XSErr k c1
           | PPanic => XSPanic
           | PFuel => XSFuel
           end
         | _ =>
           match parse_xstream m decoded 0 with
           | POk l c1 => XSOk l c c1 c
           | PErr k _ => XSErr k c
           | PPanic => XSPanic
           | PFuel => XSFuel
           end
         end
  end.

Definition show_xsres (r : xsres) : bytes :=
  match r with
  | XSOk l a b cur => B "ok " ++ show_list show_xent l ++ B " " ++ show_nat a ++ B " " ++ show_nat b ++ B " @" ++ show_nat cur
  | XSErr k cur => B "err " ++ show_ekind k ++ B " @" ++ show_nat cur
  | XSPanic => B "panic"
  | XSFuel => B "fuel"
  end.

(* case: stm <enc 0|1> <S(D(…),hexcontent)> <hex of the decoder output> *)
Definition run_stm (args : list bytes) : bytes :=
  let enc := bytes_eqb (nth_arg args 1) (B "1") in
  match read_obj_tok (nth_arg args 2) with
  | Some (OStream d content) =>
    let dec := if bytes_eqb (nth_arg args 3) (B "-") then [] else unhex (nth_arg args 3) in
    show_xsres (xrefstm_parse enc d content dec 0)
  | _ => B "badcase"
  end.

Definition entry (args : list bytes) : bytes :=
  let kind := nth_arg args 0 in
  if bytes_eqb kind (B "tab") then run_tab args
  else if bytes_eqb kind (B "stm") then run_stm args
  else B "badcase".
