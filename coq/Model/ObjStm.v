(* Model/ObjStm.v — transcription of src/pdf_lib/pdf_streams.rs ObjStreamP (get_dict_info,
   parse_metadata, parse_stream, parse with its two views) and PDFObjContext::register_obj
   (pdf_obj.rs), on top of the object parser of Model/Obj.v ([parse_obj], budget form:
   b = max_depth - cur_depth) and the token parsers of Model/Prim.v.  The stream dictionary is a
   canonical object; filter decoding is another property (C06/C07): when the dictionary declares
   filters the case supplies the decoder output.  Definitions only.

   The object context is an association list id ↦ object; [lookup] = PDFObjContext::lookup_obj.
   The parser is always run on a whole buffer with the cursor at 0 (RestrictView /
   RestrictViewFrom are relative to the start of the buffer, not to the cursor). *)
From PV Require Import Model.Prim Model.Obj.
From PV Require Export Model.XrefStm.

(* ---------- PDFObjContext ---------- *)
Definition id_eqb (a b : N * N) : bool := N.eqb (fst a) (fst b) && N.eqb (snd a) (snd b).

Definition lookup (ctx : octx) (id : N * N) : option obj := octx_get ctx id.

Fixpoint ctx_set (ctx : octx) (id : N * N) (v : obj) : octx :=
  match ctx with
  | [] => [(id, v)]
  | (k, o) :: r => if id_eqb k id then (k, v) :: r else (k, o) :: ctx_set r id v
  end.

(* register_obj: returns the previous definition, if any (None = newly defined) *)
Definition register_obj (ctx : octx) (id : N * N) (v : obj) : octx * option obj :=
  match lookup ctx id with
  | Some old => (ctx, Some old)                 (* f218988: an existing definition is kept *)
  | None => (ctx_set ctx id v, None)
  end.

(* ---------- ObjStreamP::get_dict_info ---------- *)
Definition os_dict_info (d : dict) : res (N * N) :=
  match get_name d (B "Type") with
  | None => Err EGuard
  | Some t =>
    if negb (bytes_eqb t (B "ObjStm")) then Err EGuard
    else match get_usize d (B "N") with
         | None => Err EGuard
         | Some n =>
           match get_usize d (B "First") with
           | None => Err EGuard
           | Some first => Ok (n, first)
           end
         end
  end.

(* ---------- parse_metadata: n (object#, offset) pairs, offsets strictly increasing ----------
   Fuel: every iteration consumes >= 2 bytes. *)
Fixpoint os_meta (fuel : nat) (n : N) (s : bytes) (c : nat) (last_ofs : N) (acc : list (N * N))
  : pres (list (N * N)) :=
  match fuel with
  | O => PFuel
  | S f =>
    bind (ws_eol true s c) (fun _ c1 =>
    bind (integer s c1) (fun obj c2 =>
      let obj := lv_val obj in
      if negb (int_is_usize obj) then setc s c1 (fun c' => PErr EGuard c')
      else
      bind (ws_eol true s c2) (fun _ c3 =>
      bind (integer s c3) (fun ofs c4 =>
        let ofs := lv_val ofs in
        if negb (int_is_usize ofs) then setc s c3 (fun c' => PErr EGuard c')
        else
          let ofs_val := Z.to_N ofs in
          if (ofs_val <=? last_ofs)%N && negb (match acc with [] => true | _ => false end)
          then setc s c3 (fun c' => PErr EGuard c')
          else
            let acc' := acc ++ [(Z.to_N obj, ofs_val)] in
            if N.eqb (N.of_nat (len acc')) n then POk acc' c4
            else os_meta f n s c4 ofs_val acc'))))
  end.

(* ---------- parse_stream ---------- *)
(* one extracted object: identifier, value, location [start, end) in the content view *)
Definition osent := (N * obj * nat * nat)%type.

Section Content.
  Variable rel : bool.
  Variable b : nat.                     (* max_depth - cur_depth of the context *)

  Fixpoint os_objs (meta : list (N * N)) (s : bytes) (c : nat) (ctx : octx) : pres (list osent) * octx :=
    match meta with
    | [] => (POk [] c, ctx)
    | (onum, ofs) :: r =>
      (* Ensure we are not past the specified offset. *)
      if (ofs <? N.of_nat c)%N then (PErr EGuard c, ctx)
      else
        (* 681cda4: buf.set_cursor(ofs)? — the object is read at its declared offset *)
        (* set_cursor: start + ofs <= end, else EndOfBuffer with the cursor unmoved (compared in N:
           a huge declared offset is never converted to nat) *)
        if (N.of_nat (len s) <? ofs)%N then (PErr EEndOfBuffer c, ctx) else
        match set_cursor s c (N.to_nat ofs) with
        | PErr k c' => (PErr k c', ctx)
        | PPanic => (PPanic, ctx)
        | PFuel => (PFuel, ctx)
        | POk _ c0 =>
        match ws_eol true s c0 with
        | PErr k c' => (PErr k c', ctx)
        | PPanic => (PPanic, ctx)
        | PFuel => (PFuel, ctx)
        | POk _ c1 =>
          match parse_obj rel b s c1 with
          | PErr k c' => (PErr k c', ctx)
          | PPanic => (PPanic, ctx)
          | PFuel => (PFuel, ctx)
          | POk o c2 =>
            let v := lv_val o in
            match register_obj ctx (onum, 0%N) v with
            | (ctx', Some _) => (PErr EGuard c2, ctx')            (* "non-unique object id" *)
            | (ctx', None) =>
              match os_objs r s c2 ctx' with
              | (POk l c3, ctx'') => (POk ((onum, v, c1, c2) :: l) c3, ctx'')
              | (e, ctx'') => (e, ctx'')
              end
            end
          end
        end
        end
    end.
End Content.

(* ---------- ObjStreamP::parse ---------- *)
Inductive osres :=
| OSOk (l : list osent)
| OSErr (k : ekind)
| OSPanic | OSFuel.

Definition of_pres (r : pres (list osent)) : osres :=
  match r with POk l _ => OSOk l | PErr k _ => OSErr k | PPanic => OSPanic | PFuel => OSFuel end.

Definition objstm_parse (rel : bool) (b : nat) (enc : bool) (d : dict) (content decoded : bytes) (ctx : octx)
  : osres * octx :=
  match os_dict_info d with
  | Err k => (OSErr k, ctx) | Panic => (OSPanic, ctx) | Fuel => (OSFuel, ctx)
  | Ok (n, first) =>
    match stream_filters d with
    | Err k => (OSErr k, ctx) | Panic => (OSPanic, ctx) | Fuel => (OSFuel, ctx)
    | Ok fl =>
      if enc then (OSErr EGuard, ctx)
      else if negb (forallb (fun f => existsb (bytes_eqb (fst f)) supported_filters) fl) then (OSErr EGuard, ctx)
      else
        let buf := match fl with [] => content | _ => decoded end in
        (* RestrictView::new(0, first): start + size <= buf.size() *)
        if (N.of_nat (len buf) <? first)%N then (OSErr EGuard, ctx)
        else
          let md := firstn (N.to_nat first) buf in
          match os_meta (S (len md)) n md 0 0%N [] with
          | PErr k _ => (OSErr k, ctx) | PPanic => (OSPanic, ctx) | PFuel => (OSFuel, ctx)
          | POk meta _ =>
            (* RestrictViewFrom::new(first): start < buf.size() *)
            if (N.of_nat (len buf) <=? first)%N then (OSErr EGuard, ctx)
            else
              let ob := skipn (N.to_nat first) buf in
              let '(r, ctx') := os_objs rel b meta ob 0 ctx in (of_pres r, ctx')
          end
    end
  end.

(* ---------- observations ---------- *)
Definition show_osent (e : osent) : bytes :=
  let '(n, v, a, z) := e in
  show_N n ++ B ".0=" ++ show_obj v ++ B "@" ++ show_nat a ++ B "-" ++ show_nat z.

Definition show_osres (r : osres) : bytes :=
  match r with
  | OSOk l => B "ok " ++ show_list show_osent l
  | OSErr k => B "err " ++ show_ekind k
  | OSPanic => B "panic"
  | OSFuel => B "fuel"
  end.

(* queried identifiers "n.g,n.g" → "n.g=obj;n.g=-" *)
Definition show_query (ctx : octx) (q : bytes) : bytes :=
  if bytes_eqb q (B "-") then B "-"
  else intercalate (B ";")
    (List.map (fun part =>
       match split_on 46 part [] with
       | [n; g] => part ++ B "=" ++ match lookup ctx (parse_N n, parse_N g) with Some v => show_obj v | None => B "-" end
       | _ => B "?"
       end) (split_on 44 q [])).

(* case: os <max_depth> <enc 0|1> <ctx> <S(D(…),hexcontent)> <hex decoder output> <queries> *)
Definition entry (args : list bytes) : bytes :=
  if negb (bytes_eqb (nth_arg args 0) (B "os")) then B "badcase"
  else
    let depth := parse_nat (nth_arg args 1) in
    let enc := bytes_eqb (nth_arg args 2) (B "1") in
    match read_ctx (nth_arg args 3), read_obj_tok (nth_arg args 4) with
    | Some ctx, Some (OStream d content) =>
      let dec := if bytes_eqb (nth_arg args 5) (B "-") then [] else unhex (nth_arg args 5) in
      let '(r, ctx') := objstm_parse false depth enc d content dec ctx in
      show_osres r ++ B " | " ++ show_query ctx' (nth_arg args 6)
    | _, _ => B "badcase"
    end.
