(* Model/Full.v — C01: the loader model followed by the pipeline model.
   [load] (Model/Loader.v) works on the abstract description of a file ("offset ↦ what the parsers find
   there"); the byte-level parsers that produce that description are modelled and proved total separately
   (C02/C05/C13/C14/C15/C16).  The object context handed to the pipeline is the loaded context with the
   ordinary objects ([VObj]); the cross-reference-stream and object-stream containers, whose dictionaries
   and payloads the loader model does not carry, are left out (they are reachable from the catalog only in
   contrived documents). *)
From PV Require Import Base.PdfObj.
From PV Require Import Model.Pipeline.
From PV Require Model.Loader.

Fixpoint objs_of (c : Loader.ctx) : octx :=
  match c with
  | [] => []
  | (id, Loader.VObj o) :: r => (id, o) :: objs_of r
  | _ :: r => objs_of r
  end.

Definition full (rel : bool) (toks : list bytes) (p : Loader.pdf) : pout :=
  match Loader.load p with
  | Loader.Loaded c root => pipeline rel toks (objs_of c) root
  | Loader.Rejected => PRejected
  | Loader.OutFuel => PUnmodelled
  end.
