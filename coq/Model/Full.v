(* Model/Full.v — C01: the loader model followed by the pipeline model.
   [load] (Model/Loader.v) works on the abstract description of a file ("offset ↦ what the parsers find
   there"); the byte-level parsers that produce that description are modelled and proved total separately
   (C02/C05/C13/C14/C15/C16).  The object context handed to the pipeline is the loaded context with the
   ordinary objects ([VObj]); the cross-reference-stream and object-stream containers, whose dictionaries
   and payloads the loader model does not carry, are left out (they are reachable from the catalog only in
   contrived documents). *)
From PV Require Import Base.PdfObj.
From PV Require Import Model.Pipeline.
From PV Require Model.Loader.

Fixpoint objs_of (c : Loader.ctx) : octx :=
  match c with
  | [] => []
  | (id, Loader.VObj o) :: r => (id, o) :: objs_of r
  | _ :: r => objs_of r
  end.

Definition full (rel : bool) (toks : list bytes) (p : Loader.pdf) : pout :=
  match Loader.load p with
  | Loader.Loaded c root => pipeline rel toks (objs_of c) root
  | Loader.Rejected => PRejected
  | Loader.OutFuel => PUnmodelled
  end.

(* ---- from BYTES: the abstraction of the file is computed by the byte-level parser models
        (Model/LoaderBytes.v: header scan, backward scans, XrefSectP / IndirectP at every offset; classic layout) ---- *)
From PV Require Model.LoaderBytes.

Definition full_bytes (rel : bool) (toks : list bytes) (s : bytes) : pout :=
  full rel toks (LoaderBytes.abstract_file rel s).

(* case protocol: "Y <hex of the file> [oracle triples …] [@profile]" — the model sees only the bytes the real binary sees;
   every other family is Pipeline.entry's *)
Definition entry (args : list bytes) : bytes :=
  if bytes_eqb (nth_arg args 0) (B "Y") then
    let rest := skipn 2 args in
    let rel := existsb (fun t => bytes_eqb t (B "@release")) rest in
    let toks := filter (fun t => negb (Pipeline.is_profile_tok t)) rest in
    show_pout (full_bytes rel toks (unhex (nth_arg args 1)))
  else Pipeline.entry_ctx args.
