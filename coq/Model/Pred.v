(* Model/Pred.v — transcription of the predictor stage of src/pdf_lib/pdf_filters.rs (after the C07
   repairs, /repo d8e3a58): parameter extraction + `as usize` (FlateDecode::transform), paeth,
   predictor_row_layout, flate_lzw_filter.  Definitions only.
   The code has no overflow-prone arithmetic left (checked_mul / checked_add), so debug and release
   builds behave alike and the model does not look at the build profile.
   Vectors are lists; `v[i]` is a checked access ([None] = index-out-of-bounds panic); index loops are
   [for_ a b body] over the vector, literally as written.  The row loop consumes the decoded bytes
   [row_length] at a time — `decoded.iter().take(rl*(r+1)).skip(rl*r)` with len = rows*rl. *)
From PV Require Export Base.PdfObj.

Definition two64 : N := 18446744073709551616.
(* `x as usize` of an i64 *)
Definition as_usize (z : Z) : N := Z.to_N (z mod 18446744073709551616).

Definition checked_mul (a b : N) : option N := if (a * b <? two64)%N then Some (a * b)%N else None.
Definition checked_add (a b : N) : option N := if (a + b <? two64)%N then Some (a + b)%N else None.

Definition bind {A B} (o : option A) (f : A -> option B) : option B :=
  match o with Some a => f a | None => None end.

(* Wrapping<u8> addition *)
Definition wadd (x y : N) : N := ((x + y) mod 256)%N.

(* checked indexing of a Vec *)
Definition get (l : list N) (i : nat) : option N := nth_error l i.
Fixpoint set (l : list N) (i : nat) (v : N) : option (list N) :=
  match l, i with
  | [], _ => None
  | _ :: r, O => Some (v :: r)
  | x :: r, S i' => match set r i' v with Some r' => Some (x :: r') | None => None end
  end.

(* for j in a .. a+n { st = body j st } *)
Fixpoint loop {St : Type} (n a : nat) (body : nat -> St -> option St) (st : St) : option St :=
  match n with
  | O => Some st
  | S n' => match body a st with Some s' => loop n' (S a) body s' | None => None end
  end.
Definition for_ {St : Type} (a b : nat) (body : nat -> St -> option St) (st : St) : option St :=
  loop (b - a) a body st.

(* fn paeth: i16 arithmetic on the byte values (no overflow possible: |values| <= 765) *)
Definition paeth_i (a b c : N) : N :=
  let ia := Z.of_N a in let ib := Z.of_N b in let ic := Z.of_N c in
  let p := (ia + ib - ic)%Z in
  let pa := Z.abs (p - ia) in
  let pb := Z.abs (p - ib) in
  let pc := Z.abs (p - ic) in
  if (pa <=? pb)%Z && (pa <=? pc)%Z then a else if (pb <=? pc)%Z then b else c.

(* fn predictor_row_layout *)
Definition row_layout (colors columns bits : N) : option (N * N) :=
  if (colors <? 1)%N || (columns <? 1)%N || negb (memb bits [1; 2; 4; 8; 16]%N) then None
  else
    bind (checked_mul colors bits) (fun pixel_bits =>
    bind (checked_mul columns pixel_bits) (fun row_bits =>
    bind (checked_add pixel_bits 7) (fun pb7 =>
    bind (checked_add row_bits 7) (fun rb7 =>
    Some (pb7 / 8, rb7 / 8)%N)))).

(* row_data[j] = row_data[j] + row_data[j - d] *)
Definition body_sub (d : nat) (j : nat) (row : list N) : option (list N) :=
  bind (get row j) (fun x => bind (get row (j - d)) (fun y => set row j (wadd x y))).

(* row_data[j] += prev_row[j] *)
Definition body_up (prev : list N) (j : nat) (row : list N) : option (list N) :=
  bind (get row j) (fun x => bind (get prev j) (fun y => set row j (wadd x y))).

(* row_data[j] += prev_row[j] / Wrapping(2) *)
Definition body_avg0 (prev : list N) (j : nat) (row : list N) : option (list N) :=
  bind (get row j) (fun x => bind (get prev j) (fun y => set row j (wadd x (y / 2)))).

(* let sum = u16(row_data[j - bpp]) + u16(prev_row[j]); row_data[j] += Wrapping((sum / 2) as u8) *)
Definition body_avg (bpp : nat) (prev : list N) (j : nat) (row : list N) : option (list N) :=
  bind (get row (j - bpp)) (fun l => bind (get prev j) (fun u =>
  bind (get row j) (fun x => set row j (wadd x (((l + u) / 2) mod 256))))).

(* state (row_data, a, c):
   let b = prev_row[j]; if j > bpp { a = row_data[j - bpp]; c = prev_row[j - bpp] }; row_data[j] += paeth(a, b, c) *)
Definition body_paeth (bpp : nat) (prev : list N) (j : nat) (st : list N * N * N) : option (list N * N * N) :=
  let '(row, a0, c0) := st in
  bind (get prev j) (fun b =>
  bind (if bpp <? j
        then bind (get row (j - bpp)) (fun a => bind (get prev (j - bpp)) (fun c => Some (a, c)))
        else Some (a0, c0)) (fun ac =>
  bind (get row j) (fun x =>
  bind (set row j (wadd x (paeth_i (fst ac) b (snd ac)))) (fun row' => Some (row', fst ac, snd ac))))).

(* 16-bit TIFF sample s: j = 2s, l = 2(s - colors) *)
Definition body_tiff16 (colors : nat) (s : nat) (row : list N) : option (list N) :=
  let j := 2 * s in
  let l := 2 * (s - colors) in
  bind (get row l) (fun lh => bind (get row (l + 1)) (fun ll =>
  bind (get row j) (fun dh => bind (get row (j + 1)) (fun dl =>
  let left := (lh * 256 + ll)%N in
  let diff := (dh * 256 + dl)%N in
  let sample := ((diff + left) mod 65536)%N in
  bind (set row j ((sample / 256) mod 256)%N) (fun r1 => set r1 (j + 1) (sample mod 256)%N))))).

Inductive rowres := ROk (r : list N) | RErr | RPanic.
Definition of_opt (o : option (list N)) : rowres := match o with Some r => ROk r | None => RPanic end.

(* the `match predictor` of one PNG row; [row] includes the filter-type byte at index 0 (the row has
   row_length >= 1 elements, so reading it first — also for /Predictor 15, which the code rejects without
   looking at it — changes nothing) *)
Definition png_row (pred : N) (rl bpp : nat) (prev row : list N) : rowres :=
  match get row 0 with
  | None => RPanic
  | Some tag =>
    if (pred =? 10)%N then if (tag =? 0)%N then ROk row else RErr
    else if (pred =? 11)%N then
      if negb (tag =? 1)%N then RErr else of_opt (for_ (1 + bpp) rl (body_sub bpp) row)
    else if (pred =? 12)%N then
      if negb (tag =? 2)%N then RErr else of_opt (for_ 1 rl (body_up prev) row)
    else if (pred =? 13)%N then
      if negb (tag =? 3)%N then RErr
      else of_opt (bind (for_ 1 (1 + bpp) (body_avg0 prev) row) (for_ (1 + bpp) rl (body_avg bpp prev)))
    else if (pred =? 14)%N then
      if negb (tag =? 4)%N then RErr
      else match for_ 1 rl (body_paeth bpp prev) (row, 0%N, 0%N) with
           | Some (r, _, _) => ROk r
           | None => RPanic
           end
    else RErr
  end.

Fixpoint png_rows (rows : nat) (pred rl bpp : N) (prev data : list N) : res bytes :=
  match rows with
  | O => Ok []
  | S k =>
    let n := N.to_nat rl in
    match png_row pred n (N.to_nat bpp) prev (firstn n data) with
    | RPanic => Panic
    | RErr => Err ETransform
    | ROk r =>
      match png_rows k pred rl bpp r (skipn n data) with
      | Ok out => Ok (tl r ++ out)
      | e => e
      end
    end
  end.

Definition tiff_row (bits : N) (rl colors : nat) (row : list N) : option (list N) :=
  if (bits =? 16)%N then for_ colors (rl / 2) (body_tiff16 colors) row
  else for_ colors rl (body_sub colors) row.

Fixpoint tiff_rows (rows : nat) (bits rl colors : N) (data : list N) : res bytes :=
  match rows with
  | O => Ok []
  | S k =>
    let n := N.to_nat rl in
    match tiff_row bits n (N.to_nat colors) (firstn n data) with
    | None => Panic
    | Some r =>
      match tiff_rows k bits rl colors (skipn n data) with
      | Ok out => Ok (r ++ out)
      | e => e
      end
    end
  end.

Definition flate_lzw_filter (predictor colors columns bits : N) (decoded : bytes) : res bytes :=
  let n := N.of_nat (len decoded) in
  if (predictor =? 1)%N then Ok decoded
  else if (predictor =? 2)%N then
    if negb (bits =? 8)%N && negb (bits =? 16)%N then Err ETransform
    else
      match row_layout colors columns bits with
      | None => Err ETransform
      | Some (_, rl) =>
        if (rl <? 1)%N then Ok []
        else if negb (n mod rl =? 0)%N then Err ETransform
        else tiff_rows (N.to_nat (n / rl)) bits rl colors decoded
      end
  else if (10 <=? predictor)%N && (predictor <=? 15)%N then
    match row_layout colors columns bits with
    | None => Err ETransform
    | Some (bpp, rb) =>
      let rl := (rb + 1)%N in
      if (n =? 0)%N then Ok decoded
      else if (n <? rl)%N then Err ETransform
      else if negb (n mod rl =? 0)%N then Err ETransform
      else png_rows (N.to_nat (n / rl)) predictor rl bpp (repeat 0%N (N.to_nat rl)) decoded
    end
  else Err ETransform.

(* options.and_then(get key).and_then(Integer).unwrap_or(default) *)
Definition int_param (o : option (list (bytes * obj))) (k : bytes) (d : Z) : Z :=
  match o with
  | None => d
  | Some l => match dict_get l k with Some (OInt z) => z | _ => d end
  end.

(* FlateDecode::transform after a successful inflate that produced [decoded] *)
Definition flate_post (o : option (list (bytes * obj))) (decoded : bytes) : res bytes :=
  flate_lzw_filter
    (as_usize (int_param o (B "Predictor") 1))
    (as_usize (int_param o (B "Colors") 1))
    (as_usize (int_param o (B "Columns") 1))
    (as_usize (int_param o (B "BitsPerComponent") 8))
    decoded.

(* case: <parms> <hex rows> [@profile] *)
Definition entry (args : list bytes) : bytes :=
  let data := unhex (nth_arg args 1) in
  match read_obj_tok (nth_arg args 0) with
  | Some (ODict d) => show_res show_hex_tok (flate_post (Some d) data)
  | Some ONull => show_res show_hex_tok (flate_post None data)
  | _ => B "badcase"
  end.
