(* Model/XrefTab.v — transcription of src/pdf_lib/pdf_file.rs: XrefEntP (fixed 20-byte entries),
   XrefSubSectP, XrefSectP, XrefSectT::ents(), over the abstract buffer (s, cursor).
   Token parsers (whitespace, integers, exact tags, extract) are those of Model/Prim.v.
   Definitions only.

   Entry locations (LocatedVal start/end of every single entry) are not observed by the case
   protocol and are not modelled; the location of the whole section is. *)
From PV Require Import Model.Prim.
From PV Require Export Base.Res Base.PdfObj gen.XrefConstants.

(* pdf_streams.rs: XrefEntStatus / XrefEntT (usize fields are N) *)
Inductive xstat :=
| XFree (next : N)
| XInUse (file_ofs : N)
| XInStream (stream_obj obj_index : N).

Record xent := mk_xent { xe_obj : N; xe_gen : N; xe_st : xstat }.

Definition usize_lim : N := (2 ^ 64)%N.

(* infs.matches(|c| c.is_ascii_digit()).count(): in a valid UTF-8 string the chars that are
   ASCII digits are exactly the bytes that are ASCII digits *)
Definition count_digits (l : bytes) : nat := len (filter is_digit l).

(* the shared shape of the two numeric fields: extract(w); read_to_string (fails on invalid
   UTF-8); all w chars must be digits; parse::<usize>() (fails on overflow).  Every failure is a
   GuardError and the cursor stays after the extracted field (nothing is restored). *)
Definition xfield (w : nat) (s : bytes) (c : nat) : pres N :=
  match extract w s c with
  | POk f c1 =>
    if negb (utf8_valid f) then PErr EGuard c1
    else if negb (Nat.eqb (count_digits f) w) then PErr EGuard c1
    else let v := parse_N f in
         if (usize_lim <=? v)%N then PErr EGuard c1 else POk v c1
  | PErr k c' => PErr k c'
  | PPanic => PPanic
  | PFuel => PFuel
  end.

(* buf.exact(b" ")?  — GuardError, cursor unmoved *)
Definition xspace (s : bytes) (c : nat) : pres unit :=
  match exact [32%N] s c with Some c1 => POk tt c1 | None => PErr EGuard c end.

(* XrefEntP::new(ent_idx).parse *)
Definition xentp (idx : N) (s : bytes) (c : nat) : pres xent :=
  match xfield xref_info_width s c with
  | POk info c1 =>
    match xspace s c1 with
    | POk _ c2 =>
      match xfield xref_gen_width s c2 with
      | POk gen c3 =>
        if (xref_gen_max <? gen)%N then PErr EGuard c3
        else
          match xspace s c3 with
          | POk _ c4 =>
            match extract 1 s c4 with
            | POk flg c5 =>
              match flg with
              | [] => PPanic                                   (* flg[0] *)
              | f0 :: _ =>
                let k (in_use : bool) : pres xent :=
                  match extract 2 s c5 with
                  | POk eol c6 =>
                    if negb (existsb (bytes_eqb eol) xref_eols) then PErr EGuard c6
                    else POk (mk_xent idx gen (if in_use then XInUse info else XFree info)) c6
                  | PErr k c' => PErr k c'
                  | PPanic => PPanic
                  | PFuel => PFuel
                  end in
                if N.eqb f0 xref_flag_free then k false
                else if N.eqb f0 xref_flag_inuse then k true
                else PErr EGuard c5
              end
            | PErr k c' => PErr k c'
            | PPanic => PPanic
            | PFuel => PFuel
            end
          | PErr k c' => PErr k c'
          | PPanic => PPanic
          | PFuel => PFuel
          end
      | PErr k c' => PErr k c'
      | PPanic => PPanic
      | PFuel => PFuel
      end
    | PErr k c' => PErr k c'
    | PPanic => PPanic
    | PFuel => PFuel
    end
  | PErr k c' => PErr k c'
  | PPanic => PPanic
  | PFuel => PFuel
  end.

(* for idx in 0 .. xcount { XrefEntP::new(xstart + idx).parse(buf)? }
   [obj] = xstart + idx (usize addition: overflow is a panic in debug builds — unreachable, both
   operands come from non-negative i64 values), [cnt] = iterations left.  Fuel: every entry
   consumes 20 bytes, so [S (len s)] is never exhausted (proved). *)
Fixpoint xents (fuel : nat) (obj cnt : N) (s : bytes) (c : nat) : pres (list xent) :=
  if N.eqb cnt 0 then POk [] c
  else match fuel with
       | O => PFuel
       | S f =>
         if (usize_lim <=? obj)%N then PPanic
         else match xentp obj s c with
              | POk e c1 =>
                match xents f (obj + 1) (cnt - 1) s c1 with
                | POk l c2 => POk (e :: l) c2
                | r => r
                end
              | PErr k c' => PErr k c'
              | PPanic => PPanic
              | PFuel => PFuel
              end
       end.

Record xsub := mk_xsub { xs_start : N; xs_count : N; xs_ents : list xent }.

(* usize::try_from(int.parse(buf)?.val().int_val()), GuardError if negative *)
Definition xusize (s : bytes) (c : nat) : pres N :=
  match integer s c with
  | POk (v, _, _) c1 => if int_is_usize v then POk (Z.to_N v) c1 else PErr EGuard c1
  | PErr k c' => PErr k c'
  | PPanic => PPanic
  | PFuel => PFuel
  end.

(* XrefSubSectP::parse_header: first object number and entry count of a subsection *)
Definition xsubhdr (s : bytes) (c : nat) : pres (N * N) :=
  match ws_noeol true s c with
  | POk _ c1 =>
    match xusize s c1 with
    | POk xstart c2 =>
      match xspace s c2 with
      | POk _ c3 =>
        match xusize s c3 with
        | POk xcount c4 =>
          match ws_eol false s c4 with
          | POk _ c5 => POk (xstart, xcount) c5
          | PErr k c' => PErr k c'
          | PPanic => PPanic
          | PFuel => PFuel
          end
        | PErr k c' => PErr k c'
        | PPanic => PPanic
        | PFuel => PFuel
        end
      | PErr k c' => PErr k c'
      | PPanic => PPanic
      | PFuel => PFuel
      end
    | PErr k c' => PErr k c'
    | PPanic => PPanic
    | PFuel => PFuel
    end
  | PErr k c' => PErr k c'
  | PPanic => PPanic
  | PFuel => PFuel
  end.

(* XrefSubSectP::parse_entries *)
Definition xsubents (xstart xcount : N) (s : bytes) (c : nat) : pres xsub :=
  match xents (S (len s)) xstart xcount s c with
  | POk l c6 => POk (mk_xsub xstart xcount l) c6
  | PErr k c' => PErr k c'
  | PPanic => PPanic
  | PFuel => PFuel
  end.

(* XrefSubSectP.parse (used by the unit tests only since c0b3e1e) *)
Definition xsubp (s : bytes) (c : nat) : pres xsub :=
  match xsubhdr s c with
  | POk (xstart, xcount) c5 => xsubents xstart xcount s c5
  | PErr k c' => PErr k c'
  | PPanic => PPanic
  | PFuel => PFuel
  end.

(* the loop of XrefSectP (as repaired in c0b3e1e): keep consuming subsections until no further
   subsection header parses; that failure is reported only for the first subsection, otherwise
   the loop breaks and the cursor stays where the failing header parser left it.  Once a header
   is accepted a failing entry is an error (`?`).  Fuel: every accepted header consumes >= 1
   byte (its single space). *)
Fixpoint xsubs (fuel : nat) (first : bool) (s : bytes) (c : nat) : pres (list xsub) :=
  match fuel with
  | O => PFuel
  | S f =>
    match xsubhdr s c with
    | POk (xstart, xcount) c1 =>
      match xsubents xstart xcount s c1 with
      | POk ss c2 =>
        match xsubs f false s c2 with
        | POk l c3 => POk (ss :: l) c3
        | r => r
        end
      | PErr k c' => PErr k c'
      | PPanic => PPanic
      | PFuel => PFuel
      end
    | PErr k c' => if first then PErr k c' else POk [] c'
    | PPanic => PPanic
    | PFuel => PFuel
    end
  end.

(* XrefSectP.parse: value = subsections, located [start, end) *)
Definition xsectp (s : bytes) (c : nat) : pres (lv (list xsub)) :=
  match ws_eol true s c with
  | POk _ c1 =>
    match exact xref_kw s c1 with
    | None => PErr EGuard c1
    | Some c2 =>
      match ws_eol false s c2 with
      | POk _ c3 =>
        match xsubs (S (len s)) true s c3 with
        | POk l c4 => POk (l, c, c4) c4
        | PErr k c' => PErr k c'
        | PPanic => PPanic
        | PFuel => PFuel
        end
      | PErr k c' => PErr k c'
      | PPanic => PPanic
      | PFuel => PFuel
      end
    end
  | PErr k c' => PErr k c'
  | PPanic => PPanic
  | PFuel => PFuel
  end.

(* XrefSectT::ents(): the iterator walks subsection by subsection, idx < count, ents[idx] *)
Definition sect_ents (l : list xsub) : list xent := flat_map xs_ents l.

(* ---------- observations ---------- *)
Definition show_xent (e : xent) : bytes :=
  show_N (xe_obj e) ++ B "." ++ show_N (xe_gen e) ++ B "." ++
  match xe_st e with
  | XFree n => B "f." ++ show_N n
  | XInUse o => B "n." ++ show_N o
  | XInStream a b => B "s." ++ show_N a ++ B "." ++ show_N b
  end.

Definition show_list {A} (sh : A -> bytes) (l : list A) : bytes :=
  match l with [] => B "-" | _ => intercalate (B ",") (List.map sh l) end.

Definition show_xsub (x : xsub) : bytes := show_N (xs_start x) ++ B "+" ++ show_N (xs_count x).

Definition show_sect (x : lv (list xsub)) : bytes :=
  let '(l, a, b) := x in
  show_list show_xsub l ++ B " " ++ show_list show_xent (sect_ents l) ++ B " " ++ show_nat a ++ B " " ++ show_nat b.

(* case: tab <hexbuf> <cursor> *)
Definition run_tab (args : list bytes) : bytes :=
  let s := unhex (nth_arg args 1) in
  let c := parse_nat (nth_arg args 2) in
  if Nat.ltb (len s) c then B "badcase" else show_pres show_sect (xsectp s c).
