(* Model/FiltersPinned.v — the filter transforms AS PINNED (pdf_filters.rs at 08d0369 for
   ASCIIHexDecode / ASCII85Decode / FlateDecode's inflate driving) under the chain of Model/Filters.v.
   Kept for the record: the `…_refuted` witnesses of Proofs/FiltersPinned.v are about this model.
   Definitions only. *)
From PV Require Export Model.Filters.

Definition window_of (toks : list bytes) (data : bytes) : option bytes :=
  match lookup (digest_key "w" data) toks with
  | Some (o, _) => if bytes_eqb o (B "E") then None else Some (untok o)
  | None => None
  end.

(* a Flate stage whose input has no oracle entry is reported as such (a generator defect) *)
Definition transform_pinned (dbg : bool) (toks : list bytes) (name : bytes)
  : option (option dict -> bytes -> res bytes) :=
  if bytes_eqb name n_Flate then
    Some (fun o data => if oracle_has "w" toks data then flate_decode_pinned (window_of toks) o data else Fuel)
  else if bytes_eqb name n_A85 then Some (fun _ data => a85_decode_pinned dbg data)
  else if bytes_eqb name n_AHex then Some (fun _ data => ahex_decode_pinned data)
  else if bytes_eqb name n_DCT then Some (fun _ _ => Fuel)      (* DCTDecode is not modelled *)
  else None.

Definition entry (args : list bytes) : bytes :=
  let dbg := existsb (bytes_eqb (B "@debug")) args in
  let kind := nth_arg args 0 in
  if bytes_eqb kind (B "t") then
    let toks := skipn 4 args in
    let o := match read_obj_tok (nth_arg args 2) with Some (ODict d) => Some d | _ => None end in
    match transform_pinned dbg toks (nth_arg args 1) with
    | Some t => show_res show_content (t o (unhex (nth_arg args 3)))
    | None => B "badcase"
    end
  else if bytes_eqb kind (B "s") then
    let toks := skipn 2 args in
    match read_obj_tok (nth_arg args 1) with
    | Some (OStream d c) => show_stream_res (decode_stream (transform_pinned dbg toks) d c)
    | _ => B "badcase"
    end
  else B "badcase".
