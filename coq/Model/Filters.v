(* Model/Filters.v — StreamT::filters (src/pdf_lib/pdf_obj.rs: /Filter x /DecodeParms pairing) and
   decode_stream (src/pdf_lib/pdf_streams.rs: chain application, dictionary pruning), over an
   abstract table of transforms; the instances and the case protocol [entry].  Definitions only. *)
From PV Require Export Base.PdfObj.
From Coq Require Import String.
From PV Require Export Model.A85 Model.AHex Model.Flate.

Definition dict := list (bytes * obj).

Definition k_Filter := B "Filter".
Definition k_DecodeParms := B "DecodeParms".

(* StreamT::filters *)
Fixpoint zip_filters (fa da : list obj) : res (list (bytes * option dict)) :=
  match fa, da with
  | f :: fr, d :: dr =>
    match f, d with
    | OName name, ONull =>
      match zip_filters fr dr with Ok l => Ok ((name, None) :: l) | e => e end
    | OName name, ODict p =>
      match zip_filters fr dr with Ok l => Ok ((name, Some p) :: l) | e => e end
    | _, _ => Err EGuard
    end
  | _, _ => Ok []
  end.

Fixpoint all_names (fa : list obj) : res (list (bytes * option dict)) :=
  match fa with
  | [] => Ok []
  | OName name :: r => match all_names r with Ok l => Ok ((name, None) :: l) | e => e end
  | _ :: _ => Err EGuard
  end.

Definition filters_of (d : dict) : res (list (bytes * option dict)) :=
  match dict_get d k_Filter with
  | Some (OName name) =>
    match dict_get d k_DecodeParms with
    | Some (ODict p) => Ok [(name, Some p)]
    | Some (OArr _) => Err EGuard
    | _ => Ok [(name, None)]
    end
  | Some (OArr fa) =>
    match dict_get d k_DecodeParms with
    | Some (OArr da) => if Nat.eqb (len da) (len fa) then zip_filters fa da else Err EGuard
    | _ => all_names fa
    end
  | _ => Ok []
  end.

Section Chain.
  (* the transform selected by a filter name; [None] = "Cannot handle filter" *)
  Variable transform : bytes -> option (option dict -> bytes -> res bytes).

  Fixpoint run_chain (fs : list (bytes * option dict)) (input : bytes) : res bytes :=
    match fs with
    | [] => Ok input
    | (name, o) :: r =>
      match transform name with
      | None => Err EGuard
      | Some t =>
        match t o input with
        | Ok out => run_chain r out
        | e => e
        end
      end
    end.

  Definition prune (d : dict) : dict := dict_remove (dict_remove d k_Filter) k_DecodeParms.

  (* decode_stream: the new dictionary and content *)
  Definition decode_stream (d : dict) (content : bytes) : res (dict * bytes) :=
    match filters_of d with
    | Ok fs =>
      match run_chain fs content with
      | Ok out => Ok (prune d, out)
      | Err k => Err k
      | Panic => Panic
      | Fuel => Fuel
      end
    | Err k => Err k
    | Panic => Panic
    | Fuel => Fuel
    end.
End Chain.

(* ---------- case protocol ---------- *)
Definition show_content (s : bytes) : bytes :=
  if Nat.leb (len s) 64 then show_hex_tok s
  else B "#" ++ show_nat (len s) ++ B "." ++ show_N (adler32 s).

Definition digest_key (tag : String.string) (s : bytes) : bytes :=
  B tag ++ show_nat (len s) ++ B "." ++ show_N (adler32 s).

(* oracle table in the case line: triples  <key> <hex out | E> <hex tail>  *)
Fixpoint lookup (key : bytes) (toks : list bytes) : option (bytes * bytes) :=
  match toks with
  | k :: rest =>
    match rest with
    | o :: t :: _ => if bytes_eqb k key then Some (o, t) else lookup key rest
    | _ => None
    end
  | [] => None
  end.

Definition untok (s : bytes) : bytes := unhex s.

Definition inflate_of (toks : list bytes) (data : bytes) : option (bytes * bytes) :=
  match lookup (digest_key "z" data) toks with
  | Some (o, t) => if bytes_eqb o (B "E") then None else Some (untok o, untok t)
  | None => None
  end.
Definition oracle_has (tag : String.string) (toks : list bytes) (data : bytes) : bool :=
  match lookup (digest_key tag data) toks with Some _ => true | None => false end.

Definition n_Flate := B "FlateDecode".
Definition n_A85 := B "ASCII85Decode".
Definition n_AHex := B "ASCIIHexDecode".
Definition n_DCT := B "DCTDecode".

Definition show_stream_res (r : res (dict * bytes)) : bytes :=
  show_res (fun x => show_obj (ODict (fst x)) ++ B " " ++ show_content (snd x)) r.

(* the `match f.as_str()` of decode_stream *)
Definition transform (dbg : bool) (inflate : bytes -> option (bytes * bytes)) (name : bytes)
  : option (option dict -> bytes -> res bytes) :=
  if bytes_eqb name n_Flate then Some (flate_decode inflate)
  else if bytes_eqb name n_A85 then Some (fun _ data => a85_decode dbg data)
  else if bytes_eqb name n_AHex then Some (fun _ data => ahex_decode data)
  else if bytes_eqb name n_DCT then Some (fun _ _ => Fuel)      (* DCTDecode is not modelled *)
  else None.

(* running a case: the inflate oracle is the table in the case line; a Flate stage whose input has no entry
   is reported as "fuel" (a generator defect, never silently an error) *)
Definition transform_run (dbg : bool) (toks : list bytes) (name : bytes)
  : option (option dict -> bytes -> res bytes) :=
  if bytes_eqb name n_Flate then
    Some (fun o data => if oracle_has "z" toks data then flate_decode (inflate_of toks) o data else Fuel)
  else transform dbg (inflate_of toks) name.

(* case: t <FilterName> <parms|n> <hex data> [oracle…] [@profile] | s <S(D(…),hex)> [oracle…] [@profile] *)
Definition entry (args : list bytes) : bytes :=
  let dbg := existsb (bytes_eqb (B "@debug")) args in
  let kind := nth_arg args 0 in
  if bytes_eqb kind (B "t") then
    let toks := skipn 4 args in
    let o := match read_obj_tok (nth_arg args 2) with Some (ODict d) => Some d | _ => None end in
    match transform_run dbg toks (nth_arg args 1) with
    | Some t => show_res show_content (t o (unhex (nth_arg args 3)))
    | None => B "badcase"
    end
  else if bytes_eqb kind (B "s") then
    let toks := skipn 2 args in
    match read_obj_tok (nth_arg args 1) with
    | Some (OStream d c) => show_stream_res (decode_stream (transform_run dbg toks) d c)
    | _ => B "badcase"
    end
  else B "badcase".
