(* Model/ShippedPreds.v — transcription of the predicates the shipped catalog specification
   attaches to its checks (trait objects in the Rust, opaque numbers in gen/Shipped.v):

     #0  DateStringPredicate   common_data_structures.rs:302-327 (relaxed regex, as repaired:
                               the year is four ASCII digits)
     #1  NameTreePredicate     name_tree.rs:26-118
     #2  NumberTreePredicate   number_tree.rs:26-118 as repaired (pairs read from /Nums)
     #3  NumberTreePredicate   as pinned (pairs read from /Names, shape decided on /Nums)
     #4  DateStringPredicate   as pinned (the year is \d{4} with the regex crate's Unicode \d:
                               any four code points of general category Nd)

   props/c10.py regen() recognises each dumped predicate by its behaviour on a probe set and
   writes the number of the matching definition into gen/Shipped.v; ChoicePred lists become
   PrNameIn.  Definitions only.  Only pass / fail is modelled: every failure of these predicates
   is a TypeCheckError::PredicateError. *)
From PV Require Export Model.TypeCheck.

Definition is_str (o : obj) : bool := match o with OStr _ => true | _ => false end.
Definition is_int (o : obj) : bool := match o with OInt _ => true | _ => false end.
Definition is_ref (o : obj) : bool := match o with ORef _ _ => true | _ => false end.

(* for c in (0..len).step_by(2): objs[c] is a key, objs[c+1] a reference (the length is even) *)
Fixpoint pairs_ok (is_key : obj -> bool) (l : list obj) : bool :=
  match l with
  | k :: v :: r => is_key k && is_ref v && pairs_ok is_key r
  | _ => true
  end.

Definition has_key (d : list (bytes * obj)) (k : bytes) : bool :=
  match dict_get d k with Some _ => true | None => false end.

(* NameTreePredicate / NumberTreePredicate: [pk] is the key whose array of pairs is inspected,
   [sk] the key the final shape test looks at *)
Definition tree_pred (pk sk : bytes) (is_key : obj -> bool) (o : obj) : bool :=
  match o with
  | ODict d =>
    match dict_get d pk with
    | None => true
    | Some (OArr l) => Nat.even (len l) && pairs_ok is_key l
    | Some _ => false
    end
    && match dict_get d (B "Limits") with
       | Some (OArr l) => forallb is_key l && Nat.eqb (len l) 2
       | _ => true                                   (* a non-array /Limits is not looked at *)
       end
    && match dict_get d (B "Kids") with
       | None => true
       | Some (OArr l) => forallb is_ref l
       | Some _ => false
       end
    && (let n := has_key d sk in let l := has_key d (B "Limits") in let k := has_key d (B "Kids") in
        (n && l && negb k) || (negb n && l && k) || (negb n && negb l && k) || (n && negb l && negb k))
  | _ => false
  end.

Definition name_tree_pred : obj -> bool := tree_pred (B "Names") (B "Names") is_str.
Definition number_tree_pred : obj -> bool := tree_pred (B "Nums") (B "Nums") is_int.
Definition number_tree_pred_pinned : obj -> bool := tree_pred (B "Names") (B "Nums") is_int.

(* ---------- date strings ---------- *)
Definition in_range (lo hi c : N) : bool := (lo <=? c)%N && (c <=? hi)%N.
Definition dig (c : N) : bool := in_range 48 57 c.

(* two characters [a][b] with a in [alo,ahi] and b in [blo,bhi] *)
Definition two (alo ahi blo bhi : N) (s : list N) : option (list N) :=
  match s with
  | a :: b :: r => if in_range alo ahi a && in_range blo bhi b then Some r else None
  | _ => None
  end.
Definition alt (f g : list N -> option (list N)) (s : list N) : option (list N) :=
  match f s with Some r => Some r | None => g s end.

Definition p_month := alt (two 48 48 49 57) (two 49 49 48 50).                       (* 0[1-9]|1[0-2] *)
Definition p_day := alt (two 48 48 49 57) (alt (two 49 50 48 57) (two 51 51 48 49)). (* 0[1-9]|[12][0-9]|3[01] *)
Definition p_hour := alt (two 48 49 48 57) (two 50 50 48 51).                        (* [01][0-9]|2[0-3] *)
Definition p_60 := two 48 53 48 57.                                                  (* [0-5][0-9] *)

(* an optional group that, once started, must be followed by [k]; nothing may follow a skipped group *)
Definition opt_then (p : list N -> option (list N)) (k : list N -> bool) (s : list N) : bool :=
  match s with
  | [] => true
  | _ => match p s with Some r => k r | None => false end
  end.

Definition p_apos (s : list N) : option (list N) :=
  match s with c :: r => if N.eqb c 39 then Some r else None | [] => None end.
Definition p_sign (s : list N) : option (list N) :=
  match s with c :: r => if N.eqb c 43 || N.eqb c 45 || N.eqb c 90 then Some r else None | [] => None end.
Definition p_hour_apos (s : list N) : option (list N) :=
  match p_hour s with Some r => p_apos r | None => None end.

(* after "D:YYYY": (MM(DD(HH(mm(SS([+-Z]((HH')(mm(')?)?)?)?)?)?)?)?)?$ *)
Definition date_tail : list N -> bool :=
  opt_then p_month (opt_then p_day (opt_then p_hour (opt_then p_60 (opt_then p_60
    (opt_then p_sign (opt_then p_hour_apos (opt_then p_60 (opt_then p_apos
       (fun s => match s with [] => true | _ => false end))))))))).

(* [s] is a sequence of characters (bytes, or code points for the pinned variant) *)
Definition date_match (isd : N -> bool) (s : list N) : bool :=
  match s with
  | d :: c :: y1 :: y2 :: y3 :: y4 :: r =>
    N.eqb d 68 && N.eqb c 58 && isd y1 && isd y2 && isd y3 && isd y4 && date_tail r
  | _ => false
  end.

Definition date_pred (o : obj) : bool :=
  match o with OStr s => date_match dig s | _ => false end.

(* ----- pinned variant: std::str::from_utf8 (None => "" => no match), then \d = Unicode Nd ----- *)
Definition cont (c : N) : bool := in_range 128 191 c.
(* well-formed UTF-8 (Unicode Table 3-7), decoded to code points; [fuel] = length of the input *)
Fixpoint utf8_decode (fuel : nat) (s : list N) : option (list N) :=
  match fuel with
  | O => match s with [] => Some [] | _ => None end
  | S f =>
    match s with
    | [] => Some []
    | a :: r =>
      let k (cp : N) (rest : list N) :=
        match utf8_decode f rest with Some l => Some (cp :: l) | None => None end in
      if (a <? 128)%N then k a r
      else if in_range 194 223 a then
        match r with
        | b :: r' => if cont b then k ((a - 192) * 64 + (b - 128))%N r' else None
        | _ => None
        end
      else if in_range 224 239 a then
        match r with
        | b :: c :: r' =>
          if (if N.eqb a 224 then in_range 160 191 b else if N.eqb a 237 then in_range 128 159 b else cont b)
             && cont c
          then k ((a - 224) * 4096 + (b - 128) * 64 + (c - 128))%N r' else None
        | _ => None
        end
      else if in_range 240 244 a then
        match r with
        | b :: c :: d :: r' =>
          if (if N.eqb a 240 then in_range 144 191 b else if N.eqb a 244 then in_range 128 143 b else cont b)
             && cont c && cont d
          then k ((a - 240) * 262144 + (b - 128) * 4096 + (c - 128) * 64 + (d - 128))%N r' else None
        | _ => None
        end
      else None
    end
  end.

(* [nd] = the ranges of general category Nd known to the regex crate in use (gen/Shipped.v
   carries the table when a pinned date predicate is dumped; the repaired code does not need it) *)
Definition in_ranges (t : list (N * N)) (c : N) : bool :=
  existsb (fun r => in_range (fst r) (snd r) c) t.
Definition date_pred_pinned (nd : list (N * N)) (o : obj) : bool :=
  match o with
  | OStr s => match utf8_decode (len s) s with
              | Some cps => date_match (in_ranges nd) cps
              | None => false
              end
  | _ => false
  end.

(* meaning of the opaque predicate numbers of gen/Shipped.v *)
Definition shipped_opq_with (nd : list (N * N)) (id : N) (o : obj) : bool :=
  if N.eqb id 0 then date_pred o
  else if N.eqb id 1 then name_tree_pred o
  else if N.eqb id 2 then number_tree_pred o
  else if N.eqb id 3 then number_tree_pred_pinned o
  else if N.eqb id 4 then date_pred_pinned nd o
  else false.
