(* Model/Loader.v — transcription of the LOADER LOGIC of src/pdf_lib/pdf_traverse_xref.rs
   (parse_data, get_xref_info, parse_xref_section, parse_xref_stream, info_from_xref_entries,
   parse_objects) at the level of already-parsed pieces.  Definitions only.

   Abstraction.  The byte-level parsers (tokens, objects, xref tables / xref streams, object
   streams, filters: properties C02 C05 C13 C14 C06 C07) are not re-modelled here.  A file is
   abstracted as  offset ↦ (what the parsers find when started there, where the cursor is after a
   successful parse of it):

     IXSect ents tr        XrefSectP succeeds with entries [ents]; [tr] is what
                           scan("trailer") + TrailerP yield (None: no / unparsable trailer)
     IXStm id ents rt pv   IndirectP yields a stream object [id] that XrefStreamP accepts
     IObj id v             IndirectP finds `num gen obj v endobj` (v may be a stream)
     IObjStm id clen lr ms IndirectP finds a stream object [id] with /Type /ObjStm whose
                           ObjStreamP contents are the members [ms]; its /Length is direct (lr =
                           None) or the reference [lr]; [clen] is the encoded payload length
     IGarbage              none of XrefSectP / IndirectP succeeds (e.g. `startxref …`)

   Offsets are relative to the `%PDF-` header (the view that drops leading garbage).  An offset
   that is not a key of the map behaves like IGarbage.  Comments are whitespace for the real
   parsers, so the renderer lists offset 0 (the header comment) as an alias of the first item.

   Explicit modelling assumptions (trusted, validated by the correspondence run only):
   * a stream parsed with a /Length different from its payload length fails (StreamContentP does
     not find `endstream`); the renderer never emits a payload for which it would succeed;
   * only IXStm items have /Type /XRef and only IObjStm items have /Type /ObjStm;
   * trailers carry no /Encrypt; object values nest less than 50 deep;
   * (none needed any more about usize overflow: check_cursor / set_cursor compare `ofs` with the view's
     size without adding the view's start — parsebuffer.rs as repaired under C17 — and every offset
     reaches the loader through IntegerT (i64) or a <= 4-byte xref-stream field.)

   Panic sites.  [outcome] has no Panic constructor because the transcribed functions contain no
   reachable one; each candidate in the Rust text is guarded by the test that precedes it:
     get_xref_info       xinfo.unwrap() after `if xinfo.is_none() { exit_log! }`; root.unwrap() after
                         `if root.is_none() { exit_log! }`; set_cursor_unsafe(next) (assert ofs <= size)
                         after `if !check_cursor(next) { exit_log! }` (ofs < size)
     parse_xref_section  xrsect.unwrap() / t.unwrap() after `if let Err(e)` returns; set_cursor_unsafe(start)
                         with the cursor value just read
     parse_xref_stream   xref_obj.unwrap(), xref_buf.unwrap(), xref_stm.unwrap() after `if let Err` returns
     info_from_xref_entries  no unwrap / index / arithmetic
     parse_objects       set_cursor_unsafe(ofs) after `if !check_cursor(ofs) { exit_log! }`; lobj.unwrap() is
                         LocatedVal::unwrap (total); obj_buf.unwrap() / obj_stm.unwrap() after `if let Err`
     parse_data          view.transform(&pb).unwrap(): RestrictView(nbytes, remaining) right after scan moved
                         the cursor to nbytes: always inside; buflen - eof.unwrap() and buflen - sxref.unwrap():
                         a backward_scan from cursor c returns a skip <= c <= buflen; set_cursor_unsafe(buflen)
                         and set_cursor_unsafe(sxref_offset) after check_cursor
   (panics INSIDE the byte-level parsers the loader calls belong to C15 C16 C02 C05 C13 C14 C06 C07.)
   Loops: the /Prev walk runs on fuel (never exhausted: Proofs/Loader.v load_no_fuel); the three object
   passes are structural recursions over the entry lists.  *)
From PV Require Export Base.PdfObj.

(* ---------- data ---------- *)
Definition oid := (N * N)%type.                       (* ObjectId = (num, gen) *)
Definition oid_eqb (a b : oid) : bool := N.eqb (fst a) (fst b) && N.eqb (snd a) (snd b).

Inductive xstatus :=
| XFree (next : N)
| XInUse (ofs : N)
| XInStream (stm idx : N).

Record xent := mkxent { x_num : N; x_gen : N; x_st : xstatus }.
Definition x_id (e : xent) : oid := (x_num e, x_gen e).

Record trailer := mktrailer { t_root : option obj; t_prev : option N; t_xrefstm : option N }.

Inductive item :=
| IXSect (ents : list xent) (tr : option trailer)
| IXStm (id : oid) (ents : list xent) (root : option obj) (prev : option N)
| IObj (id : oid) (v : obj)
| IObjStm (id : oid) (clen : N) (lenref : option oid) (members : list (N * obj))
| IGarbage.

Definition file := list (N * (item * N)).            (* offset ↦ (item, cursor after it) *)

Fixpoint find (f : file) (o : N) : option (item * N) :=
  match f with
  | [] => None
  | (k, v) :: r => if N.eqb k o then Some v else find r o
  end.

(* what PDFObjContext.defns binds an id to *)
Inductive cval :=
| VObj (o : obj)
| VXStm                                  (* an xref stream object (bookkeeping) *)
| VObjStm (members : list (N * obj)).    (* an object stream container (bookkeeping) *)

Definition ctx := list (oid * cval).

Fixpoint ctx_get (c : ctx) (id : oid) : option cval :=
  match c with
  | [] => None
  | (k, v) :: r => if oid_eqb k id then Some v else ctx_get r id
  end.

(* BTreeMap::insert: the binding is replaced; the bool says whether one existed *)
Fixpoint ctx_set (c : ctx) (id : oid) (v : cval) : ctx :=
  match c with
  | [] => [(id, v)]
  | (k, w) :: r => if oid_eqb k id then (k, v) :: r else (k, w) :: ctx_set r id v
  end.

Definition is_some {A} (o : option A) : bool := match o with Some _ => true | None => false end.

(* PDFObjContext::register_obj (pdf_obj.rs, since commit f218988): an identifier that is already
   defined keeps its binding and the duplicate is reported; otherwise insert.  (On the pinned tree the
   new value was inserted BEFORE the duplicate was reported.) *)
Definition register (c : ctx) (id : oid) (v : cval) : ctx * bool :=
  match ctx_get c id with
  | Some _ => (c, true)
  | None => (ctx_set c id v, false)
  end.

Definition is_stream (v : cval) : bool :=
  match v with
  | VObj (OStream _ _) => true
  | VObj _ => false
  | VXStm => true
  | VObjStm _ => true
  end.

(* ---------- IndirectP (pdf_obj.rs:720-845) on an item ---------- *)
Inductive ires :=
| IR_ok (c : ctx) (id : oid) (v : cval)   (* parsed, registered, id was fresh *)
| IR_dup (c : ctx)                        (* parsed, but the id was already defined: GuardError, context unchanged *)
| IR_ctx                                  (* ErrorKind::InsufficientContext (forward /Length) *)
| IR_err.                                 (* any other error; nothing registered *)

Definition reg_res (c : ctx) (id : oid) (v : cval) : ires :=
  let '(c', dup) := register c id v in
  if dup then IR_dup c' else IR_ok c' id v.

(* convert_stream_length on the object a /Length resolves to, then StreamContentP *)
Definition length_ok (l : option cval) (actual : N) : bool :=
  match l with
  | Some (VObj (OInt z)) => Z.eqb z (Z.of_N actual)
  | _ => false
  end.

Definition Length_key : bytes := B "Length".

Definition indirect (c : ctx) (it : item) : ires :=
  match it with
  | IXSect _ _ => IR_err
  | IGarbage => IR_err
  | IXStm id _ _ _ => reg_res c id VXStm
  | IObj id (OStream d content) =>
    match dict_get d Length_key with
    | Some (OInt z) =>
      if Z.eqb z (Z.of_nat (len content)) then reg_res c id (VObj (OStream d content)) else IR_err
    | Some (ORef n g) =>
      match ctx_get c (n, g) with
      | None => IR_ctx
      | Some l => if length_ok (Some l) (N.of_nat (len content))
                  then reg_res c id (VObj (OStream d content)) else IR_err
      end
    | _ => IR_err
    end
  | IObj id v => reg_res c id (VObj v)
  | IObjStm id clen None ms => reg_res c id (VObjStm ms)
  | IObjStm id clen (Some r) ms =>
    match ctx_get c r with
    | None => IR_ctx
    | Some l => if length_ok (Some l) clen then reg_res c id (VObjStm ms) else IR_err
    end
  end.

(* ---------- cursor ---------- *)
(* after a failed parse the cursor is somewhere inside the item (never used to parse from: see [step]) *)
Inductive cursor := CAt (o : N) | CIn.

Definition xinfo := (list xent * option obj * option N)%type.   (* XRefSectInfo *)

(* ---------- parse_xref_stream (99-200) ---------- *)
(* Since commit 4807949 the xref-stream object is parsed by IndirectP in a PDFObjContext OF ITS OWN
   (empty): walking the chain defines nothing in the document context.  (On the pinned tree it was
   registered there, which made it win over a newer redefinition of its id.)  Consequences kept
   literally: a referenced /Length can never be resolved here (IR_ctx), a duplicate is impossible. *)
Definition parse_xref_stream (f : file) (cur : cursor) : cursor * option xinfo :=
  match cur with
  | CIn => (CIn, None)
  | CAt o =>
    match find f o with
    | None => (CIn, None)
    | Some (it, nx) =>
      match indirect [] it with
      | IR_ok _ _ v =>
        match it with
        | IXStm _ ents root prev => (CAt nx, Some (ents, root, prev))
        | _ => if is_stream v
               then (CAt nx, None)                     (* XrefStreamP: /Type is not /XRef *)
               else (CAt nx, Some ([], None, None))    (* not a stream: empty info *)
        end
      | IR_dup _ => (CAt nx, None)
      | IR_ctx => (CIn, None)
      | IR_err => (CIn, None)
      end
    end
  end.

(* ---------- parse_xref_section (207-314) ---------- *)
Inductive xres :=
| XRej                                              (* exit_log! *)
| XRes (cur : cursor) (x : option xinfo).

Definition parse_xref_section (f : file) (flen : N) (start : N) : xres :=
  match find f start with
  | Some (IXSect ents tr, nx) =>
    match tr with
    | None => XRes (CAt nx) (Some (ents, None, None))
    | Some t =>
      match t_xrefstm t with
      | None => XRes (CAt nx) (Some (ents, t_root t, t_prev t))
      | Some xrstart =>
        if (xrstart <=? flen)%N                              (* pb.set_cursor(xrstart) *)
        then match parse_xref_stream f (CAt xrstart) with
             | (cur', Some (xrents, _, _)) => XRes cur' (Some (ents ++ xrents, t_root t, t_prev t))
             | (_, None) => XRej
             end
        else XRej
      end
    end
  | _ =>
    let '(cur', x) := parse_xref_stream f (CAt start) in XRes cur' x
  end.

(* ---------- get_xref_info (319-389) ---------- *)
Fixpoint mem_N (x : N) (l : list N) : bool :=
  match l with [] => false | y :: r => N.eqb x y || mem_N x r end.
Fixpoint mem_oid (x : oid) (l : list oid) : bool :=
  match l with [] => false | y :: r => oid_eqb x y || mem_oid x r end.

(* for e in ents { let id = e.val().obj(); if idset.insert(id) { xrefs.push(e) } } — the key is the
   OBJECT NUMBER (commit f2e753d; it was (number, generation) on the pinned tree).
   Returns (idset', pushed entries) *)
Fixpoint merge_ents (ents : list xent) (idset : list N) : list N * list xent :=
  match ents with
  | [] => (idset, [])
  | e :: r =>
    if mem_N (x_num e) idset then merge_ents r idset
    else let '(s, k) := merge_ents r (x_num e :: idset) in (s, e :: k)
  end.

(* one loop iteration after the cycle / bounds tests: parse_xref_section and, when that yields
   nothing, parse_xref_stream once more AT THE SPECIFIED OFFSET (commit 193f714: the cursor is set
   back to `next` first; on the pinned tree the second attempt started wherever the failed parse had
   left the cursor, so garbage glued in front of an xref stream was accepted).  None = an exit_log!.
   Since then no behaviour depends on where a FAILED parse leaves the cursor; [cursor] / CIn only
   record it. *)
Definition step (f : file) (flen : N) (next : N) : option xinfo :=
  match parse_xref_section f flen next with
  | XRej => None
  | XRes _ (Some x) => Some x
  | XRes _ None =>
    match parse_xref_stream f (CAt next) with
    | (_, Some x) => Some x
    | (_, None) => None                                               (* No xref found *)
    end
  end.

Inductive wres :=
| WRej
| WFuel
| WOk (xrefs : list xent) (root : obj).

Fixpoint walk (fuel : nat) (f : file) (flen : N) (cursorset : list N) (idset : list N)
         (xrefs : list xent) (root : option obj) (next : N) : wres :=
  match fuel with
  | O => WFuel
  | S fuel' =>
    if mem_N next cursorset then WRej                               (* Xref cycle detected *)
    else if negb (next <? flen)%N then WRej                          (* out of bounds *)
    else
      match step f flen next with
      | None => WRej
      | Some (ents, rt, prev) =>
        let root' := match root with Some _ => root | None => rt end in
        match root' with
        | None => WRej                                               (* No Root specified *)
        | Some r =>
          let '(idset', kept) := merge_ents ents idset in
          match prev with
          | None => WOk (xrefs ++ kept) r
          | Some p => walk fuel' f flen (next :: cursorset) idset' (xrefs ++ kept) root' p
          end
        end
      end
  end.

(* ---------- info_from_xref_entries (392-450) ---------- *)
Inductive objinfo :=
| InFile (id : oid) (ofs : N)
| InStm (id : oid).

Fixpoint info_from_xref_entries (l : list xent) : list objinfo :=
  match l with
  | [] => []
  | e :: r =>
    match x_st e with
    | XFree _ => info_from_xref_entries r
    | XInUse ofs => InFile (x_id e) ofs :: info_from_xref_entries r
    | XInStream stm _ => InStm (stm, 0%N) :: info_from_xref_entries r
    end
  end.

(* ---------- parse_objects (456-709) ---------- *)
(* BTreeSet<(usize, usize)>::insert, kept as a strictly increasing list *)
Definition oid_ltb (a b : oid) : bool :=
  (fst a <? fst b)%N || (N.eqb (fst a) (fst b) && (snd a <? snd b)%N).
Fixpoint set_insert (x : oid) (l : list oid) : list oid :=
  match l with
  | [] => [x]
  | y :: r => if oid_eqb x y then l else if oid_ltb x y then x :: l else y :: set_insert x r
  end.

Inductive ores :=
| ORej
| OOk (c : ctx).

(* one object at an offset: check_cursor, IndirectP, identity check.
   [second] = false: first pass (InsufficientContext defers); true: second pass (it rejects). *)
Inductive one :=
| OneRej
| OneDefer
| OneOk (c : ctx).

Definition load_one (f : file) (flen : N) (c : ctx) (id : oid) (ofs : N) : one :=
  if negb (ofs <? flen)%N then OneRej                               (* object offset out of bounds *)
  else
    match find f ofs with
    | None => OneRej
    | Some (it, _) =>
      match indirect c it with
      | IR_ok c' id' _ => if oid_eqb id' id then OneOk c' else OneRej   (* unexpected object found *)
      | IR_dup _ => OneRej
      | IR_ctx => OneDefer
      | IR_err => OneRej
      end
    end.

(* first pass: returns (ctx, obj_streams, second_pass) *)
Fixpoint pass1 (f : file) (flen : N) (infos : list objinfo) (c : ctx) (ostms : list oid)
         (second : list (oid * N)) : option (ctx * list oid * list (oid * N)) :=
  match infos with
  | [] => Some (c, ostms, second)
  | InStm id :: r => pass1 f flen r c (set_insert id ostms) second
  | InFile id ofs :: r =>
    if is_some (ctx_get c id) then pass1 f flen r c ostms second    (* skip already parsed *)
    else
      match load_one f flen c id ofs with
      | OneRej => None
      | OneDefer => pass1 f flen r c ostms (second ++ [(id, ofs)])
      | OneOk c' => pass1 f flen r c' ostms second
      end
  end.

Fixpoint pass2 (f : file) (flen : N) (second : list (oid * N)) (c : ctx) : option ctx :=
  match second with
  | [] => Some c
  | (id, ofs) :: r =>
    if is_some (ctx_get c id) then pass2 f flen r c
    else
      match load_one f flen c id ofs with
      | OneOk c' => pass2 f flen r c'
      | _ => None
      end
  end.

(* ObjStreamP::parse_stream: members are registered with generation 0, in order, until one is
   already present (it keeps its binding; the parse of this stream stops with an error that
   parse_objects only logs, so the later members are not registered) *)
Fixpoint reg_members (ms : list (N * obj)) (c : ctx) : ctx :=
  match ms with
  | [] => c
  | (n, v) :: r =>
    let '(c', dup) := register c (n, 0%N) (VObj v) in
    if dup then c' else reg_members r c'
  end.

(* defined_obj_streams = those ids bound to a stream, in BTreeSet order; then ObjStreamP on each
   (an xref stream or an ordinary stream fails get_dict_info: logged, skipped) *)
Fixpoint pass3 (ostms : list oid) (c0 c : ctx) : ctx :=
  match ostms with
  | [] => c
  | id :: r =>
    match ctx_get c0 id with
    | Some (VObjStm ms) => pass3 r c0 (reg_members ms c)
    | _ => pass3 r c0 c
    end
  end.

Definition parse_objects (f : file) (flen : N) (c : ctx) (infos : list objinfo) : ores :=
  match pass1 f flen infos c [] [] with
  | None => ORej
  | Some (c1, ostms, second) =>
    match pass2 f flen second c1 with
    | None => ORej
    | Some c2 => OOk (pass3 ostms c2 c2)
    end
  end.

(* ---------- parse_data (737-898) ---------- *)
Record pdf := mkpdf {
  p_magic : bool;               (* scan("%PDF-") succeeds (HeaderP then cannot fail) *)
  p_flen : N;                   (* length of the view starting at the header *)
  p_startxref : option N;       (* backward scans + StartXrefP: the offset, None = any failure *)
  p_file : file }.

Inductive outcome :=
| Rejected
| OutFuel
| Loaded (c : ctx) (root : oid).

Definition load_fuel (fuel : nat) (p : pdf) : outcome :=
  if negb (p_magic p) then Rejected
  else
    match p_startxref p with
    | None => Rejected
    | Some sx =>
      if negb (sx <? p_flen p)%N then Rejected                       (* startxref out of bounds *)
      else
        match walk fuel (p_file p) (p_flen p) [] [] [] None sx with
        | WRej => Rejected
        | WFuel => OutFuel
        | WOk xrefs root =>
          (* ctxt = PDFObjContext::new(50): nothing is defined before parse_objects *)
          match parse_objects (p_file p) (p_flen p) [] (info_from_xref_entries xrefs) with
          | ORej => Rejected
          | OOk c' =>
            match root with
            | ORef n g => Loaded c' (n, g)
            | _ => Rejected                                          (* Root object is not a reference *)
            end
          end
        end
    end.

(* every iteration inserts a new offset < flen into cursorset and every offset at which a
   section can be found is a key of the map, so #keys + 2 iterations always suffice
   (Proofs/Loader.v: walk_fuel_enough) *)
Definition load (p : pdf) : outcome := load_fuel (S (S (len (p_file p)))) p.

(* ---------- case protocol ----------
   L <flen> <magic 0|1> <startxref|-> <probes> <spec (ignored)> <hex of the rendered file (ignored)> item*
   probes: num.gen+num.gen+…          item fields are separated by ';' , list elements by '+':
     X;off;next;ents;root;prev;xrefstm      root = '!' : no trailer; '-' : absent
     T;off;next;num.gen;ents;root;prev
     O;off;next;num.gen;objtext
     M;off;next;num.gen;clen;lenref;num=objtext+num=objtext…
     G;off;next
   entry: num.gen.f.next | num.gen.n.ofs | num.gen.s.stm.idx
   observation:  rejected | loaded root=n.g n.g=objtext n.g=*xref n.g=*objstm …  (probes, in order) *)
Fixpoint split_go (sep : N) (s : bytes) (cur : bytes) : list bytes :=
  match s with
  | [] => [rev cur]
  | c :: r => if N.eqb c sep then rev cur :: split_go sep r [] else split_go sep r (c :: cur)
  end.
Definition split_on (sep : N) (s : bytes) : list bytes := split_go sep s [].

Definition is_dash (s : bytes) : bool := bytes_eqb s (B "-").
Definition opt_N (s : bytes) : option N := if is_dash s then None else Some (parse_N s).
Definition split_list (s : bytes) : list bytes := if is_dash s then [] else split_on 43%N s.   (* '+' *)

Definition parse_oid (s : bytes) : oid :=
  let p := split_on 46%N s in (parse_N (nth_arg p 0), parse_N (nth_arg p 1)).
Definition opt_oid (s : bytes) : option oid := if is_dash s then None else Some (parse_oid s).

Definition parse_xent (s : bytes) : xent :=
  let p := split_on 46%N s in
  let k := nth_arg p 2 in
  let a := parse_N (nth_arg p 3) in
  mkxent (parse_N (nth_arg p 0)) (parse_N (nth_arg p 1))
         (if bytes_eqb k (B "f") then XFree a
          else if bytes_eqb k (B "n") then XInUse a
          else XInStream a (parse_N (nth_arg p 4))).

Definition parse_ents (s : bytes) : list xent := List.map parse_xent (split_list s).

Definition opt_obj (s : bytes) : option obj := if is_dash s then None else read_obj_tok s.

Definition parse_member (s : bytes) : N * obj :=
  match split_on 61%N s with                                         (* '=' *)
  | n :: o :: _ => (parse_N n, match read_obj_tok o with Some v => v | None => ONull end)
  | _ => (0%N, ONull)
  end.

Definition parse_item (s : bytes) : N * (item * N) :=
  let p := split_on 59%N s in                                        (* ';' *)
  let k := nth_arg p 0 in
  let off := parse_N (nth_arg p 1) in
  let nx := parse_N (nth_arg p 2) in
  let it :=
    if bytes_eqb k (B "X") then
      IXSect (parse_ents (nth_arg p 3))
             (if bytes_eqb (nth_arg p 4) (B "!") then None
              else Some (mktrailer (opt_obj (nth_arg p 4)) (opt_N (nth_arg p 5)) (opt_N (nth_arg p 6))))
    else if bytes_eqb k (B "T") then
      IXStm (parse_oid (nth_arg p 3)) (parse_ents (nth_arg p 4)) (opt_obj (nth_arg p 5)) (opt_N (nth_arg p 6))
    else if bytes_eqb k (B "O") then
      IObj (parse_oid (nth_arg p 3)) (match read_obj_tok (nth_arg p 4) with Some v => v | None => ONull end)
    else if bytes_eqb k (B "M") then
      IObjStm (parse_oid (nth_arg p 3)) (parse_N (nth_arg p 4)) (opt_oid (nth_arg p 5))
              (List.map parse_member (split_list (nth_arg p 6)))
    else IGarbage in
  (off, (it, nx)).

Definition show_oid (id : oid) : bytes := show_N (fst id) ++ B "." ++ show_N (snd id).

Definition show_cval (v : cval) : bytes :=
  match v with
  | VObj o => show_obj o
  | VXStm => B "*xref"
  | VObjStm _ => B "*objstm"
  end.

Fixpoint show_probes (c : ctx) (ps : list oid) : bytes :=
  match ps with
  | [] => []
  | id :: r =>
    match ctx_get c id with
    | Some v => B " " ++ show_oid id ++ B "=" ++ show_cval v ++ show_probes c r
    | None => show_probes c r
    end
  end.

Definition show_outcome (ps : list oid) (o : outcome) : bytes :=
  match o with
  | Rejected => B "rejected"
  | OutFuel => B "fuel"
  | Loaded c root => B "loaded root=" ++ show_oid root ++ show_probes c ps
  end.

(* The runner additionally validates the item tokens against the real byte-level parsers applied to
   the file bytes and appends `items=ok` / `items=bad:…`; the model trusts its input, so a description
   the real parsers do not confirm shows up as a disagreement. *)
Definition entry (args : list bytes) : bytes :=
  if bytes_eqb (nth_arg args 0) (B "L") then
    let p := mkpdf (bytes_eqb (nth_arg args 2) (B "1")) (parse_N (nth_arg args 1))
                   (opt_N (nth_arg args 3)) (List.map parse_item (skipn 7 args)) in
    show_outcome (List.map parse_oid (split_list (nth_arg args 4))) (load p) ++ B " items=ok"
  else B "badcase".
