(* Model/Rtps.v — transcription of src/rtps_lib/rtps_prim.rs (GuidPrefixP, VendorIdP, ProtocolVersionP,
   HeaderP, SubMessageHeaderP, SubMessageP) and src/rtps_lib/rtps_packet.rs (PacketP), over the abstract
   buffer (bytes, cursor) of Model/Bin.v (a ParseBuffer::new(v) has start = 0, end = len v).
   Definitions only.  The sub-message kind table is regenerated from the source: gen/RtpsKinds.v. *)
From PV Require Export Model.Bin gen.RtpsKinds.

(* ---------- values (the private fields of the Rust structs) ---------- *)
Record header := mkHeader { h_version : N; h_vendor : N; h_prefix : bytes }.
Record smheader := mkSmh { smh_id : N; smh_flags : N; smh_length : N }.
Record submsg := mkSm { sm_hdr : smheader; sm_payload : bytes }.
Record packet := mkPacket { p_hdr : header; p_msgs : list submsg }.

(* ---------- ParseBuffer primitives used here and not already in Bin.v ---------- *)
(* remaining(): assert!(self.ofs <= self.end); self.end - self.ofs *)
Definition remaining (s : bytes) (c : nat) : option nat :=
  if Nat.leb c (len s) then Some (len s - c) else None.

(* set_cursor_unsafe(start) followed by `return Err(e)`: assert!(self.start + ofs <= self.end) *)
Definition restore {A} (s : bytes) (start : nat) (k : ekind) : pres A :=
  if Nat.leb start (len s) then PErr k start else PPanic.

(* exact(tag): self.buf[self.ofs .. self.end].starts_with(tag) (the slice panics if ofs > end);
   on success ofs += tag.len(); on failure GuardError("match") at the unmoved cursor *)
Definition exact (tag : bytes) (s : bytes) (c : nat) : pres unit :=
  if Nat.leb c (len s) then
    if prefixb tag (skipn c s) then POk tt (c + len tag) else PErr EGuard c
  else PPanic.

(* ---------- rtps_prim.rs ---------- *)
(* GuidPrefixP: ByteVecP::new(12).parse(buf)?; TryFrom<&[u8]> for [u8; 12] fails iff the length is not 12:
   then the cursor is restored and BoundsError returned *)
Definition guid_prefix_p (s : bytes) (c : nat) : pres (lv bytes) :=
  match bytevec 12 s c with
  | POk (g, _, _) c1 =>
    if Nat.eqb (len g) 12 then POk (g, c, c1) c1 else restore s c EBounds
  | PErr k c' => PErr k c'
  | PPanic => PPanic
  | PFuel => PFuel
  end.

(* VendorIdP / ProtocolVersionP: UInt16P::new(Endian::Little).parse(buf)? *)
Definition vendor_id_p (s : bytes) (c : nat) : pres (lv N) :=
  match uN 1 Little s c with
  | POk (v, _, _) c1 => POk (v, c, c1) c1
  | r => r
  end.
Definition protocol_version_p (s : bytes) (c : nat) : pres (lv N) :=
  match uN 1 Little s c with
  | POk (v, _, _) c1 => POk (v, c, c1) c1
  | r => r
  end.

Definition MAGIC : bytes := B "RTPS".

(* HeaderP *)
Definition header_p (s : bytes) (c : nat) : pres (lv header) :=
  match exact MAGIC s c with
  | PErr _ c' => PErr EGuard c'                     (* e.place(GuardError("invalid magic")) *)
  | PPanic => PPanic
  | PFuel => PFuel
  | POk _ c1 =>
    match protocol_version_p s c1 with
    | PErr k _ => restore s c k
    | PPanic => PPanic
    | PFuel => PFuel
    | POk (pv, _, _) c2 =>
      match vendor_id_p s c2 with
      | PErr k _ => restore s c k
      | PPanic => PPanic
      | PFuel => PFuel
      | POk (vi, _, _) c3 =>
        match guid_prefix_p s c3 with
        | PErr k _ => restore s c k
        | PPanic => PPanic
        | PFuel => PFuel
        | POk (gp, _, _) c4 => POk (mkHeader pv vi gp, c, c4) c4
        end
      end
    end
  end.

(* msg_endian: flags & 0x01 == 0x01 *)
Definition msg_endian (flags : N) : endian :=
  if N.eqb (N.land flags 1) 1 then Little else Big.

(* SubMessageHeaderP *)
Definition smheader_p (s : bytes) (c : nat) : pres (lv smheader) :=
  match u8 s c with
  | PErr k c' => PErr k c'                          (* uip.parse(buf)? *)
  | PPanic => PPanic
  | PFuel => PFuel
  | POk (id, _, _) c1 =>
    match u8 s c1 with
    | PErr k _ => restore s c k
    | PPanic => PPanic
    | PFuel => PFuel
    | POk (fl, _, _) c2 =>
      match uN 1 (msg_endian fl) s c2 with
      | PErr k _ => restore s c k
      | PPanic => PPanic
      | PFuel => PFuel
      | POk (ln, _, _) c3 => POk (mkSmh id fl ln, c, c3) c3
      end
    end
  end.

(* SubMessageP: header?; length = if hdr.length() == 0 { buf.remaining() } else { hdr.length().into() };
   ByteVecP::new(length).parse(buf)?  — NB no restore when the payload is short: the cursor stays
   after the sub-message header *)
Definition submsg_p (s : bytes) (c : nat) : pres (lv submsg) :=
  match smheader_p s c with
  | PErr k c' => PErr k c'
  | PPanic => PPanic
  | PFuel => PFuel
  | POk (h, _, _) c1 =>
    match (if N.eqb (smh_length h) 0 then remaining s c1 else Some (N.to_nat (smh_length h))) with
    | None => PPanic
    | Some n =>
      match bytevec n s c1 with
      | PErr k c' => PErr k c'
      | PPanic => PPanic
      | PFuel => PFuel
      | POk (pld, _, _) c2 => POk (mkSm h pld, c, c2) c2
      end
    end
  end.

(* rtps_packet.rs PacketP: loop { if remaining == 0 break; match SubMessageP { Ok => push, Err => remember, break } }.
   The Vec is built in order; the recursion returns the same list.  [fuel] bounds the number of iterations
   (every successful iteration consumes >= 4 bytes: PFuel is proved unreachable for fuel > len s). *)
Fixpoint msgs_loop (fuel : nat) (s : bytes) (c : nat) : pres (list submsg) :=
  match fuel with
  | O => PFuel
  | S f =>
    match remaining s c with
    | None => PPanic
    | Some O => POk [] c
    | Some (S _) =>
      match submsg_p s c with
      | PErr k c' => PErr k c'                      (* err = Some(..); break; return Err *)
      | PPanic => PPanic
      | PFuel => PFuel
      | POk (sm, _, _) c1 =>
        match msgs_loop f s c1 with
        | POk l c2 => POk (sm :: l) c2
        | r => r
        end
      end
    end
  end.

Definition packet_p (s : bytes) (c : nat) : pres (lv packet) :=
  match header_p s c with
  | PErr k c' => PErr k c'                          (* hp.parse(buf)? *)
  | PPanic => PPanic
  | PFuel => PFuel
  | POk (h, _, _) c1 =>
    match msgs_loop (S (len s)) s c1 with
    | POk l c2 => POk (mkPacket h l, c, c2) c2
    | PErr k c' => PErr k c'
    | PPanic => PPanic
    | PFuel => PFuel
    end
  end.

(* the datagram reader of the property: PacketP on a fresh ParseBuffer *)
Definition decode (s : bytes) : res packet :=
  match packet_p s 0 with
  | POk (p, _, _) _ => Ok p
  | PErr k _ => Err k
  | PPanic => Panic
  | PFuel => Fuel
  end.

(* ---------- case protocol entry ----------
   args: hex datagram ("-" = empty).
   answer: ok <locstart> <locend> <version> <vendor> <prefixhex> <n> {<id> <flags> <length> <kind> <payloadhex>}* eq @<cursor>
         | err <kind> @<cursor> | panic | fuel
   ("eq": the runner rebuilds the packet from the printed fields through the public constructors and
   compares it with == to the parsed one; the model states the expected answer) *)
Definition show_submsg (m : submsg) : bytes :=
  let h := sm_hdr m in
  show_N (smh_id h) ++ B " " ++ show_N (smh_flags h) ++ B " " ++ show_N (smh_length h) ++ B " " ++
  show_smkind (kind_of_id (smh_id h)) ++ B " " ++ show_hex_tok (sm_payload m).

Definition show_packet (x : lv packet) : bytes :=
  let '(p, a, b) := x in
  let h := p_hdr p in
  show_nat a ++ B " " ++ show_nat b ++ B " " ++
  show_N (h_version h) ++ B " " ++ show_N (h_vendor h) ++ B " " ++ show_hex_tok (h_prefix h) ++ B " " ++
  show_nat (len (p_msgs p)) ++
  flat_map (fun m => B " " ++ show_submsg m) (p_msgs p) ++ B " eq".

Definition entry (args : list bytes) : bytes :=
  let s := unhex (nth_arg args 0) in
  show_pres show_packet (packet_p s 0).
