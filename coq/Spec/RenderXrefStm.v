(* Spec/RenderXrefStm.v — the cross-reference STREAM layout (PDF 1.5, ISO 32000-1 7.5.8) without filters, as a
   renderer:

     [garbage] %PDF-<header…>
     n g obj <value> endobj …
     x 0 obj << /Type /XRef /Size … /W [w0 w1 w2] /Index […] /Root … /Length L >> stream <rows> endstream endobj
     startxref <offset of that object> %%EOF

   The objects are written as in Spec/RenderClassic.v.  The cross-reference stream object is written like any
   stream object (render_obj: any digits, white space, ANY spelling of its dictionary, line ends); its data are the
   big-endian rows (Spec/XrefEnc.v render_parts) of a template [xl_parts] — any subsection partition, any field
   widths — whose in-use rows receive the computed offsets of the objects.  Definitions only. *)
From PV Require Export Base.Bytes Base.PdfObj Spec.XrefEnc Spec.RenderClassic.
From PV Require Import Model.Obj Model.Loader Model.LoaderBytes.

Record xlayout := mk_xlayout {
  xl_garbage : bytes;                          (* before `%PDF-` *)
  xl_hdr : bytes;                              (* behind `%PDF-`, up to the first object *)
  xl_objs : list lobj;                         (* one per object, in file order *)
  xl_id : oid;                                 (* the identifier of the cross-reference stream object *)
  xl_dict : list (bytes * obj);                (* its dictionary … *)
  xl_lo : lobj;                                (* … and how the object is written (lo_sp spells the dictionary) *)
  xl_w : nat * nat * nat;                      (* field widths /W *)
  xl_parts : list spart;                       (* the subsections; file offsets of IN-USE rows are ignored: computed *)
  xl_seol : bytes; xl_sxw : nat; xl_eeol : bytes;   (* `startxref` seol <sxw digits> eeol `%%EOF` *)
  xl_tail : bytes }.                           (* behind `%%EOF` *)

Definition xl_w0 (X : xlayout) : nat := fst (fst (xl_w X)).
Definition xl_w1 (X : xlayout) : nat := snd (fst (xl_w X)).
Definition xl_w2 (X : xlayout) : nat := snd (xl_w X).

(* an in-use row for object number [n] receives the offset of object (n, its generation) *)
Definition fill_row (ot : list (oid * N)) (n : N) (r : srow) : srow :=
  match r with
  | RInUse _ g => RInUse (match off_get ot (n, g) with Some o => o | None => 0%N end) g
  | _ => r
  end.

Fixpoint fill_rows (ot : list (oid * N)) (n : N) (l : list srow) : list srow :=
  match l with
  | [] => []
  | r :: l' => fill_row ot n r :: fill_rows ot (n + 1)%N l'
  end.

Definition fill_part (ot : list (oid * N)) (x : spart) : spart := (fst x, fill_rows ot (fst x) (snd x)).

Definition xchunks (d : list (oid * obj)) (X : xlayout) : list bytes :=
  List.map (fun p => render_obj (fst p) (snd p)) (combine d (xl_objs X)).

Definition xhead (X : xlayout) : bytes := kw_pdf ++ xl_hdr X.

(* header + objects: the cross-reference stream object starts at [len (xbody d X)] *)
Definition xbody (d : list (oid * obj)) (X : xlayout) : bytes := xhead X ++ concat (xchunks d X).

Definition xot (d : list (oid * obj)) (X : xlayout) : list (oid * N) :=
  combine (List.map fst d) (List.map N.of_nat (offsets (len (xhead X)) (xchunks d X))).

Definition xparts (d : list (oid * obj)) (X : xlayout) : list spart := List.map (fill_part (xot d X)) (xl_parts X).

Definition xrows (d : list (oid * obj)) (X : xlayout) : bytes := render_parts (xl_w0 X) (xl_w1 X) (xl_w2 X) (xparts d X).

Definition render_xrefstm_view (d : list (oid * obj)) (X : xlayout) : bytes :=
  xbody d X ++ render_obj (xl_id X, OStream (xl_dict X) (xrows d X)) (xl_lo X) ++
  kw_startxref ++ xl_seol X ++ digits (xl_sxw X) (N.of_nat (len (xbody d X))) ++ xl_eeol X ++ kw_eof ++ xl_tail X.

Definition render_xrefstm (d : list (oid * obj)) (X : xlayout) : bytes := xl_garbage X ++ render_xrefstm_view d X.
