(* Spec/RenderObjStm.v — object streams (ISO 32000-1 7.5.7) without filters in a file with an unfiltered
   cross-reference stream:

     … objects …   c 0 obj << /Type /ObjStm /N n /First f /Length L >> stream <pairs> <pad> <data> endstream endobj …
     x 0 obj << /Type /XRef … >> stream <rows> endstream endobj      startxref … %%EOF

   An object-stream container [ostm] is written like any stream object (Spec/RenderClassic.v render_obj: any digits,
   white space, ANY spelling of its dictionary); its data are the header pairs (Spec/ObjStmEnc.v render_pairs: any
   white space, leading zeros), padding up to /First, and the member data [os_body].  As in C14 the MEMBERS [os_ms] are
   the values the object parser reads at the declared offsets of the data (gaps between members are unconstrained).
   The file is the cross-reference-stream file of Spec/RenderXrefStm.v whose written objects are the in-file objects
   followed by the containers; the rows of the cross-reference stream list the containers as in-use (computed
   offsets) and the members as type-2 entries.  Definitions only. *)
From PV Require Export Base.Bytes Base.PdfObj Spec.XrefEnc Spec.ObjStmEnc Spec.RenderClassic Spec.RenderXrefStm.
From PV Require Import Model.Obj Model.Loader.

Record ostm := mk_ostm {
  os_num : N;                          (* the container's object number (generation 0) *)
  os_dict : list (bytes * obj);        (* its dictionary *)
  os_pairs : list hpair;               (* the header: (member number, offset) pairs as written *)
  os_pad : bytes;                      (* between the header and /First *)
  os_body : bytes;                     (* the data from /First on *)
  os_ms : list member }.               (* what the object parser reads at the declared offsets *)

Definition os_content (o : ostm) : bytes := (render_pairs (os_pairs o) ++ os_pad o) ++ os_body o.
Definition os_id (o : ostm) : oid := (os_num o, 0%N).
Definition os_obj (o : ostm) : oid * obj := (os_id o, OStream (os_dict o) (os_content o)).
Definition os_members (o : ostm) : list (N * obj) := List.map (fun m => (m_id m, m_val m)) (os_ms o).

(* the objects a container holds, as document objects (generation 0) *)
Definition os_docobjs (o : ostm) : list (oid * obj) := List.map (fun m => ((m_id m, 0%N), m_val m)) (os_ms o).
Definition compressed (stms : list ostm) : list (oid * obj) := flat_map os_docobjs stms.

(* the written objects: the in-file objects, then the containers ([xl_objs X] holds one layout for each) *)
Definition written (objs : list (oid * obj)) (stms : list ostm) : list (oid * obj) := objs ++ List.map os_obj stms.

Definition render_objstm (objs : list (oid * obj)) (stms : list ostm) (X : xlayout) : bytes :=
  render_xrefstm (written objs stms) X.
