(* Spec/RenderClassic.v — the CLASSIC file layout, as a renderer: what it means that a file "stores these
   objects" when it is written the way PDF 1.0–1.4 files are (ISO 32000-1 7.5):

     [garbage] %PDF-<header…>
     n g obj <value> endobj  …        (objects in the order of the list; streams with a direct /Length)
     xref <subsections>               (ONE table, any subsection partition: Spec/XrefEnc.v render_table)
     trailer << … >>
     startxref <offset of xref> %%EOF

   Every choice the format leaves open is a field of [layout]: leading garbage, the header text, per object
   the number of digits of its number and generation, the white space / comments between all tokens, the
   spelling of the value (ANY spelling: Spec/Spelling.v), the line ends around a stream's data, arbitrary
   bytes between `endobj` and the next object; the white space around `xref`, the subsection partition with
   its header spellings and entry terminators, free entries; the spelling of the trailer dictionary; the
   white space around `startxref`, the digits of the offset, `%%EOF`, trailing bytes.
   The OFFSETS are computed here: the in-use entries of the table receive the position of `n g obj`
   (relative to `%PDF-`), `startxref` the position of the table.
   Which layouts are legal ([wf_layout]) is stated in Proofs/LoaderBytesMain.v (it speaks of spellings).
   Definitions only. *)
From PV Require Export Base.Bytes Base.PdfObj Spec.XrefEnc.
From PV Require Import Model.Obj Model.Loader Model.LoaderBytes.

(* a document: its objects (identifier ↦ value; a stream is [OStream dict payload]) and the root *)
Record cdoc := mk_cdoc { d_objs : list (oid * obj); d_root : oid }.

(* ---------- one object ---------- *)
Record lobj := mk_lobj {
  lo_nw : nat; lo_gw : nat;                    (* digits of the number / the generation (leading zeros) *)
  lo_w1 : bytes; lo_w2 : bytes; lo_w3 : bytes; (* num w1 gen w2 `obj` w3 value *)
  lo_sp : bytes;                               (* the spelling of the value — of the dictionary, for a stream *)
  lo_w4 : bytes;                               (* value w4 `endobj`  |  dictionary w4 `stream` *)
  lo_eol1 : bytes; lo_eol2 : bytes;            (* `stream` eol1 data eol2 `endstream` *)
  lo_w5 : bytes;                               (* `endstream` w5 `endobj` *)
  lo_post : bytes }.                           (* anything up to the next object *)

Definition render_obj (x : oid * obj) (lo : lobj) : bytes :=
  digits (lo_nw lo) (fst (fst x)) ++ lo_w1 lo ++ digits (lo_gw lo) (snd (fst x)) ++ lo_w2 lo ++ kw_obj ++
  lo_w3 lo ++ lo_sp lo ++ lo_w4 lo ++
  match snd x with
  | OStream _ payload => kw_stream ++ lo_eol1 lo ++ payload ++ lo_eol2 lo ++ kw_endstream ++ lo_w5 lo
  | _ => []
  end ++ kw_endobj ++ lo_post lo.

(* ---------- the file ---------- *)
Record layout := mk_layout {
  l_garbage : bytes;                           (* before `%PDF-` *)
  l_hdr : bytes;                               (* behind `%PDF-`, up to the first object *)
  l_objs : list lobj;                          (* one per object, in file order *)
  l_xpre : bytes; l_xeol : bytes;              (* xpre `xref` xeol subsections *)
  l_table : list tsub;                         (* the partition; te_info of IN-USE entries is ignored: computed *)
  l_tw : bytes; l_tsp : bytes;                 (* `trailer` tw <spelling of the trailer dictionary> *)
  l_sw : bytes;                                (* dictionary sw `startxref` *)
  l_seol : bytes; l_sxw : nat; l_eeol : bytes; (* `startxref` seol <sxw digits> eeol `%%EOF` *)
  l_tail : bytes }.                            (* behind `%%EOF` *)

Fixpoint offsets (base : nat) (chunks : list bytes) : list nat :=
  match chunks with
  | [] => []
  | c :: r => base :: offsets (base + len c) r
  end.

Definition chunks (d : list (oid * obj)) (l : layout) : list bytes :=
  List.map (fun p => render_obj (fst p) (snd p)) (combine d (l_objs l)).

Definition head (l : layout) : bytes := kw_pdf ++ l_hdr l.

(* header + objects: the table starts at [len (body d l)] *)
Definition body (d : list (oid * obj)) (l : layout) : bytes := head l ++ concat (chunks d l).

(* identifier ↦ offset of its `n g obj` *)
Definition off_table (d : list (oid * obj)) (l : layout) : list (oid * N) :=
  combine (List.map fst d) (List.map N.of_nat (offsets (len (head l)) (chunks d l))).

Fixpoint off_get (t : list (oid * N)) (id : oid) : option N :=
  match t with
  | [] => None
  | (k, o) :: r => if oid_eqb k id then Some o else off_get r id
  end.

(* an in-use entry for object number [n] receives the offset of object (n, its generation) *)
Definition fill_ent (ot : list (oid * N)) (n : N) (e : tent) : tent :=
  if te_inuse e
  then mk_tent (match off_get ot (n, te_gen e) with Some o => o | None => 0%N end) (te_gen e) true (te_term e)
  else e.

Fixpoint fill_ents (ot : list (oid * N)) (n : N) (l : list tent) : list tent :=
  match l with
  | [] => []
  | e :: r => fill_ent ot n e :: fill_ents ot (n + 1)%N r
  end.

Definition fill_sub (ot : list (oid * N)) (x : tsub) : tsub :=
  mk_tsub (ts_lead x) (ts_start x) (ts_sw x) (ts_cw x) (ts_eol x) (fill_ents ot (ts_start x) (ts_ents x)).

Definition table (d : list (oid * obj)) (l : layout) : list tsub := List.map (fill_sub (off_table d l)) (l_table l).

(* from `trailer` to the end *)
Definition tail_part (d : list (oid * obj)) (l : layout) : bytes :=
  kw_trailer ++ l_tw l ++ l_tsp l ++ l_sw l ++
  kw_startxref ++ l_seol l ++ digits (l_sxw l) (N.of_nat (len (body d l))) ++ l_eeol l ++ kw_eof ++ l_tail l.

(* the view the loader works on (from `%PDF-`) and the file *)
Definition render_view (d : list (oid * obj)) (l : layout) : bytes :=
  body d l ++ render_sect (l_xpre l) (l_xeol l) (table d l) ++ tail_part d l.

Definition render_classic (d : list (oid * obj)) (l : layout) : bytes := l_garbage l ++ render_view d l.
