(* Spec/Fig9.v — what C12 means, written by hand from ISO 32000-1:2008 and independent of the code:

     * Table 51 "Operator categories" (8.2) / Annex A "Operator summary": the 73 operators and their class;
     * Figure 9 "Graphics objects" (8.2): which classes are allowed at which level and which operators move
       between levels;
     * 7.8.2: BX/EX bracket sections in which unrecognised operators are ignored (may be nested);
     * Table 109 "Text-showing operators": operands of Tj, quote, double-quote, TJ.

   The extractor's documented output (doc comments of pdf_content_streams.rs and the property text): the string
   operands of the text-showing operators in order, byte for byte; a Space token for BT and ET ("Introduce a space
   at the start and end of a text object"), for the line moves Td TD T*, and before the string of the quote and double-quote operators.

   Definitions only.

   READING DECISIONS (each one is visible in the definitions below; none was made to agree with the code):
   R1. Figure 9 does not mention the compatibility operators.  They are treated as one more class of "general"
       operators: allowed where the figure allows general classes (page level, text object) and not inside the
       objects whose allowed-operator list is closed (path: path construction only; clipping path: none; inline
       image: ID only).  The nesting depth is a counter orthogonal to the graphics-object state.
   R2. Shading (sh) and external objects (Do) are "immediate" objects in the figure: page level -> page level.
   R3. d0/d1 (Type 3 font operators) appear in Table 51 but at no level of Figure 9 (they belong to glyph
       descriptions): not permitted anywhere.
   R4. The inline-image object allows ID and is left by EI, literally as drawn (so BI EI and BI ID ID EI are walks
       of the figure); the image data between ID and EI is outside the token-level property.
   R5. An EX without an open BX ("shall occur in pairs") is outside the property: neither a legal walk nor one of
       the three kinds of stream the property says must be rejected. *)
From PV Require Export Base.PdfObj.

(* ---------- interface types shared with the model ---------- *)

(* a content-stream object (CSObjT): an operator, or an operand object.  CSObjT has no Reference/Stream
   alternative: the lexer never produces [TObj (ORef _ _)] / [TObj (OStream _ _)]. *)
Inductive cstoken :=
| TOp (name : bytes)
| TObj (o : obj).

(* TextToken *)
Inductive texttoken :=
| Space
| RawText (s : bytes).

(* ---------- Table 51: operator categories ---------- *)
Inductive opclass :=
| KGeneralGS | KSpecialGS | KPathConstruction | KPathPainting | KClippingPath | KTextObject | KTextState
| KTextPositioning | KTextShowing | KType3Font | KColour | KShading | KInlineImage | KXObject
| KMarkedContent | KCompatibility.

Definition table51 : list (opclass * list bytes) := [
  (KGeneralGS,        [B "w"; B "J"; B "j"; B "M"; B "d"; B "ri"; B "i"; B "gs"]);
  (KSpecialGS,        [B "q"; B "Q"; B "cm"]);
  (KPathConstruction, [B "m"; B "l"; B "c"; B "v"; B "y"; B "h"; B "re"]);
  (KPathPainting,     [B "S"; B "s"; B "f"; B "F"; B "f*"; B "B"; B "B*"; B "b"; B "b*"; B "n"]);
  (KClippingPath,     [B "W"; B "W*"]);
  (KTextObject,       [B "BT"; B "ET"]);
  (KTextState,        [B "Tc"; B "Tw"; B "Tz"; B "TL"; B "Tf"; B "Tr"; B "Ts"]);
  (KTextPositioning,  [B "Td"; B "TD"; B "Tm"; B "T*"]);
  (KTextShowing,      [B "Tj"; B "TJ"; [39%N]; [34%N]]);          (* Tj TJ quote double-quote *)
  (KType3Font,        [B "d0"; B "d1"]);
  (KColour,           [B "CS"; B "cs"; B "SC"; B "SCN"; B "sc"; B "scn"; B "G"; B "g"; B "RG"; B "rg"; B "K"; B "k"]);
  (KShading,          [B "sh"]);
  (KInlineImage,      [B "BI"; B "ID"; B "EI"]);
  (KXObject,          [B "Do"]);
  (KMarkedContent,    [B "MP"; B "DP"; B "BMC"; B "BDC"; B "EMC"]);
  (KCompatibility,    [B "BX"; B "EX"])
].

Definition annexA : list (bytes * opclass) :=
  flat_map (fun row => List.map (fun n => (n, fst row)) (snd row)) table51.

Fixpoint assoc {V} (l : list (bytes * V)) (n : bytes) : option V :=
  match l with
  | [] => None
  | (k, v) :: r => if bytes_eqb n k then Some v else assoc r n
  end.

Definition class_of (n : bytes) : option opclass := assoc annexA n.

Definition op_names : list bytes := List.map fst annexA.

(* ---------- Figure 9: graphics objects ---------- *)
Inductive gstate := PageLevel | TextObject | PathObject | ClippingPath | InlineImageObject.

Definition all_gstate : list gstate := [PageLevel; TextObject; PathObject; ClippingPath; InlineImageObject].

Definition is_name (n : bytes) (l : list bytes) : bool := existsb (bytes_eqb n) l.

(* fig9 s n = Some s' : operator n is permitted at level s and leads to level s';  None: not permitted / unknown *)
Definition fig9 (s : gstate) (n : bytes) : option gstate :=
  match class_of n with
  | None => None
  | Some k =>
    match s with
    | PageLevel =>
      match k with
      | KGeneralGS | KSpecialGS | KColour | KTextState | KMarkedContent => Some PageLevel   (* allowed operators *)
      | KCompatibility => Some PageLevel                                                     (* R1 *)
      | KShading | KXObject => Some PageLevel                                                (* R2: immediate *)
      | KTextObject => if is_name n [B "BT"] then Some TextObject else None
      | KPathConstruction => if is_name n [B "m"; B "re"] then Some PathObject else None
      | KInlineImage => if is_name n [B "BI"] then Some InlineImageObject else None
      | _ => None
      end
    | TextObject =>
      match k with
      | KGeneralGS | KColour | KTextState | KTextShowing | KTextPositioning | KMarkedContent => Some TextObject
      | KCompatibility => Some TextObject                                                    (* R1 *)
      | KTextObject => if is_name n [B "ET"] then Some PageLevel else None
      | _ => None
      end
    | PathObject =>
      match k with
      | KPathConstruction => Some PathObject
      | KPathPainting => Some PageLevel
      | KClippingPath => Some ClippingPath
      | _ => None
      end
    | ClippingPath =>
      match k with
      | KPathPainting => Some PageLevel
      | _ => None
      end
    | InlineImageObject =>
      match k with
      | KInlineImage => if is_name n [B "ID"] then Some InlineImageObject
                        else if is_name n [B "EI"] then Some PageLevel else None
      | _ => None
      end
    end
  end.

(* ---------- content streams as operator applications ---------- *)
(* one operator with the operands that precede it *)
Inductive item := IOp (operands : list obj) (name : bytes).

Definition is_num (o : obj) : bool := match o with OInt _ | OReal _ _ => true | _ => false end.
Definition is_str (o : obj) : bool := match o with OStr _ => true | _ => false end.

(* Table 109: operands of the text-showing operators; every other operator: not constrained by the property *)
Definition operands_ok (ops : list obj) (n : bytes) : bool :=
  if is_name n [B "Tj"; [39%N]] then match ops with [OStr _] => true | _ => false end
  else if is_name n [[34%N]] then match ops with [a; b; OStr _] => is_num a && is_num b | _ => false end
  else if is_name n [B "TJ"] then match ops with [OArr l] => forallb (fun o => is_str o || is_num o) l | _ => false end
  else true.

Fixpoint strings_of (l : list obj) : list texttoken :=
  match l with
  | [] => []
  | OStr s :: r => RawText s :: strings_of r
  | _ :: r => strings_of r
  end.

(* the tokens one operator application contributes *)
Definition out_of (it : item) : list texttoken :=
  let '(IOp ops n) := it in
  if is_name n [B "Tj"] then match ops with [OStr s] => [RawText s] | _ => [] end
  else if is_name n [[39%N]] then match ops with [OStr s] => [Space; RawText s] | _ => [] end
  else if is_name n [[34%N]] then match ops with [_; _; OStr s] => [Space; RawText s] | _ => [] end
  else if is_name n [B "TJ"] then match ops with [OArr l] => strings_of l | _ => [] end
  else if is_name n [B "BT"; B "ET"; B "Td"; B "TD"; B "T*"] then [Space]
  else [].

Definition tokens_spec (items : list item) : list texttoken := flat_map out_of items.

Definition next_depth (d : nat) (n : bytes) : nat :=
  if is_name n [B "BX"] then S d else if is_name n [B "EX"] then Nat.pred d else d.

(* a legal walk of the diagram from level s at compatibility depth d *)
Fixpoint legal_from (s : gstate) (d : nat) (items : list item) : bool :=
  match items with
  | [] => true
  | IOp ops n :: r =>
    match class_of n with
    | None => Nat.ltb 0 d && legal_from s d r                       (* unknown operator: only inside BX … EX *)
    | Some _ =>
      match fig9 s n with
      | None => false
      | Some s' =>
        operands_ok ops n
        && (if is_name n [B "EX"] then Nat.ltb 0 d else true)       (* R5 *)
        && legal_from s' (next_depth d n) r
      end
    end
  end.

Definition legal_walk (items : list item) : bool := legal_from PageLevel 0 items.

(* a stream the property says must be rejected: after a legal prefix, an operator not permitted at the current
   level, or an unknown operator outside a compatibility section, or a text-showing operator with the wrong
   number or kind of operands *)
Fixpoint illegal_from (s : gstate) (d : nat) (items : list item) : bool :=
  match items with
  | [] => false
  | IOp ops n :: r =>
    match class_of n with
    | None => if Nat.eqb d 0 then true else illegal_from s d r
    | Some _ =>
      match fig9 s n with
      | None => true
      | Some s' =>
        if negb (operands_ok ops n) then true
        else if is_name n [B "EX"] && Nat.eqb d 0 then false        (* R5: outside the property *)
        else illegal_from s' (next_depth d n) r
      end
    end
  end.

Definition illegal (items : list item) : bool := illegal_from PageLevel 0 items.

(* the token list of a stream of operator applications *)
Definition flatten (items : list item) : list cstoken :=
  flat_map (fun it => let '(IOp ops n) := it in List.map TObj ops ++ [TOp n]) items.

(* reference extractor *)
Definition extract_spec (items : list item) : option (list texttoken) :=
  if legal_walk items then Some (tokens_spec items) else None.

(* comments are not objects of a content stream (they are white space, 7.2.3) *)
Definition no_comment (o : obj) : bool := match o with OComment _ => false | _ => true end.
Definition wf_item (it : item) : bool := let '(IOp ops _) := it in forallb no_comment ops.
Definition wf_items (items : list item) : bool := forallb wf_item items.
