(* Spec/RenderHybrid.v — the HYBRID-reference layout (ISO 32000-1 7.5.8.4) without filters, as a renderer:

     [garbage] %PDF-<header…>   n g obj <value> endobj …
     x 0 obj << /Type /XRef … >> stream <rows> endstream endobj
     xref <table>   trailer << /Root … /XRefStm <offset of x 0 obj> >>   startxref <offset of xref> %%EOF

   Objects as in Spec/RenderClassic.v, the cross-reference stream object as in Spec/RenderXrefStm.v, the table as in
   Spec/RenderClassic.v.  An object may be listed by the table or by the stream; both receive the computed offsets.
   The /XRefStm number is part of the trailer spelling the layout supplies and is required by [wf_hylayout]
   (Proofs/LoaderBytesHybrid.v) to be the computed offset of the stream object.  Definitions only. *)
From PV Require Export Base.Bytes Base.PdfObj Spec.XrefEnc Spec.RenderClassic Spec.RenderXrefStm.
From PV Require Import Model.Obj Model.Loader Model.LoaderBytes.

Record hylayout := mk_hylayout {
  hy_garbage : bytes; hy_hdr : bytes;
  hy_objs : list lobj;                         (* one per object, in file order *)
  hy_id : oid; hy_dict : list (bytes * obj); hy_lo : lobj;   (* the cross-reference stream object *)
  hy_w : nat * nat * nat; hy_parts : list spart;             (* its widths and rows (in-use offsets computed) *)
  hy_xpre : bytes; hy_xeol : bytes; hy_table : list tsub;    (* the table (in-use offsets computed) *)
  hy_tw : bytes; hy_tsp : bytes; hy_sw : bytes;              (* `trailer` tw <dictionary> sw *)
  hy_seol : bytes; hy_sxw : nat; hy_eeol : bytes; hy_tail : bytes }.

Definition hy_w0 (H : hylayout) : nat := fst (fst (hy_w H)).
Definition hy_w1 (H : hylayout) : nat := snd (fst (hy_w H)).
Definition hy_w2 (H : hylayout) : nat := snd (hy_w H).

Definition hychunks (d : list (oid * obj)) (H : hylayout) : list bytes :=
  List.map (fun p => render_obj (fst p) (snd p)) (combine d (hy_objs H)).
Definition hyhead (H : hylayout) : bytes := kw_pdf ++ hy_hdr H.
(* header + objects: the cross-reference stream object starts at [len (hybody d H)] *)
Definition hybody (d : list (oid * obj)) (H : hylayout) : bytes := hyhead H ++ concat (hychunks d H).
Definition hyot (d : list (oid * obj)) (H : hylayout) : list (oid * N) :=
  combine (List.map fst d) (List.map N.of_nat (offsets (len (hyhead H)) (hychunks d H))).
Definition hyparts (d : list (oid * obj)) (H : hylayout) : list spart := List.map (fill_part (hyot d H)) (hy_parts H).
Definition hyrows (d : list (oid * obj)) (H : hylayout) : bytes := render_parts (hy_w0 H) (hy_w1 H) (hy_w2 H) (hyparts d H).
Definition hyxobj (d : list (oid * obj)) (H : hylayout) : bytes := render_obj (hy_id H, OStream (hy_dict H) (hyrows d H)) (hy_lo H).
Definition hytable (d : list (oid * obj)) (H : hylayout) : list tsub := List.map (fill_sub (hyot d H)) (hy_table H).
(* the table starts behind the stream object *)
Definition hytoff (d : list (oid * obj)) (H : hylayout) : nat := len (hybody d H) + len (hyxobj d H).

Definition render_hybrid_view (d : list (oid * obj)) (H : hylayout) : bytes :=
  hybody d H ++ hyxobj d H ++ render_sect (hy_xpre H) (hy_xeol H) (hytable d H) ++
  kw_trailer ++ hy_tw H ++ hy_tsp H ++ hy_sw H ++
  kw_startxref ++ hy_seol H ++ digits (hy_sxw H) (N.of_nat (hytoff d H)) ++ hy_eeol H ++ kw_eof ++ hy_tail H.

Definition render_hybrid (d : list (oid * obj)) (H : hylayout) : bytes := hy_garbage H ++ render_hybrid_view d H.
