(* Spec/Conforms.v — what "the object conforms to the specification" means (C08), independent
   of the checker's work list, memo and backtracking.

   [approx1 rec o c] unfolds one layer of a check, asking [rec] about the parts:
     * a named check is its definition; an undefined name conforms to nothing;
     * a disjunction is satisfied iff its own predicate and indirection requirement hold of the
       object (read as a check of type Any) and one of its alternatives is satisfied;
     * a reference conforms iff indirection is not forbidden and the value it denotes conforms
       to the same check with indirection allowed; an undefined reference, or a reference chain
       that never reaches a value, denotes null;
     * a direct object fails a required indirection; the predicate always applies;
     * arrays, heterogeneous arrays, dictionaries (required present, forbidden absent, present
       keys conform, '*' for the keys not listed) and streams are checked member-wise.
   [conforms] is the greatest fixed point: [forall n, approx n o c = true] — on a cyclic graph
   under a recursive type an object conforms unless some finite unfolding exposes a mismatch.
   [conforms_dec] computes it by Kleene iteration over the finitely many reachable
   (object, check) pairs. *)
From PV Require Export Model.TypeCheck.

(* membership up to the structural equality of Model/TypeCheck.v (predicates by identity,
   indirection included) *)
Definition memf (p : pend) (l : list pend) := existsb (pend_eqb p) l.

Section Spec.
Variable opq : N -> obj -> bool.
Variable octx_ : octx.
Variable tctx_ : tctx.

(* the value a (chain of) reference(s) denotes *)
Fixpoint deref (fuel : nat) (o : obj) : obj :=
  match o with
  | ORef n g =>
    match fuel with
    | O => ONull
    | S f => match octx_get octx_ (n, g) with Some o' => deref f o' | None => ONull end
    end
  | _ => o
  end.
Definition value_of (o : obj) : obj := deref (S (len octx_)) o.

Definition pred_ok (p : option pred) (o : obj) : bool :=
  match p with None => true | Some f => pred_eval opq f o end.

Definition ents_ok (rec : obj -> chk -> bool) (d : list (bytes * obj)) (ents : list dent) : bool :=
  forallb (fun e =>
    match dict_get d (ent_key e), ent_opt e with
    | None, KReq => false
    | None, _ => true
    | Some _, KForb => false
    | Some v, _ => rec v (ent_chk e)
    end) ents.

Definition star_ok (rec : obj -> chk -> bool) (d : list (bytes * obj)) (ents : list dent)
           (star : option (chk * kspec)) : bool :=
  match star with
  | None => true
  | Some (sc, so) =>
    forallb (fun kv =>
      if existsb (bytes_eqb (fst kv)) (List.map ent_key ents) then true
      else match so with KForb => false | _ => rec (snd kv) sc end) d
  end.

Fixpoint forallb2 {A B} (f : A -> B -> bool) (l : list A) (m : list B) : bool :=
  match l, m with
  | [], [] => true
  | x :: l', y :: m' => f x y && forallb2 f l' m'
  | _, _ => false
  end.

Definition type_ok (rec : obj -> chk -> bool) (o : obj) (t : ty) : bool :=
  match t, o with
  | TAny, _ => true
  | TPrim p, _ => prim_match o p
  | TArr e sz, OArr l =>
    match sz with Some n => Nat.eqb (len l) n | None => true end && forallb (fun x => rec x e) l
  | THet es, OArr l => forallb2 rec l es
  | TDict ents star, ODict d => ents_ok rec d ents && star_ok rec d ents star
  | TStream ents, OStream d _ => ents_ok rec d ents
  | _, _ => false
  end.

Definition approx1 (rec : obj -> chk -> bool) (o : obj) (c : chk) : bool :=
  match @resolve tctx_ c with
  | None => false
  | Some r =>
    match r_ty r with
    | TDisj alts => rec o (CRep TAny (r_pred r) (r_ind r)) && existsb (rec o) alts
    | t =>
      match o with
      | ORef _ _ => negb (ispec_eqb (r_ind r) IForb) && rec (value_of o) (allow_indirect r)
      | _ => negb (ispec_eqb (r_ind r) IReq) && pred_ok (r_pred r) o && type_ok rec o t
      end
    end
  end.

Fixpoint approx (n : nat) (o : obj) (c : chk) : bool :=
  match n with
  | O => true
  | S n' => approx1 (approx n') o c
  end.

Definition conforms (o : obj) (c : chk) : Prop := forall n, approx n o c = true.

(* ---------- the same reading with a switch [sk]: when [sk] is true, dictionary and stream
   entries (and the '*' entry) whose check resolves to type Any are not checked at all — the
   behaviour of the library that known finding C08-any-entry describes.  With [sk] = false these
   are the definitions above (by computation). ---------- *)
Definition is_any (c : chk) : bool :=
  match @resolve tctx_ c with
  | Some r => match r_ty r with TAny => true | _ => false end
  | None => false
  end.

Definition ents_okg (sk : bool) (rec : obj -> chk -> bool) (d : list (bytes * obj)) (ents : list dent) : bool :=
  forallb (fun e =>
    match dict_get d (ent_key e), ent_opt e with
    | None, KReq => false
    | None, _ => true
    | Some _, KForb => false
    | Some v, _ => if sk && is_any (ent_chk e) then true else rec v (ent_chk e)
    end) ents.

Definition star_okg (sk : bool) (rec : obj -> chk -> bool) (d : list (bytes * obj)) (ents : list dent)
           (star : option (chk * kspec)) : bool :=
  match star with
  | None => true
  | Some (sc, so) =>
    forallb (fun kv =>
      if existsb (bytes_eqb (fst kv)) (List.map ent_key ents) then true
      else match so with KForb => false | _ => if sk && is_any sc then true else rec (snd kv) sc end) d
  end.

Definition type_okg (sk : bool) (rec : obj -> chk -> bool) (o : obj) (t : ty) : bool :=
  match t, o with
  | TAny, _ => true
  | TPrim p, _ => prim_match o p
  | TArr e sz, OArr l =>
    match sz with Some n => Nat.eqb (len l) n | None => true end && forallb (fun x => rec x e) l
  | THet es, OArr l => forallb2 rec l es
  | TDict ents star, ODict d => ents_okg sk rec d ents && star_okg sk rec d ents star
  | TStream ents, OStream d _ => ents_okg sk rec d ents
  | _, _ => false
  end.

Definition approx1g (sk : bool) (rec : obj -> chk -> bool) (o : obj) (c : chk) : bool :=
  match @resolve tctx_ c with
  | None => false
  | Some r =>
    match r_ty r with
    | TDisj alts => rec o (CRep TAny (r_pred r) (r_ind r)) && existsb (rec o) alts
    | t =>
      match o with
      | ORef _ _ => negb (ispec_eqb (r_ind r) IForb) && rec (value_of o) (allow_indirect r)
      | _ => negb (ispec_eqb (r_ind r) IReq) && pred_ok (r_pred r) o && type_okg sk rec o t
      end
    end
  end.

Fixpoint approxg (sk : bool) (n : nat) (o : obj) (c : chk) : bool :=
  match n with
  | O => true
  | S n' => approx1g sk (approxg sk n') o c
  end.

Definition conforms_gen (sk : bool) (o : obj) (c : chk) : Prop := forall n, approxg sk n o c = true.
(* the reading that the library implements (known finding C08-any-entry) *)
Definition conforms_skip := conforms_gen true.

(* ---------- executable: Kleene iteration over the reachable pairs ---------- *)

(* the pairs [approx1 rec o c] may ask [rec] about *)
Definition children (p : pend) : list pend :=
  let '(o, c) := p in
  match @resolve tctx_ c with
  | None => []
  | Some r =>
    match r_ty r with
    | TDisj alts => (o, CRep TAny (r_pred r) (r_ind r)) :: List.map (fun a => (o, a)) alts
    | t =>
      match o with
      | ORef _ _ => [(value_of o, allow_indirect r)]
      | _ =>
        match t, o with
        | TArr e _, OArr l => List.map (fun x => (x, e)) l
        | THet es, OArr l => combine l es
        | TDict ents star, ODict d =>
          flat_map (fun e => match dict_get d (ent_key e) with Some v => [(v, ent_chk e)] | None => [] end) ents
          ++ match star with
             | Some (sc, _) => List.map (fun kv => (snd kv, sc)) d
             | None => []
             end
        | TStream ents, OStream d _ =>
          flat_map (fun e => match dict_get d (ent_key e) with Some v => [(v, ent_chk e)] | None => [] end) ents
        | _, _ => []
        end
      end
    end
  end.

(* worklist closure with fuel *)
Fixpoint closure (fuel : nat) (work : list pend) (seen : list pend) : list pend :=
  match fuel with
  | O => seen
  | S f =>
    match work with
    | [] => seen
    | p :: w => if memf p seen then closure f w seen else closure f (children p ++ w) (p :: seen)
    end
  end.

Definition refine (A : list pend) : list pend :=
  filter (fun p => approx1 (fun o c => memf (o, c) A) (fst p) (snd p)) A.

Fixpoint iter {X} (n : nat) (f : X -> X) (x : X) : X :=
  match n with O => x | S n' => iter n' f (f x) end.

Definition conforms_dec_fuel (fuel : nat) (o : obj) (c : chk) : bool :=
  let pc := closure fuel [(o, c)] [] in
  memf (o, c) (iter (S (len pc)) refine pc).
End Spec.

(* well-formed specifications: every name is defined, no disjunction is empty *)
Fixpoint wf_chk (tc : tctx) (c : chk) : bool :=
  match c with
  | CRep t _ _ => wf_ty tc t
  | CNamed n => match tctx_get tc n with Some _ => true | None => false end
  end
with wf_ty (tc : tctx) (t : ty) : bool :=
  match t with
  | TAny | TPrim _ => true
  | TArr e _ => wf_chk tc e
  | THet es => (fix go (l : list chk) := match l with [] => true | x :: r => wf_chk tc x && go r end) es
  | TDict ents star =>
    (fix go (l : list dent) := match l with [] => true | x :: r => wf_dent tc x && go r end) ents
    && match star with Some (c, _) => wf_chk tc c | None => true end
  | TStream ents => (fix go (l : list dent) := match l with [] => true | x :: r => wf_dent tc x && go r end) ents
  | TDisj alts =>
    match alts with [] => false | _ => true end
    && (fix go (l : list chk) := match l with [] => true | x :: r => wf_chk tc x && go r end) alts
  end
with wf_dent (tc : tctx) (e : dent) : bool :=
  match e with DEnt _ c _ => wf_chk tc c end.

Definition wf_spec (tc : tctx) (c : chk) : bool :=
  wf_chk tc c && forallb (fun e => wf_ty tc (r_ty (snd e))) tc.

Definition conforms_dec (opq : N -> obj -> bool) (oc : octx) (tc : tctx) (o : obj) (c : chk) : bool :=
  let os := uni_objs oc o in
  let cs := uni_chks tc c in
  conforms_dec_fuel opq oc tc (S (len os) * (4 * S (len cs)) * (fan_o os + fan_c cs + 3)) o c.

(* case protocol: modes "v" and "s" run the checker model; mode "c" prints the declarative verdict
   (model side only: used by props/c08.py to cross-check its own reading of the specification) *)
Definition entry (args : list bytes) : bytes :=
  if bytes_eqb (nth_arg args 0) (B "c") then
    match read_octx (nth_arg args 1), read_tctx (nth_arg args 2),
          read_chk_tok (nth_arg args 3), read_obj_tok (nth_arg args 4) with
    | Some oc, Some tc, Some c, Some o =>
      if conforms_dec opq_default oc tc (canon_obj o) c then B "conforms" else B "violates"
    | _, _, _, _ => B "badcase"
    end
  else entry_checker args.
