(* Spec/Peg.v — what C18 means: the textbook big-step semantics of parsing expression grammars
   (Ford 2004) on suffixes of the input, for the expression syntax of Model/Comb.v (syntax only is
   shared: [expr], [guard_ok], [nullable], [wfe]; nothing of the implementation model is used).
   Values carry no locations.  Also: an executable evaluator proved equal to the relation,
   determinism, totality on well-formed expressions, and the span discipline of located trees. *)
From PV Require Import Model.Comb.

(* a guarded ASCII byte parser accepts exactly the ASCII bytes satisfying its guard *)
Definition accepts (g : guard) (b : N) : bool := (b <? 128)%N && guard_ok g b.

Inductive val :=
| VChr (b : N)
| VSeq (x y : val)
| VL (x : val)
| VR (x : val)
| VStar (l : list val)
| VNot.

(* [peg e x (Some (v, r))]: e succeeds on x with value v leaving the suffix r; [peg e x None]: e fails on x *)
Inductive peg : expr -> bytes -> option (val * bytes) -> Prop :=
| PChrOk g b x : accepts g b = true -> peg (Chr g) (b :: x) (Some (VChr b, x))
| PChrNo g b x : accepts g b = false -> peg (Chr g) (b :: x) None
| PChrEnd g : peg (Chr g) [] None
(* the harness's cursor-dirtying leaf has the same meaning as [Chr]: only its cursor discipline differs *)
| PDtyOk g b x : accepts g b = true -> peg (Dty g) (b :: x) (Some (VChr b, x))
| PDtyNo g b x : accepts g b = false -> peg (Dty g) (b :: x) None
| PDtyEnd g : peg (Dty g) [] None
| PSeqOk a b x v1 r1 v2 r2 :
    peg a x (Some (v1, r1)) -> peg b r1 (Some (v2, r2)) -> peg (Seq a b) x (Some (VSeq v1 v2, r2))
| PSeqNo1 a b x : peg a x None -> peg (Seq a b) x None
| PSeqNo2 a b x v1 r1 : peg a x (Some (v1, r1)) -> peg b r1 None -> peg (Seq a b) x None
| PAltL a b x v r : peg a x (Some (v, r)) -> peg (Alt a b) x (Some (VL v, r))
| PAltR a b x v r : peg a x None -> peg b x (Some (v, r)) -> peg (Alt a b) x (Some (VR v, r))
| PAltNo a b x : peg a x None -> peg b x None -> peg (Alt a b) x None
| PStarEnd a x : peg a x None -> peg (Star a) x (Some (VStar [], x))
| PStarStep a x v r vs r' :
    peg a x (Some (v, r)) -> peg (Star a) r (Some (VStar vs, r')) -> peg (Star a) x (Some (VStar (v :: vs), r'))
| PNotOk a x : peg a x None -> peg (Not a) x (Some (VNot, x))
| PNotNo a x v r : peg a x (Some (v, r)) -> peg (Not a) x None.

Definition wf (e : expr) : Prop := wfe e = true.

(* ---------- executable evaluator; outer [None] = out of fuel ---------- *)
Fixpoint star_eval (p : bytes -> option (option (val * bytes))) (n : nat) (x : bytes)
  : option (list val * bytes) :=
  match n with
  | O => None
  | S n' =>
    match p x with
    | None => None
    | Some None => Some ([], x)
    | Some (Some (v, r)) =>
      match star_eval p n' r with
      | None => None
      | Some (vs, r') => Some (v :: vs, r')
      end
    end
  end.

Fixpoint peg_eval (fuel : nat) (e : expr) (x : bytes) {struct e} : option (option (val * bytes)) :=
  match e with
  | Chr g =>
    Some (match x with
          | b :: r => if accepts g b then Some (VChr b, r) else None
          | [] => None
          end)
  | Dty g =>
    Some (match x with
          | b :: r => if accepts g b then Some (VChr b, r) else None
          | [] => None
          end)
  | Seq a b =>
    match peg_eval fuel a x with
    | None => None
    | Some None => Some None
    | Some (Some (v1, r1)) =>
      match peg_eval fuel b r1 with
      | None => None
      | Some None => Some None
      | Some (Some (v2, r2)) => Some (Some (VSeq v1 v2, r2))
      end
    end
  | Alt a b =>
    match peg_eval fuel a x with
    | None => None
    | Some (Some (v, r)) => Some (Some (VL v, r))
    | Some None =>
      match peg_eval fuel b x with
      | None => None
      | Some None => Some None
      | Some (Some (v, r)) => Some (Some (VR v, r))
      end
    end
  | Star a =>
    match star_eval (peg_eval fuel a) fuel x with
    | None => None
    | Some (vs, r) => Some (Some (VStar vs, r))
    end
  | Not a =>
    match peg_eval fuel a x with
    | None => None
    | Some None => Some (Some (VNot, x))
    | Some (Some _) => Some None
    end
  end.

(* ---------- located trees: erasure and span discipline ---------- *)
Fixpoint erase (t : tree) : val :=
  match t with
  | TChr b _ _ => VChr b
  | TSeq x y _ _ => VSeq (erase x) (erase y)
  | TL x _ _ => VL (erase x)
  | TR x _ _ => VR (erase x)
  | TStar l _ _ => VStar (map erase l)
  | TNot _ _ => VNot
  end.

Definition span (t : tree) : nat * nat :=
  match t with
  | TChr _ a e | TSeq _ _ a e | TL _ a e | TR _ a e | TStar _ a e | TNot a e => (a, e)
  end.

(* the spans in l are consecutive segments from a to e *)
Fixpoint chain (a : nat) (l : list (nat * nat)) (e : nat) : Prop :=
  match l with
  | [] => a = e
  | (x, y) :: r => x = a /\ x <= y /\ chain y r e
  end.

(* every node's span is well-formed and is tiled, in order, by the spans of its children: the two
   parts of a sequence split it, the chosen alternative fills it, the items of a repetition are
   consecutive segments of it, a character is one byte wide and a negation is empty *)
Fixpoint spans_nested (t : tree) : Prop :=
  match t with
  | TChr _ a e => e = a + 1
  | TSeq x y a e => spans_nested x /\ spans_nested y /\ chain a [span x; span y] e
  | TL x a e => spans_nested x /\ chain a [span x] e
  | TR x a e => spans_nested x /\ chain a [span x] e
  | TStar l a e =>
    (fix all (l : list tree) : Prop :=
       match l with [] => True | t :: r => spans_nested t /\ all r end) l
    /\ chain a (map span l) e
  | TNot a e => a = e
  end.

(* ================= facts about the specification itself ================= *)

(* the remainder is a suffix: success never lengthens the input, and a syntactically non-nullable
   expression strictly shortens it *)
Lemma peg_len e x o : peg e x o ->
  match o with
  | Some (_, r) => len r <= len x /\ (nullable e = false -> len r < len x)
  | None => True
  end.
Proof.
  unfold len. induction 1; cbn [nullable List.length] in *; try exact I.
  - split; [lia|intros _; lia].
  - split; [lia|intros _; lia].
  - destruct IHpeg1 as [A1 B1], IHpeg2 as [A2 B2]. split; [lia|].
    intros Hn. apply andb_false_iff in Hn as [Hn|Hn]; [specialize (B1 Hn)|specialize (B2 Hn)]; lia.
  - destruct IHpeg as [A B]. split; [lia|].
    intros Hn. apply orb_false_iff in Hn as [Hn _]. auto.
  - destruct IHpeg2 as [A B]. split; [lia|].
    intros Hn. apply orb_false_iff in Hn as [_ Hn]. auto.
  - split; [lia|discriminate].
  - destruct IHpeg1 as [A1 _], IHpeg2 as [A2 _]. split; [lia|discriminate].
  - split; [lia|discriminate].
Qed.

Theorem peg_functional e x o1 o2 : peg e x o1 -> peg e x o2 -> o1 = o2.
Proof.
  intros H1; revert o2.
  induction H1; intros o2 H2; inversion H2; subst; try reflexivity; try congruence;
    repeat match goal with
    | IH : forall o, peg ?a ?x o -> _ = o, H : peg ?a ?x _ |- _ =>
      let E := fresh "E" in pose proof (IH _ H) as E; clear H;
      try discriminate E; try (injection E as ? ?; subst)
    end; try reflexivity; try congruence.
Qed.

(* the evaluator is sound for the relation *)
Lemma star_eval_sound a (p : bytes -> option (option (val * bytes))) :
  (forall x o, p x = Some o -> peg a x o) ->
  forall n x vs r, star_eval p n x = Some (vs, r) -> peg (Star a) x (Some (VStar vs, r)).
Proof.
  intros Hp. induction n as [|n IH]; intros x vs r H; cbn [star_eval] in H; [discriminate|].
  destruct (p x) as [[[v r1]|]|] eqn:E; try discriminate.
  - destruct (star_eval p n r1) as [[vs' r']|] eqn:E2; try discriminate.
    injection H as <- <-. eapply PStarStep; [apply Hp, E|apply IH, E2].
  - injection H as <- <-. apply PStarEnd, Hp, E.
Qed.

Theorem peg_eval_sound fuel e : forall x o, peg_eval fuel e x = Some o -> peg e x o.
Proof.
  induction e as [g|g|a IHa b IHb|a IHa b IHb|a IHa|a IHa]; intros x o H; cbn [peg_eval] in H.
  - injection H as <-. destruct x as [|b r]; [constructor|].
    destruct (accepts g b) eqn:E; constructor; exact E.
  - injection H as <-. destruct x as [|b r]; [constructor|].
    destruct (accepts g b) eqn:E; constructor; exact E.
  - destruct (peg_eval fuel a x) as [[[v1 r1]|]|] eqn:E1; try discriminate.
    + destruct (peg_eval fuel b r1) as [[[v2 r2]|]|] eqn:E2; try discriminate; injection H as <-.
      * eapply PSeqOk; eauto.
      * eapply PSeqNo2; eauto.
    + injection H as <-. apply PSeqNo1; eauto.
  - destruct (peg_eval fuel a x) as [[[v1 r1]|]|] eqn:E1; try discriminate.
    + injection H as <-. apply PAltL; eauto.
    + destruct (peg_eval fuel b x) as [[[v2 r2]|]|] eqn:E2; try discriminate; injection H as <-.
      * apply PAltR; eauto.
      * apply PAltNo; eauto.
  - destruct (star_eval (peg_eval fuel a) fuel x) as [[vs r]|] eqn:E; try discriminate.
    injection H as <-. eapply star_eval_sound; [exact IHa|exact E].
  - destruct (peg_eval fuel a x) as [[[v1 r1]|]|] eqn:E1; try discriminate; injection H as <-.
    + eapply PNotNo; eauto.
    + apply PNotOk; eauto.
Qed.

(* ... and terminates with an answer on well-formed expressions, given fuel > |input| *)
Lemma star_eval_total a (p : bytes -> option (option (val * bytes))) :
  nullable a = false ->
  (forall x o, p x = Some o -> peg a x o) ->
  forall n x, (forall y, len y <= len x -> exists o, p y = Some o) ->
  len x < n -> exists vr, star_eval p n x = Some vr.
Proof.
  intros Hn Hs. induction n as [|n IH]; intros x Ht Hl; [lia|]. cbn [star_eval].
  destruct (Ht x (le_n _)) as [o Eo]. rewrite Eo. destruct o as [[v r]|]; [|eauto].
  pose proof (peg_len _ _ _ (Hs _ _ Eo)) as [L1 L2]. specialize (L2 Hn).
  destruct (IH r) as [[vs r'] E]; [intros y Hy; apply Ht; lia|lia|]. rewrite E. eauto.
Qed.

Theorem peg_eval_total fuel e : wf e -> forall x, len x < fuel -> exists o, peg_eval fuel e x = Some o.
Proof.
  unfold wf.
  induction e as [g|g|a IHa b IHb|a IHa b IHb|a IHa|a IHa]; intros W x Hl; cbn [peg_eval wfe] in *.
  - eauto.
  - eauto.
  - apply andb_true_iff in W as [Wa Wb]. destruct (IHa Wa x Hl) as [o1 E1]. rewrite E1.
    destruct o1 as [[v1 r1]|]; [|eauto].
    pose proof (peg_len _ _ _ (peg_eval_sound _ _ _ _ E1)) as [L _].
    destruct (IHb Wb r1) as [o2 E2]; [lia|]. rewrite E2. destruct o2 as [[v2 r2]|]; eauto.
  - apply andb_true_iff in W as [Wa Wb]. destruct (IHa Wa x Hl) as [o1 E1]. rewrite E1.
    destruct o1 as [[v1 r1]|]; [eauto|].
    destruct (IHb Wb x Hl) as [o2 E2]. rewrite E2. destruct o2 as [[v2 r2]|]; eauto.
  - apply andb_true_iff in W as [Wa Wn]. apply negb_true_iff in Wn.
    destruct (star_eval_total a (peg_eval fuel a) Wn (peg_eval_sound fuel a) fuel x) as [[vs r] E].
    + intros y Hy. apply IHa; [exact Wa|lia].
    + exact Hl.
    + rewrite E. eauto.
  - destruct (IHa W x Hl) as [o1 E1]. rewrite E1. destruct o1 as [[v1 r1]|]; eauto.
Qed.

Theorem peg_total_wf e x : wf e -> exists o, peg e x o.
Proof.
  intros W. destruct (peg_eval_total (S (len x)) e W x) as [o E]; [lia|].
  exists o. eapply peg_eval_sound, E.
Qed.

(* the evaluator computes exactly the relation *)
Theorem peg_eval_correct fuel e x o : wf e -> len x < fuel -> (peg_eval fuel e x = Some o <-> peg e x o).
Proof.
  intros W Hl. split; [apply peg_eval_sound|].
  intros H. destruct (peg_eval_total fuel e W x Hl) as [o' E].
  rewrite E. f_equal. eapply peg_functional; [eapply peg_eval_sound, E|exact H].
Qed.
