(* Spec/PageTreeSpec.v — what C10 means, written by hand from the property text, ISO 32000 and a
   reading of catalog.rs / page_tree.rs / page.rs / common_data_structures.rs — NOT derived from
   the dump:

     1. the declared specification [spec_catalog] / [spec_tctx]: which keys are required,
        optional, forbidden, and the kind of value each optional entry takes ([vkind]);
        Proofs/ShippedFacts.v shows that the dumped gen/Shipped.v is equal to it;
     2. [val_ok]: the conforming values of each kind, independent of the check language;
     3. [doc]: conforming catalogs — a page tree of arbitrary depth and fan-out (root node, inner
        nodes, pages, templates as indirect objects, /Parent on every non-root) with arbitrary
        declared optional entries (direct or behind a reference) and arbitrary other keys;
        [emit : doc -> octx * obj]; [wf_doc];
     4. [mutation]: the single-rule violations the property lists, as edits of one object.
   Definitions only. *)
From PV Require Export Model.ShippedPreds Spec.Conforms.

(* ---------- 1. the declared specification ---------- *)
Inductive vkind :=
| VName | VString | VBool | VInt | VNumber
| VDict | VIDict            (* any dictionary / any dictionary, necessarily behind a reference *)
| VArray | VArrDict         (* any array / array of dictionaries *)
| VStream | VIStream
| VRect                     (* array of four numbers *)
| VDate                     (* date string, ISO 32000 7.9.4 *)
| VNameIn (l : list bytes)  (* one of the listed names *)
| VContents                 (* a stream or an array of streams *)
| VOpenAction               (* an array or a dictionary *)
| VResources
| VNameDict                 (* the name dictionary: ten optional name trees *)
| VNumTree.

(* ISO 32000-1 Table 28 (PageLayout, PageMode) and Table 30 (Tabs, with the PDF 2.0 additions A, W) *)
Definition iso_pagelayout : list bytes :=
  [B "SinglePage"; B "OneColumn"; B "TwoColumnLeft"; B "TwoColumnRight"; B "TwoPageLeft"; B "TwoPageRight"].
Definition iso_pagemode : list bytes :=
  [B "UseNone"; B "UseOutlines"; B "UseThumbs"; B "FullScreen"; B "UseOC"; B "UseAttachments"].
Definition iso_tabs : list bytes := [B "R"; B "C"; B "S"; B "A"; B "W"].

(* the dump lists the names of a ChoicePred in byte order *)
Fixpoint insert_name (a : bytes) (l : list bytes) : list bytes :=
  match l with
  | [] => [a]
  | b :: r => match bytes_cmp a b with Gt => b :: insert_name a r | _ => a :: l end
  end.
Definition sort_names (l : list bytes) : list bytes := fold_right insert_name [] l.

Definition c_plain (t : ty) : chk := CRep t None IAllowed.
Definition c_any := c_plain TAny.
Definition c_name := c_plain (TPrim PName).
Definition c_string := c_plain (TPrim PString).
Definition c_bool := c_plain (TPrim PBool).
Definition c_int := c_plain (TPrim PInteger).
Definition c_real := c_plain (TPrim PReal).
Definition c_number := c_plain (TDisj [c_int; c_real]).
Definition c_dict := c_plain (TDict [] None).
Definition c_array := c_plain (TArr c_any None).
Definition c_stream := c_plain (TStream []).
Definition c_name_in (l : list bytes) := CRep (TPrim PName) (Some (PrNameIn (sort_names l))) IAllowed.
Definition c_name_is (s : bytes) := c_name_in [s].
Definition c_nametree := CRep TAny (Some (PrOpaque 1)) IAllowed.
Definition c_parent := CRep TAny None IReq.          (* any indirect reference: no check upwards *)

Definition opt (k : bytes) (c : chk) := DEnt k c KOpt.
Definition req (k : bytes) (c : chk) := DEnt k c KReq.

(* the entries of a resource dictionary: true = a dictionary, false = an array *)
Definition resources_table : list (bytes * bool) :=
  [(B "ExtGState", true); (B "ColorSpace", true); (B "Pattern", true); (B "Shading", true);
   (B "XObject", true); (B "Font", true); (B "ProcSet", false); (B "Properties", true)].
Definition namedict_keys : list bytes :=
  [B "Dests"; B "AP"; B "JavaScript"; B "Pages"; B "Templates"; B "IDS"; B "URLS";
   B "AlternatePresentations"; B "EmbeddedFiles"; B "Renditions"].

Definition chk_of_kind (k : vkind) : chk :=
  match k with
  | VName => c_name | VString => c_string | VBool => c_bool | VInt => c_int | VNumber => c_number
  | VDict => c_dict
  | VIDict => CRep (TDict [] None) None IReq
  | VArray => c_array
  | VArrDict => c_plain (TArr c_dict None)
  | VStream => c_stream
  | VIStream => CRep (TStream []) None IReq
  | VRect => c_plain (TArr c_number (Some 4))
  | VDate => CRep (TPrim PString) (Some (PrOpaque 0)) IAllowed
  | VNameIn l => c_name_in l
  | VContents => c_plain (TDisj [c_stream; c_plain (TArr c_stream None)])
  | VOpenAction => c_plain (TDisj [c_array; c_dict])
  | VResources => c_plain (TDict (List.map (fun e : bytes * bool => opt (fst e) (if snd e then c_dict else c_array)) resources_table) None)
  | VNameDict => c_plain (TDict (List.map (fun k => opt k c_nametree) namedict_keys) None)
  | VNumTree => CRep TAny (Some (PrOpaque 2)) IAllowed
  end.

(* optional entries: key and kind, in the order of the shipped vectors *)
Definition page_generic_table : list (bytes * vkind) :=
  [(B "LastModified", VDate); (B "Resources", VResources); (B "MediaBox", VRect); (B "CropBox", VRect);
   (B "BleedBox", VRect); (B "TrimBox", VRect); (B "ArtBox", VRect); (B "BoxColorInfo", VDict);
   (B "Contents", VContents); (B "Rotate", VInt); (B "Group", VDict); (B "Thumb", VStream);
   (B "Dur", VNumber); (B "Trans", VDict); (B "Annots", VArray); (B "AA", VDict); (B "Metadata", VStream);
   (B "PieceInfo", VDict); (B "StructParents", VInt); (B "ID", VString); (B "PZ", VNumber);
   (B "SeparationInfo", VDict); (B "Tabs", VNameIn iso_tabs); (B "TemplateInstantiated", VName);
   (B "PresSteps", VDict); (B "UserUnit", VNumber); (B "VP", VArray); (B "AF", VArrDict);
   (B "OutputIntents", VArray); (B "DPart", VDict)].
Definition page_table : list (bytes * vkind) := (B "B", VArray) :: page_generic_table.
Definition template_table : list (bytes * vkind) := page_generic_table.
(* the catalog's optional entries; /Type comes first and /Pages after /Extensions in the shipped vector *)
Definition catalog_table : list (bytes * vkind) :=
  [(B "Version", VName); (B "Extensions", VDict); (B "PageLabels", VNumTree); (B "Names", VNameDict);
   (B "Dests", VIDict); (B "ViewerPreferences", VDict); (B "PageLayout", VNameIn iso_pagelayout);
   (B "PageMode", VNameIn iso_pagemode); (B "Outlines", VIDict); (B "Threads", VArray);
   (B "OpenAction", VOpenAction); (B "AA", VDict); (B "URI", VDict); (B "AcroForm", VDict);
   (B "Metadata", VIStream); (B "StructTreeRoot", VDict); (B "MarkInfo", VDict); (B "Lang", VString);
   (B "SpiderInfo", VDict); (B "OutputIntents", VArray); (B "PieceInfo", VDict); (B "OCProperties", VDict);
   (B "Perms", VDict); (B "Legal", VDict); (B "Requirements", VArray); (B "Collection", VDict);
   (B "NeedsRendering", VBool); (B "DSS", VDict); (B "AF", VArrDict); (B "DPartRoot", VDict)].

Definition opt_ents (t : list (bytes * vkind)) : list dent :=
  List.map (fun e => opt (fst e) (chk_of_kind (snd e))) t.

Definition k_Type := B "Type".
Definition k_Parent := B "Parent".
Definition k_Count := B "Count".
Definition k_Kids := B "Kids".
Definition k_Pages := B "Pages".
Definition n_nonroot := B "root-non-page-tree".

Definition page_ents : list dent :=
  req k_Type (c_name_is (B "Page")) :: req k_Parent c_parent :: opt_ents page_table.
Definition template_ents : list dent :=
  req k_Type (c_name_is (B "Template")) :: DEnt k_Parent c_parent KForb :: opt_ents template_table.
Definition spec_page : chk := c_plain (TDict page_ents None).
Definition spec_template : chk := c_plain (TDict template_ents None).

(* a kid must be an indirect reference to a page, an inner node (by name: the recursion) or a template *)
Definition kid_of_nonroot : chk := CRep (TDisj [spec_page; CNamed n_nonroot; spec_template]) None IReq.
Definition node_ents (kid : chk) (parent : kspec) : list dent :=
  [req k_Type (c_name_is (B "Pages")); req k_Count c_int; req k_Kids (c_plain (TArr kid None));
   DEnt k_Parent c_parent parent].
Definition nonroot_ents := node_ents kid_of_nonroot KReq.
Definition spec_nonroot_rep : rep := (TDict nonroot_ents None, None, IAllowed).
Definition spec_nonroot : chk := rep_chk spec_nonroot_rep.
Definition kid_of_root : chk := CRep (TDisj [spec_nonroot; spec_page; spec_template]) None IReq.
Definition root_ents := node_ents kid_of_root KForb.
Definition spec_root_node : chk := c_plain (TDict root_ents None).

Definition catalog_ents : list dent :=
  req k_Type (c_name_is (B "Catalog")) :: opt_ents (firstn 2 catalog_table)
  ++ req k_Pages spec_root_node :: opt_ents (skipn 2 catalog_table).
Definition spec_catalog : chk := c_plain (TDict catalog_ents None).
Definition spec_tctx : tctx := [(n_nonroot, spec_nonroot_rep)].

(* the meaning of the opaque predicates of the repaired code; no Nd table is needed *)
Definition spec_opq : N -> obj -> bool := shipped_opq_with [].

(* ---------- 2. conforming values of each kind ---------- *)
Definition is_dict (o : obj) := match o with ODict _ => true | _ => false end.
Definition is_arr (o : obj) := match o with OArr _ => true | _ => false end.
Definition is_stream (o : obj) := match o with OStream _ _ => true | _ => false end.
Definition is_name (o : obj) := match o with OName _ => true | _ => false end.
Definition is_bool (o : obj) := match o with OBool _ => true | _ => false end.
Definition is_num (o : obj) := match o with OInt _ | OReal _ _ => true | _ => false end.
Definition name_in (l : list bytes) (o : obj) :=
  match o with OName s => existsb (bytes_eqb s) l | _ => false end.

Section Values.
Variable oc : octx.
(* members of arrays and dictionaries may be given directly or by reference *)
Definition via (p : obj -> bool) (o : obj) : bool := p (value_of oc o).
Definition sub_ok (d : list (bytes * obj)) (k : bytes) (p : obj -> bool) : bool :=
  match dict_get d k with None => true | Some v => via p v end.

(* [v] is a direct object (not a reference) *)
Definition val_ok (k : vkind) (v : obj) : bool :=
  match k with
  | VName => is_name v | VString => is_str v | VBool => is_bool v | VInt => is_int v | VNumber => is_num v
  | VDict | VIDict => is_dict v
  | VArray => is_arr v
  | VArrDict => match v with OArr l => forallb (via is_dict) l | _ => false end
  | VStream | VIStream => is_stream v
  | VRect => match v with OArr l => Nat.eqb (len l) 4 && forallb (via is_num) l | _ => false end
  | VDate => date_pred v
  | VNameIn l => name_in l v
  | VContents => match v with
                 | OStream _ _ => true
                 | OArr l => forallb (via is_stream) l
                 | _ => false
                 end
  | VOpenAction => is_arr v || is_dict v
  | VResources => match v with
                  | ODict d => forallb (fun e : bytes * bool => sub_ok d (fst e) (if snd e then is_dict else is_arr)) resources_table
                  | _ => false
                  end
  | VNameDict => match v with
                 | ODict d => forallb (fun k => sub_ok d k name_tree_pred) namedict_keys
                 | _ => false
                 end
  | VNumTree => number_tree_pred v
  end.
End Values.

(* kinds whose violations the library can see: the number tree (an entry of type Any) and the name
   dictionary (whose entries have type Any) sit where the known finding C10-any-typed-entries-unchecked
   makes the checker skip the value *)
Definition kind_checked (k : vkind) : bool := match k with VNumTree | VNameDict => false | _ => true end.

(* must the value be behind a reference? *)
Definition kind_indirect (k : vkind) : bool := match k with VIDict | VIStream => true | _ => false end.

(* ---------- 3. conforming catalogs ---------- *)
Definition oid := (N * N)%type.
Definition oid_eqb (a b : oid) : bool := N.eqb (fst a) (fst b) && N.eqb (snd a) (snd b).
Definition oref (i : oid) : obj := ORef (fst i) (snd i).

(* the value of an entry: direct, or an indirect object of its own *)
Inductive oval := Direct (v : obj) | Indirect (id : oid) (v : obj).
Definition oval_obj (x : oval) : obj := match x with Direct v => v | Indirect id _ => oref id end.
Definition oval_val (x : oval) : obj := match x with Direct v => v | Indirect _ v => v end.
Definition oval_defs (x : oval) : octx := match x with Direct _ => [] | Indirect id v => [(id, v)] end.

(* declared optional entries (key, kind, value) and keys the specification does not mention *)
Record attrs := { a_opts : list (bytes * vkind * oval); a_extra : list (bytes * obj) }.
Definition attrs_pairs (a : attrs) : list (bytes * obj) :=
  List.map (fun e => (fst (fst e), oval_obj (snd e))) (a_opts a) ++ a_extra a.
Definition attrs_defs (a : attrs) : octx := flat_map (fun e => oval_defs (snd e)) (a_opts a).
Definition attrs_keys (a : attrs) : list bytes := List.map fst (attrs_pairs a).

Inductive kid :=
| KPage (id : oid) (a : attrs)
| KTemplate (id : oid) (a : attrs)
| KNode (id : oid) (count : Z) (kids : list kid) (extra : list (bytes * obj)).

Definition kid_id (k : kid) : oid :=
  match k with KPage i _ | KTemplate i _ | KNode i _ _ _ => i end.

Record doc := {
  d_root : oid;  d_count : Z;  d_kids : list kid;  d_root_extra : list (bytes * obj);
  d_pages_direct : bool;                   (* /Pages holds the root node itself instead of a reference *)
  d_cat : attrs }.

Definition name_obj (s : bytes) := OName s.
Definition node_obj (parent : option oid) (count : Z) (kids : list kid) (extra : list (bytes * obj)) : obj :=
  ODict ((k_Type, OName (B "Pages")) :: (k_Count, OInt count)
         :: (k_Kids, OArr (List.map (fun k => oref (kid_id k)) kids))
         :: match parent with Some p => [(k_Parent, oref p)] | None => [] end ++ extra).

(* the object of a kid whose parent is [p] *)
Definition kid_obj (p : oid) (k : kid) : obj :=
  match k with
  | KPage _ a => ODict ((k_Type, OName (B "Page")) :: (k_Parent, oref p) :: attrs_pairs a)
  | KTemplate _ a => ODict ((k_Type, OName (B "Template")) :: attrs_pairs a)
  | KNode _ c ks ex => node_obj (Some p) c ks ex
  end.

(* all definitions below a kid: itself, its entries' indirect values, its descendants *)
Fixpoint kid_defs (p : oid) (k : kid) : octx :=
  (kid_id k, kid_obj p k) ::
  match k with
  | KPage _ a | KTemplate _ a => attrs_defs a
  | KNode i _ ks _ => (fix go (l : list kid) : octx := match l with [] => [] | x :: r => kid_defs i x ++ go r end) ks
  end.
Definition kids_defs (p : oid) (ks : list kid) : octx := flat_map (kid_defs p) ks.

Definition root_obj (d : doc) : obj := node_obj None (d_count d) (d_kids d) (d_root_extra d).
Definition emit_ctx (d : doc) : octx :=
  (d_root d, root_obj d) :: kids_defs (d_root d) (d_kids d) ++ attrs_defs (d_cat d).
Definition emit_root (d : doc) : obj :=
  ODict ((k_Type, OName (B "Catalog"))
         :: (k_Pages, if d_pages_direct d then root_obj d else oref (d_root d))
         :: attrs_pairs (d_cat d)).
Definition emit (d : doc) : octx * obj := (emit_ctx d, emit_root d).

(* well-formedness: object numbers pairwise distinct; entries declared for the holder, their values
   conforming to the kind (relative to the whole context), behind a reference where required;
   keys pairwise distinct and other keys really unmentioned *)
Definition is_refb (o : obj) : bool := match o with ORef _ _ => true | _ => false end.
Definition no_dup_keys (l : list bytes) : Prop := NoDup l.

Definition attrs_ok (oc : octx) (table : list (bytes * vkind)) (reserved : list bytes) (a : attrs) : Prop :=
  NoDup (attrs_keys a)
  /\ (forall k, In k (attrs_keys a) -> ~ In k reserved)
  /\ (forall k v, In (k, v) (a_extra a) -> ~ In k (List.map fst table))
  /\ (forall k kd x, In (k, kd, x) (a_opts a) ->
        In (k, kd) table /\ is_refb (oval_val x) = false /\ val_ok oc kd (oval_val x) = true
        /\ (kind_indirect kd = true -> exists i v, x = Indirect i v)).

Definition node_extra_ok (extra : list (bytes * obj)) : Prop :=
  NoDup (List.map fst extra)
  /\ forall k, In k (List.map fst extra) -> ~ In k [k_Type; k_Count; k_Kids; k_Parent].

Fixpoint kid_ok (oc : octx) (k : kid) : Prop :=
  match k with
  | KPage _ a => attrs_ok oc page_table [k_Type; k_Parent; k_Count] a
  | KTemplate _ a => attrs_ok oc template_table [k_Type; k_Parent; k_Count] a
  | KNode _ _ ks ex =>
    node_extra_ok ex
    /\ (fix go (l : list kid) : Prop := match l with [] => True | x :: r => kid_ok oc x /\ go r end) ks
  end.

Definition wf_doc (d : doc) : Prop :=
  NoDup (List.map fst (emit_ctx d))
  /\ node_extra_ok (d_root_extra d)
  /\ Forall (kid_ok (emit_ctx d)) (d_kids d)
  /\ attrs_ok (emit_ctx d) catalog_table [k_Type; k_Pages] (d_cat d).

(* ---------- 4. single-rule violations ---------- *)
Inductive edit := EDrop (k : bytes) | ESet (k : bytes) (v : obj).
Definition edit_dict (e : edit) (d : list (bytes * obj)) : list (bytes * obj) :=
  match e with
  | EDrop k => dict_remove d k
  | ESet k v => (k, v) :: dict_remove d k
  end.
Definition apply_edit (e : edit) (o : obj) : obj :=
  match o with ODict d => ODict (edit_dict e d) | _ => o end.
Fixpoint ctx_edit (id : oid) (e : edit) (c : octx) : octx :=
  match c with
  | [] => []
  | (i, o) :: r => (i, if oid_eqb i id then apply_edit e o else o) :: ctx_edit id e r
  end.

(* every kid of the document, with its parent *)
Fixpoint kid_all (p : oid) (k : kid) : list (oid * kid) :=
  (p, k) ::
  match k with
  | KNode i _ ks _ => (fix go (l : list kid) := match l with [] => [] | x :: r => kid_all i x ++ go r end) ks
  | _ => []
  end.
Definition doc_kids (d : doc) : list (oid * kid) := flat_map (kid_all (d_root d)) (d_kids d).

Definition direct (v : obj) : Prop := is_refb v = false.
(* a /Type value that is not the expected name (and, for a kid, names no other alternative) *)
Definition bad_type (allowed : list bytes) (v : obj) : Prop :=
  direct v /\ forall s, v = OName s -> ~ In s allowed.
(* /Kids with member [i] replaced by a direct object (an embedded kid, or anything else that is not a reference) *)
Definition kids_with_direct (ks : list kid) (v : obj) : Prop :=
  exists pre x post, direct x /\ v = OArr (pre ++ x :: post) /\ len (pre ++ x :: post) = len ks.

(* /Kids with a member that refers to no object of the document (it denotes null: not a node, page or template) *)
Definition kids_with_dangling (oc : octx) (v : obj) : Prop :=
  exists pre j post, octx_get oc j = None /\ v = OArr (pre ++ oref j :: post).

(* [full] = true: every violation the property lists.  [full] = false: without those located in a
   dictionary entry whose declared check has type Any (/Parent given directly; a malformed number tree
   under /PageLabels; a bad name dictionary) — the ones known finding C10-any-typed-entries-unchecked
   says the library does not see. *)
Inductive node_violation (full : bool) (oc : octx) (is_root : bool) (ks : list kid) : edit -> Prop :=
| NV_drop_type : node_violation full oc is_root ks (EDrop k_Type)
| NV_drop_count : node_violation full oc is_root ks (EDrop k_Count)
| NV_drop_kids : node_violation full oc is_root ks (EDrop k_Kids)
| NV_type v : bad_type (if is_root then [B "Pages"] else [B "Pages"; B "Page"; B "Template"]) v ->
              node_violation full oc is_root ks (ESet k_Type v)
| NV_count v : direct v -> is_int v = false -> node_violation full oc is_root ks (ESet k_Count v)
| NV_kids_type v : direct v -> is_arr v = false -> node_violation full oc is_root ks (ESet k_Kids v)
| NV_kid_direct v : kids_with_direct ks v -> node_violation full oc is_root ks (ESet k_Kids v)
| NV_kid_dangling v : kids_with_dangling oc v -> node_violation full oc is_root ks (ESet k_Kids v)
| NV_root_parent v : is_root = true -> node_violation full oc is_root ks (ESet k_Parent v)         (* forbidden key added *)
| NV_drop_parent : is_root = false -> node_violation full oc is_root ks (EDrop k_Parent)
| NV_parent_direct v : full = true -> is_root = false -> direct v -> node_violation full oc is_root ks (ESet k_Parent v).

Inductive leaf_violation (full : bool) (oc : octx) (is_page : bool) : edit -> Prop :=
| LV_drop_type : leaf_violation full oc is_page (EDrop k_Type)
| LV_type v : bad_type [B "Pages"; B "Page"; B "Template"] v -> leaf_violation full oc is_page (ESet k_Type v)
| LV_drop_parent : is_page = true -> leaf_violation full oc is_page (EDrop k_Parent)
| LV_parent_direct v : full = true -> is_page = true -> direct v -> leaf_violation full oc is_page (ESet k_Parent v)
| LV_template_parent v : is_page = false -> leaf_violation full oc is_page (ESet k_Parent v)      (* forbidden key added *)
| LV_value k kd v :                                                                              (* a declared entry with a bad value *)
    full = true \/ kind_checked kd = true ->
    In (k, kd) (if is_page then page_table else template_table) ->
    direct v -> val_ok oc kd v = false -> leaf_violation full oc is_page (ESet k v).

Inductive cat_violation (full : bool) (oc : octx) : edit -> Prop :=
| CV_drop_type : cat_violation full oc (EDrop k_Type)
| CV_drop_pages : cat_violation full oc (EDrop k_Pages)
| CV_type v : bad_type [B "Catalog"] v -> cat_violation full oc (ESet k_Type v)
| CV_pages v : direct v -> is_dict v = false -> cat_violation full oc (ESet k_Pages v)
| CV_value k kd v : full = true \/ kind_checked kd = true ->
                    In (k, kd) catalog_table -> direct v -> val_ok oc kd v = false -> cat_violation full oc (ESet k v)
| CV_indirect k kd v : In (k, kd) catalog_table -> kind_indirect kd = true -> direct v -> cat_violation full oc (ESet k v).

(* [mutation full d (oc', root')]: the emitted document with exactly one object edited into a violation
   (the new value is judged in the document it sits in) *)
Inductive mutation (full : bool) (d : doc) : octx * obj -> Prop :=
| M_cat e : cat_violation full (emit_ctx d) e -> mutation full d (emit_ctx d, apply_edit e (emit_root d))
| M_root e : d_pages_direct d = false -> node_violation full (ctx_edit (d_root d) e (emit_ctx d)) true (d_kids d) e ->
             mutation full d (ctx_edit (d_root d) e (emit_ctx d), emit_root d)
| M_node p i c ks ex e : In (p, KNode i c ks ex) (doc_kids d) ->
             node_violation full (ctx_edit i e (emit_ctx d)) false ks e ->
             mutation full d (ctx_edit i e (emit_ctx d), emit_root d)
| M_page p i a e : In (p, KPage i a) (doc_kids d) -> leaf_violation full (ctx_edit i e (emit_ctx d)) true e ->
             mutation full d (ctx_edit i e (emit_ctx d), emit_root d)
| M_template p i a e : In (p, KTemplate i a) (doc_kids d) -> leaf_violation full (ctx_edit i e (emit_ctx d)) false e ->
             mutation full d (ctx_edit i e (emit_ctx d), emit_root d).

(* ---------- 5. looking inside a specification (for the finite facts about the dump) ---------- *)
Inductive step := SKey (k : bytes) | SElem | SAlt (i : nat).
Definition step_chk (tc : tctx) (s : step) (c : chk) : option chk :=
  match resolve tc c with
  | None => None
  | Some r =>
    match s, r_ty r with
    | SKey k, TDict ents _ | SKey k, TStream ents =>
      match find (fun e => bytes_eqb (ent_key e) k) ents with Some e => Some (ent_chk e) | None => None end
    | SElem, TArr e _ => Some e
    | SAlt i, TDisj l => nth_error l i
    | _, _ => None
    end
  end.
Fixpoint walk (tc : tctx) (p : list step) (c : chk) : option chk :=
  match p with
  | [] => Some c
  | s :: r => match step_chk tc s c with Some c' => walk tc r c' | None => None end
  end.
(* the representation at the end of a path *)
Definition rep_at (tc : tctx) (p : list step) (c : chk) : option rep :=
  match walk tc p c with Some c' => resolve tc c' | None => None end.
Definition ents_at (tc : tctx) (p : list step) (c : chk) : list dent :=
  match rep_at tc p c with
  | Some r => match r_ty r with TDict e _ | TStream e => e | _ => [] end
  | None => []
  end.
Definition keys_with (o : kspec) (l : list dent) : list bytes :=
  List.map ent_key (filter (fun e => kspec_eqb (ent_opt e) o) l).
Definition same_names (a b : list bytes) : bool :=
  forallb (fun x => existsb (bytes_eqb x) b) a && forallb (fun x => existsb (bytes_eqb x) a) b.
Definition names_of (r : option rep) : option (list bytes) :=
  match r with Some (TPrim PName, Some (PrNameIn l), IAllowed) => Some l | _ => None end.

(* the paths to the five places where page-tree objects are described *)
Definition p_root_node := [SKey k_Pages].
Definition p_root_kid := [SKey k_Pages; SKey k_Kids; SElem].
Definition p_nonroot := p_root_kid ++ [SAlt 0].
Definition p_page := p_root_kid ++ [SAlt 1].
Definition p_template := p_root_kid ++ [SAlt 2].
Definition p_nonroot_kid := p_nonroot ++ [SKey k_Kids; SElem].

(* every check in a specification, to a bounded depth (the dump is a finite tree; names are not followed) *)
Fixpoint all_chks (n : nat) (c : chk) : list chk :=
  match n with
  | O => []
  | S m => c :: match c with
                | CRep t _ _ => flat_map (all_chks m) (kids_ty t)
                | CNamed _ => []
                end
  end.
Definition spec_chks (tc : tctx) (c : chk) : list chk :=
  all_chks 24 c ++ flat_map (fun e => all_chks 24 (rep_chk (snd e))) tc.
