(* Spec/XrefEnc.v — what cross-reference data *means*: renderers of the legal encodings
   (classic table, cross-reference stream) from abstract entries, independent of the parsers'
   structure.  Definitions only.  (The object-stream renderer for C14 is in Spec/ObjStmEnc.v.) *)
From PV Require Export Base.Bytes Base.PdfObj gen.XrefConstants Model.XrefTab.

(* ---------- numbers as text ---------- *)
(* [w] decimal digits, most significant first (zero padded); denotes n when n < 10^w *)
Fixpoint digits (w : nat) (n : N) : bytes :=
  match w with
  | O => []
  | S w' => digits w' (n / 10) ++ [(48 + n mod 10)%N]
  end.

(* [w] bytes, big endian; denotes x when x < 256^w *)
Fixpoint be_bytes (w : nat) (x : N) : bytes :=
  match w with
  | O => []
  | S w' => be_bytes w' (x / 256) ++ [(x mod 256)%N]
  end.

(* ---------- classic table ---------- *)
(* one entry as written: 10-digit offset/next, 5-digit generation, kind, one of the three
   two-byte terminators *)
Record tent := mk_tent { te_info : N; te_gen : N; te_inuse : bool; te_term : bytes }.

Definition render_ent (e : tent) : bytes :=
  digits xref_info_width (te_info e) ++ [32%N] ++ digits xref_gen_width (te_gen e) ++ [32%N]
  ++ [if te_inuse e then xref_flag_inuse else xref_flag_free] ++ te_term e.

Definition wf_ent (e : tent) : Prop :=
  (te_info e < 10 ^ 10)%N /\ (te_gen e <= xref_gen_max)%N /\ In (te_term e) xref_eols.

(* the entry denoted, numbered [obj] *)
Definition ent_of (obj : N) (e : tent) : xent :=
  mk_xent obj (te_gen e) (if te_inuse e then XInUse (te_info e) else XFree (te_info e)).

(* entries numbered consecutively from [start] *)
Fixpoint number {A} (f : N -> A -> xent) (start : N) (l : list A) : list xent :=
  match l with
  | [] => []
  | e :: r => f start e :: number f (start + 1)%N r
  end.

(* one subsection as written: optional leading blanks, first object number and count (decimal,
   any number of leading zeros: widths [ts_sw], [ts_cw]), a single space between them, the
   white space ending the header line, then the entries *)
Record tsub := mk_tsub {
  ts_lead : bytes; ts_start : N; ts_sw : nat; ts_cw : nat; ts_eol : bytes; ts_ents : list tent }.

Definition ts_count (x : tsub) : N := N.of_nat (len (ts_ents x)).

Definition render_ents (l : list tent) : bytes := concat (List.map render_ent l).

Definition render_sub (x : tsub) : bytes :=
  ts_lead x ++ digits (ts_sw x) (ts_start x) ++ [32%N] ++ digits (ts_cw x) (ts_count x) ++ ts_eol x
  ++ render_ents (ts_ents x).

Definition render_table (t : list tsub) : bytes := concat (List.map render_sub t).

Definition sub_of (x : tsub) : xsub :=
  mk_xsub (ts_start x) (ts_count x) (number ent_of (ts_start x) (ts_ents x)).

Definition i64_lim : N := (2 ^ 63)%N.

(* white space that ends a line / may start a header *)
Definition all_in (set : bytes) (l : bytes) : Prop := Forall (fun b => memb b set = true) l.

(* [rest] does not begin with white space or a comment: the white space before it ends there *)
Definition no_ws_start (rest : bytes) : Prop :=
  match rest with [] => True | b :: _ => memb b [32; 0; 9; 13; 10; 12; 37]%N = false end.

Definition wf_sub (x : tsub) : Prop :=
  all_in [32; 0; 9; 13; 12]%N (ts_lead x) /\
  (1 <= ts_sw x)%nat /\ (ts_start x < 10 ^ N.of_nat (ts_sw x))%N /\ (ts_start x < i64_lim)%N /\
  (1 <= ts_cw x)%nat /\ (ts_count x < 10 ^ N.of_nat (ts_cw x))%N /\ (ts_count x < i64_lim)%N /\
  ts_eol x <> [] /\ all_in [32; 0; 9; 13; 10; 12]%N (ts_eol x) /\
  Forall wf_ent (ts_ents x).

(* a table followed by [tail]: every piece of line-ending white space is followed by something
   that is not white space (automatic when the subsection has entries: they start with a digit) *)
Fixpoint wf_subs (t : list tsub) (tail : bytes) : Prop :=
  match t with
  | [] => True
  | x :: r =>
    wf_sub x /\ no_ws_start (render_ents (ts_ents x) ++ render_table r ++ tail) /\ wf_subs r tail
  end.

(* what follows the table does not look like the start of a subsection header *)
Definition tail_ok (tail : bytes) : Prop :=
  match tail with
  | [] => True
  | b :: _ => memb b [32; 0; 9; 13; 12; 48; 49; 50; 51; 52; 53; 54; 55; 56; 57; 43; 45; 46]%N = false
  end.

(* the section as written: white space, keyword, line end, subsections *)
Definition render_sect (pre eol : bytes) (t : list tsub) : bytes :=
  pre ++ xref_kw ++ eol ++ render_table t.

Definition wf_sect (pre eol : bytes) (t : list tsub) (tail : bytes) : Prop :=
  all_in [32; 0; 9; 13; 10; 12]%N pre /\ eol <> [] /\ all_in [32; 0; 9; 13; 10; 12]%N eol /\
  t <> [] /\ no_ws_start (render_table t ++ tail) /\ wf_subs t tail /\ tail_ok tail.

(* ---------- cross-reference stream ---------- *)
Inductive srow :=
| RFree (next gen : N)
| RInUse (file_ofs gen : N)
| RInStream (stream_obj obj_index : N).

Definition row_type (r : srow) : N := match r with RFree _ _ => 0 | RInUse _ _ => 1 | RInStream _ _ => 2 end%N.
Definition row_f2 (r : srow) : N := match r with RFree a _ | RInUse a _ | RInStream a _ => a end.
Definition row_f3 (r : srow) : N := match r with RFree _ b | RInUse _ b | RInStream _ b => b end.

Definition row_ent (obj : N) (r : srow) : xent :=
  match r with
  | RFree next gen => mk_xent obj gen (XFree next)
  | RInUse ofs gen => mk_xent obj gen (XInUse ofs)
  | RInStream s i => mk_xent obj 0 (XInStream s i)
  end.

(* big-endian fields of widths w0 w1 w2; a zero-width field is absent *)
Definition render_row (w0 w1 w2 : nat) (r : srow) : bytes :=
  be_bytes w0 (row_type r) ++ be_bytes w1 (row_f2 r) ++ be_bytes w2 (row_f3 r).

(* the row is representable: an absent first field means type 1, an absent third field means 0 *)
Definition fits (w0 w1 w2 : nat) (r : srow) : Prop :=
  (if Nat.eqb w0 0 then row_type r = 1%N else True) /\
  (row_f2 r < 256 ^ N.of_nat w1)%N /\ (row_f3 r < 256 ^ N.of_nat w2)%N.

(* subsections: (first object number, rows) *)
Definition spart := (N * list srow)%type.

Definition render_rows (w0 w1 w2 : nat) (l : list srow) : bytes := concat (List.map (render_row w0 w1 w2) l).
Definition render_parts (w0 w1 w2 : nat) (p : list spart) : bytes :=
  concat (List.map (fun x => render_rows w0 w1 w2 (snd x)) p).
Definition parts_ents (p : list spart) : list xent := flat_map (fun x => number row_ent (fst x) (snd x)) p.
Definition parts_index (p : list spart) : list obj :=
  flat_map (fun x => [OInt (Z.of_N (fst x)); OInt (Z.of_N (N.of_nat (len (snd x))))]) p.

Definition wf_parts (w0 w1 w2 : nat) (p : list spart) : Prop :=
  Forall (fun x => (fst x < i64_lim)%N /\ (N.of_nat (len (snd x)) < i64_lim)%N /\ Forall (fits w0 w1 w2) (snd x)) p.

(* a dictionary that declares an xref stream of these parameters (any other keys allowed,
   no filter) *)
Definition xref_dict_ok (d : list (bytes * obj)) (size : N) (index : option (list obj)) (w0 w1 w2 : nat) : Prop :=
  dict_get d (B "Type") = Some (OName (B "XRef")) /\
  dict_get d (B "Size") = Some (OInt (Z.of_N size)) /\
  (size < i64_lim)%N /\
  dict_get d (B "W") = Some (OArr [OInt (Z.of_nat w0); OInt (Z.of_nat w1); OInt (Z.of_nat w2)]) /\
  match index with
  | Some i => dict_get d (B "Index") = Some (OArr i)
  | None => match dict_get d (B "Index") with Some (OArr _) => False | _ => True end
  end /\
  dict_get d (B "Filter") = None.
