(* Spec/RenderHistory.v — incremental updates in the CLASSIC layout (ISO 32000-1 7.5.6), as a renderer, and what
   a history MEANS (property C04: the newest revision wins).

     [garbage] %PDF-<header…>
     revision 0:  objects   xref <table>   trailer << /Root … >>             <anything, e.g. startxref … %%EOF>
     revision k:  objects   xref <table>   trailer << /Root … /Prev p >>     <anything>          (p = offset of table k-1)
     startxref <offset of the last table> %%EOF

   A [revision] says which objects it (re)defines, which object numbers it frees, and its root.  Its table lists an
   in-use entry for every object it defines and a free entry for every number it frees (any generation / next-free
   value), in any subsection partition.  All lexical freedom is in the layouts ([rlayout] per revision: the object
   layouts of Spec/RenderClassic.v, the table template, the spelling of the trailer dictionary, arbitrary bytes behind
   it; [hlayout]: garbage, header, the end of the file).  The OFFSETS of the in-use entries and of the final
   `startxref` are computed here; the /Prev number is part of the trailer spelling the layout supplies and is
   required to be the computed offset of the previous table by [wf_layouts] (Proofs/LoaderBytesHist.v).
   Definitions only. *)
From PV Require Export Base.Bytes Base.PdfObj Spec.XrefEnc Spec.RenderClassic.
From PV Require Import Model.Obj Model.Loader Model.LoaderBytes.

(* ---------- histories and their meaning ---------- *)
Record revision := mk_rev {
  r_objs : list (oid * obj);     (* the objects this revision defines or redefines *)
  r_frees : list N;              (* the object numbers it frees *)
  r_root : oid }.

Definition history := list revision.       (* oldest (the base revision) first *)

(* what a revision says about object number [n]: Some (Some (gen, value)) defined; Some None freed; None nothing *)
Fixpoint objs_mention (l : list (oid * obj)) (n : N) : option (N * obj) :=
  match l with
  | [] => None
  | ((k, g), v) :: r => if N.eqb k n then Some (g, v) else objs_mention r n
  end.

Definition rev_mention (r : revision) (n : N) : option (option (N * obj)) :=
  match objs_mention (r_objs r) n with
  | Some gv => Some (Some gv)
  | None => if existsb (N.eqb n) (r_frees r) then Some None else None
  end.

(* [hs] newest first: the most recent revision that mentions the number decides *)
Fixpoint mention_h (hs : list revision) (n : N) : option (option (N * obj)) :=
  match hs with
  | [] => None
  | r :: rest => match rev_mention r n with Some m => Some m | None => mention_h rest n end
  end.

(* the object an identifier denotes after all updates: defined by the newest mention, with that generation *)
Definition resolve_h (h : history) (id : oid) : option obj :=
  match mention_h (rev h) (fst id) with
  | Some (Some (g, v)) => if N.eqb g (snd id) then Some v else None
  | _ => None
  end.

Definition latest_root (h : history) : oid := r_root (last h (mk_rev [] [] (0, 0)%N)).

(* ---------- one revision, written at offset [b] ---------- *)
Record rlayout := mk_rlayout {
  rl_objs : list lobj;                         (* one per object, in file order *)
  rl_xpre : bytes; rl_xeol : bytes;            (* xpre `xref` xeol subsections *)
  rl_table : list tsub;                        (* the partition; te_info of IN-USE entries is ignored: computed *)
  rl_tw : bytes; rl_tsp : bytes;               (* `trailer` tw <spelling of the trailer dictionary> *)
  rl_sw : bytes }.                             (* anything up to the next revision / the final startxref *)

Definition rchunks (r : revision) (rl : rlayout) : list bytes :=
  List.map (fun p => render_obj (fst p) (snd p)) (combine (r_objs r) (rl_objs rl)).

(* identifier ↦ offset, for the objects of this revision *)
Definition rot (b : nat) (r : revision) (rl : rlayout) : list (oid * N) :=
  combine (List.map fst (r_objs r)) (List.map N.of_nat (offsets b (rchunks r rl))).

Definition rtable (b : nat) (r : revision) (rl : rlayout) : list tsub := List.map (fill_sub (rot b r rl)) (rl_table rl).

Definition sect_off (b : nat) (r : revision) (rl : rlayout) : nat := b + len (concat (rchunks r rl)).

Definition render_rev (b : nat) (r : revision) (rl : rlayout) : bytes :=
  concat (rchunks r rl) ++ render_sect (rl_xpre rl) (rl_xeol rl) (rtable b r rl) ++
  kw_trailer ++ rl_tw rl ++ rl_tsp rl ++ rl_sw rl.

Fixpoint render_revs (b : nat) (h : list revision) (ls : list rlayout) : bytes :=
  match h, ls with
  | r :: h', rl :: ls' => render_rev b r rl ++ render_revs (b + len (render_rev b r rl)) h' ls'
  | _, _ => []
  end.

(* the offset of the table of the last revision ([acc] if there is none) *)
Fixpoint last_sect_off (b : nat) (h : list revision) (ls : list rlayout) (acc : nat) : nat :=
  match h, ls with
  | r :: h', rl :: ls' => last_sect_off (b + len (render_rev b r rl)) h' ls' (sect_off b r rl)
  | _, _ => acc
  end.

(* ---------- the file ---------- *)
Record hlayout := mk_hlayout {
  hl_garbage : bytes;                          (* before `%PDF-` *)
  hl_hdr : bytes;                              (* behind `%PDF-`, up to the first object *)
  hl_revs : list rlayout;                      (* one per revision *)
  hl_seol : bytes; hl_sxw : nat; hl_eeol : bytes;   (* `startxref` seol <sxw digits> eeol `%%EOF` *)
  hl_tail : bytes }.                           (* behind `%%EOF` *)

Definition hhead (L : hlayout) : bytes := kw_pdf ++ hl_hdr L.

Definition hbody (h : history) (L : hlayout) : bytes := hhead L ++ render_revs (len (hhead L)) h (hl_revs L).

Definition render_history_view (h : history) (L : hlayout) : bytes :=
  hbody h L ++ kw_startxref ++ hl_seol L ++
  digits (hl_sxw L) (N.of_nat (last_sect_off (len (hhead L)) h (hl_revs L) 0)) ++ hl_eeol L ++ kw_eof ++ hl_tail L.

Definition render_history_classic (h : history) (L : hlayout) : bytes := hl_garbage L ++ render_history_view h L.
