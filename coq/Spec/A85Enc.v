(* Spec/A85Enc.v — what a specification-conformant ASCIIHexDecode / ASCII85Decode ENCODING of a byte
   string is (ISO 32000-1 7.4.2, 7.4.3), as relations covering every legal encoder choice:
   white space anywhere between the characters, either hex case, a final odd digit for a trailing
   zero nibble, `z` for an all-zero group (the encoder's choice), a final partial group of n bytes as
   n+1 characters, the EOD marker.  (What may follow the EOD marker is part of the theorems.)
   Definitions only; nothing here refers to the decoder. *)
From PV Require Export Base.Bytes.

(* PDF white-space characters (Table 1) *)
Definition pdf_ws (b : N) : Prop := In b [0; 9; 10; 12; 13; 32]%N.
Definition ws_only (s : bytes) : Prop := Forall pdf_ws s.

(* [interleave body text]: [text] is [body] with white space inserted anywhere *)
Inductive interleave : bytes -> bytes -> Prop :=
| il_nil : interleave [] []
| il_ws : forall w body text, pdf_ws w -> interleave body text -> interleave body (w :: text)
| il_keep : forall x body text, interleave body text -> interleave (x :: body) (x :: text).

(* ---------- ASCIIHex ---------- *)
(* a character denoting the nibble v: 0-9, a-f or A-F *)
Definition hex_char (v c : N) : Prop :=
  (v < 10 /\ c = 48 + v)%N \/ (10 <= v < 16 /\ (c = 87 + v \/ c = 55 + v))%N.

Inductive hex_digits : bytes -> bytes -> Prop :=
| hd_nil : hex_digits [] []
| hd_byte : forall b p hi lo d,
    hex_char (b / 16) hi -> hex_char (b mod 16) lo -> hex_digits p d -> hex_digits (b :: p) (hi :: lo :: d)
| hd_odd : forall b hi,                      (* the final digit may be left out when it is 0 *)
    (b mod 16 = 0)%N -> hex_char (b / 16) hi -> hex_digits [b] [hi].

(* payload p, encoding e (up to and including the EOD marker `>`) *)
Definition ahex_enc (p e : bytes) : Prop :=
  exists digits text, hex_digits p digits /\ interleave digits text /\ e = text ++ [62%N].

(* ---------- ASCII85 ---------- *)
Definition word (b0 b1 b2 b3 : N) : N := (b0 * 16777216 + b1 * 65536 + b2 * 256 + b3)%N.

(* the five base-85 digits of v, most significant first, as characters `!`..`u` *)
Definition group5 (v : N) : bytes :=
  [33 + v / 52200625; 33 + (v / 614125) mod 85; 33 + (v / 7225) mod 85; 33 + (v / 85) mod 85; 33 + v mod 85]%N.

Inductive a85_digits : bytes -> bytes -> Prop :=
| ad_nil : a85_digits [] []
| ad_group : forall b0 b1 b2 b3 p d,
    a85_digits p d -> a85_digits (b0 :: b1 :: b2 :: b3 :: p) (group5 (word b0 b1 b2 b3) ++ d)
| ad_z : forall p d,                          (* `z` for four zero bytes: the encoder's choice *)
    a85_digits p d -> a85_digits (0 :: 0 :: 0 :: 0 :: p)%N (122%N :: d)
| ad_part1 : forall b0, a85_digits [b0] (firstn 2 (group5 (word b0 0 0 0)))
| ad_part2 : forall b0 b1, a85_digits [b0; b1] (firstn 3 (group5 (word b0 b1 0 0)))
| ad_part3 : forall b0 b1 b2, a85_digits [b0; b1; b2] (firstn 4 (group5 (word b0 b1 b2 0))).

(* payload p, encoding e: the characters followed by the EOD marker `~>`, with white space anywhere —
   between the characters, before the marker, and also BETWEEN the `~` and the `>` of the marker (a line
   wrapper may break the line there) and after it *)
Definition a85_enc (p e : bytes) : Prop :=
  exists digits, a85_digits p digits /\ interleave (digits ++ [126; 62]%N) e.

(* the encoder that never uses `z`, no white space: a function, for non-vacuity *)
Fixpoint a85_encode_plain (fuel : nat) (p : bytes) : bytes :=
  match fuel with
  | O => []
  | S f =>
    match p with
    | b0 :: b1 :: b2 :: b3 :: r => group5 (word b0 b1 b2 b3) ++ a85_encode_plain f r
    | [b0; b1; b2] => firstn 4 (group5 (word b0 b1 b2 0))
    | [b0; b1] => firstn 3 (group5 (word b0 b1 0 0))
    | [b0] => firstn 2 (group5 (word b0 0 0 0))
    | [] => []
    end
  end.
