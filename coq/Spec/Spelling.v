(* Spec/Spelling.v — what "a spelling of a PDF object" means (C02), independent of the parser's
   structure: a relation [spells v sp] between a value (Base/PdfObj.v [obj]) and the bytes of one
   of its spellings, built from the lexical rules of the property text:

     whitespace      ws := (ws byte | '%' non-LF* LF)*        between tokens (comments are whitespace)
     numbers         [+-]? digit+            integer (value within i64) — beyond i64: the real m/1
                     [+-]? digit* . digit+   real  m / 10^k  (k = number of fraction digits)
     names           '/' then per byte: the byte itself (if regular and not forming an accidental
                     #hh) or #hh with hex digits in either case; no zero byte
     literal string  '(' body ')' with body balanced modulo backslash pairs; value = raw body
     hex string      '<' hex digits in either case with whitespace anywhere, odd count padded with 0 '>'
     reference       int ws+ int ws+ 'R'     (non-negative integers)
     array           '[' ws (elem sep)* ']'
     dictionary      '<<' (ws key ws value)* ws '>>'   keys of non-null values distinct; a
                     `key null` pair contributes nothing (and may not re-use a key bound before)

   Documented readings (DESIGN.md §6 C02): "1." / "." are NOT spellings (the parser reads them as
   the integers 1 / 0); tokens that end in a regular character (numbers, names, keywords, R) must be
   followed by whitespace, a delimiter or the end of the text — [follow]; an integer must not be
   followed by  ws+ integer ws+ "R"  (that text is a spelling of the reference).
   Definitions only. *)
From PV Require Export Base.PdfObj.
From PV Require Import gen.PrimConstants.

Definition i64_maxZ : Z := 9223372036854775807%Z.
Definition i128_maxZ : Z := 170141183460469231731687303715884105727%Z.

(* ------------------------------------------------------------------ whitespace *)
Inductive ws : bytes -> Prop :=
| ws_nil : ws []
| ws_byte b r : memb b ws_eol_set = true -> ws r -> ws (b :: r)
| ws_comment body r : Forall (fun b => b <> 10%N) body -> ws r -> ws (37%N :: body ++ 10%N :: r).

(* ------------------------------------------------------------------ numbers *)
Definition digitb (b : N) : bool := memb b digit_set.
Definition all_digits (ds : bytes) : Prop := Forall (fun b => digitb b = true) ds.
(* decimal value, most significant digit first *)
Definition dec_val (ds : bytes) : Z := fold_left (fun a d => (a * 10 + (Z.of_N d - 48))%Z) ds 0%Z.

Inductive sign : bool -> bytes -> Prop :=
| sign_none : sign false []
| sign_plus : sign false [43%N]
| sign_minus : sign true [45%N].

Definition signed (neg : bool) (m : Z) : Z := if neg then (- m)%Z else m.
Definition in_i64 (z : Z) : Prop := (- i64_maxZ - 1 <= z <= i64_maxZ)%Z.

(* [spells_num v sp]: sp is a spelling of the number v *)
Inductive spells_num : obj -> bytes -> Prop :=
| sp_int neg sg ds :                       (* [+-]? digit+ , value within i64 *)
    sign neg sg -> ds <> [] -> all_digits ds -> in_i64 (signed neg (dec_val ds)) ->
    spells_num (OInt (signed neg (dec_val ds))) (sg ++ ds)
| sp_bigint neg sg ds :                    (* [+-]? digit+ , beyond i64 but within i128: the real m/1 *)
    sign neg sg -> ds <> [] -> all_digits ds -> ~ in_i64 (signed neg (dec_val ds)) ->
    (dec_val ds <= i128_maxZ)%Z ->
    spells_num (OReal (signed neg (dec_val ds)) 1) (sg ++ ds)
| sp_real neg sg ds fs :                   (* [+-]? digit* . digit+ *)
    sign neg sg -> all_digits ds -> fs <> [] -> all_digits fs ->
    (dec_val (ds ++ fs) <= i128_maxZ)%Z -> (10 ^ Z.of_nat (len fs) <= i128_maxZ)%Z ->
    spells_num (OReal (signed neg (dec_val (ds ++ fs))) (10 ^ Z.of_nat (len fs))) (sg ++ ds ++ 46%N :: fs).

(* non-negative integers as written in references: [+]? digit+ (or -0…0) *)
Inductive spells_nat : N -> bytes -> Prop :=
| sp_nat neg sg ds :
    sign neg sg -> ds <> [] -> all_digits ds -> (dec_val ds <= i64_maxZ)%Z ->
    (neg = true -> dec_val ds = 0%Z) ->
    spells_nat (Z.to_N (dec_val ds)) (sg ++ ds).

(* ------------------------------------------------------------------ names *)
Definition hexb (b : N) : bool :=
  ((48 <=? b) && (b <=? 57) || (97 <=? b) && (b <=? 102) || (65 <=? b) && (b <=? 70))%N.
Definition hexval (b : N) : N :=
  if ((48 <=? b) && (b <=? 57))%N then (b - 48)%N
  else if ((97 <=? b) && (b <=? 102))%N then (b - 87)%N else (b - 55)%N.

(* a raw '#' must not be followed by two hex digits (it would be read as an escape) *)
Definition accidental_escape (b : N) (enc : bytes) : Prop :=
  b = 35%N /\ match enc with h1 :: h2 :: _ => hexb h1 = true /\ hexb h2 = true | _ => False end.

Inductive name_enc : bytes -> bytes -> Prop :=
| ne_nil : name_enc [] []
| ne_raw b bs enc :                     (* a regular byte written as itself *)
    memb b name_stops = false -> ~ accidental_escape b enc -> name_enc bs enc -> name_enc (b :: bs) (b :: enc)
| ne_esc b h1 h2 bs enc :               (* any non-zero byte written #hh, either case *)
    hexb h1 = true -> hexb h2 = true -> b = (16 * hexval h1 + hexval h2)%N -> b <> 0%N ->
    name_enc bs enc -> name_enc (b :: bs) (35%N :: h1 :: h2 :: enc).

(* ------------------------------------------------------------------ hexadecimal strings *)
Definition hexws (b : N) : bool := memb b [32; 13; 10; 9; 0; 12]%N.
Inductive hex_gap : bytes -> Prop :=      (* whitespace allowed anywhere inside < > *)
| hg_nil : hex_gap []
| hg_cons b r : hexws b = true -> hex_gap r -> hex_gap (b :: r).

Inductive hex_enc : bytes -> bytes -> Prop :=
| he_nil g : hex_gap g -> hex_enc [] g
| he_odd g1 h g2 : hex_gap g1 -> hexb h = true -> hex_gap g2 ->      (* a final single digit is padded with 0 *)
    hex_enc [(16 * hexval h)%N] (g1 ++ h :: g2)
| he_byte g1 h1 g2 h2 bs body :
    hex_gap g1 -> hexb h1 = true -> hex_gap g2 -> hexb h2 = true -> hex_enc bs body ->
    hex_enc ((16 * hexval h1 + hexval h2)%N :: bs) (g1 ++ h1 :: g2 ++ h2 :: body).

(* ------------------------------------------------------------------ literal strings *)
(* balanced modulo backslash pairs: a backslash protects the byte that follows it *)
Fixpoint balanced_from (depth : nat) (body : bytes) : bool :=
  match body with
  | [] => Nat.eqb depth 0
  | 92%N :: _ :: r => balanced_from depth r
  | [92%N] => false
  | 40%N :: r => balanced_from (S depth) r
  | 41%N :: r => match depth with O => false | S d => balanced_from d r end
  | _ :: r => balanced_from depth r
  end.
Definition balanced (body : bytes) : Prop := balanced_from 0 body = true.

(* ------------------------------------------------------------------ objects *)
(* tokens that end in a regular character must be followed by whitespace, a delimiter or the end *)
Definition term_stop (rest : bytes) : Prop :=
  match rest with [] => True | b :: _ => memb b name_stops = true end.

(* the dictionary denoted by an entry list, built as the parser's BTreeMap; None if a key that
   is already bound to a non-null value is spelled again (such a text is rejected) *)
Fixpoint dict_of (ents : list (bytes * obj)) (acc : list (bytes * obj)) : option (list (bytes * obj)) :=
  match ents with
  | [] => Some acc
  | (k, v) :: r =>
    if existsb (fun kv => bytes_eqb k (fst kv)) acc then None
    else match v with
         | ONull => dict_of r acc
         | _ => dict_of r (fst (dict_insert k v acc))
         end
  end.

Section Spells.
  (* [int_follow rest]: what follows an integer is not read as the rest of a reference
     (not  ws+ integer ws+ "R").  Abstract here; Proofs instantiate it with the parser's own look-ahead. *)
  Variable int_follow : bytes -> Prop.

  Definition follow (v : obj) (rest : bytes) : Prop :=
    match v with
    | OInt _ => term_stop rest /\ int_follow rest
    | OReal _ _ | OName _ | ONull | OBool _ | ORef _ _ => term_stop rest
    | _ => True
    end.

  (* [spells n v sp]: sp is a spelling of v whose bracket nesting is at most n (a primitive is 1;
     a dropped `key null` pair nests like any other entry) *)
  Inductive spells : nat -> obj -> bytes -> Prop :=
  | sp_null n : spells (S n) ONull kw_null
  | sp_true n : spells (S n) (OBool true) kw_true
  | sp_false n : spells (S n) (OBool false) kw_false
  | sp_number n v sp : spells_num v sp -> spells (S n) v sp
  | sp_name n bs enc : name_enc bs enc -> spells (S n) (OName bs) (47%N :: enc)
  | sp_lit n body : balanced body -> spells (S n) (OStr body) (40%N :: body ++ [41%N])
  | sp_hex n bs body : hex_enc bs body -> spells (S n) (OStr bs) (60%N :: body ++ [62%N])
  | sp_ref n' n g sn w1 sg w2 :
      spells_nat n sn -> ws w1 -> w1 <> [] -> spells_nat g sg -> ws w2 -> w2 <> [] ->
      spells (S n') (ORef n g) (sn ++ w1 ++ sg ++ w2 ++ [82%N])
  | sp_arr n l body : items n l body -> spells (S n) (OArr l) (91%N :: body ++ [93%N])
  | sp_dict n ents body d :
      entries n ents body -> dict_of ents [] = Some d -> spells (S n) (ODict d) (60%N :: 60%N :: body ++ [62%N; 62%N])
  (* elements: each after optional whitespace, in a follow context inside the brackets *)
  with items : nat -> list obj -> bytes -> Prop :=
  | items_nil n w : ws w -> items n [] w
  | items_cons n w v sp l body :
      ws w -> spells n v sp -> items n l body ->
      (forall outer, follow v (body ++ 93%N :: outer)) ->
      items n (v :: l) (w ++ sp ++ body)
  (* entries in spelled order (null-valued pairs included) *)
  with entries : nat -> list (bytes * obj) -> bytes -> Prop :=
  | entries_nil n w : ws w -> entries n [] w
  | entries_cons n w k enc w' v sp ents body :
      ws w -> name_enc k enc -> ws w' ->
      (w' = [] -> match sp with x :: _ => memb x name_stops = true | [] => False end) ->   (* the key must end *)
      spells n v sp -> entries n ents body ->
      (forall outer, follow v (body ++ 62%N :: 62%N :: outer)) ->
      entries n ((k, v) :: ents) (w ++ 47%N :: enc ++ w' ++ sp ++ body).
End Spells.
