(* Spec/Spelling.v — what "a spelling of a PDF object" means (C02), independent of the parser's
   structure: a relation [spells v sp] between a value (Base/PdfObj.v [obj]) and the bytes of one
   of its spellings, built from the lexical rules of the property text:

     whitespace      ws := (ws byte | '%' non-LF* LF)*        between tokens (comments are whitespace)
     numbers         [+-]? digit+            integer (value within i64) — beyond i64: the real m/1
                     [+-]? digit* . digit+   real  m / 10^k  (k = number of fraction digits)
     names           '/' then per byte: the byte itself (if regular and not forming an accidental
                     #hh) or #hh with hex digits in either case; no zero byte
     literal string  '(' body ')' with body balanced modulo backslash pairs; value = raw body
     hex string      '<' hex digits in either case with whitespace anywhere, odd count padded with 0 '>'
     reference       int ws+ int ws+ 'R'     (non-negative integers)
     array           '[' ws (elem sep)* ']'
     dictionary      '<<' (ws key ws value)* ws '>>'   keys of non-null values distinct; a
                     `key null` pair contributes nothing (and may not re-use a key bound before)

   Documented readings (DESIGN.md §6 C02): "1." / "." are NOT spellings (the parser reads them as
   the integers 1 / 0); tokens that end in a regular character (numbers, names, keywords, R) must be
   followed by whitespace, a delimiter or the end of the text — [follow]; an integer must not be
   followed by  ws+ integer ws+ "R"  (that text is a spelling of the reference).
   Definitions only. *)
From PV Require Export Base.PdfObj.
From PV Require Import gen.PrimConstants.

Definition i64_maxZ : Z := 9223372036854775807%Z.
Definition i128_maxZ : Z := 170141183460469231731687303715884105727%Z.

(* ------------------------------------------------------------------ whitespace *)
Inductive ws : bytes -> Prop :=
| ws_nil : ws []
| ws_byte b r : memb b ws_eol_set = true -> ws r -> ws (b :: r)
| ws_comment body r : Forall (fun b => b <> 10%N) body -> ws r -> ws (37%N :: body ++ 10%N :: r).

(* ------------------------------------------------------------------ numbers *)
Definition digitb (b : N) : bool := memb b digit_set.
Definition all_digits (ds : bytes) : Prop := Forall (fun b => digitb b = true) ds.
(* decimal value, most significant digit first *)
Definition dec_val (ds : bytes) : Z := fold_left (fun a d => (a * 10 + (Z.of_N d - 48))%Z) ds 0%Z.

Inductive sign : bool -> bytes -> Prop :=
| sign_none : sign false []
| sign_plus : sign false [43%N]
| sign_minus : sign true [45%N].

Definition signed (neg : bool) (m : Z) : Z := if neg then (- m)%Z else m.
Definition in_i64 (z : Z) : Prop := (- i64_maxZ - 1 <= z <= i64_maxZ)%Z.

(* [spells_num v sp]: sp is a spelling of the number v *)
Inductive spells_num : obj -> bytes -> Prop :=
| sp_int neg sg ds :                       (* [+-]? digit+ , value within i64 *)
    sign neg sg -> ds <> [] -> all_digits ds -> in_i64 (signed neg (dec_val ds)) ->
    spells_num (OInt (signed neg (dec_val ds))) (sg ++ ds)
| sp_bigint neg sg ds :                    (* [+-]? digit+ , beyond i64 but within i128: the real m/1 *)
    sign neg sg -> ds <> [] -> all_digits ds -> ~ in_i64 (signed neg (dec_val ds)) ->
    (dec_val ds <= i128_maxZ)%Z ->
    spells_num (OReal (signed neg (dec_val ds)) 1) (sg ++ ds)
| sp_real neg sg ds fs :                   (* [+-]? digit* . digit+ *)
    sign neg sg -> all_digits ds -> fs <> [] -> all_digits fs ->
    (dec_val (ds ++ fs) <= i128_maxZ)%Z -> (10 ^ Z.of_nat (len fs) <= i128_maxZ)%Z ->
    spells_num (OReal (signed neg (dec_val (ds ++ fs))) (10 ^ Z.of_nat (len fs))) (sg ++ ds ++ 46%N :: fs).
