(* Spec/ContentSpelling.v — what "the bytes s spell the content stream [items]" means (C12 on bytes),
   independent of the lexer's structure.  Built on the spelling relation of C02 (Spec/Spelling.v):

     stream   := (ws token)* ws                       ws = white space and comments (Spelling.ws)
     token    := operand | operator
     operand  := any C02 spelling (Spelling.spells) of the operand object, of bracket nesting <= maxd + 1
                 (maxd = the recursion bound of the PDFObjContext the caller passes) — integers and reals,
                 names (with #hh escapes), literal strings (balanced modulo backslash), hexadecimal strings,
                 arrays and dictionaries (to any element depth <= maxd, elements spelled as in C02, references
                 included), true / false / null — EXCEPT
                   * an indirect reference is not an operand of a content stream (`1 0 R` is three tokens), and
                   * a number is written without a leading '+' (the content-stream lexer reads `+3` as an operator);
     operator := its name: one or more regular ASCII bytes (no white space, no delimiter ( ) < > [ ] { } / %),
                 no '#' (OperatorP decodes #hh), not starting like a number (digit, '-', '.'), and not one of
                 the keywords true / false / null.

   Side condition the lexical rules of PDF impose ([tok_follow]): a token that ends in a regular character
   (number, name, keyword, operator) is followed by white space, a delimiter or the end of the stream.
   Definitions only. *)
From PV Require Export Spec.Fig9 Spec.Spelling.
From PV Require Import gen.PrimConstants.

Definition op_byte (b : N) : bool := negb (memb b op_stops) && negb (N.eqb b 35) && (b <=? 127)%N.
Definition num_start (b : N) : bool := digitb b || N.eqb b 45 || N.eqb b 46.

Definition spells_op (n : bytes) : Prop :=
  forallb op_byte n = true
  /\ match n with [] => False | b :: _ => num_start b = false end
  /\ n <> kw_true /\ n <> kw_false /\ n <> kw_null.

Definition operand_ok (o : obj) (sp : bytes) : Prop :=
  match o with ORef _ _ => False | _ => True end
  /\ match sp with 43%N :: _ => False | _ => True end.

Section CS.
  Variable int_follow : bytes -> Prop.    (* as in Spec/Spelling.v: the follow condition of integers inside arrays *)
  Variable maxd : nat.

  Inductive spells_tok : cstoken -> bytes -> Prop :=
  | stk_op n : spells_op n -> spells_tok (TOp n) n
  | stk_obj o sp : spells int_follow (S maxd) o sp -> operand_ok o sp -> spells_tok (TObj o) sp.

  Definition tok_follow (t : cstoken) (rest : bytes) : Prop :=
    match t with
    | TOp _ | TObj (OInt _) | TObj (OReal _ _) | TObj (OName _) | TObj ONull | TObj (OBool _) => term_stop rest
    | _ => True
    end.

  Inductive spells_toks : list cstoken -> bytes -> Prop :=
  | stks_nil w : ws w -> spells_toks [] w
  | stks_cons w t sp l body :
      ws w -> spells_tok t sp -> spells_toks l body -> tok_follow t body ->
      spells_toks (t :: l) (w ++ sp ++ body).

  Definition spells_cs (items : list item) (s : bytes) : Prop := spells_toks (flatten items) s.
End CS.
