(* Spec/ObjStmEnc.v — what an object stream *means*: the header of (identifier, offset) pairs as
   text, and the members located at their declared offsets in the data that starts at /First —
   with arbitrary bytes (gaps) between the end of one member and the declared offset of the
   next.  The value of a member is whatever the object parser (Model/Obj.v, C02/C16) reads at
   its declared offset after optional white space.  Definitions only. *)
From PV Require Export Spec.XrefEnc Model.Obj Model.ObjStm.

(* ---------- header text ---------- *)
(* one pair as written: white space, identifier, white space, offset (decimal, any leading zeros) *)
Record hpair := mk_hpair { hp_ws1 : bytes; hp_id : N; hp_idw : nat; hp_ws2 : bytes; hp_off : N; hp_offw : nat }.

Definition render_pair (p : hpair) : bytes :=
  hp_ws1 p ++ digits (hp_idw p) (hp_id p) ++ hp_ws2 p ++ digits (hp_offw p) (hp_off p).

Definition render_pairs (l : list hpair) : bytes := concat (List.map render_pair l).

Definition wf_pair (p : hpair) : Prop :=
  all_in [32; 0; 9; 13; 10; 12]%N (hp_ws1 p) /\ all_in [32; 0; 9; 13; 10; 12]%N (hp_ws2 p) /\ hp_ws2 p <> [] /\
  1 <= hp_idw p /\ (hp_id p < 10 ^ N.of_nat (hp_idw p))%N /\ (hp_id p < i64_lim)%N /\
  1 <= hp_offw p /\ (hp_off p < 10 ^ N.of_nat (hp_offw p))%N /\ (hp_off p < i64_lim)%N.

(* numbers are separated: every pair but the first starts with white space *)
Fixpoint wf_pairs (first : bool) (l : list hpair) : Prop :=
  match l with
  | [] => True
  | p :: r => wf_pair p /\ (first = true \/ hp_ws1 p <> []) /\ wf_pairs false r
  end.

(* offsets strictly increasing *)
Fixpoint increasing (l : list hpair) : Prop :=
  match l with
  | p :: ((q :: _) as r) => (hp_off p < hp_off q)%N /\ increasing r
  | _ => True
  end.

Definition pairs_meta (l : list hpair) : list (N * N) := List.map (fun p => (hp_id p, hp_off p)) l.

(* ---------- members located in the data ---------- *)
(* the value at offset [off] of [body]: optional white space / comments, then one object *)
Definition obj_at (rel : bool) (b : nat) (body : bytes) (off : nat) : option (obj * nat * nat) :=
  match ws_eol true body off with
  | POk _ c1 => match parse_obj rel b body c1 with
                | POk o c2 => Some (lv_val o, c1, c2)
                | _ => None
                end
  | _ => None
  end.

Record member := mk_member { m_id : N; m_off : nat; m_val : obj; m_start : nat; m_end : nat }.

Definition located (rel : bool) (b : nat) (body : bytes) (m : member) : Prop :=
  m_off m <= len body /\ obj_at rel b body (m_off m) = Some (m_val m, m_start m, m_end m).

(* no member runs past the declared offset of the next one; whatever lies between the end of a
   member and the next declared offset is unconstrained *)
Fixpoint ordered (c : nat) (l : list member) : Prop :=
  match l with
  | [] => True
  | m :: r => c <= m_off m /\ ordered (m_end m) r
  end.

Definition fresh (ctx : octx) (l : list member) : Prop :=
  NoDup (List.map m_id l) /\ forall m, In m l -> lookup ctx (m_id m, 0%N) = None.

Definition define (ctx : octx) (l : list member) : octx :=
  fold_left (fun c m => ctx_set c (m_id m, 0%N) (m_val m)) l ctx.

Definition member_ent (m : member) : osent := (m_id m, m_val m, m_start m, m_end m).
Definition member_meta (m : member) : N * N := (m_id m, N.of_nat (m_off m)).

(* ---------- the dictionary ---------- *)
Definition objstm_dict_ok (d : list (bytes * obj)) (n first : N) : Prop :=
  dict_get d (B "Type") = Some (OName (B "ObjStm")) /\
  dict_get d (B "N") = Some (OInt (Z.of_N n)) /\
  dict_get d (B "First") = Some (OInt (Z.of_N first)) /\
  dict_get d (B "Filter") = None.
