(* Spec/DomSpec.v — what C11 means, independently of how pdf_page_dom.rs is organised.
   Everything is a relation on the object context; nothing here is executable or fuelled. *)
From PV Require Export Base.PdfObj.

Definition oid := (N * N)%type.

Section Spec.
  Variable c : octx.

  Definition defined (id : oid) : Prop := octx_get c id <> None.

  (* an object that is not a reference resolves to itself; a reference resolves to what its
     definition resolves to.  A chain through an undefined id, or a chain that loops, resolves to
     nothing (the relation is inductive). *)
  Inductive resolves : obj -> obj -> Prop :=
  | res_here o : (forall n g, o <> ORef n g) -> resolves o o
  | res_step n g o1 o' : octx_get c (n, g) = Some o1 -> resolves o1 o' -> resolves (ORef n g) o'.

  (* the ids a /Kids array lists: its reference elements, in order *)
  Fixpoint refs_of (a : list obj) : list oid :=
    match a with
    | [] => []
    | ORef n g :: a' => (n, g) :: refs_of a'
    | _ :: a' => refs_of a'
    end.

  (* id is a kid of the node object o: listed in the array that /Kids leads to, and defined *)
  Definition kid_of (o : obj) (id : oid) : Prop :=
    exists d v a, o = ODict d /\ dict_get d (B "Kids") = Some v /\ resolves v (OArr a) /\
                  In id (refs_of a) /\ defined id.

  Definition is_pages (o : obj) : Prop :=
    exists d, o = ODict d /\ dict_get d (B "Type") = Some (OName (B "Pages")).

  (* reachable from the root node [root] (an object, the target of the catalog's /Pages) through
     kids of page-tree nodes, in one or more steps *)
  Inductive reachable (root : obj) : oid -> Prop :=
  | reach_root id : kid_of root id -> reachable root id
  | reach_step id o id' :
      reachable root id -> octx_get c id = Some o -> is_pages o -> kid_of o id' -> reachable root id'.

  (* a path from the root node down to a kid [id]: the node objects passed, nearest first, root last *)
  Inductive path_to (root : obj) : list obj -> oid -> Prop :=
  | path_root id : kid_of root id -> path_to root [root] id
  | path_step p id0 o id :
      path_to root p id0 -> octx_get c id0 = Some o -> is_pages o -> kid_of o id -> path_to root (o :: p) id.

  (* the object declares resources: its /Resources leads (through any chain of references) to a dictionary *)
  Definition declares (o : obj) (rd : list (bytes * obj)) : Prop :=
    exists d v, o = ODict d /\ dict_get d (B "Resources") = Some v /\ resolves v (ODict rd).

  (* the nearest declaration on a list of objects (the page or node first, then its ancestors) *)
  Inductive nearest_resources : list obj -> option (list (bytes * obj)) -> Prop :=
  | near_none : nearest_resources [] None
  | near_here o rest rd : declares o rd -> nearest_resources (o :: rest) (Some rd)
  | near_up o rest x : (forall rd, ~ declares o rd) -> nearest_resources rest x -> nearest_resources (o :: rest) x.

  Definition is_stream (o : obj) : Prop := exists d b, o = OStream d b.

  (* the content streams /Contents value v denotes, in document order *)
  Inductive contents_in_order : obj -> list obj -> Prop :=
  | cont_stream v s : resolves v s -> is_stream s -> contents_in_order v [s]
  | cont_array v a l :
      resolves v (OArr a) -> Forall2 (fun x s => resolves x s /\ is_stream s) a l -> contents_in_order v l.
End Spec.
