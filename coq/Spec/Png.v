(* Spec/Png.v — the forward (encoding) filters whose reversal C07 is about, written as simply as
   possible and independently of the decoder's structure:
     PNG specification §9 (filter types 0..4, applied to BYTES, with bpp = bytes per complete pixel,
       rounded up to 1) — PDF /Predictor 10..14;
     TIFF predictor 2 (horizontal differencing of SAMPLES of the same colour component; 8-bit samples
       are bytes, 16-bit samples are big-endian byte pairs) — PDF /Predictor 2.
   Definitions only. *)
From PV Require Export Base.Bytes.

Definition at_ (l : list N) (i : nat) : N := nth i l 0%N.

(* the element [d] places to the left, 0 before the first pixel *)
Definition left (d : nat) (l : list N) (i : nat) : N := if i <? d then 0%N else at_ l (i - d).

(* PNG §9.4 PaethPredictor, on integers *)
Definition paethZ (a b c : Z) : Z :=
  let p := (a + b - c)%Z in
  let pa := Z.abs (p - a) in
  let pb := Z.abs (p - b) in
  let pc := Z.abs (p - c) in
  if (pa <=? pb)%Z && (pa <=? pc)%Z then a else if (pb <=? pc)%Z then b else c.
Definition paeth (a b c : N) : N := Z.to_N (paethZ (Z.of_N a) (Z.of_N b) (Z.of_N c)).

(* Pred(x) for filter type ft given a = left, b = above, c = upper left *)
Definition predict (ft : N) (a b c : N) : N :=
  match ft with
  | 0 => 0
  | 1 => a
  | 2 => b
  | 3 => (a + b) / 2            (* 9-bit sum, floor *)
  | 4 => paeth a b c
  | _ => 0
  end%N.

(* Filt(x) = Orig(x) - Pred(x) mod 256, for every byte x of the row *)
Definition filter_row (ft : N) (bpp : nat) (prev cur : list N) : list N :=
  List.map (fun i => ((at_ cur i + 256 - predict ft (left bpp cur i) (at_ prev i) (left bpp prev i)) mod 256)%N)
           (seq 0 (List.length cur)).

(* every row is preceded by its filter-type byte; the row above the first one is all zero
   ([at_] of the empty list) *)
Fixpoint png_encode (ft : N) (bpp : nat) (prev : list N) (rows : list (list N)) : list N :=
  match rows with
  | [] => []
  | cur :: rest => ft :: filter_row ft bpp prev cur ++ png_encode ft bpp cur rest
  end.

(* ---------- TIFF predictor 2 ---------- *)
(* big-endian 16-bit samples <-> bytes *)
Fixpoint samples16 (l : list N) : list N :=
  match l with
  | hi :: lo :: r => (hi * 256 + lo)%N :: samples16 r
  | _ => []
  end.
Fixpoint bytes16 (s : list N) : list N :=
  match s with
  | [] => []
  | x :: r => (x / 256)%N :: (x mod 256)%N :: bytes16 r
  end.

Definition diff_samples (m : N) (colors : nat) (s : list N) : list N :=
  List.map (fun i => ((at_ s i + m - left colors s i) mod m)%N) (seq 0 (List.length s)).

Definition tiff_row (bits : N) (colors : nat) (row : list N) : list N :=
  if (bits =? 16)%N then bytes16 (diff_samples 65536 colors (samples16 row))
  else diff_samples 256 colors row.

(* ---------- shapes ---------- *)
Definition row_bytes (columns colors bits : N) : N := ((columns * colors * bits + 7) / 8)%N.
Definition pix_bytes (colors bits : N) : N := N.max 1 ((colors * bits + 7) / 8)%N.

(* the encoder for /Predictor [pred] *)
Definition encode_rows (pred colors bits : N) (rows : list (list N)) : list N :=
  if (pred =? 2)%N then concat (List.map (tiff_row bits (N.to_nat colors)) rows)
  else png_encode (pred - 10) (N.to_nat (pix_bytes colors bits)) [] rows.
