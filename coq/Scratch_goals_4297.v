(* Proofs/ShippedMain.v — the declarative theorems transported to the DUMPED specification, the
   example document showing the hypotheses are satisfiable, and the refutation witnesses. *)
From PV Require Import Spec.PageTreeSpec gen.Shipped Model.ShippedEntry
  Proofs.ShippedFacts Proofs.ShippedApprox Proofs.ShippedKinds Proofs.ShippedAccept Proofs.ShippedReject.

Theorem shipped_accepts d :
  wf_doc d -> conforms shipped_opq (emit_ctx d) shipped_tctx (emit_root d) shipped_root.
Proof.
  intros Hwf. rewrite shipped_root_is_spec, shipped_tctx_is_spec. unfold shipped_opq.
  apply spec_accepts. exact Hwf.
Qed.

Theorem shipped_rejects d m :
  wf_doc d -> mutation d m -> ~ conforms shipped_opq (fst m) shipped_tctx (snd m) shipped_root.
Proof.
  intros Hwf Hm. rewrite shipped_root_is_spec, shipped_tctx_is_spec. unfold shipped_opq.
  apply (spec_rejects shipped_nd d m); assumption.
Qed.

(* ---------- an example: a catalog with a two-level page tree ---------- *)
Definition ex_page : kid :=
  KPage (2, 0)%N {| a_opts := [(B "MediaBox", VRect, Direct (OArr [OInt 0; OInt 0; OInt 612; OReal 7920 10]));
                              (B "LastModified", VDate, Direct (OStr (B "D:19921223195200-08'00'")));
                              (B "Contents", VContents, Indirect (6, 0)%N (OStream [] []))];
                   a_extra := [(B "XUnlisted", OInt 1)] |}.
Definition ex_template : kid := KTemplate (4, 0)%N {| a_opts := [(B "Tabs", VNameIn iso_tabs, Direct (OName (B "S")))]; a_extra := [] |}.
Definition ex_node : kid := KNode (3, 0)%N 1 [ex_template] [(B "MediaBox", OArr [])].
Definition ex_doc : doc :=
  {| d_root := (1, 0)%N; d_count := 2; d_kids := [ex_page; ex_node]; d_root_extra := [];
     d_pages_direct := false;
     d_cat := {| a_opts := [(B "PageMode", VNameIn iso_pagemode, Direct (OName (B "UseOutlines")));
                            (B "Outlines", VIDict, Indirect (5, 0)%N (ODict []));
                            (B "PageLabels", VNumTree, Direct (ODict [(B "Nums", OArr [OInt 0; ORef 7 0])]))];
                 a_extra := [] |} |}.

Ltac nodup := repeat (constructor; [simpl; intuition discriminate|]); constructor.
Ltac in_cases H := simpl in H; repeat (destruct H as [H|H]; [try (inversion H; subst; clear H)|]); try contradiction.

Lemma ex_wf : wf_doc ex_doc.
Proof.
  split; [|split; [|split]].
  - vm_compute. nodup.
  - split; [constructor|]. intros k [].
  - repeat constructor.
    + (* the page *)
Show. Admitted.
