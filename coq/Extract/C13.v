From PV Require Import Model.XrefStm.
Require Extraction. Require ExtrOcamlBasic.
Extraction Language OCaml.

Extraction "../ocaml/build/c13/model.ml" entry.
