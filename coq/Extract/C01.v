From PV Require Import Model.Pipeline Model.Full.
Require Extraction. Require ExtrOcamlBasic.
Extraction Language OCaml.
Extraction "../ocaml/build/c01/model.ml" Full.entry.
