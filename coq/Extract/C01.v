From PV Require Import Model.Pipeline.
Require Extraction. Require ExtrOcamlBasic.
Extraction Language OCaml.
Extraction "../ocaml/build/c01/model.ml" Pipeline.entry.
