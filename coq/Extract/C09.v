From PV Require Import Spec.Conforms.
Require Extraction. Require ExtrOcamlBasic.
Extraction Language OCaml.

Extraction "../ocaml/build/c09/model.ml" entry.
