From PV Require Import Model.ShippedEntry.
Require Extraction. Require ExtrOcamlBasic.
Extraction Language OCaml.

Extraction "../ocaml/build/c10/model.ml" entry.
