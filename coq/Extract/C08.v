From PV Require Import Spec.Conforms.
Require Extraction. Require ExtrOcamlBasic.
Extraction Language OCaml.

Extraction "../ocaml/build/c08/model.ml" entry.
