From PV Require Import Model.Filters.
Require Extraction. Require ExtrOcamlBasic.
Extraction Language OCaml.

Extraction "../ocaml/build/c06/model.ml" entry.
