From PV Require Import Model.FiltersPinned.
Require Extraction. Require ExtrOcamlBasic.
Extraction Language OCaml.

Extraction "../ocaml/build/c06/model.ml" entry.
