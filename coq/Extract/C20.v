From PV Require Import Model.Rtps.
Require Extraction. Require ExtrOcamlBasic.
Extraction Language OCaml.

Extraction "../ocaml/build/c20/model.ml" entry.
