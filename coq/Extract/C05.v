From PV Require Import Model.Obj.
Require Extraction. Require ExtrOcamlBasic.
Extraction Language OCaml.

Extraction "../ocaml/build/c05/model.ml" entry.
