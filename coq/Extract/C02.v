From PV Require Import Model.Obj.
Require Extraction. Require ExtrOcamlBasic.
Extraction Language OCaml.

Extraction "../ocaml/build/c02/model.ml" entry.
