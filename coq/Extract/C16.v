From PV Require Import Model.Obj.
Require Extraction. Require ExtrOcamlBasic.
Extraction Language OCaml.

Extraction "../ocaml/build/c16/model.ml" entry.
