From PV Require Import Model.Prim.
Require Extraction. Require ExtrOcamlBasic.
Extraction Language OCaml.

Extraction "../ocaml/build/c15/model.ml" entry.
