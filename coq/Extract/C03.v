From PV Require Import Model.Loader.
Require Extraction. Require ExtrOcamlBasic.
Extraction Language OCaml.

Extraction "../ocaml/build/c03/model.ml" entry.
