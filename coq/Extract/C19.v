From PV Require Import Model.Bin.
Require Extraction. Require ExtrOcamlBasic.
Extraction Language OCaml.

Extraction "../ocaml/build/c19/model.ml" entry.
