From PV Require Import Model.ObjStm.
Require Extraction. Require ExtrOcamlBasic.
Extraction Language OCaml.

Extraction "../ocaml/build/c14/model.ml" entry.
