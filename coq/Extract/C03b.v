From PV Require Import Model.LoaderBytes.
Require Extraction. Require ExtrOcamlBasic.
Extraction Language OCaml.

Extraction "../ocaml/build/c03b/model.ml" entry.
