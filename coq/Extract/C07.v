From PV Require Import Model.Pred.
Require Extraction. Require ExtrOcamlBasic.
Extraction Language OCaml.

Extraction "../ocaml/build/c07/model.ml" entry.
