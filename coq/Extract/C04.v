From PV Require Import Model.Loader.
Require Extraction. Require ExtrOcamlBasic.
Extraction Language OCaml.

Extraction "../ocaml/build/c04/model.ml" entry.
