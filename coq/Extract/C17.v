From PV Require Import Model.Buf.
Require Extraction. Require ExtrOcamlBasic.
Extraction Language OCaml.

Extraction "../ocaml/build/c17/model.ml" entry.
