From PV Require Import Model.Comb.
Require Extraction. Require ExtrOcamlBasic.
Extraction Language OCaml.

Extraction "../ocaml/build/c18/model.ml" entry.
