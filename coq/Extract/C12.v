From PV Require Import Model.ContentLex.
Require Extraction.
Require ExtrOcamlBasic.
Extraction "../ocaml/build/c12/model.ml" entry.
