From PV Require Import Model.Dom.
Require Extraction. Require ExtrOcamlBasic.
Extraction Language OCaml.

Extraction "../ocaml/build/c11/model.ml" entry.
