(* Properties/C20.v — RTPS packets re-encode to the datagram they were parsed from.
   Only statements, each closed by [exact] of a lemma from Proofs/Rtps.v, with Print Assumptions.
   [decode s] = PacketP.parse on a fresh ParseBuffer over the datagram [s] (Model/Rtps.v);
   [encode p] = magic, version and vendor (little endian), 12-byte prefix, then per sub-message
   id, flags, length in the byte order selected by bit 0 of the flags, payload (Proofs/Rtps.v);
   [wfb s] = every byte of s is < 256. *)
From PV Require Import Model.Rtps Proofs.Bin Proofs.Rtps.

(* an accepted datagram is, byte for byte, the encoding of the packet returned *)
Theorem C20_decode_encode : forall s p, wfb s -> decode s = Ok p -> encode p = s.
Proof. exact decode_encode. Qed.

(* ... and that packet is well-formed: fields in range, every length field is the payload length, or is 0
   on the last sub-message whose payload then runs to the end of the datagram *)
Theorem C20_decode_wf : forall s p, wfb s -> decode s = Ok p -> wf_packet p.
Proof. exact decode_wf. Qed.

(* every packet value is read back from its encoding *)
Theorem C20_encode_decode : forall p, wf_packet p -> decode (encode p) = Ok p.
Proof. exact encode_decode. Qed.

(* the reader never panics (no assert/index/overflow is reachable) and the model's loop bound is never hit *)
Theorem C20_total : forall s, wfb s -> decode s <> Panic /\ decode s <> Fuel.
Proof. exact decode_total. Qed.

(* together: the reader's Ok answers are exactly the well-formed encodings *)
Theorem C20_ok_iff : forall s p, wfb s -> (decode s = Ok p <-> wf_packet p /\ encode p = s).
Proof. exact decode_ok_iff. Qed.

(* the kind table regenerated from rtps_prim.rs (gen/RtpsKinds.v) agrees with the RTPS submessageId table:
   every id maps to the kind whose id it is (hence to exactly one kind), and to Other(id) exactly when
   it is not one of the 13 named ids *)
Theorem C20_kind_table : forall id, id_of_kind (kind_of_id id) = id.
Proof. exact kind_table. Qed.

Theorem C20_kind_other : forall id, kind_of_id id = KOther id <-> ~ In id named_ids.
Proof. exact kind_other. Qed.

Theorem C20_kind_injective : forall a b, kind_of_id a = kind_of_id b -> a = b.
Proof. exact kind_injective. Qed.

(* the hypotheses are satisfiable, and "no sub-message" differs from "a last sub-message with length 0
   and an empty payload" *)
Example C20_nonvacuous :
  wf_packet ex_packet /\ wf_packet ex_none /\ wf_packet ex_empty_last /\
  encode ex_none <> encode ex_empty_last /\
  decode (encode ex_none) = Ok ex_none /\ decode (encode ex_empty_last) = Ok ex_empty_last.
Proof.
  split; [exact ex_packet_wf|]. split; [exact ex_none_wf|]. split; [exact ex_empty_last_wf|]. exact ex_distinct.
Qed.

Print Assumptions C20_decode_encode.
Print Assumptions C20_decode_wf.
Print Assumptions C20_encode_decode.
Print Assumptions C20_total.
Print Assumptions C20_ok_iff.
Print Assumptions C20_kind_table.
Print Assumptions C20_kind_other.
Print Assumptions C20_kind_injective.
