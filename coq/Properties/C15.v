(* Properties/C15.v — reported locations are faithful and failed token parsers do not consume.
   Only statements, each closed by [exact] of a lemma from Proofs/Prim*.v, with Print Assumptions.
   Model/Prim.v transcribes pdf_prim.rs at /repo 74723f2 (after the three C15 repairs); the
   refutations of the PINNED code are the C15_*_pinned_refuted theorems at the end.

   Per token parser P (s = buffer, c = cursor, c <= len s is the ParseBuffer invariant):
     C15_P_ok_span      P s c = POk (v,a,b) c' -> a = c /\ b = c' /\ c <= b <= len s /\
                        P (sub s a b) 0 = POk (v,0,b-a) (b-a)      (the span alone re-parses to the same value)
     C15_P_err_restores P s c = PErr k c' -> c' = c                 (no hypothesis at all)
     C15_P_no_panic     c <= len s -> P s c <> PPanic /\ P s c <> PFuel
   Variations: StreamContentP's value carries the absolute payload offset, which is shifted by a
   on the re-parse; BinaryScanner's span is the skipped bytes and its value is determined by
   span ++ tag (the tag is look-ahead; the empty tag matches at the cursor since /repo d07c841 — C17 #33);
   RawLiteralString's no-panic needs len s < 2^31 in debug builds (i32 depth counter), nothing in release.
   The combinators' half of C15 is C18's, the binary integers are re-exported from Proofs/Bin.v. *)
From PV Require Import Model.Prim Proofs.PrimBase Proofs.PrimTok Proofs.PrimWs Proofs.PrimLit Proofs.PrimPinned.
From PV Require Import Proofs.Bin.

Theorem C15_ws_noeol_ok_span : forall e, forall s c v a b c', c <= len s -> ws_noeol e s c = POk (v, a, b) c' ->
  a = c /\ b = c' /\ c <= b /\ b <= len s /\
  exists v', ws_noeol e (sub s a b) 0 = POk (v', 0, b - a) (b - a) /\ v' = v.
Proof. exact (fun e => ws_noeol_span e). Qed.

Theorem C15_ws_noeol_err_restores : forall e, forall s c k c', ws_noeol e s c = PErr k c' -> c' = c.
Proof. exact (fun e => ws_noeol_err e). Qed.

Theorem C15_ws_noeol_no_panic : forall e, forall s c, c <= len s -> ws_noeol e s c <> PPanic /\ ws_noeol e s c <> PFuel.
Proof. exact (fun e => np_expand _ (ws_noeol_np e)). Qed.

Theorem C15_comment_ok_span : forall s c v a b c', c <= len s -> comment s c = POk (v, a, b) c' ->
  a = c /\ b = c' /\ c <= b /\ b <= len s /\
  exists v', comment (sub s a b) 0 = POk (v', 0, b - a) (b - a) /\ v' = v.
Proof. exact (comment_span). Qed.

Theorem C15_comment_err_restores : forall s c k c', comment s c = PErr k c' -> c' = c.
Proof. exact (comment_err). Qed.

Theorem C15_comment_no_panic : forall s c, c <= len s -> comment s c <> PPanic /\ comment s c <> PFuel.
Proof. exact (np_expand _ (comment_np)). Qed.

Theorem C15_ws_eol_ok_span : forall e, forall s c v a b c', c <= len s -> ws_eol e s c = POk (v, a, b) c' ->
  a = c /\ b = c' /\ c <= b /\ b <= len s /\
  exists v', ws_eol e (sub s a b) 0 = POk (v', 0, b - a) (b - a) /\ v' = v.
Proof. exact (fun e => ws_eol_span e). Qed.

Theorem C15_ws_eol_err_restores : forall e, forall s c k c', ws_eol e s c = PErr k c' -> c' = c.
Proof. exact (fun e => ws_eol_err e). Qed.

Theorem C15_ws_eol_no_panic : forall e, forall s c, c <= len s -> ws_eol e s c <> PPanic /\ ws_eol e s c <> PFuel.
Proof. exact (fun e => np_expand _ (ws_eol_np e)). Qed.

Theorem C15_boolean_ok_span : forall s c v a b c', c <= len s -> boolean s c = POk (v, a, b) c' ->
  a = c /\ b = c' /\ c <= b /\ b <= len s /\
  exists v', boolean (sub s a b) 0 = POk (v', 0, b - a) (b - a) /\ v' = v.
Proof. exact (boolean_span). Qed.

Theorem C15_boolean_err_restores : forall s c k c', boolean s c = PErr k c' -> c' = c.
Proof. exact (boolean_err). Qed.

Theorem C15_boolean_no_panic : forall s c, c <= len s -> boolean s c <> PPanic /\ boolean s c <> PFuel.
Proof. exact (np_expand _ (boolean_np)). Qed.

Theorem C15_null_ok_span : forall s c v a b c', c <= len s -> null s c = POk (v, a, b) c' ->
  a = c /\ b = c' /\ c <= b /\ b <= len s /\
  exists v', null (sub s a b) 0 = POk (v', 0, b - a) (b - a) /\ v' = v.
Proof. exact (null_span). Qed.

Theorem C15_null_err_restores : forall s c k c', null s c = PErr k c' -> c' = c.
Proof. exact (null_err). Qed.

Theorem C15_null_no_panic : forall s c, c <= len s -> null s c <> PPanic /\ null s c <> PFuel.
Proof. exact (np_expand _ (null_np)). Qed.

Theorem C15_integer_ok_span : forall s c v a b c', c <= len s -> integer s c = POk (v, a, b) c' ->
  a = c /\ b = c' /\ c <= b /\ b <= len s /\
  exists v', integer (sub s a b) 0 = POk (v', 0, b - a) (b - a) /\ v' = v.
Proof. exact (integer_span). Qed.

Theorem C15_integer_err_restores : forall s c k c', integer s c = PErr k c' -> c' = c.
Proof. exact (integer_err). Qed.

Theorem C15_integer_no_panic : forall s c, c <= len s -> integer s c <> PPanic /\ integer s c <> PFuel.
Proof. exact (np_expand _ (integer_np)). Qed.

Theorem C15_real_ok_span : forall s c v a b c', c <= len s -> real s c = POk (v, a, b) c' ->
  a = c /\ b = c' /\ c <= b /\ b <= len s /\
  exists v', real (sub s a b) 0 = POk (v', 0, b - a) (b - a) /\ v' = v.
Proof. exact (real_span). Qed.

Theorem C15_real_err_restores : forall s c k c', real s c = PErr k c' -> c' = c.
Proof. exact (real_err). Qed.

Theorem C15_real_no_panic : forall s c, c <= len s -> real s c <> PPanic /\ real s c <> PFuel.
Proof. exact (np_expand _ (real_np)). Qed.

Theorem C15_hexstring_ok_span : forall s c v a b c', c <= len s -> hexstring s c = POk (v, a, b) c' ->
  a = c /\ b = c' /\ c <= b /\ b <= len s /\
  exists v', hexstring (sub s a b) 0 = POk (v', 0, b - a) (b - a) /\ v' = v.
Proof. exact (hexstring_span). Qed.

Theorem C15_hexstring_err_restores : forall s c k c', hexstring s c = PErr k c' -> c' = c.
Proof. exact (hexstring_err). Qed.

Theorem C15_hexstring_no_panic : forall s c, c <= len s -> hexstring s c <> PPanic /\ hexstring s c <> PFuel.
Proof. exact (np_expand _ (hexstring_np)). Qed.

Theorem C15_name_ok_span : forall s c v a b c', c <= len s -> name s c = POk (v, a, b) c' ->
  a = c /\ b = c' /\ c <= b /\ b <= len s /\
  exists v', name (sub s a b) 0 = POk (v', 0, b - a) (b - a) /\ v' = v.
Proof. exact (name_span). Qed.

Theorem C15_name_err_restores : forall s c k c', name s c = PErr k c' -> c' = c.
Proof. exact (name_err). Qed.

Theorem C15_name_no_panic : forall s c, c <= len s -> name s c <> PPanic /\ name s c <> PFuel.
Proof. exact (np_expand _ (name_np)). Qed.

Theorem C15_operator_ok_span : forall s c v a b c', c <= len s -> operator s c = POk (v, a, b) c' ->
  a = c /\ b = c' /\ c <= b /\ b <= len s /\
  exists v', operator (sub s a b) 0 = POk (v', 0, b - a) (b - a) /\ v' = v.
Proof. exact (operator_span). Qed.

Theorem C15_operator_err_restores : forall s c k c', operator s c = PErr k c' -> c' = c.
Proof. exact (operator_err). Qed.

Theorem C15_operator_no_panic : forall s c, c <= len s -> operator s c <> PPanic /\ operator s c <> PFuel.
Proof. exact (np_expand _ (operator_np)). Qed.

Theorem C15_bin_matcher_ok_span : forall tag, forall s c v a b c', c <= len s -> bin_matcher tag s c = POk (v, a, b) c' ->
  a = c /\ b = c' /\ c <= b /\ b <= len s /\
  exists v', bin_matcher tag (sub s a b) 0 = POk (v', 0, b - a) (b - a) /\ v' = v.
Proof. exact (fun tag => bin_matcher_span tag). Qed.

Theorem C15_bin_matcher_err_restores : forall tag, forall s c k c', bin_matcher tag s c = PErr k c' -> c' = c.
Proof. exact (fun tag => bin_matcher_err tag). Qed.

Theorem C15_bin_matcher_no_panic : forall tag, forall s c, c <= len s -> bin_matcher tag s c <> PPanic /\ bin_matcher tag s c <> PFuel.
Proof. exact (fun tag => np_expand _ (bin_matcher_np tag)). Qed.

Theorem C15_lit_string_ok_span : forall rel s c v a b c', c <= len s -> lit_string rel s c = POk (v, a, b) c' ->
  a = c /\ b = c' /\ c <= b /\ b <= len s /\
  exists v', lit_string rel (sub s a b) 0 = POk (v', 0, b - a) (b - a) /\ v' = v.
Proof. exact (fun rel => lit_string_span rel). Qed.

Theorem C15_lit_string_err_restores : forall rel s c k c', lit_string rel s c = PErr k c' -> c' = c.
Proof. exact (fun rel => lit_string_err rel). Qed.

Theorem C15_lit_string_no_panic : forall rel s c, c <= len s -> (Z.of_nat (len s) < 2147483648)%Z ->
  lit_string rel s c <> PPanic /\ lit_string rel s c <> PFuel.
Proof. exact (fun rel s c H1 H2 => proj1 (fine_iff _) (lit_string_np rel s c H1 H2)). Qed.

Theorem C15_lit_string_no_panic_release : forall s c, c <= len s -> lit_string true s c <> PPanic /\ lit_string true s c <> PFuel.
Proof. exact (fun s c H1 => proj1 (fine_iff _) (lit_string_np_rel s c H1)). Qed.

Theorem C15_stream_content_ok_span : forall n eol s c st sz ct a b c', c <= len s -> stream_content n eol s c = POk ((st, sz, ct), a, b) c' ->
  a = c /\ b = c' /\ c <= b /\ b <= len s /\
  exists v', stream_content n eol (sub s a b) 0 = POk (v', 0, b - a) (b - a) /\ v' = (st - a, sz, ct).
Proof. exact (fun n eol s c st sz ct => stream_content_span n eol s c (st, sz, ct)). Qed.

Theorem C15_stream_content_err_restores : forall n eol s c k c', stream_content n eol s c = PErr k c' -> c' = c.
Proof. exact (fun n eol => stream_content_err n eol). Qed.

Theorem C15_stream_content_no_panic : forall n eol s c, c <= len s -> stream_content n eol s c <> PPanic /\ stream_content n eol s c <> PFuel.
Proof. exact (fun n eol => np_expand _ (stream_content_np n eol)). Qed.

Theorem C15_bin_scanner_ok_span : forall tag s c v a b c', c <= len s -> bin_scanner tag s c = POk (v, a, b) c' ->
  a = c /\ b = c' /\ c <= b /\ b + len tag <= len s /\ v = b - a /\
  bin_scanner tag (sub s a (b + len tag)) 0 = POk (v, 0, b - a) (b - a).
Proof. exact bin_scanner_span. Qed.

Theorem C15_bin_scanner_err_restores : forall tag s c k c', bin_scanner tag s c = PErr k c' -> c' = c.
Proof. exact (fun tag => bin_scanner_err tag). Qed.

Theorem C15_bin_scanner_no_panic : forall tag s c, c <= len s -> bin_scanner tag s c <> PPanic /\ bin_scanner tag s c <> PFuel.
Proof. exact (fun tag => np_expand _ (bin_scanner_np tag)). Qed.

Theorem C15_integer_value_is_i64 : forall s c v a b c', integer s c = POk (v, a, b) c' -> (- i64_max <= v <= i64_max)%Z.
Proof. exact integer_range. Qed.

Theorem C15_uint_shape : forall k e s c,
  match uN k e s c with
  | POk (_, a, b) c' => a = c /\ b = c + width k /\ c' = c + width k /\ c + width k <= len s
  | PErr kd c' => kd = EEndOfBuffer /\ c' = c /\ len s < c + width k
  | PPanic => True
  | PFuel => False
  end.
Proof. exact uN_shape. Qed.

Theorem C15_integer_pinned_refuted : exists s c v a b c', integer_pinned s c = POk (v, a, b) c' /\
  forall v' c'', integer_pinned (sub s a b) 0 <> POk (v', 0, b - a) c''.
Proof. exact integer_pinned_span_refuted. Qed.

Theorem C15_stream_content_pinned_refuted : exists n s c, c <= len s /\ stream_content_pinned n true s c = PPanic.
Proof. exact stream_content_pinned_panic_refuted. Qed.

Theorem C15_ws_noeol_pinned_refuted : exists s c a b c', ws_noeol_pinned false s c = POk (tt, a, b) c' /\ a = b /\
  forall c'', ws_noeol_pinned false (sub s a b) 0 <> POk (tt, 0, b - a) c''.
Proof. exact ws_noeol_pinned_span_refuted. Qed.

(* the hypotheses are satisfiable: a success, a failure after consuming, and a stream *)
Example C15_nonvacuous :
  integer (B "x-12 ") 1 = POk ((-12)%Z, 1, 4) 4 /\ integer (B "x-a") 1 = PErr EGuard 1 /\
  lit_string false (B "(a(b)\)c)") 0 = POk (B "a(b)\)c", 0, 9) 9 /\ hexstring (B "<41") 0 = PErr EGuard 0 /\
  stream_content 3 true (B "stream" ++ [10] ++ B "abc" ++ [10] ++ B "endstream")%N 0 =
    POk ((7, 3, B "abc"), 0, 20) 20.
Proof. vm_compute. repeat split. Qed.

Print Assumptions C15_ws_noeol_ok_span.
Print Assumptions C15_ws_noeol_err_restores.
Print Assumptions C15_ws_noeol_no_panic.
Print Assumptions C15_comment_ok_span.
Print Assumptions C15_comment_err_restores.
Print Assumptions C15_comment_no_panic.
Print Assumptions C15_ws_eol_ok_span.
Print Assumptions C15_ws_eol_err_restores.
Print Assumptions C15_ws_eol_no_panic.
Print Assumptions C15_boolean_ok_span.
Print Assumptions C15_boolean_err_restores.
Print Assumptions C15_boolean_no_panic.
Print Assumptions C15_null_ok_span.
Print Assumptions C15_null_err_restores.
Print Assumptions C15_null_no_panic.
Print Assumptions C15_integer_ok_span.
Print Assumptions C15_integer_err_restores.
Print Assumptions C15_integer_no_panic.
Print Assumptions C15_real_ok_span.
Print Assumptions C15_real_err_restores.
Print Assumptions C15_real_no_panic.
Print Assumptions C15_hexstring_ok_span.
Print Assumptions C15_hexstring_err_restores.
Print Assumptions C15_hexstring_no_panic.
Print Assumptions C15_name_ok_span.
Print Assumptions C15_name_err_restores.
Print Assumptions C15_name_no_panic.
Print Assumptions C15_operator_ok_span.
Print Assumptions C15_operator_err_restores.
Print Assumptions C15_operator_no_panic.
Print Assumptions C15_bin_matcher_ok_span.
Print Assumptions C15_bin_matcher_err_restores.
Print Assumptions C15_bin_matcher_no_panic.
Print Assumptions C15_lit_string_ok_span.
Print Assumptions C15_lit_string_err_restores.
Print Assumptions C15_lit_string_no_panic.
Print Assumptions C15_lit_string_no_panic_release.
Print Assumptions C15_stream_content_ok_span.
Print Assumptions C15_stream_content_err_restores.
Print Assumptions C15_stream_content_no_panic.
Print Assumptions C15_bin_scanner_ok_span.
Print Assumptions C15_bin_scanner_err_restores.
Print Assumptions C15_bin_scanner_no_panic.
Print Assumptions C15_integer_value_is_i64.
Print Assumptions C15_uint_shape.
Print Assumptions C15_integer_pinned_refuted.
Print Assumptions C15_stream_content_pinned_refuted.
Print Assumptions C15_ws_noeol_pinned_refuted.
