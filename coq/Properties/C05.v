(* Properties/C05.v — stream data is framed exactly by its declared length.
   Only statements, each closed by [exact] of a lemma from Proofs/, with Print Assumptions.

   Model (coq/Model/Obj.v):  indirect_internal = indirect_head (`num gen obj` + the object, through
   parse_obj) then indirect_tail (stream detection by check_prefix "stream", /Length lookup
   [stream_length], StreamContentP [stream_content] of Model/Prim.v, `endobj`, duplicate-id check).
   [declared ctx d] = Some l  iff the /Length of dictionary d resolves — directly or through the
   objects [ctx] already defined — to the non-negative integer l. *)
From PV Require Import Model.Obj Proofs.PrimTok Proofs.ObjStream Proofs.ObjIndTotal.

(* FRAMING — for EVERY payload (it may contain `endstream`, `endobj`, anything): after
   `stream` + LF or CRLF, exactly the declared number of bytes are the data, an optional CR / LF /
   CRLF and `endstream` follow; StreamContentT.start is the offset of the payload, .size its length *)
Theorem C05_framing : forall ctx d os s0 eol1 payload eol2 rest,
  declared ctx d = Some (Z.of_nat (len payload)) ->
  eol1_ok eol1 -> eol2_ok eol2 ->
  let s := s0 ++ kw_stream ++ eol1 ++ payload ++ eol2 ++ kw_endstream ++ rest in
  let e := len s0 + 6 + len eol1 + len payload + len eol2 + 9 in
  stream_tail ctx d os s (len s0) =
  POk (OStream d payload, os, e, Some (len s0 + 6 + len eol1, len payload)) e.
Proof. exact stream_tail_framing. Qed.

(* … and the whole indirect object  `num gen obj << … >> stream EOL payload [EOL] endstream ws endobj`
   is accepted with exactly that stream (hypotheses on the parts before the keyword and behind
   `endstream` are the verdicts of the parsers that read them) *)
Theorem C05_framing_indirect : forall rel b ctx s c num gen d os oe c7 u1 s0 eol1 payload eol2 rest u2 c9 c10 n g,
  indirect_head rel b s c = POk (num, gen, (ODict d, os, oe)) c7 ->
  ws_eol true s c7 = POk u1 (len s0) ->
  s = s0 ++ kw_stream ++ eol1 ++ payload ++ eol2 ++ kw_endstream ++ rest ->
  declared ctx d = Some (Z.of_nat (len payload)) ->
  eol1_ok eol1 -> eol2_ok eol2 ->
  let e := len s0 + 6 + len eol1 + len payload + len eol2 + 9 in
  ws_eol true s e = POk u2 c9 -> exact kw_endobj s c9 = Some c10 ->
  usize_N num = Some n -> usize_N gen = Some g -> octx_get ctx (n, g) = None ->
  indirect_internal rel b ctx s c =
  POk (mkInd n g (OStream d payload) os e (Some (len s0 + 6 + len eol1, len payload)), c, c10) c10.
Proof. exact indirect_framing. Qed.

(* SOUNDNESS — whatever is accepted as a stream was framed by the declared length, never by
   looking for `endstream`: size = declared length, content = the size bytes at start, start is
   right behind `stream` [CR] LF, and [CR] [LF] `endstream` is right behind the content *)
Theorem C05_sound : forall ctx d os s c v os' oe' strm c',
  c <= len s ->
  stream_tail ctx d os s c = POk (v, os', oe', strm) c' ->
  exists l st sz,
    declared ctx d = Some l /\ Z.of_nat sz = l /\
    strm = Some (st, sz) /\ v = OStream d (sub s st (st + sz)) /\ st + sz <= len s /\
    os' = os /\ oe' = c' /\
    exact kw_stream s c = Some (c + 6) /\ st = S (opt_byte s (c + 6) 13) /\ peek_is s (st - 1) 10 = true /\
    exact kw_endstream s (opt_byte s (opt_byte s (st + sz) 13) 10) = Some c'.
Proof. exact stream_tail_sound. Qed.

Theorem C05_sound_indirect : forall ctx start num gen o s c i a b c' st sz,
  c <= len s -> (forall u c1, ws_eol true s c = POk u c1 -> c1 <= len s) ->
  indirect_tail ctx start num gen o s c = POk (i, a, b) c' ->
  i_stream i = Some (st, sz) ->
  exists d c1 u e,
    lv_val o = ODict d /\ ws_eol true s c = POk u c1 /\
    declared ctx d = Some (Z.of_nat sz) /\
    i_obj i = OStream d (sub s st (st + sz)) /\ st + sz <= len s /\
    exact kw_stream s c1 = Some (c1 + 6) /\ st = S (opt_byte s (c1 + 6) 13) /\ peek_is s (st - 1) 10 = true /\
    exact kw_endstream s (opt_byte s (opt_byte s (st + sz) 13) 10) = Some e /\ i_oend i = e /\
    (exists u' c9, ws_eol true s e = POk u' c9 /\ exact kw_endobj s c9 = Some c').
Proof. exact indirect_sound. Qed.

(* LENGTH ERRORS — missing, negative, not an integer, reference to a non-integer: GuardError;
   reference to an object not yet seen: InsufficientContext (never guessed) *)
Theorem C05_len_errors : forall ctx d os s c,
  (dict_get d key_Length = None -> stream_tail ctx d os s c = PErr EGuard c) /\
  (forall i, dict_get d key_Length = Some (OInt i) -> (i < 0)%Z -> stream_tail ctx d os s c = PErr EGuard c) /\
  (forall v, dict_get d key_Length = Some v -> not_int_or_ref v -> stream_tail ctx d os s c = PErr EGuard c) /\
  (forall n g o, dict_get d key_Length = Some (ORef n g) -> octx_get ctx (n, g) = Some o -> not_usize_int o ->
                 stream_tail ctx d os s c = PErr EGuard c) /\
  (forall n g, dict_get d key_Length = Some (ORef n g) -> octx_get ctx (n, g) = None ->
               stream_tail ctx d os s c = PErr EInsufficientContext c).
Proof. exact stream_tail_len_errors. Qed.

(* an error of the stream part is the error of the whole indirect object *)
Theorem C05_errors_propagate : forall rel b ctx s c num gen d os oe c7 u c1 k c',
  indirect_head rel b s c = POk (num, gen, (ODict d, os, oe)) c7 ->
  ws_eol true s c7 = POk u c1 -> check_prefix kw_stream s c1 = true ->
  stream_tail ctx d os s c1 = PErr k c' ->
  indirect_internal rel b ctx s c = PErr k c'.
Proof.
  intros rel b ctx s c num gen d os oe c7 u c1 k c' Hh Hw Hp He.
  rewrite (indirect_internal_split _ _ _ _ _ _ _ _ _ Hh). apply indirect_tail_err.
  rewrite (maybe_stream_dict _ _ _ _ _ _ _ _ Hw Hp). exact He.
Qed.

(* declared length larger than what is left: EndOfBuffer, cursor back at the keyword *)
Theorem C05_declared_too_long : forall ctx d os s c l,
  c <= len s -> declared ctx d = Some l ->
  exact kw_stream s c = Some (c + 6) -> peek_is s (opt_byte s (c + 6) 13) 10 = true ->
  (Z.of_nat (len s - S (opt_byte s (c + 6) 13)) < l)%Z ->
  stream_tail ctx d os s c = PErr EEndOfBuffer c.
Proof. exact stream_tail_short. Qed.

(* CR alone, a space, or the end of the buffer after `stream` (anything but [CR] LF): rejected *)
Theorem C05_cr_only_rejected : forall ctx d os s c l,
  c <= len s -> declared ctx d = Some l ->
  exact kw_stream s c = Some (c + 6) -> peek_is s (opt_byte s (c + 6) 13) 10 = false ->
  stream_tail ctx d os s c = PErr EGuard c.
Proof. exact stream_tail_bad_eol. Qed.

(* no `endstream` behind the declared number of bytes (+ optional EOL): rejected *)
Theorem C05_endstream_required : forall ctx d os s c l,
  c <= len s -> declared ctx d = Some l ->
  exact kw_stream s c = Some (c + 6) -> peek_is s (opt_byte s (c + 6) 13) 10 = true ->
  let st := S (opt_byte s (c + 6) 13) in
  (l <= Z.of_nat (len s - st))%Z ->
  exact kw_endstream s (opt_byte s (opt_byte s (st + Z.to_nat l) 13) 10) = None ->
  stream_tail ctx d os s c = PErr EGuard c.
Proof. exact stream_tail_no_endstream. Qed.

(* TOTALITY — parse_pdf_indirect_obj (IndirectP::parse incl. the leading whitespace) reaches no panic
   site (assert / unwrap / index / `panic!("can never happen")`) and never exhausts the model's fuel, for
   ALL inputs, cursors, depth budgets and contexts; a successful parse stays inside the buffer.  Debug
   builds need the input below 2 GiB (RawLiteralString's i32 nesting counter); release builds nothing. *)
Theorem C05_total : forall rel b ctx s c,
  (Z.of_nat (len s) < 2147483648)%Z -> c <= len s ->
  indirect_p rel b ctx s c <> PPanic /\ indirect_p rel b ctx s c <> PFuel /\
  (forall v c', indirect_p rel b ctx s c = POk v c' -> c <= c' /\ c' <= len s).
Proof. exact indirect_p_total. Qed.

Theorem C05_total_release : forall b ctx s c,
  c <= len s -> indirect_p true b ctx s c <> PPanic /\ indirect_p true b ctx s c <> PFuel.
Proof. exact indirect_p_total_release. Qed.

(* … and so is IndirectP::parse_internal on its own *)
Theorem C05_total_internal : forall rel b ctx s c,
  (Z.of_nat (len s) < 2147483648)%Z -> c <= len s ->
  indirect_internal rel b ctx s c <> PPanic /\ indirect_internal rel b ctx s c <> PFuel.
Proof. exact indirect_internal_total. Qed.

(* the hypotheses are satisfiable: a payload that contains the framing keywords *)
Example C05_example :
  indirect_p false 10 [((7, 0)%N, OInt 18)] (B "1 0 obj<</Length 7 0 R>>stream" ++ [13; 10]%N ++ B "endstream endobj x" ++ B "endstream endobj") 0
  = POk (mkInd 1 0 (OStream [(key_Length, ORef 7 0)] (B "endstream endobj x")) 7 59 (Some (32, 18)), 0, 66) 66.
Proof. vm_compute. reflexivity. Qed.

Print Assumptions C05_framing.
Print Assumptions C05_framing_indirect.
Print Assumptions C05_sound.
Print Assumptions C05_sound_indirect.
Print Assumptions C05_len_errors.
Print Assumptions C05_errors_propagate.
Print Assumptions C05_declared_too_long.
Print Assumptions C05_cr_only_rejected.
Print Assumptions C05_endstream_required.
Print Assumptions C05_total.
Print Assumptions C05_total_release.
Print Assumptions C05_total_internal.
