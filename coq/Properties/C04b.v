(* Properties/C04b.v — C04 down to the BYTES (classic layout): for every history of incremental updates written
   with cross-reference tables, the loader model run on the file bytes binds every identifier to what the NEWEST
   revision that mentions its object number says.  Only statements, each closed by [exact] of a lemma from Proofs/,
   with Print Assumptions.

   Spec/RenderHistory.v  [revision] = objects (re)defined + object numbers freed + root; [history] = base revision
                         followed by updates.  [resolve_h h id]: the most recent revision that mentions the number of
                         [id] decides — a definition with the generation of [id] gives its value; a definition with
                         another generation, a free entry (of ANY generation), or no mention at all: undefined.
                         [render_history_classic h L]: header; per revision its objects, ONE xref table (in-use entries
                         for the objects defined, free entries for the numbers freed, any partition), trailer (any
                         spelling; /Prev = offset of the previous table, none in the base revision), arbitrary bytes;
                         finally startxref <offset of the last table> %%EOF.  Offsets of objects and the final
                         startxref are computed by the renderer.
   wf_history h          h is not empty; within a revision the object numbers defined are distinct.
   wf_layouts h L        (Proofs/LoaderBytesHist.v, LoaderBytesRev.v wf_rev) per revision: the object layouts legal
                         (C03b wf_obj: any white space / comments, ANY spelling, streams with direct /Length), the
                         table legal (C13 wf_sect) mentioning each number once, in-use entries = the objects defined,
                         free entries = the numbers freed, offsets below 10^10, ANY spelling of a trailer dictionary
                         with /Root = the revision's root, /Prev = the computed offset of the previous table, no
                         /XRefStm; the end of the file as in C03b.
   Model: Model/LoaderBytes.v (load_bytes = Model/Loader.v on the abstraction COMPUTED FROM THE BYTES by the parser
   models); composition through C04_except_known (Proofs/LoaderMain.v load_history).  Xref streams / object streams
   in updates are not covered here (see Properties/C03b.v). *)
From PV Require Import Model.Obj Model.XrefTab Model.Loader Model.LoaderBytes Spec.Spelling Spec.XrefEnc Spec.RenderClassic Spec.RenderHistory.
From PV Require Import Proofs.XrefBase Proofs.Loader Proofs.LoaderObjs Proofs.LoaderBytesBase Proofs.LoaderBytesObj Proofs.LoaderBytesSect Proofs.LoaderBytesMain
     Proofs.LoaderBytesRev Proofs.LoaderBytesHist Proofs.LoaderBytesHistEx.
Close Scope N_scope.

(* THE END-TO-END THEOREM: any number of updates, any legal layouts, both build profiles *)
Theorem C04_bytes_classic : forall rel h L,
  wf_history h -> wf_layouts h L ->
  exists c, load_bytes rel (render_history_classic h L) = Loaded c (latest_root h) /\
            forall id, ctx_get c id = option_map VObj (resolve_h h id).
Proof. exact load_bytes_history_classic. Qed.

(* [resolve_h] is "the newest revision wins": appending a revision that mentions the number overrides everything
   before it (definition ⇒ its value under its generation only; free entry ⇒ undefined) … *)
Theorem C04b_newest_wins : forall h r id m,
  rev_mention r (fst id) = Some m ->
  resolve_h (h ++ [r]) id = match m with Some (g, v) => if N.eqb g (snd id) then Some v else None | None => None end.
Proof. exact resolve_h_newest. Qed.

(* … and one that does not mention it changes nothing *)
Theorem C04b_unmentioned_keeps : forall h r id, rev_mention r (fst id) = None -> resolve_h (h ++ [r]) id = resolve_h h id.
Proof. exact resolve_h_older. Qed.

(* THE SAME, AS A RELATION BETWEEN TWO FILES: the file of the history [h ++ [r]] (any layouts) defines what the file of
   [h] alone (written with any OTHER layouts) defines, overridden by the update [r]: a number [r] (re)defines is bound
   to the new value under the new generation only, a number [r] frees is undefined under every generation, every
   identifier [r] does not mention keeps the binding the old file gives it; the root is the update's. *)
Theorem C04_bytes_update : forall rel h r L L',
  wf_history h -> wf_layouts h L' -> wf_history (h ++ [r]) -> wf_layouts (h ++ [r]) L ->
  exists c c',
    load_bytes rel (render_history_classic h L') = Loaded c' (latest_root h) /\
    load_bytes rel (render_history_classic (h ++ [r]) L) = Loaded c (r_root r) /\
    forall id, ctx_get c id =
      match rev_mention r (fst id) with
      | Some (Some (g, v)) => if N.eqb g (snd id) then Some (VObj v) else None
      | Some None => None
      | None => ctx_get c' id
      end.
Proof. exact load_bytes_update_classic. Qed.

Theorem C04b_update_nonvacuous :
  exists c c',
    load_bytes false (render_history_classic [xr0] ex_base_layout) = Loaded c' (1, 0)%N /\
    load_bytes false (render_history_classic ([xr0] ++ [xr1]) ex_hlayout) = Loaded c (1, 0)%N /\
    ctx_get c' (2, 0)%N = Some (VObj (OInt 5)) /\ ctx_get c (2, 0)%N = Some (VObj (OInt 7)) /\
    ctx_get c' (4, 0)%N = Some (VObj (OBool true)) /\ ctx_get c (4, 0)%N = None /\
    ctx_get c (1, 0)%N = ctx_get c' (1, 0)%N /\ ctx_get c' (3, 0)%N = None /\ ctx_get c (3, 0)%N = Some (VObj (OStr (B "abc"))).
Proof. exact ex_update_related. Qed.

(* a file whose BASE revision carries a /Prev that points back at one of the tables of the chain (a cycle), or
   outside the file, is rejected — all other hypotheses as above, the base trailer's /Prev being [t] *)
Theorem C04_bytes_prev_cycle : forall rel h L t,
  wf_history h -> wf_layouts_p (Some t) h L ->
  In t (List.map (fun q => N.of_nat (q_s q)) (place (len (hhead L)) (Some t) h (hl_revs L))) ->
  load_bytes rel (render_history_classic h L) = Rejected.
Proof. exact load_bytes_prev_cycle. Qed.

Theorem C04_bytes_prev_oob : forall rel h L t,
  wf_history h -> wf_layouts_p (Some t) h L ->
  (N.of_nat (len (render_history_view h L)) <= t)%N ->
  load_bytes rel (render_history_classic h L) = Rejected.
Proof. exact load_bytes_prev_oob. Qed.

(* what the abstraction computed from the bytes is: magic found, startxref = the LAST table *)
Theorem C04b_abstract_history : forall rel h L prev0,
  wf_layouts_p prev0 h L ->
  abstract_file rel (render_history_classic h L) =
  mkpdf true (N.of_nat (len (render_history_view h L))) (Some (N.of_nat (last_sect_off (len (hhead L)) h (hl_revs L) 0)))
        (file_of rel (render_history_view h L)).
Proof. exact abstract_history. Qed.

(* wherever a revision is written, the abstraction finds its table with its entries, root and /Prev … *)
Theorem C04b_table_found : forall rel V b prev r rl rest,
  at_cur V b (render_rev b r rl ++ rest) -> wf_rev b prev r rl ->
  exists nx, Loader.find (file_of rel V) (N.of_nat (sect_off b r rl)) =
             Some (IXSect (E_rev b r rl) (Some (mktrailer (Some (ORef (fst (r_root r)) (snd (r_root r)))) prev None)), nx).
Proof. exact rev_table_found. Qed.

(* … and an in-use entry of that table leads to the object with the entry's identifier *)
Theorem C04b_entry_leads_to_object : forall rel V b prev r rl rest,
  at_cur V b (render_rev b r rl ++ rest) -> wf_rev b prev r rl -> NoDup (List.map fst (r_objs r)) ->
  forall e ofs, In e (E_rev b r rl) -> x_st e = Loader.XInUse ofs ->
  exists v nx, In (x_id e, v) (r_objs r) /\ (ofs <? N.of_nat (len V))%N = true /\
               Loader.find (file_of rel V) ofs = Some (IObj (x_id e) v, nx) /\ LoaderObjs.simple (IObj (x_id e) v).
Proof. exact Erev_inuse. Qed.

(* the hypotheses are satisfiable: a base revision (1 0, 2 0, 4 0) and an update that redefines 2 0, adds 3 0 and
   frees 4 (entry of generation 1); and a one-revision file whose /Prev is the offset of its own table *)
Theorem C04b_nonvacuous : wf_history ex_hist /\ wf_layouts ex_hist ex_hlayout.
Proof. exact (conj ex_wf_history ex_wf_layouts). Qed.

Theorem C04b_example :
  exists c, load_bytes false (render_history_classic ex_hist ex_hlayout) = Loaded c (1, 0)%N /\
            ctx_get c (1, 0)%N = Some (VObj (OName (B "Catalog"))) /\ ctx_get c (2, 0)%N = Some (VObj (OInt 7)) /\
            ctx_get c (3, 0)%N = Some (VObj (OStr (B "abc"))) /\ ctx_get c (4, 0)%N = None /\ ctx_get c (4, 1)%N = None.
Proof. exact ex_hist_loaded. Qed.

Theorem C04b_cycle_example : load_bytes false (render_history_classic [xr0] ex_cycle_layout) = Rejected.
Proof. exact ex_cycle_rejected. Qed.

Print Assumptions C04_bytes_classic.
Print Assumptions C04_bytes_update.
Print Assumptions C04b_update_nonvacuous.
Print Assumptions C04b_newest_wins.
Print Assumptions C04b_unmentioned_keeps.
Print Assumptions C04_bytes_prev_cycle.
Print Assumptions C04_bytes_prev_oob.
Print Assumptions C04b_abstract_history.
Print Assumptions C04b_table_found.
Print Assumptions C04b_entry_leads_to_object.
Print Assumptions C04b_nonvacuous.
Print Assumptions C04b_example.
Print Assumptions C04b_cycle_example.
