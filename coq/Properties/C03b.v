(* Properties/C03b.v — C03 down to the BYTES (classic layout): the byte-level parser models, composed into the
   loader's "offset ↦ what the parsers find there" abstraction, load every classic-layout file to exactly its
   document.  Only statements, each closed by [exact] of a lemma from Proofs/, with Print Assumptions.

   Model/LoaderBytes.v  abstract_file rel s : pdf   — the abstraction Model/Loader.v works on, COMPUTED from the
                        bytes by Prim.scan / bscan (backward_scan) / header_p / startxref_p / xsectp + trailer_at /
                        indirect_p (models of HeaderP, StartXrefP, XrefSectP, TrailerP, IndirectP);
                        load_bytes rel s := load (abstract_file rel s)
   Spec/RenderClassic.v render_classic objs l : bytes — the classic layout as a renderer: header, objects
                        `n g obj … endobj` (streams with a direct /Length), ONE xref table (any subsection
                        partition), trailer, startxref, %%EOF; every lexical freedom is a field of [layout]; offsets
                        are computed by the renderer.
   wf_doc d             the identifiers are distinct.
   wf_layout d l        (Proofs/LoaderBytesMain.v) per object: digits cover the numbers, white space/comments
                        between tokens ([ws]), ANY spelling of the value with nesting <= 50 ([spells], C02), `endobj`
                        separated from a value that ends in a regular character, line ends of a stream legal (C05),
                        /Length = the payload length; arbitrary bytes between objects; the table is a legal section
                        (C13 [wf_sect]: any partition, header spellings, terminators, free entries) mentioning each
                        number once, its in-use entries being exactly the document's identifiers, the file below
                        10^10 bytes (ten-digit offsets); ANY spelling of a trailer dictionary with that /Root and no /Prev,
                        /XRefStm; plain white space around the startxref number; no '%' behind %%EOF; leading garbage
                        without `%PDF-`.
   Spec/RenderXrefStm.v render_xrefstm objs X : bytes — the same objects with ONE unfiltered cross-reference STREAM
                        (any /W widths <= 4, any /Index partition, any spelling of its dictionary); wf_xlayout d X
                        (Proofs/LoaderBytesXstm.v): C13's side conditions (wide, wf_parts, xref_dict_ok), offsets fit
                        the second field, in-use rows = the document's identifiers, no compressed-object rows.
   Incremental updates (classic tables): Properties/C04b.v.
   Spec/RenderObjStm.v  render_objstm objs stms X — the same with unfiltered OBJECT STREAMS [stms] (C14's description of a
                        container) written among the objects; wf_olayout (Proofs/LoaderBytesOstm.v).
   Not covered (Model/LoaderBytes.v header): FILTERED xref / object streams (the abstraction reports them as plain
   objects: the decoders need the zlib oracle), hybrid files with object streams in a theorem, referenced /Length —
   for those the abstraction is still produced by props/loaderlib.py and validated per case. *)
From PV Require Import Model.Obj Model.XrefTab Model.Loader Model.LoaderBytes Spec.Spelling Spec.XrefEnc Spec.RenderClassic.
From PV Require Import Proofs.XrefBase Proofs.ObjStream Proofs.ObjSpell Proofs.Loader Proofs.LoaderObjs Proofs.LoaderMain Proofs.LoaderDoc
     Proofs.LoaderBytesBase Proofs.LoaderBytesObj Proofs.LoaderBytesSect Proofs.LoaderBytesMain Proofs.LoaderBytesEx
     Proofs.XrefStm Proofs.LoaderBytesXstm Proofs.LoaderBytesXstmEx Proofs.LoaderBytesOstm Proofs.LoaderBytesOstmEx
     Proofs.LoaderBytesRev Proofs.LoaderBytesComp Proofs.LoaderBytesCompEx Proofs.LoaderBytesHybrid Proofs.LoaderBytesHybridEx.
From PV Require Import Spec.RenderXrefStm Spec.ObjStmEnc Spec.RenderObjStm Spec.RenderHybrid.
Close Scope N_scope.

(* THE END-TO-END THEOREM: for every document, every legal classic layout and both build profiles, the loader
   model run on the BYTES answers Loaded with the trailer's root and a context that binds exactly the document's
   identifiers to the values written *)
Theorem C03_bytes_classic : forall rel d l,
  wf_doc d -> wf_layout d l ->
  exists c, load_bytes rel (render_classic (d_objs d) l) = Loaded c (d_root d) /\
            forall id, ctx_get c id = ctx_get (ctx_of (d_objs d)) id.
Proof. exact load_bytes_classic. Qed.

(* the link to C03: the abstraction computed from the bytes IS a layout of the document in the sense of
   Properties/C03.v (C03_load then applies), with the entries the table parser delivers *)
Theorem C03b_abstraction_is_layout : forall rel d l,
  wf_doc d -> wf_layout d l ->
  layout_of (d_objs d) (d_root d) (abstract_file rel (render_classic (d_objs d) l)) (E_of (off_table (d_objs d) l) l).
Proof. exact rendered_layout_of. Qed.

(* ... and what that abstraction is: magic found, view = the file without the garbage, startxref = the table *)
Theorem C03b_abstract_rendered : forall rel d l,
  wf_layout d l ->
  abstract_file rel (render_classic (d_objs d) l) =
  mkpdf true (N.of_nat (len (render_view (d_objs d) l))) (Some (N.of_nat (len (body (d_objs d) l))))
        (file_of rel (render_view (d_objs d) l)).
Proof. exact abstract_rendered. Qed.

(* THE SAME FOR THE CROSS-REFERENCE STREAM LAYOUT (no filter): any legal widths and /Index partition, any spelling of
   the stream dictionary *)
Theorem C03_bytes_xrefstm : forall rel d X,
  wf_doc d -> wf_xlayout d X ->
  exists c, load_bytes rel (render_xrefstm (d_objs d) X) = Loaded c (d_root d) /\
            forall id, ctx_get c id = ctx_get (ctx_of (d_objs d)) id.
Proof. exact load_bytes_xrefstm. Qed.

Theorem C03b_xrefstm_is_layout : forall rel d X,
  wf_doc d -> wf_xlayout d X ->
  layout_of (d_objs d) (d_root d) (abstract_file rel (render_xrefstm (d_objs d) X))
            (List.map (fun e => conv_ent (fillx (xot (d_objs d) X) e)) (parts_ents (xl_parts X))).
Proof. exact xrefstm_layout_of. Qed.

(* at the position of a written cross-reference stream object, in any buffer: IndirectP + XrefStreamP yield the rows
   written (C13_stream_rt), /Root and /Prev as the dictionary says *)
Theorem C03b_item_at_xstm : forall rel s c xid d p w0 w1 w2 size lo rest,
  at_cur s c (render_obj (xid, OStream d (render_parts w0 w1 w2 p)) lo ++ rest) ->
  wf_obj_k (fun _ => True) (xid, OStream d (render_parts w0 w1 w2 p)) lo ->
  wide w0 w1 w2 -> wf_parts w0 w1 w2 p -> xref_dict_ok d size (Some (parts_index p)) w0 w1 w2 ->
  exists nx, item_at rel s c =
             (IXStm xid (List.map conv_ent (parts_ents p)) (dict_get d key_Root) (dict_usize d key_Prev), nx).
Proof. exact item_at_xstm. Qed.

Theorem C03b_xrefstm_nonvacuous : wf_doc ex_doc /\ wf_xlayout ex_doc ex_xlayout.
Proof. exact (conj ex_wf_doc ex_wf_xlayout). Qed.

(* WITH OBJECT STREAMS (no filter): in-file objects [objs], containers [stms] (each as C14_extract describes it: any
   header spelling, padding, gaps between members; members = what the object parser reads at the declared offsets), a
   cross-reference stream whose in-use rows are the in-file objects and the containers and whose type-2 rows name the
   container of every member.  The loader model run on the bytes defines the in-file objects and the members (under
   generation 0) with their values, and besides them only the containers themselves (bookkeeping objects) *)
Theorem C03_bytes_objstm : forall rel objs stms root X,
  wf_olayout rel objs stms root X ->
  exists c, load_bytes rel (render_objstm objs stms X) = Loaded c root /\
            (forall id v, In (id, v) (objs ++ compressed stms) -> ctx_get c id = Some (VObj v)) /\
            (forall id w, ctx_get c id = Some w ->
               (exists v, w = VObj v /\ In (id, v) (objs ++ compressed stms)) \/
               (exists o, In o stms /\ id = os_id o /\ w = VObjStm (os_members o))).
Proof. exact load_bytes_objstm. Qed.

(* a written container is an object-stream item with exactly its members (C14_extract in an empty context) *)
Theorem C03b_item_ostm : forall rel o, wf_ostm rel o ->
  obj_item rel (os_id o) (OStream (os_dict o) (os_content o)) =
  IObjStm (os_id o) (N.of_nat (len (os_content o))) None (os_members o).
Proof. exact obj_item_ostm. Qed.

Theorem C03b_objstm_nonvacuous : forall rel, wf_olayout rel ex_oobjs [ex_ostm] (1, 0)%N ex_olayout.
Proof. exact ex_wf_olayout. Qed.

Theorem C03b_objstm_example_computed :
  load_bytes false (render_objstm ex_oobjs [ex_ostm] ex_olayout) =
  Loaded [((1, 0)%N, VObj (OName (B "Catalog"))); ((4, 0)%N, VObjStm [(5%N, OInt 11); (6%N, OInt 33)]);
          ((5, 0)%N, VObj (OInt 11)); ((6, 0)%N, VObj (OInt 33))] (1, 0)%N.
Proof. exact ex_ostm_computed. Qed.

(* HYBRID FILES (Spec/RenderHybrid.v; no filter): a classic table whose trailer names, through /XRefStm, an unfiltered
   cross-reference stream; every object is listed by the table or by the stream (no number twice); the loader merges
   the table's entries with the stream's (Model/Loader.v parse_xref_section; C03's SA_hybrid) and loads exactly the
   document.  In-file objects only (no object streams). *)
Theorem C03_bytes_hybrid : forall rel d H,
  wf_doc d -> wf_hylayout d H ->
  exists c, load_bytes rel (render_hybrid (d_objs d) H) = Loaded c (d_root d) /\
            forall id, ctx_get c id = ctx_get (ctx_of (d_objs d)) id.
Proof. exact load_bytes_hybrid. Qed.

Theorem C03b_hybrid_is_layout : forall rel d H,
  wf_doc d -> wf_hylayout d H ->
  layout_of (d_objs d) (d_root d) (abstract_file rel (render_hybrid (d_objs d) H))
            (List.map (fun e => conv_ent (fillx (hyot (d_objs d) H) e)) (hyT H)).
Proof. exact hybrid_layout_of. Qed.

Theorem C03b_hybrid_nonvacuous : wf_doc ex_doc /\ wf_hylayout ex_doc ex_hylayout.
Proof. exact (conj ex_wf_doc ex_wf_hylayout). Qed.

Theorem C03b_hybrid_example_computed :
  load_bytes false (render_hybrid (d_objs ex_doc) ex_hylayout) =
  Loaded [((1, 0)%N, VObj (OName (B "Catalog"))); ((2, 0)%N, VObj (OStream [(B "Length", OInt 3)] (B "abc")))] (1, 0)%N.
Proof. exact ex_hybrid_computed. Qed.

(* REPRESENTATION INDEPENDENCE: one document written with a classic table, with a cross-reference stream and as a hybrid
   file — each in ANY legal layout, each build profile chosen freely — loads to the same root and the same bindings *)
Theorem C03_bytes_representation_independent : forall rel1 rel2 rel3 d l X H,
  wf_doc d -> wf_layout d l -> wf_xlayout d X -> wf_hylayout d H ->
  exists c1 c2 c3,
    load_bytes rel1 (render_classic (d_objs d) l) = Loaded c1 (d_root d) /\
    load_bytes rel2 (render_xrefstm (d_objs d) X) = Loaded c2 (d_root d) /\
    load_bytes rel3 (render_hybrid (d_objs d) H) = Loaded c3 (d_root d) /\
    forall id, ctx_get c1 id = ctx_get c2 id /\ ctx_get c2 id = ctx_get c3 id.
Proof. exact load_bytes_representation_independent. Qed.

Theorem C03b_representations_nonvacuous :
  wf_doc ex_doc /\ wf_layout ex_doc ex_layout /\ wf_xlayout ex_doc ex_xlayout /\ wf_hylayout ex_doc ex_hylayout.
Proof. exact ex_representations. Qed.

(* COMPRESSION IS TRANSPARENT: a file that keeps part of its objects in (unfiltered) object streams and a classic file
   that writes all those objects directly load to contexts that agree on every identifier except the containers' own *)
Theorem C03_bytes_compression_transparent : forall rel1 rel2 objs stms root X l,
  wf_olayout rel1 objs stms root X ->
  wf_doc (mk_cdoc (objs ++ compressed stms) root) -> wf_layout (mk_cdoc (objs ++ compressed stms) root) l ->
  exists c1 c2,
    load_bytes rel1 (render_objstm objs stms X) = Loaded c1 root /\
    load_bytes rel2 (render_classic (objs ++ compressed stms) l) = Loaded c2 root /\
    forall id, (forall o, In o stms -> id <> os_id o) -> ctx_get c1 id = ctx_get c2 id.
Proof. exact load_bytes_compression_transparent. Qed.

Theorem C03b_compression_nonvacuous : forall rel,
  wf_olayout rel ex_oobjs [ex_ostm] (1, 0)%N ex_olayout /\ wf_doc ex_cdoc /\ wf_layout ex_cdoc ex_clayout.
Proof. exact ex_compression_hyps. Qed.

(* ---------- the per-offset facts (each for arbitrary surrounding bytes) ---------- *)
(* the header scan skips garbage that does not contain the magic; HeaderP cannot fail behind it *)
Theorem C03b_magic_found : forall g r,
  find_tag kw_pdf (g ++ kw_pdf) = Some (len g) -> scan kw_pdf (g ++ kw_pdf ++ r) 0 = POk (len g) (len g).
Proof. exact magic_found. Qed.

Theorem C03b_header_found : forall s r, s = kw_pdf ++ r -> exists c', header_p s 0 = POk tt c'.
Proof. exact header_found. Qed.

(* the two backward scans and StartXrefP find the number written, whatever precedes `startxref` *)
Theorem C03b_startxref_found : forall A seol w x eeol tail,
  plain_ws seol -> seol <> [] -> 1 <= w -> (x < 10 ^ N.of_nat w)%N -> (x < i64_lim)%N ->
  plain_ws eeol -> Forall (fun b => b <> 37%N) tail ->
  find_startxref (A ++ kw_startxref ++ seol ++ digits w x ++ eeol ++ kw_eof ++ tail) = Some x.
Proof. exact startxref_found. Qed.

(* at the position of a written object, in any buffer: XrefSectP fails, IndirectP yields the object *)
Theorem C03b_item_at_object : forall rel s c x lo rest,
  at_cur s c (render_obj x lo ++ rest) -> wf_obj x lo ->
  exists nx, item_at rel s c = (IObj (fst x) (snd x), nx).
Proof. exact item_at_object. Qed.

(* at the position of a written table + trailer, behind any bytes: the entries written and the trailer's root *)
Theorem C03b_item_at_table : forall rel root junk pre eol t tw tsp r,
  wf_sect pre eol t (kw_trailer ++ tw ++ tsp ++ r) -> wf_trailer root tw tsp ->
  exists nx, item_at rel (junk ++ render_sect pre eol t ++ kw_trailer ++ tw ++ tsp ++ r) (len junk) =
             (IXSect (List.map conv_ent (flat_map (fun x => number ent_of (ts_start x) (ts_ents x)) t))
                     (Some (mktrailer (Some (ORef (fst root) (snd root))) None None)), nx).
Proof. exact item_at_table. Qed.

(* a looked-up offset of the view answers what the parser models find there *)
Theorem C03b_find_is_item_at : forall rel v o,
  o <= len v -> Loader.find (file_of rel v) (N.of_nat o) = Some (item_at rel v o).
Proof. exact find_file_of. Qed.

(* totality on ALL byte strings: the loader model composed with the abstraction never runs out of fuel and
   answers Rejected or Loaded (C03_load_total; the parsers below are total by C05_total, C13_table_total, C15) *)
Theorem C03b_load_bytes_total : forall rel s,
  load_bytes rel s <> OutFuel /\ (load_bytes rel s = Rejected \/ exists c r, load_bytes rel s = Loaded c r).
Proof. exact load_bytes_total. Qed.

(* the hypotheses are satisfiable: a two-object document (a name; a stream) with comments, leading zeros, two
   subsections and a CR LF entry terminator; its bytes; what the theorem says; and the same by computation *)
Theorem C03b_nonvacuous : wf_doc ex_doc /\ wf_layout ex_doc ex_layout.
Proof. exact (conj ex_wf_doc ex_wf_layout). Qed.

Theorem C03b_example_computed :
  load_bytes false (render_classic (d_objs ex_doc) ex_layout) =
  Loaded [((1, 0)%N, VObj (OName (B "Catalog"))); ((2, 0)%N, VObj (OStream [(B "Length", OInt 3)] (B "abc")))] (1, 0)%N.
Proof. exact ex_computed. Qed.

Print Assumptions C03_bytes_classic.
Print Assumptions C03b_abstraction_is_layout.
Print Assumptions C03_bytes_xrefstm.
Print Assumptions C03b_xrefstm_is_layout.
Print Assumptions C03b_item_at_xstm.
Print Assumptions C03b_xrefstm_nonvacuous.
Print Assumptions C03_bytes_objstm.
Print Assumptions C03b_item_ostm.
Print Assumptions C03b_objstm_nonvacuous.
Print Assumptions C03b_objstm_example_computed.
Print Assumptions C03_bytes_hybrid.
Print Assumptions C03_bytes_representation_independent.
Print Assumptions C03b_representations_nonvacuous.
Print Assumptions C03_bytes_compression_transparent.
Print Assumptions C03b_compression_nonvacuous.
Print Assumptions C03b_hybrid_is_layout.
Print Assumptions C03b_hybrid_nonvacuous.
Print Assumptions C03b_hybrid_example_computed.
Print Assumptions C03b_abstract_rendered.
Print Assumptions C03b_magic_found.
Print Assumptions C03b_header_found.
Print Assumptions C03b_startxref_found.
Print Assumptions C03b_item_at_object.
Print Assumptions C03b_item_at_table.
Print Assumptions C03b_find_is_item_at.
Print Assumptions C03b_load_bytes_total.
Print Assumptions C03b_nonvacuous.
Print Assumptions C03b_example_computed.
