(* Properties/C08.v — the type checker accepts exactly the conforming objects.
   Model: Model/TypeCheck.v (pdf_type_check.rs after the repairs listed in known_findings.d/C08.json);
   declarative reading: Spec/Conforms.v ([conforms] = greatest fixed point of [approx1]);
   witnesses: Proofs/TypeCheckWitness.v.

   The full statement is [C08_statement]: for every well-formed specification (wf_spec: every name
   defined, no empty disjunction), check = Accept <-> conforms.  One class of the pinned code is
   left open as a known finding (a unit test of the library pins it): dictionary / stream entries
   whose check has type Any are skipped, predicate and indirection requirement included. *)
From PV Require Import Spec.Conforms Proofs.TypeCheckWitness Proofs.TypeCheckSim Proofs.TypeCheckRec Proofs.TypeCheckSound Proofs.TypeCheckNorm.

Theorem C08_refuted : ~ C08_statement.
Proof. exact C08_statement_false. Qed.

Theorem C08_refuted_any_entry : accepts_nonconforming [] [] (ODict [([75%N], OInt 5)]) w5_c.
Proof. exact refuted_any_entry. Qed.
Theorem C08_refuted_any_entry_stream : accepts_nonconforming [] [] (OStream [([75%N], OInt 5)] []) w5s_c.
Proof. exact refuted_any_entry_stream. Qed.
Theorem C08_refuted_any_entry_star : accepts_nonconforming [] [] (ODict [([75%N], OInt 5)]) w5x_c.
Proof. exact refuted_any_entry_star. Qed.

(* the witnesses of the repaired classes: checker and declarative reading now agree *)
Theorem C08_fixed_memo_leak : agrees [] [] w1_o w1_c false.
Proof. exact fixed_memo_leak. Qed.
Theorem C08_fixed_disjunct_attrs : agrees [] [] (OInt 5) w2_c false /\ agrees [((1%N, 0%N), OInt 5)] [] (ORef 1 0) w2_c true.
Proof. exact fixed_disjunct_attrs. Qed.
Theorem C08_fixed_memo_pred : agrees [] [] (OArr [nameA; nameA]) w3_c false /\ agrees [] [] (OArr [nameA; nameB]) w3_c true.
Proof. exact fixed_memo_pred. Qed.
Theorem C08_fixed_compound_pred : agrees [] [] (ODict []) w4_c false /\ agrees [] [] (OArr [nameA]) w4b_c false.
Proof. exact fixed_compound_pred. Qed.
Theorem C08_fixed_any_elem : agrees [] [] (OArr [OInt 5]) w5b_c false.
Proof. exact fixed_any_elem. Qed.
Theorem C08_fixed_self_reference :
  agrees [((5%N, 0%N), ORef 5 0)] [] (ORef 5 0) tInt false /\ agrees [((5%N, 0%N), ORef 5 0)] [] (ORef 5 0) tNull true.
Proof. exact fixed_self_reference. Qed.
Theorem C08_fixed_examined_alternative : agrees [] [] nameA w7_c true /\ agrees [] [] nameA w7r_c true.
Proof. exact fixed_examined_alternative. Qed.
Theorem C08_fixed_named_disjunct : agrees [] w8_tc (OArr [nameA]) w8_c true /\ agrees [] w8_tc (OArr [OInt 5]) w8_c false.
Proof. exact fixed_named_disjunct. Qed.
Theorem C08_fixed_stale_index : agrees [] [] (OArr [OBool true; OStr [115%N]]) w9_c false.
Proof. exact fixed_stale_index. Qed.
Theorem C08_fixed_undefined_required : agrees [] [] (ORef 9 0) (CRep (TPrim PNull) None IReq) true.
Proof. exact fixed_undefined_required. Qed.


(* ================= the theorems =================
   [check] = Model/TypeCheck.v (check_type: resolve the root, normalise it, run the work loop);
   [conforms] = the declarative reading (greatest fixed point), [conforms_skip] = the same reading with
   dictionary / stream / '*' entries of type Any not checked (the known finding);
   [wf_univ tc c] (computable): every name mentioned anywhere in the normalised specification is
   defined (an empty disjunction is allowed: nothing conforms to it);
   [no_any_entry_attrs tc c] (computable): no entry check resolving to type Any carries a predicate
   or a non-Allowed indirect specification. *)

(* layer (i): the work-list machine computes what the recursive memoising checker computes *)
Theorem C08_layer_i_machine_refines_recursive_checker : forall opq oc tc o c r,
  resolve tc c = Some r ->
  let c' := norm_chk (rep_chk r) in
  verdict_of (eval_root opq oc tc (step_bound oc tc o c') o c') (fst (check opq oc tc o c)).
Proof. exact check_eval. Qed.

(* layer (ii): the answers of the recursive checker are genuine *)
Theorem C08_layer_ii_ok : forall opq oc tc n o c ex' fl',
  eval_root opq oc tc n o c = EOk ex' fl' -> conforms_skip opq oc tc o c.
Proof. exact eval_root_ok. Qed.
Theorem C08_layer_ii_fail : forall opq oc tc n o c ex' fl',
  eval_root opq oc tc n o c = EFail ex' fl' -> ~ conforms_skip opq oc tc o c.
Proof. exact eval_root_fail. Qed.

(* every specification, every object graph: an accepted object conforms, a rejected one does not *)
Theorem C08_accept_sound : forall opq oc tc o c r,
  resolve tc c = Some r -> fst (check opq oc tc o c) = Accept ->
  conforms_skip opq oc tc o (norm_chk (rep_chk r)).
Proof. exact check_accept_conforms. Qed.
Theorem C08_reject_sound : forall opq oc tc o c r e,
  resolve tc c = Some r -> fst (check opq oc tc o c) = Reject e ->
  ~ conforms_skip opq oc tc o (norm_chk (rep_chk r)).
Proof. exact check_reject_nonconforms. Qed.

(* the checker reports no error exactly when the object conforms in the reading the library
   implements: every well-formed specification, every object graph *)
Theorem C08_except_known : forall opq oc tc o c r,
  resolve tc c = Some r -> wf_univ tc (norm_chk (rep_chk r)) = true ->
  (fst (check opq oc tc o c) = Accept <-> conforms_skip opq oc tc o (norm_chk (rep_chk r))).
Proof. exact check_accept_iff_conforms_skip. Qed.

(* the full statement outside the known finding *)
Theorem C08_full_outside_known_finding : forall opq oc tc o c r,
  resolve tc c = Some r -> wf_univ tc (norm_chk (rep_chk r)) = true ->
  no_any_entry_attrs tc (norm_chk (rep_chk r)) = true ->
  (fst (check opq oc tc o c) = Accept <-> conforms opq oc tc o (norm_chk (rep_chk r))).
Proof. exact check_accept_iff_conforms. Qed.

(* acceptance never depends on the skipped entries: a conforming object is accepted *)
Theorem C08_conforming_accepted : forall opq oc tc o c r,
  resolve tc c = Some r -> wf_univ tc (norm_chk (rep_chk r)) = true ->
  conforms opq oc tc o (norm_chk (rep_chk r)) -> fst (check opq oc tc o c) = Accept.
Proof. exact conforms_check_accept. Qed.

(* on a well-formed specification the verdict is Accept or Reject *)
Theorem C08_verdict_wf : forall opq oc tc o c r,
  resolve tc c = Some r -> wf_univ tc (norm_chk (rep_chk r)) = true ->
  fst (check opq oc tc o c) = Accept \/ exists e, fst (check opq oc tc o c) = Reject e.
Proof. exact check_verdict_wf. Qed.


(* normalize_check (flattening of attribute-free nested disjunctions) does not change what conforms *)
Theorem C08_normalize_preserves_conformance : forall opq oc tc sk o c,
  conforms_gen opq oc tc sk o (norm_chk c) <-> conforms_gen opq oc tc sk o c.
Proof. exact conforms_norm. Qed.

(* hence the theorems speak about the specification as written *)
Theorem C08_except_known_as_written : forall opq oc tc o c r,
  resolve tc c = Some r -> wf_univ tc (norm_chk (rep_chk r)) = true ->
  (fst (check opq oc tc o c) = Accept <-> conforms_skip opq oc tc o c).
Proof. exact check_accept_iff_conforms_skip_written. Qed.
Theorem C08_full_outside_known_finding_as_written : forall opq oc tc o c r,
  resolve tc c = Some r -> wf_univ tc (norm_chk (rep_chk r)) = true ->
  no_any_entry_attrs tc (norm_chk (rep_chk r)) = true ->
  (fst (check opq oc tc o c) = Accept <-> conforms opq oc tc o c).
Proof. exact check_accept_iff_conforms_written. Qed.

(* the hypotheses are satisfiable *)
Example C08_hypotheses_satisfiable :
  wf_univ w8_tc (norm_chk w8_c) = true /\ no_any_entry_attrs w8_tc (norm_chk w8_c) = true /\
  wf_univ [] (norm_chk w5_c) = true /\ no_any_entry_attrs [] (norm_chk w5_c) = false.
Proof. vm_compute. repeat split. Qed.

Print Assumptions C08_refuted.
Print Assumptions C08_refuted_any_entry.
Print Assumptions C08_refuted_any_entry_stream.
Print Assumptions C08_refuted_any_entry_star.
Print Assumptions C08_fixed_memo_leak.
Print Assumptions C08_fixed_disjunct_attrs.
Print Assumptions C08_fixed_memo_pred.
Print Assumptions C08_fixed_compound_pred.
Print Assumptions C08_fixed_any_elem.
Print Assumptions C08_fixed_self_reference.
Print Assumptions C08_fixed_examined_alternative.
Print Assumptions C08_fixed_named_disjunct.
Print Assumptions C08_fixed_stale_index.
Print Assumptions C08_fixed_undefined_required.
Print Assumptions C08_layer_i_machine_refines_recursive_checker.
Print Assumptions C08_layer_ii_ok.
Print Assumptions C08_layer_ii_fail.
Print Assumptions C08_accept_sound.
Print Assumptions C08_reject_sound.
Print Assumptions C08_except_known.
Print Assumptions C08_full_outside_known_finding.
Print Assumptions C08_conforming_accepted.
Print Assumptions C08_verdict_wf.
Print Assumptions C08_normalize_preserves_conformance.
Print Assumptions C08_except_known_as_written.
Print Assumptions C08_full_outside_known_finding_as_written.
