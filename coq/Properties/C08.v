(* Properties/C08.v — the type checker accepts exactly the conforming objects.
   Model: Model/TypeCheck.v; declarative reading: Spec/Conforms.v ([conforms] = greatest fixed
   point of [approx1]); witnesses: Proofs/TypeCheckWitness.v.

   The full statement is [C08_statement]: for every well-formed specification
   (wf_spec: every name defined, no empty disjunction), check = Accept <-> conforms.
   The faithful model of the pinned code refutes it; each class below is a theorem. *)
From PV Require Import Spec.Conforms Proofs.TypeCheckWitness.

Theorem C08_refuted : ~ C08_statement.
Proof. exact C08_statement_false. Qed.

(* 1. memo leak across alternatives *)
Theorem C08_refuted_memo_leak : accepts_nonconforming [] [] w1_o w1_c.
Proof. exact refuted_memo_leak. Qed.
(* 2. a disjunct's own indirection requirement / predicate is not applied *)
Theorem C08_refuted_disjunct_attrs : accepts_nonconforming [] [] (OInt 5) w2_c.
Proof. exact refuted_disjunct_attrs. Qed.
(* 3. the memo ignores predicates and indirection requirements *)
Theorem C08_refuted_memo_ignores_pred : accepts_nonconforming [] [] (OArr [nameA; nameA]) w3_c.
Proof. exact refuted_memo_ignores_pred. Qed.
(* 4. predicates on Dict / Stream / HetArray / non-Any Array types never run *)
Theorem C08_refuted_compound_pred : accepts_nonconforming [] [] (ODict []) w4_c.
Proof. exact refuted_compound_pred. Qed.
Theorem C08_refuted_compound_pred_array : accepts_nonconforming [] [] (OArr [nameA]) w4b_c.
Proof. exact refuted_compound_pred_array. Qed.
(* 5. Any-typed dictionary entries and array elements are skipped, attributes included *)
Theorem C08_refuted_any_entry : accepts_nonconforming [] [] (ODict [([75%N], OInt 5)]) w5_c.
Proof. exact refuted_any_entry. Qed.
Theorem C08_refuted_any_elem : accepts_nonconforming [] [] (OArr [OInt 5]) w5b_c.
Proof. exact refuted_any_elem. Qed.
(* 6. a self-referential object is accepted at any type *)
Theorem C08_refuted_self_reference : accepts_nonconforming [((5%N, 0%N), ORef 5 0)] [] (ORef 5 0) tInt.
Proof. exact refuted_self_reference. Qed.
(* 7. an examined alternative counts as failed when an error is pending: order dependence *)
Theorem C08_refuted_examined_alternative : rejects_conforming [] [] nameA w7_c.
Proof. exact refuted_examined_alternative. Qed.
Theorem C08_alternative_order_matters : ck [] [] nameA w7r_c = Accept /\ ck [] [] nameA w7_c = Reject EValue.
Proof. exact examined_alternative_order. Qed.
(* 8. a named check that resolves to a disjunction is unsupported *)
Theorem C08_refuted_named_disjunct : rejects_conforming [] w8_tc (OArr [nameA]) w8_c.
Proof. exact refuted_named_disjunct. Qed.
(* 9. stale alternative index shared by the disjuncts of one pending set *)
Theorem C08_refuted_stale_index : accepts_nonconforming [] [] (OArr [OBool true; OStr [115%N]]) w9_c.
Proof. exact refuted_stale_index. Qed.
(* 10. an undefined reference under a required indirection is not read as null *)
Theorem C08_refuted_undefined_required : rejects_conforming [] [] (ORef 9 0) (CRep (TPrim PNull) None IReq).
Proof. exact refuted_undefined_required. Qed.

Print Assumptions C08_refuted.
Print Assumptions C08_refuted_memo_leak.
Print Assumptions C08_refuted_disjunct_attrs.
Print Assumptions C08_refuted_memo_ignores_pred.
Print Assumptions C08_refuted_compound_pred.
Print Assumptions C08_refuted_compound_pred_array.
Print Assumptions C08_refuted_any_entry.
Print Assumptions C08_refuted_any_elem.
Print Assumptions C08_refuted_self_reference.
Print Assumptions C08_refuted_examined_alternative.
Print Assumptions C08_alternative_order_matters.
Print Assumptions C08_refuted_named_disjunct.
Print Assumptions C08_refuted_stale_index.
Print Assumptions C08_refuted_undefined_required.
