(* Properties/C08.v — the type checker accepts exactly the conforming objects.
   Model: Model/TypeCheck.v (pdf_type_check.rs after the repairs listed in known_findings.d/C08.json);
   declarative reading: Spec/Conforms.v ([conforms] = greatest fixed point of [approx1]);
   witnesses: Proofs/TypeCheckWitness.v.

   The full statement is [C08_statement]: for every well-formed specification (wf_spec: every name
   defined, no empty disjunction), check = Accept <-> conforms.  One class of the pinned code is
   left open as a known finding (a unit test of the library pins it): dictionary / stream entries
   whose check has type Any are skipped, predicate and indirection requirement included. *)
From PV Require Import Spec.Conforms Proofs.TypeCheckWitness.

Theorem C08_refuted : ~ C08_statement.
Proof. exact C08_statement_false. Qed.

Theorem C08_refuted_any_entry : accepts_nonconforming [] [] (ODict [([75%N], OInt 5)]) w5_c.
Proof. exact refuted_any_entry. Qed.
Theorem C08_refuted_any_entry_stream : accepts_nonconforming [] [] (OStream [([75%N], OInt 5)] []) w5s_c.
Proof. exact refuted_any_entry_stream. Qed.
Theorem C08_refuted_any_entry_star : accepts_nonconforming [] [] (ODict [([75%N], OInt 5)]) w5x_c.
Proof. exact refuted_any_entry_star. Qed.

(* the witnesses of the repaired classes: checker and declarative reading now agree *)
Theorem C08_fixed_memo_leak : agrees [] [] w1_o w1_c false.
Proof. exact fixed_memo_leak. Qed.
Theorem C08_fixed_disjunct_attrs : agrees [] [] (OInt 5) w2_c false /\ agrees [((1%N, 0%N), OInt 5)] [] (ORef 1 0) w2_c true.
Proof. exact fixed_disjunct_attrs. Qed.
Theorem C08_fixed_memo_pred : agrees [] [] (OArr [nameA; nameA]) w3_c false /\ agrees [] [] (OArr [nameA; nameB]) w3_c true.
Proof. exact fixed_memo_pred. Qed.
Theorem C08_fixed_compound_pred : agrees [] [] (ODict []) w4_c false /\ agrees [] [] (OArr [nameA]) w4b_c false.
Proof. exact fixed_compound_pred. Qed.
Theorem C08_fixed_any_elem : agrees [] [] (OArr [OInt 5]) w5b_c false.
Proof. exact fixed_any_elem. Qed.
Theorem C08_fixed_self_reference :
  agrees [((5%N, 0%N), ORef 5 0)] [] (ORef 5 0) tInt false /\ agrees [((5%N, 0%N), ORef 5 0)] [] (ORef 5 0) tNull true.
Proof. exact fixed_self_reference. Qed.
Theorem C08_fixed_examined_alternative : agrees [] [] nameA w7_c true /\ agrees [] [] nameA w7r_c true.
Proof. exact fixed_examined_alternative. Qed.
Theorem C08_fixed_named_disjunct : agrees [] w8_tc (OArr [nameA]) w8_c true /\ agrees [] w8_tc (OArr [OInt 5]) w8_c false.
Proof. exact fixed_named_disjunct. Qed.
Theorem C08_fixed_stale_index : agrees [] [] (OArr [OBool true; OStr [115%N]]) w9_c false.
Proof. exact fixed_stale_index. Qed.
Theorem C08_fixed_undefined_required : agrees [] [] (ORef 9 0) (CRep (TPrim PNull) None IReq) true.
Proof. exact fixed_undefined_required. Qed.

Print Assumptions C08_refuted.
Print Assumptions C08_refuted_any_entry.
Print Assumptions C08_refuted_any_entry_stream.
Print Assumptions C08_refuted_any_entry_star.
Print Assumptions C08_fixed_memo_leak.
Print Assumptions C08_fixed_disjunct_attrs.
Print Assumptions C08_fixed_memo_pred.
Print Assumptions C08_fixed_compound_pred.
Print Assumptions C08_fixed_any_elem.
Print Assumptions C08_fixed_self_reference.
Print Assumptions C08_fixed_examined_alternative.
Print Assumptions C08_fixed_named_disjunct.
Print Assumptions C08_fixed_stale_index.
Print Assumptions C08_fixed_undefined_required.
