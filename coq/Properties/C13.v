(* Properties/C13.v — cross-reference tables and streams decode to the entries written.
   Only statements, each closed by [exact] of a lemma from Proofs/, with Print Assumptions.
   Models: Model/XrefTab.v (pdf_file.rs XrefEntP / XrefSubSectP / XrefSectP as repaired in
   c0b3e1e), Model/XrefStm.v (pdf_streams.rs XrefStreamP); renderers: Spec/XrefEnc.v. *)
From PV Require Import Model.Prim Model.XrefTab Model.XrefStm Spec.XrefEnc.
From PV Require Import Proofs.XrefBase Proofs.XrefTab Proofs.XrefStm Proofs.Bin Proofs.XrefTotal.

(* ---------------- classic table ---------------- *)
(* a written section (any subsection partition, any of the three terminators per entry, any
   header white space, leading zeros), placed after arbitrary bytes and followed by anything
   that does not look like a subsection header, parses to exactly its subsections, the entries
   numbered consecutively from each subsection's start; the cursor stops at the end of the table *)
Theorem C13_table_rt : forall junk pre eol t tail,
  wf_sect pre eol t tail ->
  let s := junk ++ render_sect pre eol t ++ tail in
  let e := len junk + len (render_sect pre eol t) in
  xsectp s (len junk) = POk (List.map sub_of t, len junk, e) e.
Proof. exact xsectp_ok. Qed.

(* XrefSectT::ents() of that result *)
Theorem C13_table_ents : forall t,
  sect_ents (List.map sub_of t) = flat_map (fun x => number ent_of (ts_start x) (ts_ents x)) t.
Proof. exact xsectp_ents. Qed.

(* every accepted entry is the fixed 20-byte form … *)
Theorem C13_entry_strict : forall obj s c x c1,
  c <= len s -> xentp obj s c = POk x c1 ->
  exists e r, wf_ent e /\ at_cur s c (render_ent e ++ r) /\ x = ent_of obj e /\ c1 = c + 20.
Proof. exact xentp_strict. Qed.

(* … and exactly the fixed 20-byte forms are accepted *)
Theorem C13_entry_complete : forall obj s c,
  c <= len s ->
  (exists x, xentp obj s c = POk x (c + 20)) <->
  (exists e, wf_ent e /\ sub s c (c + 20) = render_ent e /\ c + 20 <= len s).
Proof. exact xentp_complete. Qed.

(* the rejection list: fewer than 20 bytes, a non-digit (or 9 digits) in the offset, an 11th
   digit / bad separator, a non-digit in the generation, generation above 65535, bad second
   separator, type not n/f, a terminator other than SP CR, SP LF, CR LF *)
Theorem C13_entry_rejects : forall obj s c,
  c <= len s ->
  let b := sub s c (c + 20) in
  ( len s < c + 20
    \/ (exists i, i < 10 /\ is_digit (nth i b 0%N) = false)
    \/ nth 10 b 0%N <> 32%N
    \/ (exists i, 11 <= i < 16 /\ is_digit (nth i b 0%N) = false)
    \/ (xref_gen_max < parse_N (sub b 11 16))%N
    \/ nth 16 b 0%N <> 32%N
    \/ (nth 17 b 0%N <> xref_flag_inuse /\ nth 17 b 0%N <> xref_flag_free)
    \/ ~ In (sub b 18 20) xref_eols ) ->
  forall v c', xentp obj s c <> POk v c'.
Proof. exact xentp_rejects. Qed.

(* in ANY subsection — after any number of well-formed ones — once the header is accepted, an
   entry that is not the fixed form makes the whole section fail (on the pinned code this held for
   the first subsection only: finding C13-later-subsection-truncates, repaired in c0b3e1e) *)
Theorem C13_table_rejects : forall junk pre eol t x good missing rest,
  all_in [32; 0; 9; 13; 10; 12]%N pre -> eol <> [] -> all_in [32; 0; 9; 13; 10; 12]%N eol ->
  let after := render_hdr x ++ render_ents good ++ rest in
  no_ws_start (render_table t ++ after) -> wf_subs t after ->
  wf_sub x -> ts_ents x = good ++ missing -> missing <> [] ->
  no_ws_start (render_ents good ++ rest) ->
  (forall e r, wf_ent e -> rest <> render_ent e ++ r) ->
  forall v c', xsectp (junk ++ pre ++ xref_kw ++ eol ++ render_table t ++ after) (len junk) <> POk v c'.
Proof. exact xsectp_rejects. Qed.

(* ---------------- cross-reference stream ---------------- *)
(* shared arithmetic (C19): a big-endian field denotes the value written *)
Theorem C13_be_roundtrip : forall w x, (x < 256 ^ N.of_nat w)%N -> val Big (be_bytes w x) = x.
Proof. exact valBE_be_bytes. Qed.

(* all width triples <= 4 with w1 >= 1 (w0 = 0: default type 1; w2 = 0: third field 0), explicit
   /Index partition, any bytes before the cursor and after the rows *)
Theorem C13_stream_rt : forall d size w0 w1 w2 p junk trailing dec,
  wide w0 w1 w2 -> wf_parts w0 w1 w2 p ->
  xref_dict_ok d size (Some (parts_index p)) w0 w1 w2 ->
  let content := junk ++ render_parts w0 w1 w2 p ++ trailing in
  let e := len junk + (w0 + w1 + w2) * parts_rows p in
  xrefstm_parse false d content dec (len junk) = XSOk (parts_ents p) (len junk) e e.
Proof. exact xrefstm_rt. Qed.

(* the implicit subsection [0 Size] *)
Theorem C13_stream_rt_implicit : forall d w0 w1 w2 rows junk trailing dec,
  wide w0 w1 w2 -> Forall (fits w0 w1 w2) rows -> (N.of_nat (len rows) < i64_lim)%N ->
  xref_dict_ok d (N.of_nat (len rows)) None w0 w1 w2 ->
  let content := junk ++ render_rows w0 w1 w2 rows ++ trailing in
  let e := len junk + (w0 + w1 + w2) * len rows in
  xrefstm_parse false d content dec (len junk) = XSOk (number row_ent 0 rows) (len junk) e e.
Proof. exact xrefstm_rt_implicit. Qed.

(* malformed dictionaries: missing /W, missing or invalid /Size, odd-length /Index, a width above
   4, second width 0, /W not of length 3 *)
Theorem C13_stream_rejects : forall enc d content dec c,
  ( get_array d (B "W") = None
    \/ get_usize d (B "Size") = None
    \/ (exists i, get_array d (B "Index") = Some i /\ Nat.modulo (len i) 2 <> 0)
    \/ (exists a b cc, get_array d (B "W") = Some [OInt a; OInt b; OInt cc] /\ (4 < a \/ 4 < b \/ 4 < cc \/ b = 0)%Z)
    \/ (exists w, get_array d (B "W") = Some w /\ len w <> 3) ) ->
  xrefstm_parse enc d content dec c = XSErr EGuard c.
Proof. exact xrefstm_rejects_dict. Qed.

(* an entry type above 2, after any number of good rows *)
Theorem C13_stream_rejects_type : forall d w0 w1 w2 good t rest dec,
  wide w0 w1 w2 -> 1 <= w0 -> Forall (fits w0 w1 w2) good ->
  (t < 256 ^ N.of_nat w0)%N -> (2 < t)%N ->
  forall size, (N.of_nat (len good) < size)%N ->
  xref_dict_ok d size None w0 w1 w2 ->
  let content := render_rows w0 w1 w2 good ++ be_bytes w0 t ++ rest in
  xrefstm_parse false d content dec 0 = XSErr EGuard ((w0 + w1 + w2) * len good + w0).
Proof. exact xrefstm_rejects_type. Qed.

(* truncated rows: a stream is accepted only if all declared rows are present *)
Theorem C13_stream_rejects_truncated : forall d content dec c l a b cur m,
  c <= len content -> get_dict_info d = Ok m -> xi_filters m = [] ->
  xrefstm_parse false d content dec c = XSOk l a b cur ->
  let '(w0, w1, w2) := xi_w m in
  let ix := match xi_index m with Some i => i | None => [(0%N, xi_size m)] end in
  c + (N.to_nat w0 + N.to_nat w1 + N.to_nat w2) * index_rows ix <= len content.
Proof. exact xrefstm_accepts_only_complete. Qed.

(* the dictionary validation never panics; its only error kind is GuardError *)
Theorem C13_dict_no_panic : forall d, (exists m, get_dict_info d = Ok m) \/ get_dict_info d = Err EGuard.
Proof. exact get_dict_info_guard. Qed.

(* ---------------- totality (C01): no panic site reachable, fuel never exhausted ---------------- *)
(* the table parser, on ANY bytes and any cursor inside the buffer (no size restriction) *)
Theorem C13_table_total : forall s c, c <= len s -> xsectp s c <> PPanic /\ xsectp s c <> PFuel.
Proof. exact xsectp_total. Qed.

(* the stream parser (get_dict_info + parse_stream), on ANY dictionary whose integers are i64
   values (PDFObjT::Integer is an i64; only /Size and the /Index members matter), any content,
   any decoder output, encrypted or not *)
Theorem C13_stream_total : forall enc d content dec c,
  xref_ints_i64 d -> c <= len content ->
  xrefstm_parse enc d content dec c <> XSPanic /\ xrefstm_parse enc d content dec c <> XSFuel.
Proof. exact xrefstm_total. Qed.

(* parse_usize_with_width: for the admitted widths (0..4, indeed up to 8) the shifts lose no bit —
   the value is the big-endian number denoted by the bytes; larger widths are rejected by
   C13_stream_rejects *)
Theorem C13_usize_width_exact : forall w s c, w <= 8 -> c + w <= len s -> wfb s ->
  usize_w w 0 s c = POk (val Big (sub s c (c + w))) (c + w).
Proof. exact usize_w_exact. Qed.

(* the hypotheses are satisfiable *)
Example C13_wf_sect_satisfiable :
  wf_sect [] [10%N] [mk_tsub [] 0 1 1 [10%N] [mk_tent 0 65535 false [32; 10]%N]] (B "trailer").
Proof.
  assert (We : wf_ent (mk_tent 0 65535 false [32; 10]%N)).
  { unfold wf_ent; cbn. split; [lia|]. split; [unfold xref_gen_max; lia|]. right; left; reflexivity. }
  unfold wf_sect, wf_subs, wf_sub, all_in. cbn -[wf_ent].
  repeat split; try discriminate; try lia; try (repeat constructor; fail); auto.
Qed.

Example C13_stream_satisfiable :
  let d := [(B "Size", OInt 1); (B "Type", OName (B "XRef")); (B "W", OArr [OInt 0; OInt 2; OInt 0])] in
  wide 0 2 0 /\ Forall (fits 0 2 0) [RInUse 258 0] /\ xref_dict_ok d 1 None 0 2 0 /\
  xrefstm_parse false d [1; 2]%N [] 0 = XSOk [mk_xent 0 0 (XInUse 258)] 0 2 2.
Proof.
  cbv zeta. split; [unfold wide; lia|]. split; [repeat constructor; cbn; lia|].
  split; [|vm_compute; reflexivity].
  unfold xref_dict_ok. repeat split; try reflexivity.
Qed.

Print Assumptions C13_table_rt.
Print Assumptions C13_table_ents.
Print Assumptions C13_entry_strict.
Print Assumptions C13_entry_complete.
Print Assumptions C13_entry_rejects.
Print Assumptions C13_table_rejects.
Print Assumptions C13_be_roundtrip.
Print Assumptions C13_stream_rt.
Print Assumptions C13_stream_rt_implicit.
Print Assumptions C13_stream_rejects.
Print Assumptions C13_stream_rejects_type.
Print Assumptions C13_stream_rejects_truncated.
Print Assumptions C13_dict_no_panic.
Print Assumptions C13_table_total.
Print Assumptions C13_stream_total.
Print Assumptions C13_usize_width_exact.
