(* Properties/C17.v — a buffer view behaves like an independent copy of its window.
   Only statements, each closed by [exact] of a lemma from Proofs/, with Print Assumptions.

   [pb] is the ParseBuffer struct (whole vector, absolute start/end/cursor, shared?) and [step]/[run]
   the literal transcription of parsebuffer.rs / transforms.rs (Model/Buf.v) in either build profile
   [m]; [rb], [r_step], [run_r] are the trivial reference buffer (byte list, cursor, shared?) and
   [abs v] the copy of [v]'s window (Proofs/BufSpec.v).  [Inv v] = start <= cursor <= end <= len and
   len <= isize::MAX; [fits ops v] = the vector plus everything the history appends stays <= isize::MAX.
   A history [ops] may restrict the view again (OView / OViewFrom), drop all other holders of the
   storage (ORelease) and apply every ParseBufferT / StreamBufferT operation, in any order. *)
From PV Require Import Model.Buf Proofs.BufSpec Proofs.BufSteps Proofs.Buf Proofs.BufPinned.
Local Open Scope N_scope.

(* ---- the property, full strength (holds since the repairs 2e27534 ffb8e84 c5df65a 91c2b73 d07c841) ---- *)

(* every history observes on the view exactly what the reference buffer holding the window shows:
   results, error kinds, cursor, size, remaining, peek and buf() after every operation; a panic
   only where the reference (the three asserting operations, out of range) has one *)
Theorem C17_views_refine_copies : forall m ops v,
  Inv v -> fits ops v -> run m ops v = run_r ops (abs v).
Proof. exact views_refine_copies. Qed.

(* one operation: same result, the abstraction commutes, the invariant is preserved *)
Theorem C17_view_step : forall m v o,
  Inv v -> 2 * (lenN (data v) + app1 o) < W ->
  match step m v o, r_step (abs v) o with
  | Ok (x, v'), Ok (y, r') => x = y /\ abs v' = r' /\ Inv v' /\ lenN (data v') <= lenN (data v) + app1 o
  | Panic, Panic => True
  | _, _ => False
  end.
Proof. exact step_sim. Qed.

(* the same history on the view and on ParseBuffer::new(copy of the window): identical observations *)
Theorem C17_view_equals_copy : forall m ops v,
  Inv v -> fits ops v -> run m ops v = run m ops (copy_of v).
Proof. exact view_equals_copy. Qed.

(* histories that begin with ParseBuffer::new and build views of views along the way *)
Theorem C17_history_from_new : forall m ops d,
  2 * (lenN d + appended ops) < W ->
  run m ops (pb_new d) = run_r ops {| rdata := d; rcur := 0; rshared := false |}.
Proof. exact history_from_new. Qed.

(* a restriction of a restriction is the window of the window *)
Theorem C17_view_of_view : forall m v a k,
  Inv v -> a + k <= en v - st v ->
  exists w, step m v (OView a k) = Ok (RUnit, w) /\ Inv w /\
            abs w = {| rdata := sub (window v) (N.to_nat a) (N.to_nat (a + k)); rcur := 0; rshared := true |}.
Proof. exact view_of_view. Qed.

(* no operation exposes bytes outside the window: views that agree on window, cursor and sharing
   cannot be told apart, whatever else their vectors contain *)
Theorem C17_outside_window_invisible : forall m ops v1 v2,
  Inv v1 -> Inv v2 -> fits ops v1 -> fits ops v2 -> abs v1 = abs v2 -> run m ops v1 = run m ops v2.
Proof. exact outside_window_invisible. Qed.

(* out-of-range requests are reported as errors and neither the cursor nor the window changes *)
Theorem C17_out_of_range_is_error : forall m v o,
  Inv v -> out_of_range v o -> exists k v', step m v o = Ok (RErr k, v') /\ abs v' = abs v.
Proof. exact out_of_range_is_error. Qed.

Theorem C17_error_leaves_state : forall m v o k v',
  Inv v -> 2 * (lenN (data v) + app1 o) < W -> step m v o = Ok (RErr k, v') -> abs v' = abs v.
Proof. exact error_leaves_state. Qed.

(* drop and append are refused, and change nothing, while the storage is shared; and a view stays
   shared until the other holders are released *)
Theorem C17_refused_while_shared : forall m v, shared v = true ->
  (forall n, step m v (ODrop n) = Ok (RBool false, v)) /\ (forall t, step m v (OAppend t) = Ok (RBool false, v)).
Proof. exact refused_while_shared. Qed.

Theorem C17_shared_stays : forall m v o x v',
  Inv v -> 2 * (lenN (data v) + app1 o) < W -> shared v = true -> o <> ORelease ->
  step m v o = Ok (x, v') -> shared v' = true.
Proof. exact shared_stays. Qed.

(* no assertion, index, slice or overflow is reachable except in the three operations that assert
   their bounds by contract, and those panic exactly when the bound is violated *)
Theorem C17_no_panic : forall m v o,
  Inv v -> 2 * (lenN (data v) + app1 o) < W -> asserting o = false ->
  exists x v', step m v o = Ok (x, v') /\ Inv v'.
Proof. exact no_panic. Qed.

Theorem C17_asserting_panics_iff : forall m v, Inv v ->
  (forall k, step m v (OSetCursorU k) = Panic <-> en v - st v < k) /\
  (step m v OIncrU = Panic <-> ofs v = en v) /\
  (step m v ODecrU = Panic <-> ofs v = st v).
Proof. exact asserting_panics_iff. Qed.

(* the hypotheses are satisfiable and the statement is not vacuous: a 12-step history over a view of
   a view of "0123456789", with a release, drops and an append, runs without panic in both profiles *)
Example C17_example : forall m,
  run m example_ops (pb_new Proofs.Buf.digits) = run_r example_ops {| rdata := Proofs.Buf.digits; rcur := 0; rshared := false |} /\
  List.length (run m example_ops (pb_new Proofs.Buf.digits)) = 12%nat /\ ~ In OPanic (run m example_ops (pb_new Proofs.Buf.digits)).
Proof. exact example_run. Qed.

(* ---- historical: the PINNED code (operations as transcribed before the repairs, Proofs/BufPinned.v)
   refuted the statement; the witnesses are replayed on the real code from corpus/c17.txt ---- *)
Theorem C17_pinned_drop_refuted : forall m, refuted_p m (wit false) [ODrop 1].
Proof. exact pinned_drop_refuted. Qed.
Theorem C17_pinned_append_refuted : forall m, refuted_p m (wit false) [OAppend [65]].
Proof. exact pinned_append_refuted. Qed.
Theorem C17_pinned_empty_tag_refuted : forall m sh, refuted_p m (wit sh) [OScan []] /\ refuted_p m (wit sh) [OBScan []].
Proof. exact pinned_empty_tag_refuted. Qed.
Theorem C17_pinned_set_cursor_overflow_refuted : forall m sh,
  refuted_p m (wit sh) [OSetCursor (W - 1)] /\ refuted_p m (wit sh) [OCheckCursor (W - 1)] /\
  refuted_p Release (wit sh) [OSetCursorU (W - 1)] /\ refuted_p m (wit false) [ODrop (W - 1)].
Proof. exact pinned_set_cursor_overflow_refuted. Qed.
Theorem C17_pinned_restrict_view_overflow_refuted : forall m sh, refuted_p m (wit sh) [OView (W - 1) 2].
Proof. exact pinned_restrict_view_overflow_refuted. Qed.

Print Assumptions C17_views_refine_copies.
Print Assumptions C17_view_step.
Print Assumptions C17_view_equals_copy.
Print Assumptions C17_history_from_new.
Print Assumptions C17_view_of_view.
Print Assumptions C17_outside_window_invisible.
Print Assumptions C17_out_of_range_is_error.
Print Assumptions C17_error_leaves_state.
Print Assumptions C17_refused_while_shared.
Print Assumptions C17_shared_stays.
Print Assumptions C17_no_panic.
Print Assumptions C17_asserting_panics_iff.
Print Assumptions C17_example.
Print Assumptions C17_pinned_drop_refuted.
Print Assumptions C17_pinned_append_refuted.
Print Assumptions C17_pinned_empty_tag_refuted.
Print Assumptions C17_pinned_set_cursor_overflow_refuted.
Print Assumptions C17_pinned_restrict_view_overflow_refuted.
