(* Properties/C10.v — the shipped catalog and page-tree specification is enforced.
   Everything is about the DUMPED specification gen/Shipped.v (regenerated on every run from what
   catalog_type(&mut tctx) constructs), so each theorem is re-checked against the code as it is now.
   Only statements, each closed by [exact] of a lemma from Proofs/, with Print Assumptions.

   1. finite structural facts about the dump (by computation);
   2. the declarative level, for ALL documents of Spec/PageTreeSpec.v: every well-formed document
      conforms (C10_accepts_decl); every single-rule violation does not (C10_rejects_decl);
      [conforms] is the declarative semantics of Spec/Conforms.v (greatest fixed point of the unfolding);
   3. the checker (Model/TypeCheck.v, transcription of check_type as repaired by C08), through C08's
      transfer theorems (Proofs/TypeCheckSound.v): every well-formed document is ACCEPTED (C10_accepts);
      every single-rule violation that is not located in a dictionary entry whose declared check has type
      Any is REJECTED (C10_rejects_except_known).  The full statement (every violation rejected) is false
      of the code: C10_any_typed_entries_refuted (open known finding, DESIGN 7 row 22).  Repaired in this
      property's files: C10_numtree_pinned_refuted, C10_date_pinned_refuted. *)
From PV Require Import Spec.PageTreeSpec gen.Shipped Model.ShippedEntry Proofs.ShippedFacts Proofs.ShippedMain.

(* ================= 1. finite structural facts about the dumped specification ================= *)

(* the dump is, entry for entry, the specification written by hand in Spec/PageTreeSpec.v *)
Theorem C10_dump_is_spec : shipped_root = spec_catalog /\ shipped_tctx = spec_tctx.
Proof. exact (conj shipped_root_is_spec shipped_tctx_is_spec). Qed.

(* the text form of the dump is read by the Coq readers into the same terms *)
Theorem C10_dump_read : read_chk_tok shipped_root_text = Some shipped_root
                        /\ read_tctx shipped_tctx_text = Some shipped_tctx.
Proof. exact (conj shipped_root_read shipped_tctx_read). Qed.

(* required and forbidden keys: /Type /Pages; /Type /Count /Kids, /Parent forbidden on the root node
   and required on inner nodes and pages, forbidden on templates *)
Theorem C10_catalog_keys :
  keys_with KReq (ents_at shipped_tctx [] shipped_root) = [k_Type; k_Pages]
  /\ keys_with KForb (ents_at shipped_tctx [] shipped_root) = [].
Proof. exact catalog_required. Qed.
Theorem C10_root_node_keys :
  keys_with KReq (ents_at shipped_tctx p_root_node shipped_root) = [k_Type; k_Count; k_Kids]
  /\ keys_with KForb (ents_at shipped_tctx p_root_node shipped_root) = [k_Parent]
  /\ keys_with KOpt (ents_at shipped_tctx p_root_node shipped_root) = [].
Proof. exact root_node_keys. Qed.
Theorem C10_inner_node_keys :
  keys_with KReq (ents_at shipped_tctx p_nonroot shipped_root) = [k_Type; k_Count; k_Kids; k_Parent]
  /\ keys_with KForb (ents_at shipped_tctx p_nonroot shipped_root) = [].
Proof. exact nonroot_node_keys. Qed.
Theorem C10_page_keys :
  keys_with KReq (ents_at shipped_tctx p_page shipped_root) = [k_Type; k_Parent]
  /\ keys_with KForb (ents_at shipped_tctx p_page shipped_root) = []
  /\ keys_with KOpt (ents_at shipped_tctx p_page shipped_root) = List.map fst page_table.
Proof. exact page_keys. Qed.
Theorem C10_template_keys :
  keys_with KReq (ents_at shipped_tctx p_template shipped_root) = [k_Type]
  /\ keys_with KForb (ents_at shipped_tctx p_template shipped_root) = [k_Parent]
  /\ keys_with KOpt (ents_at shipped_tctx p_template shipped_root) = List.map fst template_table.
Proof. exact template_keys. Qed.

(* the /Type names of the five kinds of object *)
Theorem C10_type_names :
  names_of (rep_at shipped_tctx [SKey k_Type] shipped_root) = Some [B "Catalog"]
  /\ names_of (rep_at shipped_tctx (p_root_node ++ [SKey k_Type]) shipped_root) = Some [B "Pages"]
  /\ names_of (rep_at shipped_tctx (p_nonroot ++ [SKey k_Type]) shipped_root) = Some [B "Pages"]
  /\ names_of (rep_at shipped_tctx (p_page ++ [SKey k_Type]) shipped_root) = Some [B "Page"]
  /\ names_of (rep_at shipped_tctx (p_template ++ [SKey k_Type]) shipped_root) = Some [B "Template"].
Proof. exact type_names. Qed.

(* kids are arrays (any length) whose members must be indirect references; below the root: inner node,
   page, template; below an inner node: page, inner node (by name — the recursion), template *)
Theorem C10_kids_indirect :
  is_kid_array (rep_at shipped_tctx (p_root_node ++ [SKey k_Kids]) shipped_root) = true
  /\ is_kid_array (rep_at shipped_tctx (p_nonroot ++ [SKey k_Kids]) shipped_root) = true.
Proof. exact kids_indirect. Qed.
Theorem C10_kid_alternatives :
  rep_at shipped_tctx (p_nonroot_kid ++ [SAlt 0]) shipped_root = rep_at shipped_tctx p_page shipped_root
  /\ rep_at shipped_tctx (p_nonroot_kid ++ [SAlt 1]) shipped_root = rep_at shipped_tctx p_nonroot shipped_root
  /\ rep_at shipped_tctx (p_nonroot_kid ++ [SAlt 2]) shipped_root = rep_at shipped_tctx p_template shipped_root
  /\ walk shipped_tctx (p_nonroot_kid ++ [SAlt 3]) shipped_root = None
  /\ walk shipped_tctx (p_root_kid ++ [SAlt 3]) shipped_root = None.
Proof. exact nonroot_kid_alternatives. Qed.
Theorem C10_recursion_by_name :
  walk shipped_tctx (p_nonroot_kid ++ [SAlt 1]) shipped_root = Some (CNamed n_nonroot)
  /\ tctx_get shipped_tctx n_nonroot = rep_at shipped_tctx p_nonroot shipped_root
  /\ List.map fst shipped_tctx = [n_nonroot].
Proof. exact nonroot_recursion. Qed.

(* /Parent, wherever mentioned: any value, necessarily an indirect reference *)
Theorem C10_parent_checks :
  forallb (fun p => match rep_at shipped_tctx (p ++ [SKey k_Parent]) shipped_root with
                    | Some (TAny, None, IReq) => true | _ => false end)
          [p_root_node; p_nonroot; p_page; p_template] = true.
Proof. exact parent_checks. Qed.

(* the five boxes of pages and templates: arrays of exactly four numbers *)
Theorem C10_rectangles :
  forallb (fun p => forallb (fun k => match walk shipped_tctx (p ++ [SKey k]) shipped_root with
                                      | Some c => chk_eqb c (chk_of_kind VRect) | None => false end) box_keys)
          [p_page; p_template] = true
  /\ chk_of_kind VRect = CRep (TArr (CRep (TDisj [CRep (TPrim PInteger) None IAllowed; CRep (TPrim PReal) None IAllowed])
                                          None IAllowed) (Some 4)) None IAllowed.
Proof. exact (conj rectangles rect_is_four_numbers). Qed.

(* the name lists are the ISO 32000 lists (written by hand in the Spec) *)
Theorem C10_iso_name_lists :
  same_names_at [SKey (B "PageMode")] iso_pagemode = true
  /\ same_names_at [SKey (B "PageLayout")] iso_pagelayout = true
  /\ same_names_at (p_page ++ [SKey (B "Tabs")]) iso_tabs = true
  /\ same_names_at (p_template ++ [SKey (B "Tabs")]) iso_tabs = true.
Proof. exact iso_name_lists. Qed.

(* every optional entry of catalog, page and template has the declared kind *)
Theorem C10_optional_entries :
  table_matches [] catalog_table = true /\ table_matches p_page page_table = true
  /\ table_matches p_template template_table = true.
Proof. exact optional_entries. Qed.

(* the predicates: number tree reading /Nums (#2), name trees (#1), ASCII date strings (#0); none of the
   pinned variants (#3 pairs read from /Names, #4 Unicode digits) anywhere in the dump *)
Theorem C10_predicates :
  pred_at [SKey (B "PageLabels")] = Some (TAny, Some (PrOpaque 2))
  /\ forallb (fun k => match pred_at [SKey (B "Names"); SKey k] with
                       | Some (TAny, Some (PrOpaque 1%N)) => true | _ => false end) namedict_keys = true
  /\ pred_at (p_page ++ [SKey (B "LastModified")]) = Some (TPrim PString, Some (PrOpaque 0))
  /\ pred_at (p_template ++ [SKey (B "LastModified")]) = Some (TPrim PString, Some (PrOpaque 0)).
Proof. exact opaque_predicates. Qed.
Theorem C10_no_pinned_predicates :
  forallb (fun c => match c with CRep _ (Some (PrOpaque i)) _ => N.leb i 2 | _ => true end)
          (spec_chks shipped_tctx shipped_root) = true.
Proof. exact no_pinned_predicates. Qed.

(* shape: no '*' entries, every name used is defined *)
Theorem C10_shape :
  forallb (fun c => match c with CRep (TDict _ (Some _)) _ _ => false | _ => true end)
          (spec_chks shipped_tctx shipped_root) = true
  /\ forallb (fun c => match c with
                       | CNamed n => match tctx_get shipped_tctx n with Some _ => true | None => false end
                       | _ => true end) (spec_chks shipped_tctx shipped_root) = true.
Proof. exact (conj no_star_entries names_defined). Qed.


(* ================= 2. the declarative level, for all documents ================= *)

(* every well-formed catalog (page tree of any depth and fan-out; root node, inner nodes, pages and
   templates as indirect objects with pairwise distinct numbers; /Parent on every non-root; any declared
   optional entries with conforming values, direct or behind a reference; any unmentioned keys) conforms
   to the dumped specification *)
Theorem C10_accepts_decl : forall d,
  wf_doc d -> conforms shipped_opq (emit_ctx d) shipped_tctx (emit_root d) shipped_root.
Proof. exact shipped_accepts. Qed.

(* every document obtained from a well-formed one by a single violation — a required key dropped
   (/Type /Pages /Count /Kids /Parent), the forbidden /Parent added (root node, template), /Type not the
   expected name, /Count not an integer, /Kids not an array, a kid given directly instead of by
   reference, /Parent not a reference, a declared optional entry of catalog / page / template with a
   direct value that is not of its kind (wrong type, unlisted name, rectangle not of four numbers, bad
   date, malformed name or number tree ...), a required-indirect entry given directly — does NOT conform *)
Theorem C10_rejects_decl : forall d m,
  wf_doc d -> mutation true d m -> ~ conforms shipped_opq (fst m) shipped_tctx (snd m) shipped_root.
Proof. exact shipped_rejects. Qed.

(* the hypotheses are satisfiable: a catalog with a two-level tree (page, inner node, template), optional
   entries of seven kinds, an unmentioned key; and a mutation of it *)
Example C10_example : wf_doc ex_doc
  /\ mutation false ex_doc (ctx_edit (2, 0)%N ex_edit (emit_ctx ex_doc), emit_root ex_doc).
Proof. exact (conj ex_wf ex_mutation). Qed.

(* ================= 3. the checker ================= *)

(* the checker model (check_type) accepts every well-formed document *)
Theorem C10_accepts : forall d, wf_doc d -> shipped_check (emit_ctx d) (emit_root d) = Accept.
Proof. exact shipped_check_accepts. Qed.

(* ... and rejects every single-rule violation except those located in an entry of type Any:
   [mutation false] is [mutation true] without "/Parent given directly on an inner node or page",
   "bad number tree under /PageLabels" and "bad name dictionary under /Names" (C10_mutation_weaken) *)
Theorem C10_rejects_except_known : forall d m,
  wf_doc d -> mutation false d m -> exists e, shipped_check (fst m) (snd m) = Reject e.
Proof. exact shipped_check_rejects. Qed.
(* the same in the form "not accepted"; the excluded class (mutation true but not mutation false) is exactly
   known finding C10-any-typed-entries-unchecked, witnessed by C10_any_typed_entries_refuted *)
Theorem C10_rejects_not_accepted : forall d m,
  wf_doc d -> mutation false d m -> shipped_check (fst m) (snd m) <> Accept.
Proof. exact shipped_check_not_accepted. Qed.
Theorem C10_mutation_weaken : forall d m, mutation false d m -> mutation true d m.
Proof. exact mutation_weaken. Qed.

(* computed instances on the checker model: the example is accepted; its three-number /MediaBox, an
   embedded kid and a page with /Type /Catalog are rejected (the last two were accepted by the pinned code) *)
Theorem C10_example_checked :
  shipped_check (emit_ctx ex_doc) (emit_root ex_doc) = Accept
  /\ (exists e, shipped_check (ctx_edit (2, 0)%N ex_edit (emit_ctx ex_doc)) (emit_root ex_doc) = Reject e)
  /\ (exists e, shipped_check (ctx_edit (1, 0)%N ex_direct_kid (emit_ctx ex_doc)) (emit_root ex_doc) = Reject e)
  /\ (exists e, shipped_check (ctx_edit (2, 0)%N (ESet k_Type (OName (B "Catalog"))) (emit_ctx ex_doc))
                              (emit_root ex_doc) = Reject e).
Proof. exact ex_checked. Qed.

(* OPEN (known finding C10-any-typed-entries-unchecked): the full statement "every mutation is rejected by
   the checker" is false — dictionary entries whose check has type Any are skipped with their required
   indirection and predicate: /Parent [1 0 R] and a /PageLabels number tree with a string key are
   mutations, violate the declarative semantics, and are accepted by the checker model (and by the
   implementation: witnesses in corpus/c10.txt) *)
Theorem C10_any_typed_entries_refuted :
  (mutation true ex_doc (ctx_edit (2, 0)%N ex_parent_array (emit_ctx ex_doc), emit_root ex_doc)
   /\ shipped_check (ctx_edit (2, 0)%N ex_parent_array (emit_ctx ex_doc)) (emit_root ex_doc) = Accept
   /\ shipped_spec (ctx_edit (2, 0)%N ex_parent_array (emit_ctx ex_doc)) (emit_root ex_doc) = false)
  /\ (mutation true ex_doc (emit_ctx ex_doc, apply_edit ex_bad_numtree (emit_root ex_doc))
      /\ shipped_check (emit_ctx ex_doc) (apply_edit ex_bad_numtree (emit_root ex_doc)) = Accept
      /\ shipped_spec (emit_ctx ex_doc) (apply_edit ex_bad_numtree (emit_root ex_doc)) = false).
Proof. exact (conj any_typed_entries_unchecked any_typed_predicates_unchecked). Qed.

(* REPAIRED (number_tree.rs, commit f94edb9): the pinned NumberTreePredicate accepted a number tree whose
   /Nums key is a string, because it read the pairs from /Names *)
Theorem C10_numtree_pinned_refuted :
  exists o, number_tree_pred_pinned o = true /\ number_tree_pred o = false.
Proof. exact numtree_pinned_refuted. Qed.
(* REPAIRED (common_data_structures.rs, commit b2e4a95): the pinned DateStringPredicate accepted a year of
   four non-ASCII decimal digits *)
Theorem C10_date_pinned_refuted :
  exists s, date_pred_pinned [(48, 57); (1632, 1641)]%N (OStr s) = true /\ date_pred (OStr s) = false.
Proof. exact date_pinned_refuted. Qed.

Print Assumptions C10_dump_is_spec.
Print Assumptions C10_dump_read.
Print Assumptions C10_catalog_keys.
Print Assumptions C10_root_node_keys.
Print Assumptions C10_inner_node_keys.
Print Assumptions C10_page_keys.
Print Assumptions C10_template_keys.
Print Assumptions C10_type_names.
Print Assumptions C10_kids_indirect.
Print Assumptions C10_kid_alternatives.
Print Assumptions C10_recursion_by_name.
Print Assumptions C10_parent_checks.
Print Assumptions C10_rectangles.
Print Assumptions C10_iso_name_lists.
Print Assumptions C10_optional_entries.
Print Assumptions C10_predicates.
Print Assumptions C10_no_pinned_predicates.
Print Assumptions C10_shape.
Print Assumptions C10_accepts_decl.
Print Assumptions C10_rejects_decl.
Print Assumptions C10_example.
Print Assumptions C10_accepts.
Print Assumptions C10_rejects_except_known.
Print Assumptions C10_mutation_weaken.
Print Assumptions C10_example_checked.
Print Assumptions C10_any_typed_entries_refuted.
Print Assumptions C10_numtree_pinned_refuted.
Print Assumptions C10_date_pinned_refuted.
Print Assumptions C10_rejects_not_accepted.
