(* Properties/C10.v — the shipped catalog and page-tree specification is enforced.
   Everything is about the DUMPED specification gen/Shipped.v (regenerated on every run from what
   catalog_type(&mut tctx) constructs), so each theorem is re-checked against the code as it is now.
   Only statements, each closed by [exact] of a lemma from Proofs/, with Print Assumptions. *)
From PV Require Import Spec.PageTreeSpec gen.Shipped Model.ShippedEntry Proofs.ShippedFacts.

(* ================= 1. finite structural facts about the dumped specification ================= *)

(* the dump is, entry for entry, the specification written by hand in Spec/PageTreeSpec.v *)
Theorem C10_dump_is_spec : shipped_root = spec_catalog /\ shipped_tctx = spec_tctx.
Proof. exact (conj shipped_root_is_spec shipped_tctx_is_spec). Qed.

(* the text form of the dump is read by the Coq readers into the same terms *)
Theorem C10_dump_read : read_chk_tok shipped_root_text = Some shipped_root
                        /\ read_tctx shipped_tctx_text = Some shipped_tctx.
Proof. exact (conj shipped_root_read shipped_tctx_read). Qed.

(* required and forbidden keys: /Type /Pages; /Type /Count /Kids, /Parent forbidden on the root node
   and required on inner nodes and pages, forbidden on templates *)
Theorem C10_catalog_keys :
  keys_with KReq (ents_at shipped_tctx [] shipped_root) = [k_Type; k_Pages]
  /\ keys_with KForb (ents_at shipped_tctx [] shipped_root) = [].
Proof. exact catalog_required. Qed.
Theorem C10_root_node_keys :
  keys_with KReq (ents_at shipped_tctx p_root_node shipped_root) = [k_Type; k_Count; k_Kids]
  /\ keys_with KForb (ents_at shipped_tctx p_root_node shipped_root) = [k_Parent]
  /\ keys_with KOpt (ents_at shipped_tctx p_root_node shipped_root) = [].
Proof. exact root_node_keys. Qed.
Theorem C10_inner_node_keys :
  keys_with KReq (ents_at shipped_tctx p_nonroot shipped_root) = [k_Type; k_Count; k_Kids; k_Parent]
  /\ keys_with KForb (ents_at shipped_tctx p_nonroot shipped_root) = [].
Proof. exact nonroot_node_keys. Qed.
Theorem C10_page_keys :
  keys_with KReq (ents_at shipped_tctx p_page shipped_root) = [k_Type; k_Parent]
  /\ keys_with KForb (ents_at shipped_tctx p_page shipped_root) = []
  /\ keys_with KOpt (ents_at shipped_tctx p_page shipped_root) = List.map fst page_table.
Proof. exact page_keys. Qed.
Theorem C10_template_keys :
  keys_with KReq (ents_at shipped_tctx p_template shipped_root) = [k_Type]
  /\ keys_with KForb (ents_at shipped_tctx p_template shipped_root) = [k_Parent]
  /\ keys_with KOpt (ents_at shipped_tctx p_template shipped_root) = List.map fst template_table.
Proof. exact template_keys. Qed.

(* the /Type names of the five kinds of object *)
Theorem C10_type_names :
  names_of (rep_at shipped_tctx [SKey k_Type] shipped_root) = Some [B "Catalog"]
  /\ names_of (rep_at shipped_tctx (p_root_node ++ [SKey k_Type]) shipped_root) = Some [B "Pages"]
  /\ names_of (rep_at shipped_tctx (p_nonroot ++ [SKey k_Type]) shipped_root) = Some [B "Pages"]
  /\ names_of (rep_at shipped_tctx (p_page ++ [SKey k_Type]) shipped_root) = Some [B "Page"]
  /\ names_of (rep_at shipped_tctx (p_template ++ [SKey k_Type]) shipped_root) = Some [B "Template"].
Proof. exact type_names. Qed.

(* kids are arrays (any length) whose members must be indirect references; below the root: inner node,
   page, template; below an inner node: page, inner node (by name — the recursion), template *)
Theorem C10_kids_indirect :
  is_kid_array (rep_at shipped_tctx (p_root_node ++ [SKey k_Kids]) shipped_root) = true
  /\ is_kid_array (rep_at shipped_tctx (p_nonroot ++ [SKey k_Kids]) shipped_root) = true.
Proof. exact kids_indirect. Qed.
Theorem C10_kid_alternatives :
  rep_at shipped_tctx (p_nonroot_kid ++ [SAlt 0]) shipped_root = rep_at shipped_tctx p_page shipped_root
  /\ rep_at shipped_tctx (p_nonroot_kid ++ [SAlt 1]) shipped_root = rep_at shipped_tctx p_nonroot shipped_root
  /\ rep_at shipped_tctx (p_nonroot_kid ++ [SAlt 2]) shipped_root = rep_at shipped_tctx p_template shipped_root
  /\ walk shipped_tctx (p_nonroot_kid ++ [SAlt 3]) shipped_root = None
  /\ walk shipped_tctx (p_root_kid ++ [SAlt 3]) shipped_root = None.
Proof. exact nonroot_kid_alternatives. Qed.
Theorem C10_recursion_by_name :
  walk shipped_tctx (p_nonroot_kid ++ [SAlt 1]) shipped_root = Some (CNamed n_nonroot)
  /\ tctx_get shipped_tctx n_nonroot = rep_at shipped_tctx p_nonroot shipped_root
  /\ List.map fst shipped_tctx = [n_nonroot].
Proof. exact nonroot_recursion. Qed.

(* /Parent, wherever mentioned: any value, necessarily an indirect reference *)
Theorem C10_parent_checks :
  forallb (fun p => match rep_at shipped_tctx (p ++ [SKey k_Parent]) shipped_root with
                    | Some (TAny, None, IReq) => true | _ => false end)
          [p_root_node; p_nonroot; p_page; p_template] = true.
Proof. exact parent_checks. Qed.

(* the five boxes of pages and templates: arrays of exactly four numbers *)
Theorem C10_rectangles :
  forallb (fun p => forallb (fun k => match walk shipped_tctx (p ++ [SKey k]) shipped_root with
                                      | Some c => chk_eqb c (chk_of_kind VRect) | None => false end) box_keys)
          [p_page; p_template] = true
  /\ chk_of_kind VRect = CRep (TArr (CRep (TDisj [CRep (TPrim PInteger) None IAllowed; CRep (TPrim PReal) None IAllowed])
                                          None IAllowed) (Some 4)) None IAllowed.
Proof. exact (conj rectangles rect_is_four_numbers). Qed.

(* the name lists are the ISO 32000 lists (written by hand in the Spec) *)
Theorem C10_iso_name_lists :
  same_names_at [SKey (B "PageMode")] iso_pagemode = true
  /\ same_names_at [SKey (B "PageLayout")] iso_pagelayout = true
  /\ same_names_at (p_page ++ [SKey (B "Tabs")]) iso_tabs = true
  /\ same_names_at (p_template ++ [SKey (B "Tabs")]) iso_tabs = true.
Proof. exact iso_name_lists. Qed.

(* every optional entry of catalog, page and template has the declared kind *)
Theorem C10_optional_entries :
  table_matches [] catalog_table = true /\ table_matches p_page page_table = true
  /\ table_matches p_template template_table = true.
Proof. exact optional_entries. Qed.

(* the predicates: number tree reading /Nums (#2), name trees (#1), ASCII date strings (#0); none of the
   pinned variants (#3 pairs read from /Names, #4 Unicode digits) anywhere in the dump *)
Theorem C10_predicates :
  pred_at [SKey (B "PageLabels")] = Some (TAny, Some (PrOpaque 2))
  /\ forallb (fun k => match pred_at [SKey (B "Names"); SKey k] with
                       | Some (TAny, Some (PrOpaque 1%N)) => true | _ => false end) namedict_keys = true
  /\ pred_at (p_page ++ [SKey (B "LastModified")]) = Some (TPrim PString, Some (PrOpaque 0))
  /\ pred_at (p_template ++ [SKey (B "LastModified")]) = Some (TPrim PString, Some (PrOpaque 0)).
Proof. exact opaque_predicates. Qed.
Theorem C10_no_pinned_predicates :
  forallb (fun c => match c with CRep _ (Some (PrOpaque i)) _ => N.leb i 2 | _ => true end)
          (spec_chks shipped_tctx shipped_root) = true.
Proof. exact no_pinned_predicates. Qed.

(* shape: no '*' entries, every name used is defined *)
Theorem C10_shape :
  forallb (fun c => match c with CRep (TDict _ (Some _)) _ _ => false | _ => true end)
          (spec_chks shipped_tctx shipped_root) = true
  /\ forallb (fun c => match c with
                       | CNamed n => match tctx_get shipped_tctx n with Some _ => true | None => false end
                       | _ => true end) (spec_chks shipped_tctx shipped_root) = true.
Proof. exact (conj no_star_entries names_defined). Qed.

Print Assumptions C10_dump_is_spec.
Print Assumptions C10_dump_read.
Print Assumptions C10_catalog_keys.
Print Assumptions C10_root_node_keys.
Print Assumptions C10_inner_node_keys.
Print Assumptions C10_page_keys.
Print Assumptions C10_template_keys.
Print Assumptions C10_type_names.
Print Assumptions C10_kids_indirect.
Print Assumptions C10_kid_alternatives.
Print Assumptions C10_recursion_by_name.
Print Assumptions C10_parent_checks.
Print Assumptions C10_rectangles.
Print Assumptions C10_iso_name_lists.
Print Assumptions C10_optional_entries.
Print Assumptions C10_predicates.
Print Assumptions C10_no_pinned_predicates.
Print Assumptions C10_shape.
