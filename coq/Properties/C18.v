(* Properties/C18.v — combinators implement ordered-choice backtracking (PEG) semantics.
   Only statements, each closed by [exact] of a lemma from Proofs/ or Spec/, with Print Assumptions.
   impl  : Model/Comb.v, transcription of Sequence / Alternate / Star / Not / AsciiChar (prim_combinators.rs,
           prim_ascii.rs, parse_guarded), cursor restores and set_cursor_unsafe assertions included;
   peg   : Spec/Peg.v, textbook PEG big-step semantics on suffixes, values without locations;
   wf e  : every Star operand is syntactically non-nullable (the property's "operands that consume input");
   Dty g : a leaf with the meaning of Chr g that leaves the cursor advanced when it fails (the harness's test
           double for "an arbitrary sub-parser"): the combinators restore the cursor whatever their operands do;
   restores e : e is not a bare Dty leaf. *)
From PV Require Import Model.Comb Spec.Peg Proofs.Comb.

(* For every well-formed expression, every input, every cursor inside it and any fuel above the input length:
   - the implementation succeeds with tree lv and cursor c' exactly when PEG succeeds on the suffix at c with
     value [erase lv] and remainder the suffix at c' (so consumed lengths agree); the tree's spans tile
     (spans_nested) and its root span is the consumed segment [c, c');
   - it fails exactly when PEG fails, and then the cursor is back at c (unless e is itself the bare dirty leaf). *)
Theorem C18_impl_is_peg : forall e fuel s c,
  wf e -> len s < fuel -> c <= len s ->
  (forall v r, peg e (skipn c s) (Some (v, r)) <->
     exists lv, impl fuel e s c = POk lv (len s - len r) /\ erase lv = v /\ r = skipn (len s - len r) s /\
                spans_nested lv /\ span lv = (c, len s - len r) /\ c <= len s - len r) /\
  (peg e (skipn c s) None <-> exists k c', impl fuel e s c = PErr k c') /\
  (forall k c', impl fuel e s c = PErr k c' -> c <= c' /\ c' <= len s /\ (restores e -> c' = c)).
Proof. exact impl_is_peg. Qed.

(* the two cases above are exhaustive and exclusive: PEG is total on wf expressions and deterministic *)
Theorem C18_peg_total_wf : forall e x, wf e -> exists o, peg e x o.
Proof. exact peg_total_wf. Qed.

Theorem C18_peg_functional : forall e x o1 o2, peg e x o1 -> peg e x o2 -> o1 = o2.
Proof. exact peg_functional. Qed.

(* no set_cursor_unsafe assertion fires and the Star loop terminates *)
Theorem C18_impl_total : forall e fuel s c,
  wf e -> len s < fuel -> c <= len s -> impl fuel e s c <> PPanic /\ impl fuel e s c <> PFuel.
Proof. exact impl_total. Qed.

(* the executable reference evaluator computes exactly the relation *)
Theorem C18_peg_eval_correct : forall fuel e x o,
  wf e -> len x < fuel -> (peg_eval fuel e x = Some o <-> peg e x o).
Proof. exact peg_eval_correct. Qed.

(* the restriction to wf is necessary: (!a)* on "b" exhausts every fuel (the Rust loop does not terminate) *)
Theorem C18_star_nullable_diverges : forall fuel,
  impl fuel (Star (Not (Chr (GEq 97)))) [98%N] 0 = PFuel.
Proof. exact star_nullable_diverges. Qed.

(* hypotheses are satisfiable, and the statement has content *)
Example C18_nonvacuous :
  wf ex_e /\ len [97; 98; 100; 99]%N < 5 /\ 0 <= len [97; 98; 100; 99]%N /\
  peg ex_e (skipn 0 [97; 98; 100; 99]%N)
      (Some (VSeq (VChr 97) (VStar [VL (VChr 98); VR (VSeq VNot (VChr 100))]), [99%N])).
Proof.
  repeat split; try (cbn; lia).
  apply (peg_eval_sound 5). reflexivity.
Qed.

Print Assumptions C18_impl_is_peg.
Print Assumptions C18_peg_total_wf.
Print Assumptions C18_peg_functional.
Print Assumptions C18_impl_total.
Print Assumptions C18_peg_eval_correct.
Print Assumptions C18_star_nullable_diverges.
