(* Properties/C01.v — arbitrary input files are processed without panic, abort or hang.

   The statement is about the composed model of the pipeline that src/bin/pdf_printer.rs runs AFTER the
   loader (Model/Pipeline.v): dump_root (every reachable stream decoded), type check of the catalog against
   the DUMPED shipped specification, page-DOM construction, per page the embedded-font test, decoding and
   concatenation of the content streams, text extraction.  [pipeline rel toks ctx rootid] is its outcome
   on the object context [ctx] the loader produced ([rel] = release build; [toks] = the answers of zlib,
   an oracle — Model/Filters.v); PRejected = every exit_log!, PPanicked = any modelled panic site
   (assert, index, unwrap, unreachable!, checked-arithmetic overflow), PUnmodelled = outside the model.

   Each theorem is the composition of the component theorems of C06/C07 (decoders), C08/C09 (checker),
   C11 (DOM), C12/C15/C02 (content-stream lexer and extractor), plus the termination of dump_root's walk
   proved here.  STATUS: partial — see the end of this file for what the theorems do not cover. *)
From PV Require Import Base.PdfObj.
From PV Require Import Model.Flate Model.Filters Model.TypeCheck Model.ShippedEntry Model.Dom Model.ContentLex Model.Pipeline.
From PV Require Import Proofs.Pipeline Proofs.PipelineTop.
From PV Require Import Model.Full.
From PV Require Model.Loader Model.LoaderBytes.

(* no panic site of any stage is reachable, for EVERY object context (hostile parameters, reference cycles,
   absurd sizes included); the side condition is needed only by debug builds: a page whose decoded content
   reaches 2 GiB could overflow RawLiteralString's i32 nesting counter *)
Theorem C01_no_panic : forall rel toks ctx rootid,
  small_pages rel toks ctx rootid -> pipeline rel toks ctx rootid <> PPanicked.
Proof. exact pipeline_no_panic. Qed.

Theorem C01_no_panic_release : forall toks ctx rootid, pipeline true toks ctx rootid <> PPanicked.
Proof. exact pipeline_no_panic_release. Qed.

(* every loop of the pipeline terminates within its bound: the model's fuel is never the reason for leaving it;
   the only way out of the model is a stream decoder that needs an answer the model does not have
   (zlib's answer missing from the oracle table, or DCTDecode, which is not modelled) *)
Theorem C01_terminates : forall rel toks ctx rootid,
  small_pages rel toks ctx rootid -> pipeline rel toks ctx rootid = PUnmodelled -> exists d c, dec rel toks d c = Fuel.
Proof. exact pipeline_terminates. Qed.

(* hence: accepted or rejected, nothing else *)
Theorem C01_two_outcomes : forall rel toks ctx rootid,
  small_pages rel toks ctx rootid -> (forall d c, dec rel toks d c <> Fuel) ->
  pipeline rel toks ctx rootid = PAccepted \/ pipeline rel toks ctx rootid = PRejected.
Proof. exact pipeline_two_outcomes. Qed.

(* dump_root's breadth-first walk over values never exhausts its fuel, whatever the reference graph *)
Theorem C01_dump_root_terminates : forall dec ctx root, dump_root dec ctx root <> DumpFuel.
Proof. exact dump_root_enough_fuel. Qed.

(* the dumped shipped specification meets the checker's well-formedness side condition
   (re-checked by vm_compute whenever catalog_type() changes) *)
Theorem C01_shipped_spec_wellformed : exists r, resolve shipped_tctx shipped_root = Some r /\
  Proofs.TypeCheckSound.wf_univ shipped_tctx (norm_chk (rep_chk r)) = true.
Proof. exact shipped_resolves. Qed.

(* a panic can only come from a component: the generic composition lemma *)
Theorem C01_panic_sources : forall dec chk domf T ext ctx rootid,
  pipeline_gen dec chk domf T ext ctx rootid = PPanicked ->
  (exists d c, dec d c = Panic) \/ (exists root, chk ctx root = Panicked) \/
  (exists root r pg buf, octx_get ctx rootid = Some root /\ domf ctx root = DOk (r, pg) /\ page_buffer dec pg buf /\ ext buf = Panic).
Proof. exact pipeline_gen_panic_sources. Qed.

Theorem C01_root_missing_rejected : forall rel toks ctx rootid,
  octx_get ctx rootid = None -> pipeline rel toks ctx rootid = PRejected.
Proof. intros. unfold pipeline. apply pipeline_gen_root_missing. assumption. Qed.

(* loader ; pipeline: on the abstract description of ANY file (Model/Loader.v: no well-formedness assumed) the
   loader never panics and terminates (C03_load_total), and the whole processing ends accepted or rejected *)
Theorem C01_full_no_panic : forall rel toks p,
  (forall c root, Loader.load p = Loader.Loaded c root -> small_pages rel toks (objs_of c) root) ->
  full rel toks p <> PPanicked.
Proof. exact full_no_panic. Qed.

Theorem C01_full_two_outcomes : forall rel toks p,
  (forall c root, Loader.load p = Loader.Loaded c root -> small_pages rel toks (objs_of c) root) ->
  (forall d c, dec rel toks d c <> Fuel) ->
  full rel toks p = PAccepted \/ full rel toks p = PRejected.
Proof. exact full_two_outcomes. Qed.

(* ... and from BYTES: [full_bytes rel toks s] runs the loader model on the abstraction that the byte-level parser
   models compute from the byte string s itself (Model/LoaderBytes.v; faithful for the classic layout:
   C03_bytes_classic), then the pipeline.  For EVERY byte string: *)
Theorem C01_bytes_two_outcomes : forall rel toks s,
  (forall c root, Loader.load (Model.LoaderBytes.abstract_file rel s) = Loader.Loaded c root -> small_pages rel toks (objs_of c) root) ->
  (forall d c, dec rel toks d c <> Fuel) ->
  full_bytes rel toks s = PAccepted \/ full_bytes rel toks s = PRejected.
Proof. exact full_bytes_two_outcomes. Qed.

Theorem C01_bytes_no_panic_release : forall toks s, full_bytes true toks s <> PPanicked.
Proof. exact full_bytes_no_panic_release. Qed.

(* the hypotheses are satisfiable: a one-page document with an unfiltered content stream *)
Definition ex_ctx : octx :=
  [((1, 0)%N, ODict [(B "Pages", ORef 2 0); (B "Type", OName (B "Catalog"))]);
   ((2, 0)%N, ODict [(B "Count", OInt 1); (B "Kids", OArr [ORef 3 0]); (B "Type", OName (B "Pages"))]);
   ((3, 0)%N, ODict [(B "Contents", ORef 4 0); (B "MediaBox", OArr [OInt 0; OInt 0; OInt 300; OInt 144]);
                     (B "Parent", ORef 2 0); (B "Resources", ODict []); (B "Type", OName (B "Page"))]);
   ((4, 0)%N, OStream [(B "Length", OInt 14)] (B "BT (Hi) Tj ET "))].
Example C01_nonvacuous :
  small_pages false [] ex_ctx (1, 0)%N /\ pipeline false [] ex_ctx (1, 0)%N = PAccepted.
Proof.
  split; [|vm_compute; reflexivity].
  intros root r pg buf Hrt Hdom (id & par & res & cs & Hin & Hb).
  vm_compute in Hrt. inversion Hrt; subst root; clear Hrt.
  vm_compute in Hdom. inversion Hdom; subst r pg; clear Hdom.
  destruct Hin as [Hin|[]]; inversion Hin; subst; clear Hin.
  vm_compute in Hb. inversion Hb; subst buf. vm_compute. reflexivity.
Qed.

Print Assumptions C01_no_panic.
Print Assumptions C01_no_panic_release.
Print Assumptions C01_terminates.
Print Assumptions C01_two_outcomes.
Print Assumptions C01_dump_root_terminates.
Print Assumptions C01_shipped_spec_wellformed.
Print Assumptions C01_panic_sources.
Print Assumptions C01_root_missing_rejected.
Print Assumptions C01_full_no_panic.
Print Assumptions C01_full_two_outcomes.
Print Assumptions C01_bytes_two_outcomes.
Print Assumptions C01_bytes_no_panic_release.

(* NOT covered by these theorems (DESIGN.md, C01): the loader in front of the pipeline (its model is
   Model/Loader.v at the level of parsed pieces: termination of the /Prev walk is C04_chain_terminates; the
   byte-level parsers' totality is C15/C16/C13/C14); the real stack and allocator (a decompression bomb
   exhausts memory without violating any modelled rule); zlib and the JPEG decoder on hostile data; Drop/Ord
   recursion over deeply nested values.  These are exercised by the fault-directed runs of the real binary
   (props/c01.py), not proved. *)
