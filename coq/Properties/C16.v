(* Properties/C16.v — object nesting is bounded by the configured depth.
   Only statements, each closed by [exact] of a lemma from Proofs/, with Print Assumptions.

   [parse_obj rel b s c]      parse_pdf_obj with b = max_depth - cur_depth levels left (budget form:
                              structural recursion on b — the nesting of recursive calls, hence the
                              stack, is bounded by b whatever the input is);
   [parse_obj_st rel f max s c cur]   the same code with the cur_depth counter threaded through
                              enter_obj / leave_obj as in the Rust (the form that is extracted and
                              compared with the implementation); returns (outcome, cur_depth after). *)
From PV Require Import Model.Obj Proofs.ObjDepth Proofs.ObjTotal.

(* accepted only if the nesting depth does not exceed the levels left *)
Theorem C16_accept_within : forall rel d s c o a b c',
  parse_obj rel d s c = POk (o, a, b) c' -> obj_depth o <= d.
Proof. exact accept_within. Qed.

(* deeper input is rejected with a diagnostic (GuardError "max recursion bound exceeded"):
   a text that opens d containers, one directly inside the other, and then goes on *)
Theorem C16_reject_deeper : forall rel d s c,
  opens s d c -> exists c', parse_obj rel d s c = PErr EGuard c'.
Proof. exact reject_deeper. Qed.

(* in particular the hostile inputs "[[[[…": more than d brackets in a row, however many (10^6, …) *)
Theorem C16_reject_deep_brackets : forall rel d k pre rest,
  d <= k -> exists c', parse_obj rel d (pre ++ repeat 91%N (S k) ++ rest) (len pre) = PErr EGuard c'.
Proof. exact reject_deep_brackets. Qed.

(* after ANY parse — success, error, even a panic or exhausted model fuel — the context's depth is
   what it was before the call; no assumption on fuel, bound or counter *)
Theorem C16_depth_balanced : forall rel fuel max s c cur r cur',
  parse_obj_st rel fuel max s c cur = (r, cur') -> cur' = cur.
Proof. intros rel fuel max s c cur r cur' H. pose proof (depth_balanced rel fuel max s c cur) as E. rewrite H in E. exact E. Qed.

(* the counter does nothing but count the structural recursion: the counter form IS the budget form *)
Theorem C16_counter_is_budget : forall rel fuel max s c cur,
  cur <= max -> max - cur < fuel ->
  parse_obj_st rel fuel max s c cur = (parse_obj rel (max - cur) s c, cur).
Proof. exact counter_is_budget. Qed.

(* leave_obj's assert!(cur_depth != 0) is never what makes a call panic *)
Theorem C16_no_assert : forall rel fuel max s c cur,
  cur <= max -> max - cur < fuel ->
  fst (parse_obj_st rel fuel max s c cur) = PPanic -> parse_obj rel (max - cur) s c = PPanic.
Proof. exact no_assert. Qed.

(* the hypotheses are satisfiable: "[ <</K[" opens three containers *)
Example C16_opens_example : opens (B "[ <</K[1]>>]") 3 0.
Proof.
  eapply opens_arr; [vm_compute; reflexivity|vm_compute; reflexivity|vm_compute; reflexivity|vm_compute; reflexivity|].
  eapply opens_dict; try (vm_compute; reflexivity).
  eapply opens_arr; try (vm_compute; reflexivity).
  constructor.
Qed.

(* the object parser never panics and never exhausts the model's fuel (no assert/index/unwrap site is
   reachable); a successful parse consumes at least one byte and stays inside the buffer.  Debug builds need
   the input below 2 GiB (RawLiteralString's i32 nesting counter); release builds need nothing. *)
Theorem C16_total : forall rel s b c,
  (Z.of_nat (len s) < 2147483648)%Z -> c <= len s ->
  parse_obj rel b s c <> PPanic /\ parse_obj rel b s c <> PFuel /\
  (forall v c', parse_obj rel b s c = POk v c' -> c < c' /\ c' <= len s).
Proof. exact parse_obj_total. Qed.

Theorem C16_total_release : forall s b c,
  c <= len s -> parse_obj true b s c <> PPanic /\ parse_obj true b s c <> PFuel.
Proof. exact parse_obj_total_release. Qed.

Print Assumptions C16_accept_within.
Print Assumptions C16_reject_deeper.
Print Assumptions C16_reject_deep_brackets.
Print Assumptions C16_depth_balanced.
Print Assumptions C16_counter_is_budget.
Print Assumptions C16_no_assert.
Print Assumptions C16_total.
Print Assumptions C16_total_release.
