(* Properties/C07.v — predictor reversal reproduces the original samples.
   Only statements, each closed by [exact] of a lemma from Proofs/, with Print Assumptions.

   flate_lzw_filter / flate_post : Model/Pred.v (src/pdf_lib/pdf_filters.rs after the C07 repairs);
   encode_rows, row_bytes        : Spec/Png.v (forward filters of PNG §9 and TIFF predictor 2).
   The pinned code refuted both theorems (Proofs/PredPinned.v, corpus/c07.txt); the defects were
   repaired by `fix:` commits 70e8ade .. d8e3a58 (known_findings.d/C07.json). *)
From PV Require Import Model.Pred Spec.Png Proofs.PredLoop Proofs.PredRound Proofs.PredTotal.

(* Reversal.  For TIFF predictor 2 and PNG predictors 10..14, every number of colour components and
   columns (>= 1), every sample size the PDF specification allows (8 and 16 bits; for the byte-wise PNG
   filters also 1, 2, 4), every number of rows (including none) and all sample values: decoding the rows
   produced by the specification's forward filter gives back the original rows.
   The only size condition is that the row size in bits fits a usize. *)
Theorem C07_roundtrip : forall (pred colors columns bits : N) (rows : list (list N)),
  In pred [2; 10; 11; 12; 13; 14]%N ->
  (1 <= colors)%N -> (1 <= columns)%N ->
  In bits (if (pred =? 2)%N then [8; 16]%N else [1; 2; 4; 8; 16]%N) ->
  (columns * colors * bits + 7 < 2 ^ 64)%N ->
  Forall (fun r => List.length r = N.to_nat (row_bytes columns colors bits) /\ Forall (fun b => (b < 256)%N) r) rows ->
  flate_lzw_filter pred colors columns bits (encode_rows pred colors bits rows) = Ok (concat rows).
Proof. exact roundtrip. Qed.

(* the same through the parameter extraction of FlateDecode::transform, for any /DecodeParms dictionary
   holding these values *)
Theorem C07_roundtrip_parms : forall o (pred colors columns bits : N) (rows : list (list N)),
  int_param o (B "Predictor") 1 = Z.of_N pred -> int_param o (B "Colors") 1 = Z.of_N colors ->
  int_param o (B "Columns") 1 = Z.of_N columns -> int_param o (B "BitsPerComponent") 8 = Z.of_N bits ->
  In pred [2; 10; 11; 12; 13; 14]%N ->
  (1 <= colors)%N -> (1 <= columns)%N ->
  In bits (if (pred =? 2)%N then [8; 16]%N else [1; 2; 4; 8; 16]%N) ->
  (columns * colors * bits + 7 < 2 ^ 64)%N ->
  Forall (fun r => List.length r = N.to_nat (row_bytes columns colors bits) /\ Forall (fun b => (b < 256)%N) r) rows ->
  flate_post o (encode_rows pred colors bits rows) = Ok (concat rows).
Proof. exact roundtrip_parms. Qed.

(* Totality.  For every /DecodeParms dictionary or none — every value of /Predictor, /Colors, /Columns,
   /BitsPerComponent: negative, zero, beyond 2^32, of the wrong type, missing — and all data, the result is
   a value or an error: no index out of bounds, no arithmetic panic (in either build profile: the code has
   no unchecked arithmetic left). *)
Theorem C07_total : forall (o : option (list (bytes * obj))) (data : bytes),
  flate_post o data <> Panic /\ flate_post o data <> Fuel.
Proof. exact flate_post_no_panic. Qed.

Theorem C07_total_usize : forall (predictor colors columns bits : N) (data : bytes),
  flate_lzw_filter predictor colors columns bits data <> Panic /\
  flate_lzw_filter predictor colors columns bits data <> Fuel.
Proof. exact filter_no_panic. Qed.

(* Parameter extraction: without parameters the data is returned unchanged; `as usize` on an i64. *)
Theorem C07_params :
  (forall data, flate_post None data = Ok data) /\
  (forall z, (0 <= z < 2 ^ 63)%Z -> as_usize z = Z.to_N z) /\
  (forall z, (- 2 ^ 63 <= z < 0)%Z -> as_usize z = Z.to_N (2 ^ 64 + z)).
Proof. exact params. Qed.

(* the hypotheses of C07_roundtrip are satisfiable: two RGB rows of two 8-bit pixels under Paeth *)
Example C07_roundtrip_instance :
  flate_lzw_filter 14 3 2 8 (encode_rows 14 3 8 [[10; 20; 30; 11; 22; 33]; [200; 100; 10; 0; 255; 7]]%N)
  = Ok [10; 20; 30; 11; 22; 33; 200; 100; 10; 0; 255; 7]%N.
Proof.
  apply (C07_roundtrip 14 3 2 8 [[10; 20; 30; 11; 22; 33]; [200; 100; 10; 0; 255; 7]]%N);
    cbn; try lia; intuition; repeat constructor; lia.
Qed.

Print Assumptions C07_roundtrip.
Print Assumptions C07_roundtrip_parms.
Print Assumptions C07_total.
Print Assumptions C07_total_usize.
Print Assumptions C07_params.
