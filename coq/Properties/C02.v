(* Properties/C02.v — every spelling of a PDF object parses to exactly that object. *)
From PV Require Import Model.Obj Spec.Spelling.

(* finding C02-plus (fixed by repo commit 8188ffd, witness kept in corpus/c02.txt): the pinned
   dispatcher rejected "+17"; with the repaired dispatcher the witness parses *)
Example C02_plus_sign_witness : parse_obj false 1 (B "+17") 0 = POk (OInt 17, 0, 3) 3.
Proof. vm_compute. reflexivity. Qed.

Print Assumptions C02_plus_sign_witness.
