(* Properties/C02.v — every spelling of a PDF object parses to exactly that object.
   Only statements, each closed by [exact] of a lemma from Proofs/, with Print Assumptions.

   [spells F n v sp]   (Spec/Spelling.v) sp is a spelling of the value v with bracket nesting <= n, by
                       the lexical rules of the property text; F is the follow condition of integers.
   [follow F v rest]   the legal following contexts: tokens that end in a regular character (numbers,
                       names, keywords, R) are followed by whitespace, a delimiter or the end; an
                       integer additionally by something that is not the rest of a reference.
   [int_follow_sem]    F instantiated with the parser's own look-ahead: the bytes that follow are not
                       read as  ws+ integer ws+ "R"  (the documented reading: "a b R" is the reference).
   [parse_obj rel n]   parse_pdf_obj with n levels left (Model/Obj.v), rel = build profile. *)
From PV Require Import Model.Obj Spec.Spelling Proofs.PrimExtra Proofs.ObjDepth Proofs.ObjDict Proofs.ObjTok Proofs.ObjNum
     Proofs.ObjTok2 Proofs.ObjSpell Proofs.ObjLit Proofs.ObjC02.

(* THE SPELLING THEOREM — induction over the spelling derivation: all values (null, booleans,
   integers, reals, names, literal and hexadecimal strings, references, arrays, dictionaries to any
   depth n) x all token spellings x all whitespace/comment choices x all legal following contexts x any
   text in front.  Value, span and cursor are exactly the spelling.
   (2147483000: RawLiteralString counts parentheses in an i32.) *)
Theorem C02_spelling : forall rel n v sp pre w rest,
  spells int_follow_sem n v sp -> ws w -> follow int_follow_sem v rest ->
  (Z.of_nat (len sp) < 2147483000)%Z ->
  parse_obj rel n (pre ++ w ++ sp ++ rest) (len pre) =
  POk (v, len pre + len w, len pre + len w + len sp) (len pre + len w + len sp).
Proof. exact spelling_sound. Qed.

(* behind an integer, the end of the text or any byte that is neither whitespace nor '%' is a legal context *)
Theorem C02_int_follow_delimiter : forall rest, ws_stop rest -> int_follow_sem rest.
Proof. exact int_follow_ws_stop. Qed.

(* tokens *)
Theorem C02_number_spelling : forall v sp pre rest,
  spells_num v sp -> num_stop rest ->
  (forall z, v = OInt z -> ~ lookahead_ref (pre ++ sp ++ rest) (len pre + len sp)) ->
  number_or_ref (pre ++ sp ++ rest) (len pre) = POk v (len pre + len sp).
Proof. exact number_spec. Qed.

(* the look-ahead: an integer followed by  ws+ integer ws+ R  IS the reference ("1 2 RG" = 1 2 R, then G) *)
Theorem C02_int_then_ref : forall n g sn w1 sg w2 pre rest,
  spells_nat n sn -> ws w1 -> w1 <> [] -> spells_nat g sg -> ws w2 -> w2 <> [] ->
  let sp := sn ++ w1 ++ sg ++ w2 ++ [82%N] in
  number_or_ref (pre ++ sp ++ rest) (len pre) = POk (ORef n g) (len pre + len sp).
Proof. exact reference_spec. Qed.

Theorem C02_name_spelling : forall bs enc pre rest,
  name_enc bs enc -> term_stop rest ->
  name (pre ++ (47%N :: enc) ++ rest) (len pre) = POk (bs, len pre, len pre + S (len enc)) (len pre + S (len enc)).
Proof. exact name_spec. Qed.

(* the hand-written windows(3) #xx decoder is the obvious left-to-right decoder (proved by the
   owner of Model/Prim.v in Proofs/PrimExtra.v) *)
Theorem C02_name_decode_is_simple : forall l, name_decode l = simple_decode l.
Proof. exact name_decode_is_simple. Qed.

Theorem C02_lit_string_balanced : forall rel body pre rest,
  balanced body -> (Z.of_nat (len body) < 2147483000)%Z ->
  lit_string rel (pre ++ (40%N :: body ++ [41%N]) ++ rest) (len pre) =
  POk (body, len pre, len pre + len body + 2) (len pre + len body + 2).
Proof. exact lit_string_spec. Qed.

Theorem C02_hex_string_spelling : forall bs body pre rest,
  hex_enc bs body ->
  hexstring (pre ++ (60%N :: body ++ [62%N]) ++ rest) (len pre) =
  POk (bs, len pre, len pre + len body + 2) (len pre + len body + 2).
Proof. exact hexstring_spec. Qed.

Theorem C02_whitespace : forall e w pre rest,
  ws w -> ws_stop rest -> (e = true \/ w <> []) ->
  ws_eol e (pre ++ w ++ rest) (len pre) = POk (tt, len pre, len pre + len w) (len pre + len w).
Proof. exact ws_eol_spec. Qed.

(* a dictionary never contains an entry whose value is null — for EVERY input that is accepted, at any depth *)
Theorem C02_dict_no_null : forall rel b s c d a e c',
  parse_obj rel b s c = POk (ODict d, a, e) c' -> Forall (fun kv => snd kv <> ONull) d.
Proof. exact dict_no_null. Qed.

Theorem C02_no_null_anywhere : forall rel b s c o a e c', parse_obj rel b s c = POk (o, a, e) c' -> no_null o.
Proof. exact parse_obj_no_null. Qed.

(* a spelling that repeats a non-null key (in any spelling of the key) is rejected *)
Theorem C02_dup_key_rejected : forall rel b s c u0 c0 u1 c1 k1 c2 u2 c3 o c4 u3 c5 k2 c6,
  ws_eol true s c = POk u0 c0 ->
  peek s c0 = Some 60%N -> peek s (S c0) = Some 60%N ->
  ws_eol true s (S (S c0)) = POk u1 c1 -> exact kw_rdict s c1 = None ->
  name s c1 = POk k1 c2 ->
  ws_eol true s c2 = POk u2 c3 ->
  parse_obj rel b s c3 = POk o c4 -> lv_val o <> ONull ->
  ws_eol true s c4 = POk u3 c5 -> exact kw_rdict s c5 = None ->
  name s c5 = POk k2 c6 -> lv_val k2 = lv_val k1 ->
  parse_obj rel (S b) s c = PErr EGuard c6.
Proof. exact dup_key_rejected. Qed.

Theorem C02_dup_key_rejected_anywhere : forall rec fuel s c map names u c1 k c2,
  ws_eol true s c = POk u c1 -> exact kw_rdict s c1 = None ->
  name s c1 = POk k c2 -> In (lv_val k) names ->
  dict_loop rec (S fuel) s c map names = PErr EGuard c2.
Proof. exact dict_dup_rejected. Qed.

(* comments are whitespace: parse_pdf_obj never returns a Comment object *)
Theorem C02_no_comment_object : forall rel b s c x a e c', parse_obj rel b s c = POk (OComment x, a, e) c' -> False.
Proof. exact parse_obj_no_comment. Qed.

(* the hypotheses are satisfiable:  [+1/A#42<</K null/K(a\)b)>>]  *)
Example C02_example :
  spells int_follow_sem 3
    (OArr [OInt 1; OName (B "AB"); ODict [(B "K", OStr (B "a\)b"))]])
    (B "[+1/A#42<</K null/K(a\)b)>>]").
Proof.
  apply (sp_arr _ 2 _ (B "+1/A#42<</K null/K(a\)b)>>")).
  apply (items_cons _ 2 [] (OInt 1) (B "+1") _ (B "/A#42<</K null/K(a\)b)>>")); [constructor| | |].
  - apply sp_number. apply (sp_int false [43%N] [49%N]); [constructor|discriminate|repeat constructor|vm_compute; split; discriminate].
  - apply (items_cons _ 2 [] (OName (B "AB")) (B "/A#42") _ (B "<</K null/K(a\)b)>>")); [constructor| | |].
    + apply sp_name. apply ne_raw; [reflexivity|intros [E _]; discriminate|].
      apply (ne_esc 66 52 50); [reflexivity|reflexivity|reflexivity|discriminate|constructor].
    + apply (items_cons _ 2 [] _ (B "<</K null/K(a\)b)>>") [] []); [constructor| |repeat constructor|intros; exact I].
      apply (sp_dict _ 1 [(B "K", ONull); (B "K", OStr (B "a\)b"))] (B "/K null/K(a\)b)")); [|reflexivity].
      apply (entries_cons _ 1 [] (B "K") (B "K") (B " ") ONull (B "null") _ (B "/K(a\)b)")); [constructor| |repeat constructor|discriminate|constructor| |intros; reflexivity].
      * apply ne_raw; [reflexivity|intros [E _]; discriminate|constructor].
      * apply (entries_cons _ 1 [] (B "K") (B "K") [] (OStr (B "a\)b")) (B "(a\)b)") [] []); [constructor| |constructor|intros; reflexivity| |repeat constructor|intros; exact I].
        -- apply ne_raw; [reflexivity|intros [E _]; discriminate|constructor].
        -- apply (sp_lit _ 0 (B "a\)b")). reflexivity.
    + intros outer. reflexivity.
  - intros outer. split; [reflexivity|]. apply int_follow_ws_stop. split; [reflexivity|discriminate].
Qed.

(* finding C02-plus (fixed by repo commit 8188ffd, witness kept in corpus/c02.txt): the pinned
   dispatcher rejected "+17"; with the repaired dispatcher the witness parses *)
Example C02_plus_sign_witness : parse_obj false 1 (B "+17") 0 = POk (OInt 17, 0, 3) 3.
Proof. vm_compute. reflexivity. Qed.

Print Assumptions C02_spelling.
Print Assumptions C02_int_follow_delimiter.
Print Assumptions C02_number_spelling.
Print Assumptions C02_int_then_ref.
Print Assumptions C02_name_spelling.
Print Assumptions C02_name_decode_is_simple.
Print Assumptions C02_lit_string_balanced.
Print Assumptions C02_hex_string_spelling.
Print Assumptions C02_whitespace.
Print Assumptions C02_dict_no_null.
Print Assumptions C02_no_null_anywhere.
Print Assumptions C02_dup_key_rejected.
Print Assumptions C02_dup_key_rejected_anywhere.
Print Assumptions C02_no_comment_object.
