(* Properties/C09.v — type checking terminates on cyclic graphs and recursive types.
   Model: Model/TypeCheck.v (check_type's work loop [run] over the explicit stack [todo] and the
   memo [examined]); proofs: Proofs/TypeCheckTerm.v.

   |O| = len (uni_objs oc o): null, the sub-objects of the root and of every definition of the context;
   |C| = len (uni_chks tc c): the sub-checks of the normalised root check and of every named check,
         and their indirection-allowed versions;
   fan_o / fan_c: the largest number of members of an object / of direct sub-checks of a check. *)
From PV Require Import Model.TypeCheck Proofs.TypeCheckTerm.
From Coq Require Import Lia.

(* the bound is explicit *)
Theorem C09_bound_explicit : forall oc tc o c,
  step_bound oc tc o c =
  len (uni_objs oc o) * len (uni_chks tc c)
  * (2 + (fan_c (uni_chks tc c) + 2) * (fan_o (uni_objs oc o) + fan_c (uni_chks tc c) + 2))
  + fan_c (uni_chks tc c) + 4.
Proof. intros. unfold step_bound, bound_push, bound_K. lia. Qed.

(* every object graph (cyclic or not), every context of named checks (recursive or not), every
   root check: the work loop stops within [step_bound] iterations — never [Stuck] — and the total
   number of iterations of the three loops (work loop, get_next_check, unwind) is at most
   5·step_bound + 2 *)
Theorem C09_terminates : forall opq oc tc o c r,
  resolve tc c = Some r ->
  fst (check opq oc tc o c) <> Stuck /\
  snd (check opq oc tc o c) <= 5 * step_bound oc tc o (norm_chk (rep_chk r)) + 2.
Proof. exact check_terminates. Qed.

Theorem C09_terminates_fuel : forall opq oc tc o c r n,
  resolve tc c = Some r -> step_bound oc tc o (norm_chk (rep_chk r)) <= n ->
  fst (check_fuel opq oc tc n o c) <> Stuck /\
  snd (check_fuel opq oc tc n o c) <= 5 * step_bound oc tc o (norm_chk (rep_chk r)) + 2.
Proof. exact check_fuel_terminates. Qed.

Theorem C09_unresolved_root : forall opq oc tc o c,
  resolve tc c = None -> check opq oc tc o c = (SpecErr EUnknown, 0).
Proof. exact check_unresolved. Qed.

(* the answer is a function of the inputs, and independent of the fuel beyond the bound *)
Theorem C09_deterministic : forall opq oc tc o c r n m,
  resolve tc c = Some r -> step_bound oc tc o (norm_chk (rep_chk r)) <= n -> n <= m ->
  check_fuel opq oc tc m o c = check_fuel opq oc tc n o c.
Proof. exact check_fuel_deterministic. Qed.

(* no recursion: the whole check is the n-fold iteration of one non-recursive step function on a
   state that holds the explicit stack (the call stack does not grow with the input) *)
Theorem C09_single_loop : forall opq oc tc n td ex err k,
  rs_result (run_rs opq oc tc n (RCont td ex err k)) = run opq oc tc n td ex err k.
Proof. exact run_rs_run. Qed.

Theorem C09_binary_fuel_same_loop : forall opq oc tc n o c,
  check_N opq oc tc n o c = check_fuel opq oc tc (N.to_nat n) o c.
Proof. exact check_N_fuel. Qed.

(* the hypotheses are satisfiable and the loop really runs on cycles: a node that is its own
   descendant, under a type that is recursive by name *)
Example C09_cycle_example :
  let oc := [((1%N, 0%N), ODict [([75%N], ORef 2 0)]); ((2%N, 0%N), OArr [ORef 1 0])] in
  let node := (TDict [DEnt [75%N] (CRep (TArr (CNamed [110%N]) None) None IAllowed) KReq] None, None, IAllowed) in
  check opq_default oc [([110%N], node)] (ORef 1 0) (CNamed [110%N]) = (Accept, 17).
Proof. vm_compute. reflexivity. Qed.

Print Assumptions C09_bound_explicit.
Print Assumptions C09_terminates.
Print Assumptions C09_terminates_fuel.
Print Assumptions C09_unresolved_root.
Print Assumptions C09_deterministic.
Print Assumptions C09_single_loop.
Print Assumptions C09_binary_fuel_same_loop.
