(* Properties/C09.v — type checking terminates on cyclic graphs and recursive types.
   Model: Model/TypeCheck.v (check_type's work loop [run] over the explicit stack [todo], the trail
   of examined checks and the failed alternatives); proofs: Proofs/TypeCheckLoop.v, Proofs/TypeCheckTerm.v.

   |O| = len (uni_objs oc o): null, the sub-objects of the root and of every definition of the context;
   |C| = len (uni_chks tc c): the sub-checks of the normalised root check and of every named check,
         their indirection-allowed versions and the own-attribute checks of both;
   fan_o / fan_c: the largest number of members of an object / of direct sub-checks of a check. *)
From PV Require Import Model.TypeCheck Proofs.TypeCheckLoop Proofs.TypeCheckTerm Proofs.TypeCheckSound.
From Coq Require Import Lia.

(* the bound is explicit: with P = |O|·|C|, K = fan_c + 3, M = 2 + K·(fan_o + fan_c + 2):
   P·M·(P+1) + P + K + 2 *)
Theorem C09_bound_explicit : forall oc tc o c,
  let P := len (uni_objs oc o) * len (uni_chks tc c) in
  let K := fan_c (uni_chks tc c) + 3 in
  let M := 2 + K * (fan_o (uni_objs oc o) + fan_c (uni_chks tc c) + 2) in
  step_bound oc tc o c = P * M * (P + 1) + P + K + 2.
Proof. intros. unfold step_bound, bound_push, bound_K, P, K, M. lia. Qed.

(* every object graph (cyclic or not), every context of named checks (recursive or not), every
   root check: the work loop stops within [step_bound] iterations — never [Stuck] — and the total
   number of iterations of the three loops (work loop, get_next_check, unwind) is at most
   5·step_bound + 2.  (Between two failures of alternatives at most P·M + K + 2 iterations; every
   failure that makes the checker forget examined checks adds a new pair to the failed
   alternatives, so there are at most P of those.) *)
Theorem C09_terminates : forall opq oc tc o c r,
  resolve tc c = Some r ->
  fst (check opq oc tc o c) <> Stuck /\
  snd (check opq oc tc o c) <= 5 * step_bound oc tc o (norm_chk (rep_chk r)) + 2.
Proof. exact check_terminates. Qed.

Theorem C09_terminates_fuel : forall opq oc tc o c r n,
  resolve tc c = Some r -> step_bound oc tc o (norm_chk (rep_chk r)) <= n ->
  fst (check_fuel opq oc tc n o c) <> Stuck /\
  snd (check_fuel opq oc tc n o c) <= 5 * step_bound oc tc o (norm_chk (rep_chk r)) + 2.
Proof. exact check_fuel_terminates. Qed.

(* the verdict is independent of the fuel beyond the bound *)
Theorem C09_fuel_independent : forall opq oc tc o c r n m,
  resolve tc c = Some r -> step_bound oc tc o (norm_chk (rep_chk r)) <= n -> n <= m ->
  check_fuel opq oc tc m o c = check_fuel opq oc tc n o c.
Proof. exact check_fuel_deterministic. Qed.

(* no panic: on a well-formed specification ([wf_univ], computable: every name mentioned in the
   normalised specification is defined) the unreachable!() / index / assert sites of the loop are
   dead — the verdict is Accept or Reject *)
Theorem C09_check_never_panics : forall opq oc tc o c,
  (forall r, resolve tc c = Some r -> wf_univ tc (norm_chk (rep_chk r)) = true) ->
  fst (check opq oc tc o c) <> Panicked.
Proof. exact check_never_panics_wf. Qed.
(* an empty disjunction is a specification like any other: nothing conforms to it *)
Example C09_empty_disjunct_rejects :
  fst (check opq_default [] [] (OInt 5) (CRep (TDisj []) None IAllowed)) = Reject EValue /\
  wf_univ [] (norm_chk (CRep (TDisj []) None IAllowed)) = true.
Proof. vm_compute. split; reflexivity. Qed.

Theorem C09_unresolved_root : forall opq oc tc o c,
  resolve tc c = None -> check opq oc tc o c = (SpecErr EUnknown, 0).
Proof. exact check_unresolved. Qed.

(* the answer is a function of the inputs; once the loop has stopped, more fuel gives the same answer *)
Theorem C09_deterministic : forall opq oc tc o c n m,
  fst (check_fuel opq oc tc n o c) <> Stuck -> n <= m ->
  check_fuel opq oc tc m o c = check_fuel opq oc tc n o c.
Proof. exact check_fuel_mono. Qed.

(* no recursion: the whole check is the n-fold iteration of one non-recursive step function on a
   state that holds the explicit stack (the call stack does not grow with the input) *)
Theorem C09_single_loop : forall opq oc tc n td ex fl err k,
  rs_result (run_rs opq oc tc n (RCont td ex fl err k)) = run opq oc tc n td ex fl err k.
Proof. exact run_rs_run. Qed.

Theorem C09_binary_fuel_same_loop : forall opq oc tc n o c,
  check_N opq oc tc n o c = check_fuel opq oc tc (N.to_nat n) o c.
Proof. exact check_N_fuel. Qed.

Theorem C09_bound_as_fuel : forall oc tc o c, N.to_nat (step_bound_N oc tc o c) = step_bound oc tc o c.
Proof. exact step_bound_N_nat. Qed.

(* the loop really runs on cycles: a node that is its own descendant, under a type that is
   recursive by name; a self-referential object; a recursive disjunction over a reference cycle *)
Example C09_cycle_example :
  let oc := [((1%N, 0%N), ODict [([75%N], ORef 2 0)]); ((2%N, 0%N), OArr [ORef 1 0])] in
  let node := (TDict [DEnt [75%N] (CRep (TArr (CNamed [110%N]) None) None IAllowed) KReq] None, None, IAllowed) in
  fst (check opq_default oc [([110%N], node)] (ORef 1 0) (CNamed [110%N])) = Accept.
Proof. vm_compute. reflexivity. Qed.
Example C09_self_reference_example :
  fst (check opq_default [((5%N, 0%N), ORef 5 0)] [] (ORef 5 0) (CRep (TPrim PInteger) None IAllowed)) = Reject EType.
Proof. vm_compute. reflexivity. Qed.

Print Assumptions C09_bound_explicit.
Print Assumptions C09_terminates.
Print Assumptions C09_terminates_fuel.
Print Assumptions C09_fuel_independent.
Print Assumptions C09_check_never_panics.
Print Assumptions C09_unresolved_root.
Print Assumptions C09_deterministic.
Print Assumptions C09_single_loop.
Print Assumptions C09_binary_fuel_same_loop.
Print Assumptions C09_bound_as_fuel.
