(* Properties/C06.v — stream filter decoding is the exact inverse of encoding.
   Only statements, each closed by [exact] of a lemma from Proofs/, with Print Assumptions.

   Decoders: Model/AHex.v, Model/A85.v (with the vendored crates), Model/Flate.v (zlib inflate is an
   oracle), Model/Filters.v (StreamT::filters, decode_stream) — src/pdf_lib/pdf_filters.rs after the C06
   repairs.  Encodings: Spec/A85Enc.v (relations covering every legal encoder choice).
   The pinned code refuted C06_ahex, C06_a85, C06_flate and C06_corrupt (Proofs/FiltersPinned.v,
   corpus/c06.txt); repaired by `fix:` commits 3d2cbd2 .. 3276132 (known_findings.d/C06.json). *)
From PV Require Import Model.Filters Spec.A85Enc.
From PV Require Import Proofs.FiltersHex Proofs.FiltersA85 Proofs.FiltersA85Mode Proofs.FiltersChain Proofs.FiltersInflate0 Proofs.FiltersTotal.

Definition lt256 (l : bytes) : Prop := Forall (fun b => (b < 256)%N) l.

(* ASCIIHexDecode: any payload, any legal encoding (white space anywhere, either case, odd final digit),
   whatever follows the EOD marker *)
Theorem C06_ahex : forall p e tail, lt256 p -> ahex_enc p e -> ahex_decode (e ++ tail) = Ok p.
Proof. exact ahex_roundtrip. Qed.

(* ASCII85Decode: any payload, any legal encoding (white space anywhere — also before the EOD marker and
   between its two characters —, z or five characters for a zero group, final partial group), white space
   after the EOD marker; debug and release builds *)
Theorem C06_a85 : forall dbg p e eol, lt256 p -> a85_enc p e -> ws_only eol -> a85_decode dbg (e ++ eol) = Ok p.
Proof. exact a85_roundtrip. Qed.

(* an instance with the EOD marker split by a line break (`z~` LF `>`), as a fixed-width line wrapper may
   produce: the relation allows white space between the `~` and the `>` *)
Example C06_a85_split_marker : forall dbg, a85_decode dbg [122; 126; 10; 62]%N = Ok [0; 0; 0; 0]%N.
Proof.
  intros dbg. rewrite <- (app_nil_r [122; 126; 10; 62]%N). apply C06_a85.
  - repeat constructor.
  - exists [122%N]. split; [apply ad_z; constructor|].
    apply il_keep, il_keep, il_ws; [cbn; auto 10 | apply il_keep, il_nil].
  - constructor.
Qed.

(* FlateDecode, relative to the inflate oracle: for any [inflate] that returns the payload and the unused
   tail on every valid zlib encoding followed by anything, the transform returns the payload (and with
   parameters: the predictor stage applied to it — C07) *)
Theorem C06_flate : forall (inflate : bytes -> option (bytes * bytes)) (zlib_valid : bytes -> bytes -> Prop),
  (forall p e t, zlib_valid p e -> inflate (e ++ t) = Some (p, t)) ->
  forall p e t, zlib_valid p e ->
    flate_decode inflate None (e ++ t) = Ok p /\ forall o, flate_decode inflate o (e ++ t) = flate_post o p.
Proof.
  intros inflate zv H p e t Hv. split; [exact (flate_roundtrip inflate zv H p e t Hv)|].
  intros o. exact (flate_roundtrip_parms inflate zv H o p e t Hv).
Qed.

(* Chains of any length: if [e] is obtained from [p] by encoding for the filters of [fs] (outermost first),
   and the stream dictionary pairs /Filter and /DecodeParms to [fs], then decode_stream returns [p] and the
   dictionary without the filter entries. *)
Theorem C06_chain : forall (inflate : bytes -> option (bytes * bytes)) (zlib_valid : bytes -> bytes -> Prop),
  (forall p e t, zlib_valid p e -> inflate (e ++ t) = Some (p, t)) ->
  forall dbg d fs p e,
    filters_of d = Ok fs -> chain_enc zlib_valid fs p e ->
    decode_stream (transform dbg inflate) d e = Ok (prune d, p).
Proof. exact stream_roundtrip. Qed.

(* … where the pairing is: a name with an optional dictionary, or parallel arrays (null = no parameters),
   or an array of names alone, or no filter at all; and the pruned dictionary is the original one, in
   order, minus /Filter and /DecodeParms *)
Theorem C06_chain_shapes :
  (forall d names parms,
     dict_get d k_Filter = Some (OArr (List.map OName names)) ->
     dict_get d k_DecodeParms = Some (OArr (List.map parm_obj parms)) ->
     List.length names = List.length parms -> filters_of d = Ok (combine names parms)) /\
  (forall d names,
     dict_get d k_Filter = Some (OArr (List.map OName names)) ->
     (forall l, dict_get d k_DecodeParms <> Some (OArr l)) ->
     filters_of d = Ok (List.map (fun n => (n, None)) names)) /\
  (forall d n p, dict_get d k_Filter = Some (OName n) -> dict_get d k_DecodeParms = Some (ODict p) ->
     filters_of d = Ok [(n, Some p)]) /\
  (forall d n, dict_get d k_Filter = Some (OName n) ->
     (forall p, dict_get d k_DecodeParms <> Some (ODict p)) -> (forall l, dict_get d k_DecodeParms <> Some (OArr l)) ->
     filters_of d = Ok [(n, None)]) /\
  (forall d, dict_get d k_Filter = None -> filters_of d = Ok []) /\
  (forall d, prune d = filter (fun kv => negb (bytes_eqb k_Filter (fst kv)) && negb (bytes_eqb k_DecodeParms (fst kv))) d).
Proof.
  exact (conj filters_of_array (conj filters_of_array_noparms (conj filters_of_name_parms
        (conj filters_of_name (conj filters_of_nofilter prune_spec))))).
Qed.

(* Mismatched /Filter - /DecodeParms shapes are errors, whatever the transforms and the data *)
Theorem C06_shape_errors : forall tr c,
  (forall d n l, dict_get d k_Filter = Some (OName n) -> dict_get d k_DecodeParms = Some (OArr l) ->
     decode_stream tr d c = Err EGuard) /\
  (forall d fa da, dict_get d k_Filter = Some (OArr fa) -> dict_get d k_DecodeParms = Some (OArr da) ->
     List.length fa <> List.length da -> decode_stream tr d c = Err EGuard) /\
  (forall d fa da, dict_get d k_Filter = Some (OArr fa) -> dict_get d k_DecodeParms = Some (OArr da) ->
     List.length fa = List.length da ->
     ((exists f, In f fa /\ forall n, f <> OName n) \/ (exists x, In x da /\ x <> ONull /\ forall p, x <> ODict p)) ->
     decode_stream tr d c = Err EGuard) /\
  (forall d fa, dict_get d k_Filter = Some (OArr fa) -> (forall l, dict_get d k_DecodeParms <> Some (OArr l)) ->
     (exists f, In f fa /\ forall n, f <> OName n) -> decode_stream tr d c = Err EGuard).
Proof. exact shape_errors. Qed.

(* Corrupt encodings are errors — never Ok with partial output *)
Theorem C06_corrupt :
  (* ASCIIHex: no EOD marker; an illegal character before it *)
  (forall s, (forall c, In c s -> (c =? 62)%N = false) -> ahex_decode s = Err ETransform) /\
  (forall pre c post, (forall x, In x pre -> (x =? 62)%N = false) ->
     is_pdf_ws c = false -> (c =? 62)%N = false -> is_hex c = false ->
     ahex_decode (pre ++ c :: post) = Err ETransform) /\
  (* ASCII85 (both build profiles): no `~>` at the end of the data; an illegal character; and, for a body
     (the characters between an optional `<~` and the `~>`) that fails the group check: *)
  (forall dbg data, (forall body, a85_stage data <> body ++ [126; 62]%N) -> a85_decode dbg data = Err ETransform) /\
  (forall dbg data body c, a85_stage data = body ++ [126; 62]%N -> In c (strip_start_marker body) ->
     ~ (33 <= c <= 117)%N -> c <> 122%N -> a85_decode dbg data = Err ETransform) /\
  (forall dbg data body, a85_stage data = body ++ [126; 62]%N ->
     a85_check 0 0%N (strip_start_marker body) = None -> a85_decode dbg data = Err ETransform) /\
  (*   a final group of one character; a `z` inside a group; a group above 2^32 - 1 (after complete groups) *)
  (forall pre c, complete pre -> (33 <= c <= 117)%N -> a85_check 0 0%N (pre ++ [c]) = None) /\
  (forall pre n v post, a85_state 0 0%N pre = Some (n, v) -> n <> 0 -> a85_check 0 0%N (pre ++ 122%N :: post) = None) /\
  (forall pre c0 c1 c2 c3 c4 post, complete pre ->
     (33 <= c0 <= 117)%N -> (33 <= c1 <= 117)%N -> (33 <= c2 <= 117)%N -> (33 <= c3 <= 117)%N -> (33 <= c4 <= 117)%N ->
     (4294967295 < (c0 - 33) * 52200625 + (c1 - 33) * 614125 + (c2 - 33) * 7225 + (c3 - 33) * 85 + (c4 - 33))%N ->
     a85_check 0 0%N (pre ++ c0 :: c1 :: c2 :: c3 :: c4 :: post) = None) /\
  (forall d, whole_groups d -> complete d) /\
  (* Flate: whenever the inflate oracle reports no complete stream *)
  (forall inflate o data, inflate data = None -> flate_decode inflate o data = Err ETransform) /\
  (* chains: a failing stage, or an unknown filter, fails the whole stream *)
  (forall tr d c fs1 name o fs2 mid t k,
     filters_of d = Ok (fs1 ++ (name, o) :: fs2) -> run_chain tr fs1 c = Ok mid -> tr name = Some t -> t o mid = Err k ->
     decode_stream tr d c = Err k) /\
  (forall tr d c fs1 name o fs2 mid,
     filters_of d = Ok (fs1 ++ (name, o) :: fs2) -> run_chain tr fs1 c = Ok mid -> tr name = None ->
     decode_stream tr d c = Err EGuard).
Proof. exact corrupt. Qed.

(* Non-vacuity of the oracle hypothesis: a Gallina inflate for zlib streams of stored blocks satisfies it,
   for every chunking and every payload *)
Theorem C06_inflate0 : forall p e t, zlib_stored p e -> inflate0 (e ++ t) = Some (p, t).
Proof. exact inflate0_ok. Qed.

(* … so that, with that inflate, the chain theorem has no hypothesis left: every chain over ASCIIHex, ASCII85
   and stored-block Flate encodings decodes to the payload *)
Theorem C06_chain_stored : forall dbg d fs p e,
  filters_of d = Ok fs -> chain_enc zlib_stored fs p e ->
  decode_stream (transform dbg inflate0) d e = Ok (prune d, p).
Proof. exact (stream_roundtrip inflate0 zlib_stored inflate0_ok). Qed.

(* ASCII85Decode behaves identically in debug and release builds on EVERY input (valid or not): after the
   group check the vendored crate's unchecked u32 arithmetic cannot overflow *)
Theorem C06_a85_profile_independent : forall data, a85_decode true data = a85_decode false data.
Proof. exact a85_profile_independent. Qed.

(* Totality of the runnable instance (the one Model/Pipeline.v composes): for ALL dictionaries, contents and
   oracle tables, both profiles, decode_stream never panics; it is `Fuel` (= not modelled) only at a
   /DCTDecode stage or at a /FlateDecode stage whose input has no inflate-oracle entry in the case line.
   (A debug-build overflow panic inside the ascii85 crate is caught by the transform and is an Err in the
   model: of_a85res APanic = Err ETransform; after the repairs it is unreachable.) *)
Theorem C06_decode_stream_no_panic : forall dbg toks d content,
  decode_stream (transform_run dbg toks) d content <> Panic.
Proof. exact decode_stream_no_panic. Qed.

Theorem C06_decode_stream_fuel_only_unmodelled : forall dbg toks d content,
  decode_stream (transform_run dbg toks) d content = Fuel ->
  exists fs1 name o fs2 mid,
    filters_of d = Ok (fs1 ++ (name, o) :: fs2) /\ run_chain (transform_run dbg toks) fs1 content = Ok mid /\
    (name = n_DCT \/ (name = n_Flate /\ oracle_has "z" toks mid = false)).
Proof. exact decode_stream_fuel_only_unmodelled. Qed.

Print Assumptions C06_ahex.
Print Assumptions C06_a85.
Print Assumptions C06_flate.
Print Assumptions C06_chain.
Print Assumptions C06_chain_shapes.
Print Assumptions C06_shape_errors.
Print Assumptions C06_corrupt.
Print Assumptions C06_inflate0.
Print Assumptions C06_chain_stored.
Print Assumptions C06_a85_profile_independent.
Print Assumptions C06_decode_stream_no_panic.
Print Assumptions C06_decode_stream_fuel_only_unmodelled.
