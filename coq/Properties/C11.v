(* Properties/C11.v — the page DOM lists every page once with correctly inherited resources.
   Only statements, each closed by [exact] of a lemma from Proofs/, with Print Assumptions.

   [to_page_dom n c cat]: the model of pdf_page_dom.rs to_page_dom on the object context c and the catalog
   object cat, with n iterations of fuel for the work-queue loop (the reference-following loops carry
   their own fuel [len c]).  Results: DOk (root resources, page map) | DErr e | DFuel.
   The model is the code after the repairs b59123f (looping reference chains) and 989a639 (chains in
   get_resolved_dict); Proofs/DomPinned.v records what the helpers did before. *)
From PV Require Import Model.Dom Spec.DomSpec Proofs.DomOnce Proofs.DomTop Proofs.DomPinned.

(* termination: the queue loop needs at most |c|+1 iterations, whatever the context — cyclic /Kids,
   looping reference chains in /Kids, /Contents, /Resources, /Font, /Encoding included *)
Theorem C11_terminates : forall c cat,
  exists n, n <= S (len c) /\ to_page_dom n c cat <> DFuel.
Proof. exact terminates_ex. Qed.

(* the statement at exactly the fuel the case protocol and the C01 pipeline model hand over *)
Theorem C11_enough_fuel : forall c cat, to_page_dom (S (len c)) c cat <> DFuel.
Proof. exact to_page_dom_enough_fuel. Qed.

(* more fuel never changes an answer *)
Theorem C11_fuel_mono : forall c cat n m,
  n <= m -> to_page_dom n c cat <> DFuel -> to_page_dom m c cat = to_page_dom n c cat.
Proof. exact to_page_dom_fuel_mono. Qed.

(* on success: the recorded ids are exactly the objects reachable from the root node, each once *)
Theorem C11_once : forall c cat n res pg,
  to_page_dom n c cat = DOk (res, pg) ->
  exists root, root_node c cat root /\
    (forall id, In id (List.map fst pg) <-> reachable c root id) /\ NoDup (List.map fst pg).
Proof. exact once. Qed.

(* every recorded page has the fonts of the nearest /Resources declaration (its own first, reference
   chains resolved) on a path from the root to it — the path along which the queue discovered it *)
Theorem C11_inherit : forall c cat n res pg,
  to_page_dom n c cat = DOk (res, pg) ->
  forall root, root_node c cat root ->
  forall id par fonts cs, In (id, PLeaf par fonts cs) pg ->
    exists o p, octx_get c id = Some o /\ path_to c root p id /\ fonts_of_nearest c (o :: p) fonts.
Proof. exact inherit. Qed.

(* tree-shaped documents: the path is unique, so the fonts are those of the nearest declaration on it *)
Theorem C11_inherit_tree : forall c cat n res pg,
  to_page_dom n c cat = DOk (res, pg) ->
  forall root, root_node c cat root ->
  forall id par fonts cs, In (id, PLeaf par fonts cs) pg ->
  (forall p1 p2, path_to c root p1 id -> path_to c root p2 id -> p1 = p2) ->
  forall o p, octx_get c id = Some o -> path_to c root p id -> fonts_of_nearest c (o :: p) fonts.
Proof. exact inherit_tree. Qed.

(* the content streams of a recorded page are those its /Contents denotes, in document order *)
Theorem C11_contents_order : forall c cat n res pg,
  to_page_dom n c cat = DOk (res, pg) ->
  forall id par fonts cs, In (id, PLeaf par fonts cs) pg ->
    exists d v, octx_get c id = Some (ODict d) /\ dict_get d (B "Contents") = Some v /\
                contents_in_order c v cs.
Proof. exact contents_order. Qed.

(* the hypotheses are satisfiable: a document on which construction succeeds with one page *)
Example C11_example :
  exists r pg par fonts cs, to_page_dom (S (len DomTop.W11)) DomTop.W11 catalog = DOk (r, pg) /\
    pg = [((3, 0)%N, PLeaf par fonts cs)] /\ List.map fst fonts = [B "F1"] /\
    cs = [OStream [(B "Length", OInt 2)] (B "c4")].
Proof. exact W11_own_fonts. Qed.

(* for the record — the helpers as they were before the repairs (Model.Dom.Pinned): in any context where
   object 5 0 is `5 0 R`, no amount of fuel lets them return (finding C11-10), and /Resources behind two
   references was not found (finding C11-11) *)
Theorem C11_pinned_terminates_refuted : forall c, lookup c (5, 0)%N = Some (ORef 5 0) ->
  (forall n q r, Pinned.to_page_kids n c q r (ORef 5 0) = OFuel) /\
  (forall n, Pinned.to_page_contents n c (ORef 5 0) = OFuel) /\
  (forall f n, Pinned.to_resource_font_value f n c (ORef 5 0) = DFuel) /\
  (forall n, Pinned.to_encoding n c (ORef 5 0) = DFuel).
Proof.
  exact (fun c H => conj (pinned_kids_selfref c H) (conj (pinned_contents_selfref c H)
                    (conj (pinned_fontvalue_selfref c H) (pinned_encoding_selfref c H)))).
Qed.
Theorem C11_pinned_inherit_refuted :
  Pinned.get_resolved_dict DomPinned.W11 W11_page (B "Resources") = None /\
  get_resolved_dict DomPinned.W11 W11_page (B "Resources") = OSome [(B "Font", ODict [(B "F1", ORef 11 0)])].
Proof. exact (conj pinned_resources_two_refs repaired_resources_two_refs). Qed.

Print Assumptions C11_terminates.
Print Assumptions C11_enough_fuel.
Print Assumptions C11_fuel_mono.
Print Assumptions C11_once.
Print Assumptions C11_inherit.
Print Assumptions C11_inherit_tree.
Print Assumptions C11_contents_order.
Print Assumptions C11_example.
Print Assumptions C11_pinned_terminates_refuted.
Print Assumptions C11_pinned_inherit_refuted.
