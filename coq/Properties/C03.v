(* Properties/C03.v — loading a well-formed document defines exactly its objects.
   Only statements, each closed by [exact] of a lemma from Proofs/, with Print Assumptions.

   Model: coq/Model/Loader.v (see Properties/C04.v).  [layout_of d root p E] says, by the contents of the
   file only, that the abstract file p stores document d: at the startxref offset lies ONE cross-reference
   section of any of the three kinds ([section_at]: classic table, xref stream, hybrid table + /XRefStm)
   with entries E; every in-use entry leads to an object carrying its identifier whose /Length is direct or a
   reference to an in-file integer object — listed before OR after it — ([good]); objects may live in object
   streams ([container]); [resolve] restricted to E yields the objects of d and, besides them, only
   xref-stream / object-stream containers.  The renderer that produces bytes for such a layout (offsets, /W,
   /Index, filters, padding, leading garbage) is python (props/loaderlib.py): trusted glue, exercised by the
   correspondence run, not part of these theorems. *)
From PV Require Import Model.Loader Proofs.Loader Proofs.LoaderObjs Proofs.LoaderMain Proofs.LoaderMismatch Proofs.LoaderWit Proofs.LoaderDoc Proofs.LoaderEx.

(* C03_load on the current tree (= C03_except_known: [good] asks a referenced /Length to be an in-file object):
   exactly the document's objects with the values written, the trailer's root, and nothing else but the
   bookkeeping containers of the layout *)
Theorem C03_load : forall d root p E,
  layout_of d root p E ->
  exists c, load p = Loaded c root /\
            (forall id v, In (id, v) d -> ctx_get c id = Some (VObj v)) /\
            (forall id w, ctx_get c id = Some w -> (exists v, w = VObj v /\ In (id, v) d) \/ w = VXStm \/ (exists ms, w = VObjStm ms)).
Proof. exact load_document. Qed.

(* the hypothesis is satisfiable: a three-object document in a hybrid layout with an object stream *)
Theorem C03_load_nonvacuous : layout_of hy_doc (1, 0)%N hy_pdf hy_E.
Proof. exact hy_layout. Qed.

(* the unrestricted statement is refuted: a one-revision document whose stream 3 0 has /Length 9 0 R with
   9 0 = 3 stored in object stream 10 0 is rejected (object streams are read after the second pass) *)
Theorem C03_load_refuted_length_in_objstm :
  p_magic w_len_in_objstm = true /\ p_startxref w_len_in_objstm = Some 193%N /\
  section_at (p_file w_len_in_objstm) (p_flen w_len_in_objstm) 193%N E_len (Some (ORef 1 0)) None /\
  resolve (p_file w_len_in_objstm) E_len (3, 0)%N = Some (VObj (OStream [(B "Length", ORef 9 0)] (B "abc"))) /\
  resolve (p_file w_len_in_objstm) E_len (9, 0)%N = Some (VObj (OInt 3)) /\
  load w_len_in_objstm = Rejected.
Proof. exact length_in_objstm_refutes. Qed.

(* a file in which the object found at a cross-reference offset carries a different identifier than its entry
   (or is no object at all) is rejected — whatever else the file contains *)
Theorem C03_identity_mismatch : forall p S r sx e ofs,
  p_startxref p = Some sx -> chain (p_file p) (p_flen p) sx S -> NoDup (map s_off S) ->
  match S with s :: _ => s_root s = Some r | [] => False end ->
  In e (first_per_key (all_ents S)) -> x_st e = XInUse ofs ->
  (forall it nx v, find (p_file p) ofs = Some (it, nx) -> item_val it = Some (x_id e, v) -> False) ->
  load p = Rejected.
Proof. exact load_identity_mismatch. Qed.

(* [chain] above is the walk itself; sections described by the file's contents form such a chain *)
Theorem C03_sections_chain : forall f flen o S, sections f flen o S -> chain f flen o S.
Proof. exact sections_chain. Qed.

(* totality of the loader logic for ALL abstract files (no well-formedness hypothesis): the /Prev walk never
   exhausts the model's fuel, the object passes are structural, no modelled panic site exists (audit in
   Model/Loader.v): the answer is always Rejected or Loaded *)
Theorem C03_load_total : forall p, load p <> OutFuel /\ (load p = Rejected \/ exists c r, load p = Loaded c r).
Proof. exact load_total. Qed.

Print Assumptions C03_load.
Print Assumptions C03_load_total.
Print Assumptions C03_load_nonvacuous.
Print Assumptions C03_load_refuted_length_in_objstm.
Print Assumptions C03_identity_mismatch.
Print Assumptions C03_sections_chain.
