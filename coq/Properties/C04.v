(* Properties/C04.v — the newest revision wins across incremental updates.
   Only statements, each closed by [exact] of a lemma from Proofs/, with Print Assumptions.

   Model: coq/Model/Loader.v — the loader logic of src/pdf_lib/pdf_traverse_xref.rs over the abstraction
   "offset ↦ what the byte-level parsers find there" (those parsers: C02 C05 C13 C14 C06 C07).
   [load p] is parse_data; [sections f flen o S] describes, by the contents of the file only, the chain
   of cross-reference sections (classic table / xref stream / hybrid) linked by /Prev from offset [o]:
   S lists them newest first as (offset, entries, /Root).
   [resolve f E id] with E = all_ents S (entries of all sections, newest section first) is the specification:
   the entry for the object number in the most recent revision that mentions it decides; free, other
   generation or no entry ⇒ not defined. *)
From PV Require Import Model.Loader Proofs.Loader Proofs.LoaderObjs Proofs.LoaderMain Proofs.LoaderWit Proofs.LoaderDoc Proofs.LoaderEx.

(* the merge loop of get_xref_info keeps exactly the first (= newest) entry per object number … *)
Theorem C04_merge_newest_first : forall l, snd (merge_ents l []) = first_per_key l.
Proof. exact merge_newest_first. Qed.

(* … so looking a number up in the merged table is looking it up newest-first in the history *)
Theorem C04_merge_lookup : forall l n, lookup_ent (first_per_key l) n = lookup_ent l n.
Proof. exact lookup_first_per_key. Qed.

(* C04_resolve on the current tree = C04_except_known.  For every history (any number of revisions, any mix
   of tables / xref streams / hybrid sections, objects in the file or in object streams, direct or referenced
   /Length) the context binds every identifier to exactly what [resolve] says — the newest revision that
   mentions the number wins; a newest free entry of ANY generation hides the object (commit f2e753d); an
   xref-stream object does not shadow a newer definition of its id (commit 4807949) — and the root is the one
   of the newest section.  Hypotheses (3) and (4) are the complements of the two open classes of findings:
   (3) C03-length-in-objstm (inside [good]: a referenced /Length names an in-file integer object),
   (4) C04-stale-objstm-member (every member of an object stream that is in use is current). *)
Theorem C04_except_known : forall p S rn rg sx,
  p_magic p = true -> p_startxref p = Some sx -> (sx <? p_flen p)%N = true ->
  sections (p_file p) (p_flen p) sx S ->
  NoDup (map s_off S) ->
  match S with s :: _ => s_root s = Some (ORef rn rg) | [] => False end ->
  (forall e ofs, In e (first_per_key (all_ents S)) -> x_st e = XInUse ofs ->                                  (* (3) *)
     good (p_file p) (p_flen p) [] (info_from_xref_entries (first_per_key (all_ents S))) (x_id e) ofs) ->
  (forall e stm idx ms n v, In e (first_per_key (all_ents S)) -> x_st e = XInStream stm idx ->                (* (4) *)
     container (p_file p) (all_ents S) stm = Some ms -> In (n, v) ms ->
     exists idx', lookup_ent (all_ents S) n = Some (mkxent n 0 (XInStream stm idx'))) ->
  (forall e stm idx ms, In e (first_per_key (all_ents S)) -> x_st e = XInStream stm idx ->
     container (p_file p) (all_ents S) stm = Some ms -> NoDup (map fst ms)) ->
  exists c, load p = Loaded c (rn, rg) /\ forall id, ctx_get c id = resolve (p_file p) (all_ents S) id.
Proof. exact load_history. Qed.

(* the hypotheses are satisfiable (two revisions: xref stream + object stream + forward /Length, then a table
   that redefines, adds and frees with the incremented generation) *)
Theorem C04_except_known_nonvacuous :
  exists c, load ex_pdf = Loaded c (1, 0)%N /\ forall id, ctx_get c id = resolve (p_file ex_pdf) (all_ents ex_S) id.
Proof. exact ex_hyps. Qed.

(* C04_resolve without hypothesis (4) is refuted: an update redefines 6 0 while the base revision keeps 6 and 7
   in object stream 10: the duplicate 6 stops the parse of that stream and 7 0 is lost (on the pinned tree the
   stale copy of 6 0 also overwrote the new value: repaired by commit f218988 in pdf_obj.rs) *)
Theorem C04_resolve_refuted_stale_member :
  p_magic w_stale_member = true /\ p_startxref w_stale_member = Some 316%N /\
  sections (p_file w_stale_member) (p_flen w_stale_member) 316%N S_stale /\
  NoDup (map s_off S_stale) /\
  resolve (p_file w_stale_member) (all_ents S_stale) (6, 0)%N = Some (VObj (OInt 99)) /\
  resolve (p_file w_stale_member) (all_ents S_stale) (7, 0)%N = Some (VObj (OInt 2)) /\
  get (load w_stale_member) (6, 0)%N = Some (VObj (OInt 99)) /\ get (load w_stale_member) (7, 0)%N = None.
Proof. exact stale_member_refutes. Qed.

(* former refutations that the repaired code now satisfies (witnesses kept in corpus/c04.txt):
   an update defines 11 0 obj 777 where 11 0 was the base revision's xref stream; two revisions whose xref
   streams are both object 11 0 *)
Theorem C04_xref_stream_id_fixed :
  sections (p_file w_xstm_shadow) (p_flen w_xstm_shadow) 221%N S_shadow /\
  resolve (p_file w_xstm_shadow) (all_ents S_shadow) (11, 0)%N = Some (VObj (OInt 777)) /\
  get (load w_xstm_shadow) (11, 0)%N = Some (VObj (OInt 777)) /\
  is_loaded (load w_xstm_twice) = true.
Proof. exact xref_stream_id_fixed. Qed.

(* a /Prev chain that revisits an offset is rejected … ([follows f flen o l pv]: started at o the loop visits
   the offsets l and is left with the /Prev value pv) *)
Theorem C04_prev_cycle : forall p,
  (exists sx l t, p_startxref p = Some sx /\ follows (p_file p) (p_flen p) sx l (Some t) /\ In t l) -> load p = Rejected.
Proof. exact load_prev_cycle. Qed.

(* … and so is one that points outside the file *)
Theorem C04_prev_oob : forall p,
  (exists sx l t, p_startxref p = Some sx /\ follows (p_file p) (p_flen p) sx l (Some t) /\ (p_flen p <= t)%N) -> load p = Rejected.
Proof. exact load_prev_oob. Qed.

(* the traversal terminates: the fuel [load] gives the loop (number of offsets of the file + 2) never runs out,
   every iteration consuming a distinct offset, and any larger fuel gives the same answer *)
Theorem C04_chain_terminates : forall p, load p <> OutFuel.
Proof. exact load_no_fuel. Qed.

Theorem C04_chain_fuel_independent : forall p k, load_fuel (S (S (len (p_file p))) + k) p = load p.
Proof. exact load_fuel_indep. Qed.

Print Assumptions C04_merge_newest_first.
Print Assumptions C04_merge_lookup.
Print Assumptions C04_except_known.
Print Assumptions C04_except_known_nonvacuous.
Print Assumptions C04_resolve_refuted_stale_member.
Print Assumptions C04_xref_stream_id_fixed.
Print Assumptions C04_prev_cycle.
Print Assumptions C04_prev_oob.
Print Assumptions C04_chain_terminates.
Print Assumptions C04_chain_fuel_independent.
