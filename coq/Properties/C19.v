(* Properties/C19.v — binary integer parsers decode exactly the bytes under the cursor.
   Only statements, each closed by [exact] of a lemma from Proofs/, with Print Assumptions.
   k = log2(width): 0 ↦ UInt8P/Int8P, 1 ↦ 16-bit, 2 ↦ 32-bit, 3 ↦ 64-bit; both byte orders. *)
From PV Require Import Model.Bin Proofs.Bin.

(* success: the value denoted by the next [width k] bytes, span [c, c+width), cursor advanced by width *)
Theorem C19_uint_ok : forall k e s c,
  wfb s -> c + width k <= len s ->
  uN k e s c = POk (val e (sub s c (c + width k)), c, c + width k) (c + width k).
Proof. exact uN_ok. Qed.

(* too few bytes: EndOfBuffer and the cursor does not move *)
Theorem C19_uint_short : forall k e s c,
  wfb s -> len s < c + width k -> uN k e s c = PErr EEndOfBuffer c.
Proof. exact uN_short. Qed.

Theorem C19_int_ok : forall k e s c,
  wfb s -> c + width k <= len s ->
  iN k e s c = POk (sval e (sub s c (c + width k)), c, c + width k) (c + width k).
Proof. exact iN_ok. Qed.

Theorem C19_int_short : forall k e s c,
  wfb s -> len s < c + width k -> iN k e s c = PErr EEndOfBuffer c.
Proof. exact iN_short. Qed.

Theorem C19_bytevec_ok : forall n s c,
  c + n <= len s -> bytevec n s c = POk (sub s c (c + n), c, c + n) (c + n).
Proof. exact bytevec_ok. Qed.

Theorem C19_bytevec_short : forall n s c,
  c <= len s -> len s < c + n -> bytevec n s c = PErr EEndOfBuffer c.
Proof. exact bytevec_short. Qed.

(* ByteVecP with ANY usize length (usize::MAX included): too long => EndOfBuffer with the cursor unmoved *)
Theorem C19_bytevec_any_length : forall n s c,
  c <= len s ->
  bytevecN n s c = if (N.of_nat (len s - c) <? n)%N then PErr EEndOfBuffer c
                   else POk (sub s c (c + N.to_nat n), c, c + N.to_nat n) (c + N.to_nat n).
Proof. exact bytevecN_spec. Qed.

(* no assertion / overflow is reachable *)
Theorem C19_no_panic : forall k e s c, wfb s -> uN k e s c <> PPanic /\ uN k e s c <> PFuel.
Proof. exact uN_no_panic. Qed.

Print Assumptions C19_uint_ok.
Print Assumptions C19_uint_short.
Print Assumptions C19_int_ok.
Print Assumptions C19_int_short.
Print Assumptions C19_bytevec_ok.
Print Assumptions C19_bytevec_short.
Print Assumptions C19_no_panic.
Print Assumptions C19_bytevec_any_length.
