(* Properties/C12.v — text extraction follows the content-stream state diagram (Figure 9, ISO 32000-1).
   Model: Model/Content.v (loop of TextExtractor::parse_internal over the token list) with gen/OpTable.v (the
   OPERATORS table) and gen/Trans.v (the transition match) TRANSLATED from the Rust sources on every run.
   Spec: Spec/Fig9.v (Table 51, Figure 9, Table 109, documented separator tokens), written by hand. *)
From PV Require Import Model.ContentLex Spec.ContentSpelling Proofs.ObjSpell Proofs.Content Proofs.ContentLex Proofs.ContentLexTotal
     Proofs.ContentLexRender.

(* the sweep: for each of the 5 levels and each operator name of the implementation's table (73) or of Table 51
   (73): the translated match equals Figure 9, known-ness agrees, and the operand-handling arm and arity are
   those of the operator's name — computed by the kernel (vm_compute) *)
Theorem C12_table_sweep :
  forallb name_check all_names = true /\ len all_state = 5 /\ len operators = 73 /\ len op_names = 73.
Proof. split; [exact table_check_ok | exact sweep_size]. Qed.
Print Assumptions C12_table_sweep.

(* … lifted to EVERY level and EVERY operator name (byte string): the implementation permits an operator at a
   level iff Figure 9 does, and moves to the same level *)
Theorem C12_table : forall (s : state) (n : bytes),
  option_map st_of (impl_next s n) = fig9 (st_of s) n.
Proof. exact table_all. Qed.
Print Assumptions C12_table.

Theorem C12_known_operators : forall n : bytes, op_lookup n = None <-> class_of n = None.
Proof. exact known_iff. Qed.
Print Assumptions C12_known_operators.

(* every legal walk of the diagram (the empty stream included) — operators in a permitted order, operands of the text-showing
   operators as in Table 109, any operands elsewhere, unknown operators only inside BX … EX (nested) — is
   accepted and yields exactly the string operands of Tj, quote, double-quote, TJ in order, byte for byte, with a Space for
   BT, ET, Td, TD, T* and before the string of the quote operators *)
Theorem C12_extract : forall items : list item,
  wf_items items = true -> legal_walk items = true ->
  Content.extract (flatten items) = Ok (tokens_spec items).
Proof. exact extract_legal. Qed.
Print Assumptions C12_extract.

(* every stream that, after a legal prefix, uses an operator the current level does not permit, an unknown
   operator outside BX … EX, or a text-showing operator with the wrong number or kind of operands is rejected *)
Theorem C12_reject : forall items : list item,
  wf_items items = true -> illegal items = true -> exists k, Content.extract (flatten items) = Err k.
Proof. exact extract_illegal. Qed.
Print Assumptions C12_reject.

(* the same two statements for the observation TextExtractor::new(ctxt, id).parse(bytes): whenever the lexer
   (CSObjP, modelled by cs_lex on top of Model/Prim.v and Model/Obj.v) reads the bytes as the tokens of a stream
   of operator applications.  [rel] = release profile, [maxd] = the context's recursion bound. *)
Theorem C12_extract_bytes : forall (rel : bool) (maxd : nat) (s : bytes) (items : list item),
  cs_lex rel maxd s = Ok (flatten items) ->
  wf_items items = true -> legal_walk items = true ->
  extract_bytes rel maxd s = Ok (tokens_spec items).
Proof. exact extract_bytes_legal. Qed.
Print Assumptions C12_extract_bytes.

Theorem C12_reject_bytes : forall (rel : bool) (maxd : nat) (s : bytes) (items : list item),
  cs_lex rel maxd s = Ok (flatten items) ->
  wf_items items = true -> illegal items = true ->
  exists k, extract_bytes rel maxd s = Err k.
Proof. exact extract_bytes_illegal. Qed.
Print Assumptions C12_reject_bytes.

(* THE LEXER ROUND TRIP — C12 end to end on bytes.  [spells_cs F maxd items s] (Spec/ContentSpelling.v): s is a
   spelling of the stream: any white space / comments between tokens; operands in any C02 spelling (Spec/Spelling.v:
   numbers without a leading '+', names with #hh escapes, literal strings balanced modulo backslash, hex strings,
   arrays and dictionaries to element depth maxd, true/false/null; no indirect reference as an operand); operators
   by name (regular ASCII bytes, no '#', not starting like a number, not a keyword); a token ending in a regular
   character is followed by white space, a delimiter or the end.  F = int_follow_sem, the look-ahead condition of
   C02 for integers INSIDE arrays / dictionaries (top-level integers need none: CSObjP has no reference look-ahead).
   2147483000: RawLiteralString counts parentheses in an i32. *)
Theorem C12_lex_render : forall (rel : bool) (maxd : nat) (items : list item) (s : bytes),
  spells_cs int_follow_sem maxd items s -> (Z.of_nat (len s) < 2147483000)%Z ->
  cs_lex rel maxd s = Ok (flatten items).
Proof. exact cs_lex_render. Qed.
Print Assumptions C12_lex_render.

Theorem C12_extract_bytes_rendered : forall (rel : bool) (maxd : nat) (items : list item) (s : bytes),
  wf_items items = true -> legal_walk items = true ->
  spells_cs int_follow_sem maxd items s -> (Z.of_nat (len s) < 2147483000)%Z ->
  extract_bytes rel maxd s = Ok (tokens_spec items).
Proof. exact extract_bytes_rendered. Qed.
Print Assumptions C12_extract_bytes_rendered.

Theorem C12_reject_bytes_rendered : forall (rel : bool) (maxd : nat) (items : list item) (s : bytes),
  wf_items items = true -> illegal items = true ->
  spells_cs int_follow_sem maxd items s -> (Z.of_nat (len s) < 2147483000)%Z ->
  exists k, extract_bytes rel maxd s = Err k.
Proof. exact reject_bytes_rendered. Qed.
Print Assumptions C12_reject_bytes_rendered.

(* OperatorP on a spelled operator name *)
Theorem C12_operator_spelling : forall (n : bytes) (pre rest : bytes),
  n <> [] -> forallb op_byte n = true -> term_stop rest ->
  operator (pre ++ n ++ rest) (len pre) = POk (n, len pre, len pre + len n) (len pre + len n).
Proof. exact operator_spec. Qed.
Print Assumptions C12_operator_spelling.

(* the hypotheses are satisfiable:  BT (Hi)Tj%c<LF>ET  *)
Example C12_render_example :
  let items := [IOp [] (B "BT"); IOp [OStr (B "Hi")] (B "Tj"); IOp [] (B "ET")] in
  let s := B "BT" ++ B " " ++ B "(Hi)" ++ B "Tj" ++ (37%N :: B "c" ++ [10%N]) ++ B "ET" in
  spells_cs int_follow_sem 50 items s /\ wf_items items = true /\ legal_walk items = true /\
  (Z.of_nat (len s) < 2147483000)%Z.
Proof. exact render_example. Qed.

(* totality (used by the C01 composition): the byte-level extractor neither panics nor runs out of model fuel on
   any buffer below 2^31 bytes (the i32 parenthesis depth of RawLiteralString is the only unchecked arithmetic;
   the fuel S (len s) of the token loop and of the array / dictionary loops suffices because every token
   consumes at least one byte); in the release profile on any buffer *)
Theorem C12_extract_bytes_total : forall (rel : bool) (maxd : nat) (s : bytes),
  (Z.of_nat (len s) < 2147483648)%Z ->
  extract_bytes rel maxd s <> Panic /\ extract_bytes rel maxd s <> Fuel.
Proof. exact extract_bytes_total. Qed.
Print Assumptions C12_extract_bytes_total.

Theorem C12_extract_bytes_total_release : forall (maxd : nat) (s : bytes),
  extract_bytes true maxd s <> Panic /\ extract_bytes true maxd s <> Fuel.
Proof. exact extract_bytes_total_release. Qed.
Print Assumptions C12_extract_bytes_total_release.

Theorem C12_extract_total : forall toks : list cstoken,
  Content.extract toks <> Panic /\ Content.extract toks <> Fuel.
Proof. exact extract_total. Qed.
Print Assumptions C12_extract_total.

(* the hypotheses are satisfiable *)
Example C12_lex_example :
  cs_lex false 50 (B "BT /F1 12 Tf%c" ++ [10%N] ++ B "(Hi)Tj[(a)-1.5<62>]TJ <</K 1>> x ET")
  = Ok [TOp (B "BT"); TObj (OName (B "F1")); TObj (OInt 12); TOp (B "Tf"); TObj (OStr (B "Hi")); TOp (B "Tj");
        TObj (OArr [OStr (B "a"); OReal (-15) 10; OStr (B "b")]); TOp (B "TJ");
        TObj (ODict [(B "K", OInt 1)]); TOp (B "x"); TOp (B "ET")].
Proof. exact lex_example. Qed.

Example C12_example :
  let items := [IOp [] (B "BT"); IOp [OName (B "F1"); OInt 12] (B "Tf"); IOp [OStr (B "Hi")] (B "Tj");
                IOp [OArr [OStr (B "a"); OInt (-120); OStr (B "b")]] (B "TJ"); IOp [] (B "BX"); IOp [ONull] (B "zz");
                IOp [] (B "EX"); IOp [OInt 1; OReal 5 10; OStr (B "q")] [34%N]; IOp [] (B "ET")] in
  legal_walk items = true /\ wf_items items = true /\
  Content.extract (flatten items) = Ok [Space; RawText (B "Hi"); RawText (B "a"); RawText (B "b"); Space; RawText (B "q"); Space].
Proof. exact legal_example. Qed.
