(* Properties/C14.v — object streams yield each object under its identifier (pinned code:
   refutation witnesses). *)
From PV Require Import Model.Prim Model.Obj Model.ObjStm.

Definition w_dict : dict := [(B "First", OInt 8); (B "N", OInt 2); (B "Type", OName (B "ObjStm"))].

(* header "5 0 6 6", data "11 22 33": object 6 is declared at offset 6 (the value 33) but is bound
   to 22, the value found where object 5 ended *)
Theorem C14_offsets_refuted :
  objstm_parse false 10 false w_dict (B "5 0 6 6 11 22 33") [] []
  = (OSOk [(5%N, OInt 11, 0, 2); (6%N, OInt 22, 3, 5)], [((5%N, 0%N), OInt 11); ((6%N, 0%N), OInt 22)]).
Proof. vm_compute. reflexivity. Qed.

(* identifier (6, 0) is already defined: the stream is rejected, but the old definition has been
   replaced by the stream's copy *)
Theorem C14_duplicate_refuted :
  let ctx := [((6%N, 0%N), OName (B "old"))] in
  exists ctx', objstm_parse false 10 false w_dict (B "5 0 6 3 11 22") [] ctx = (OSErr EGuard, ctx') /\
               lookup ctx (6%N, 0%N) = Some (OName (B "old")) /\ lookup ctx' (6%N, 0%N) = Some (OInt 22).
Proof. eexists. split; [vm_compute; reflexivity|]. split; reflexivity. Qed.

Print Assumptions C14_offsets_refuted.
Print Assumptions C14_duplicate_refuted.
