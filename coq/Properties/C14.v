(* Properties/C14.v — object streams yield each object under its identifier.
   Only statements, each closed by [exact] of a lemma from Proofs/, with Print Assumptions.
   Model: Model/ObjStm.v (pdf_streams.rs ObjStreamP as repaired in 681cda4, register_obj as
   repaired in f218988) over the object parser of Model/Obj.v; spec: Spec/ObjStmEnc.v. *)
From PV Require Import Model.Prim Model.Obj Model.ObjStm Spec.XrefEnc Spec.ObjStmEnc.
From PV Require Import Proofs.XrefBase Proofs.XrefTab Proofs.ObjStm Proofs.ObjStmTotal.

(* the stream as written: header pairs [l] (any white space, leading zeros), padding up to /First,
   then the data [body]; the members [ms] are the values the object parser reads at the declared
   offsets; nothing is assumed about the bytes between the end of a member and the next declared
   offset (gaps).  Extraction returns the members in header order under (id, 0) and defines them *)
Theorem C14_extract : forall rel b d l pad body ms ctx dec,
  let head := render_pairs l ++ pad in
  objstm_dict_ok d (N.of_nat (len l)) (N.of_nat (len head)) ->
  (N.of_nat (len l) < i64_lim)%N -> (N.of_nat (len head) < i64_lim)%N ->
  l <> [] -> wf_pairs true l -> increasing l -> pad_ok pad -> body <> [] ->
  List.map member_meta ms = pairs_meta l ->
  Forall (located rel b body) ms -> ordered 0 ms -> fresh ctx ms ->
  objstm_parse rel b false d (head ++ body) dec ctx = (OSOk (List.map member_ent ms), define ctx ms).
Proof. exact objstm_extract. Qed.

(* … where [define] binds every identifier to its value and touches nothing else *)
Theorem C14_binds : forall l ctx m, NoDup (List.map m_id l) -> In m l ->
  lookup (define ctx l) (m_id m, 0%N) = Some (m_val m).
Proof. exact define_binds. Qed.

Theorem C14_binds_only : forall l ctx id, (forall m, In m l -> (m_id m, 0%N) <> id) ->
  lookup (define ctx l) id = lookup ctx id.
Proof. exact define_other. Qed.

(* rejections.  Header: offsets not strictly increasing (after any good prefix of pairs) *)
Theorem C14_rejects_order : forall l fuel n s c last acc q r,
  at_cur s c (render_pairs l ++ render_pair q ++ r) ->
  wf_pairs (match acc with [] => true | _ => false end) (l ++ [q]) -> stops_digit r ->
  (acc = [] \/ match l with p :: _ => (last < hp_off p)%N | [] => True end) -> increasing l ->
  (N.of_nat (len acc + len l) < n)%N -> len l < fuel ->
  (match rev l with p :: _ => (hp_off q <= hp_off p)%N | [] => acc <> [] /\ (hp_off q <= last)%N end) ->
  exists c', os_meta fuel n s c last acc = PErr EGuard c'.
Proof. exact os_meta_not_increasing. Qed.

(* fewer than /N pairs before /First *)
Theorem C14_rejects_pairs : forall l n s pad,
  at_cur s 0 (render_pairs l ++ pad) -> wf_pairs true l -> increasing l ->
  all_in [32; 0; 9; 13; 10; 12]%N pad -> (N.of_nat (len l) < n)%N ->
  exists c', os_meta (S (len s)) n s 0 0%N [] = PErr EGuard c'.
Proof. exact os_meta_short. Qed.

(* a rejected header rejects the stream and leaves the context alone *)
Theorem C14_rejects_header : forall rel b d content dec ctx n first k c',
  os_dict_info d = Ok (n, first) -> stream_filters d = Ok [] -> (first <= N.of_nat (len content))%N ->
  os_meta (S (len (firstn (N.to_nat first) content))) n (firstn (N.to_nat first) content) 0 0%N [] = PErr k c' ->
  objstm_parse rel b false d content dec ctx = (OSErr k, ctx).
Proof. exact objstm_header_rejected. Qed.

(* /First at or beyond the end of the data *)
Theorem C14_rejects_first : forall rel b enc d content dec ctx n first,
  os_dict_info d = Ok (n, first) -> stream_filters d = Ok [] -> (N.of_nat (len content) <= first)%N ->
  exists k, objstm_parse rel b enc d content dec ctx = (OSErr k, ctx) \/
            objstm_parse rel b enc d content dec ctx = (OSPanic, ctx) \/
            objstm_parse rel b enc d content dec ctx = (OSFuel, ctx).
Proof. exact objstm_first_beyond. Qed.

(* a member that runs past the next declared offset (after any well-placed prefix) *)
Theorem C14_rejects_overrun : forall rel b s l m rest c ctx,
  Forall (located rel b s) l -> ordered c l -> fresh ctx l ->
  l <> [] -> (forall x, hd_error (rev l) = Some x -> m_off m < m_end x) ->
  fst (os_objs rel b (List.map member_meta l ++ member_meta m :: rest) s c ctx)
  = PErr EGuard (match rev l with [] => c | x :: _ => m_end x end).
Proof. exact os_objs_overrun. Qed.

(* a declared offset beyond the data: EndOfBuffer, nothing defined, no panic *)
Theorem C14_rejects_offset_beyond : forall rel b s onum ofs rest c ctx,
  c <= len s -> (N.of_nat (len s) < ofs)%N ->
  os_objs rel b ((onum, ofs) :: rest) s c ctx = (PErr EEndOfBuffer c, ctx).
Proof. exact os_objs_offset_beyond. Qed.

(* an identifier that is already defined — in the context or by an earlier member *)
Theorem C14_rejects_duplicate : forall rel b s l m rest c ctx o,
  Forall (located rel b s) l -> ordered c l -> fresh ctx l ->
  located rel b s m -> (match rev l with [] => c | x :: _ => m_end x end) <= m_off m ->
  lookup (define ctx l) (m_id m, 0%N) = Some o ->
  os_objs rel b (List.map member_meta l ++ member_meta m :: rest) s c ctx = (PErr EGuard (m_end m), define ctx l).
Proof. exact os_objs_duplicate. Qed.

(* … and, whatever the dictionary, the data and the outcome are, an identifier that was defined
   before the call keeps its definition (refuted on the pinned code: C14-duplicate-overwrites) *)
Theorem C14_ctx_monotone : forall rel b enc d content dec ctx id o,
  lookup ctx id = Some o -> lookup (snd (objstm_parse rel b enc d content dec ctx)) id = Some o.
Proof. exact objstm_monotone. Qed.

(* totality (C01): on ANY dictionary, content, decoder output and context the object-stream parser
   neither panics nor runs out of fuel — debug profile for buffers below 2^31 bytes (the i32
   parenthesis counter of literal strings, see C15/C02), release profile for any size *)
Theorem C14_total : forall rel b enc d content dec ctx,
  (Z.of_nat (len content) < 2147483648)%Z -> (Z.of_nat (len dec) < 2147483648)%Z ->
  fst (objstm_parse rel b enc d content dec ctx) <> OSPanic /\ fst (objstm_parse rel b enc d content dec ctx) <> OSFuel.
Proof. exact objstm_total. Qed.

Theorem C14_total_release : forall b enc d content dec ctx,
  fst (objstm_parse true b enc d content dec ctx) <> OSPanic /\ fst (objstm_parse true b enc d content dec ctx) <> OSFuel.
Proof. exact objstm_total_release. Qed.

(* the two witnesses of the pinned code's defects, on the repaired code *)
Definition w_dict : dict := [(B "First", OInt 8); (B "N", OInt 2); (B "Type", OName (B "ObjStm"))].

(* header "5 0 6 6", data "11 22 33": object 6 is the value at offset 6 (pinned code: 22) *)
Theorem C14_offsets_witness :
  objstm_parse false 10 false w_dict (B "5 0 6 6 11 22 33") [] []
  = (OSOk [(5%N, OInt 11, 0, 2); (6%N, OInt 33, 6, 8)], [((5%N, 0%N), OInt 11); ((6%N, 0%N), OInt 33)]).
Proof. vm_compute. reflexivity. Qed.

(* (6, 0) already defined: rejected and (pinned code: replaced by 22) still the old value *)
Theorem C14_duplicate_witness :
  let ctx := [((6%N, 0%N), OName (B "old"))] in
  exists ctx', objstm_parse false 10 false w_dict (B "5 0 6 3 11 22") [] ctx = (OSErr EGuard, ctx') /\
               lookup ctx' (6%N, 0%N) = Some (OName (B "old")).
Proof. eexists. split; [vm_compute; reflexivity|reflexivity]. Qed.

(* the hypotheses of C14_extract are satisfiable: the witness stream, with a gap ("22") *)
Example C14_extract_satisfiable :
  let l := [mk_hpair [] 5 1 [32%N] 0 1; mk_hpair [32%N] 6 1 [32%N] 6 1] in
  let ms := [mk_member 5 0 (OInt 11) 0 2; mk_member 6 6 (OInt 33) 6 8] in
  let body := B "11 22 33" in
  (render_pairs l ++ [32%N])%list = B "5 0 6 6 " /\
  wf_pairs true l /\ increasing l /\ pad_ok [32%N] /\ List.map member_meta ms = pairs_meta l /\
  Forall (located false 10 body) ms /\ ordered 0 ms /\ fresh [] ms.
Proof.
  cbv zeta. split; [reflexivity|]. split.
  { unfold wf_pairs, wf_pair, all_in, i64_lim. cbn.
    repeat split; try lia; try discriminate; try (repeat constructor; fail); auto; right; discriminate. }
  split; [cbn; lia|]. split; [reflexivity|]. split; [reflexivity|]. split.
  { repeat constructor; cbn; try lia; vm_compute; reflexivity. }
  split; [cbn; lia|]. split; [repeat constructor; cbn; intuition discriminate|].
  intros m [<-|[<-|[]]]; reflexivity.
Qed.

Print Assumptions C14_extract.
Print Assumptions C14_binds.
Print Assumptions C14_binds_only.
Print Assumptions C14_rejects_order.
Print Assumptions C14_rejects_pairs.
Print Assumptions C14_rejects_header.
Print Assumptions C14_rejects_first.
Print Assumptions C14_rejects_overrun.
Print Assumptions C14_rejects_offset_beyond.
Print Assumptions C14_rejects_duplicate.
Print Assumptions C14_ctx_monotone.
Print Assumptions C14_total.
Print Assumptions C14_total_release.
Print Assumptions C14_offsets_witness.
Print Assumptions C14_duplicate_witness.
