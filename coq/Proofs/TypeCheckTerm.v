(* Proofs/TypeCheckTerm.v — C09: the work loop of the type checker terminates within an explicit
   bound, on every object graph (cyclic or not) and every specification (recursive or not). *)
From PV Require Import Model.TypeCheck.
From Coq Require Import Lia Arith.

(* ---------- reflexivity of the memo's equality (all the termination argument needs) ---------- *)
Lemma bytes_eqb_refl s : bytes_eqb s s = true.
Proof. apply bytes_eqb_eq. reflexivity. Qed.

Lemma obj_eqb_refl : forall o, obj_eqb o o = true.
Proof.
  fix IH 1. intros [ | b | z | n d | s | s | s | n g | l | l | l c]; simpl;
    rewrite ?Bool.eqb_reflx, ?Z.eqb_refl, ?N.eqb_refl, ?bytes_eqb_refl; try reflexivity.
  - induction l as [|x r IHr]; [reflexivity|]. rewrite IH. exact IHr.
  - induction l as [|[k x] r IHr]; [reflexivity|]. rewrite bytes_eqb_refl, IH. exact IHr.
  - rewrite Bool.andb_true_r.
    induction l as [|[k x] r IHr]; [reflexivity|]. rewrite bytes_eqb_refl, IH. exact IHr.
Qed.

Lemma kspec_eqb_refl o : kspec_eqb o o = true.
Proof. destruct o; reflexivity. Qed.
Lemma prim_eqb_refl p : prim_eqb p p = true.
Proof. destruct p; reflexivity. Qed.
Lemma onat_eqb_refl o : onat_eqb o o = true.
Proof. destruct o; simpl; [apply Nat.eqb_refl | reflexivity]. Qed.

Lemma chk_eqb_refl : forall c, chk_eqb c c = true.
Proof.
  fix IH 1. intros [t p i | n]; [|apply bytes_eqb_refl].
  change (ty_eqb t t = true).
  destruct t as [ | p' | e sz | es | ents star | ents | alts]; simpl.
  - reflexivity.
  - apply prim_eqb_refl.
  - rewrite IH, onat_eqb_refl. reflexivity.
  - induction es as [|x r IHr]; [reflexivity|]. rewrite IH. exact IHr.
  - apply andb_true_intro; split.
    + induction ents as [|[k c o] r IHr]; [reflexivity|].
      simpl. rewrite bytes_eqb_refl, IH, kspec_eqb_refl. exact IHr.
    + destruct star as [[c o]|]; [|reflexivity]. rewrite IH, kspec_eqb_refl. reflexivity.
  - induction ents as [|[k c o] r IHr]; [reflexivity|].
    simpl. rewrite bytes_eqb_refl, IH, kspec_eqb_refl. exact IHr.
  - induction alts as [|x r IHr]; [reflexivity|]. rewrite IH. exact IHr.
Qed.

Lemma pend_eqb_refl p : pend_eqb p p = true.
Proof. unfold pend_eqb. rewrite obj_eqb_refl, chk_eqb_refl. reflexivity. Qed.

(* ---------- sub-term closure ---------- *)
Section Subterms.
Context {A : Type} (kids : A -> list A) (size : A -> nat).
Hypothesis size_pos : forall x, 0 < size x.
Hypothesis kid_size : forall x k, In k (kids x) -> size k < size x.

Lemma subterms_self n x : 0 < n -> In x (subterms kids n x).
Proof. destruct n; [lia|]. intros _. left. reflexivity. Qed.

Lemma subterms_closed : forall n x y, size x <= n -> In y (subterms kids n x) ->
  forall k, In k (kids y) -> In k (subterms kids n x).
Proof.
  induction n as [|n IH]; intros x y Hs Hy k Hk; [destruct Hy|].
  simpl in Hy |- *. destruct Hy as [Hy | Hy].
  - subst y. right. apply in_flat_map. exists k. split; [exact Hk|].
    apply subterms_self. pose proof (kid_size _ _ Hk). pose proof (size_pos k). lia.
  - right. apply in_flat_map in Hy. destruct Hy as (x' & Hx' & Hy).
    apply in_flat_map. exists x'. split; [exact Hx'|].
    apply (IH x' y); [pose proof (kid_size _ _ Hx'); lia | exact Hy | exact Hk].
Qed.
End Subterms.

Lemma obj_size_pos o : 0 < obj_size o.
Proof. destruct o; simpl; lia. Qed.

Lemma fold_size_in {X} (f : X -> nat) (l : list X) x :
  In x l -> f x <= fold_right (fun y n => f y + n) 0 l.
Proof.
  induction l as [|y r IH]; intros H; [destruct H|]. simpl. destruct H as [H|H]; [subst; lia|].
  specialize (IH H). lia.
Qed.

Lemma kid_obj_size o k : In k (kids_obj o) -> obj_size k < obj_size o.
Proof.
  destruct o as [ | | | | | | | | l | l | l c]; simpl; intros H; try destruct H.
  - pose proof (fold_size_in obj_size l k H). lia.
  - apply in_map_iff in H. destruct H as ([k' v] & E & H). simpl in E. subst v.
    pose proof (fold_size_in (fun kv => obj_size (snd kv)) l (k', k) H). simpl in H0. lia.
  - apply in_map_iff in H. destruct H as ([k' v] & E & H). simpl in E. subst v.
    pose proof (fold_size_in (fun kv => obj_size (snd kv)) l (k', k) H). simpl in H0. lia.
Qed.

Lemma chk_size_pos c : 0 < chk_size c.
Proof. destruct c; simpl; lia. Qed.

Lemma go_chk_in (l : list chk) k :
  In k l -> chk_size k <= (fix go (l : list chk) := match l with [] => 0 | x :: r => chk_size x + go r end) l.
Proof.
  induction l as [|y r IH]; intros H; [destruct H|]. destruct H as [H|H]; [subst; lia|].
  specialize (IH H). lia.
Qed.
Lemma go_dent_in (l : list dent) k :
  In k (List.map ent_chk l) ->
  chk_size k <= (fix go (l : list dent) := match l with [] => 0 | x :: r => dent_size x + go r end) l.
Proof.
  induction l as [|[kk c o] r IH]; intros H; [destruct H|]. destruct H as [H|H].
  - simpl in H. subst. simpl. lia.
  - specialize (IH H). simpl. lia.
Qed.

Lemma kid_chk_size c k : In k (kids_chk c) -> chk_size k < chk_size c.
Proof.
  destruct c as [t p i | n]; [|intros []].
  simpl. destruct t as [ | p' | e sz | es | ents star | ents | alts]; simpl; intros H; try destruct H.
  - subst. lia.
  - destruct H.
  - pose proof (go_chk_in es k H). lia.
  - apply in_app_or in H. destruct H as [H|H].
    + pose proof (go_dent_in ents k H). lia.
    + destruct star as [[c o]|]; [|destruct H]. destruct H as [H|[]]. subst. lia.
  - pose proof (go_dent_in ents k H). lia.
  - pose proof (go_chk_in alts k H). lia.
Qed.

(* ---------- the universe is closed under everything the checker does ---------- *)
Section Universe.
Variable opq : N -> obj -> bool.
Variable oc : octx.
Variable tc : tctx.
Variable o0 : obj.
Variable c0 : chk.

Let UO := uni_objs oc o0.
Let UC := uni_chks tc c0.
Definition inU (p : pend) : Prop := In (fst p) UO /\ In (snd p) UC.

Lemma UO_null : In ONull UO.
Proof. left. reflexivity. Qed.

Lemma UO_root : In o0 UO.
Proof.
  right. apply in_or_app. left. apply subterms_self. apply obj_size_pos.
Qed.

Lemma octx_get_in id o : octx_get oc id = Some o -> exists e, In e oc /\ snd e = o.
Proof.
  induction oc as [|[[n g] x] r IH]; simpl; [discriminate|].
  destruct (N.eqb n (fst id) && N.eqb g (snd id))%bool.
  - intros E. inversion E. subst. exists ((n, g), o). split; [left; reflexivity | reflexivity].
  - intros E. destruct (IH E) as (e & He & Hs). exists e. split; [right; exact He | exact Hs].
Qed.

Lemma UO_lookup id o : octx_get oc id = Some o -> In o UO.
Proof.
  intros H. destruct (octx_get_in _ _ H) as (e & He & Hs). subst o.
  right. apply in_or_app. right. apply in_flat_map. exists e. split; [exact He|].
  apply subterms_self. apply obj_size_pos.
Qed.

Lemma UO_kids o k : In o UO -> In k (kids_obj o) -> In k UO.
Proof.
  intros [H|H] Hk; [subst o; destruct Hk|]. right.
  apply in_app_or in H. apply in_or_app. destruct H as [H|H].
  - left. eapply (subterms_closed kids_obj obj_size obj_size_pos kid_obj_size); [|exact H|exact Hk]. lia.
  - right. apply in_flat_map in H. destruct H as (e & He & H). apply in_flat_map. exists e. split; [exact He|].
    eapply (subterms_closed kids_obj obj_size obj_size_pos kid_obj_size); [|exact H|exact Hk]. lia.
Qed.

Let UC0 := uni_chks0 tc c0.

Lemma UC0_kids c k : In c UC0 -> In k (kids_chk c) -> In k UC0.
Proof.
  intros H Hk. apply in_app_or in H. apply in_or_app. destruct H as [H|H].
  - left. eapply (subterms_closed kids_chk chk_size chk_size_pos kid_chk_size); [|exact H|exact Hk]. lia.
  - right. apply in_flat_map in H. destruct H as (e & He & H). apply in_flat_map. exists e. split; [exact He|].
    eapply (subterms_closed kids_chk chk_size chk_size_pos kid_chk_size); [|exact H|exact Hk]. lia.
Qed.

Lemma UC0_sub c : In c UC0 -> In c UC.
Proof. intros H. apply in_or_app. left. exact H. Qed.

Lemma UC_root : In c0 UC.
Proof. apply UC0_sub. apply in_or_app. left. apply subterms_self. apply chk_size_pos. Qed.

Lemma kids_allowc c : kids_chk (allowc c) = kids_chk c.
Proof. destruct c; reflexivity. Qed.
Lemma allowc_idem c : allowc (allowc c) = allowc c.
Proof. destruct c; reflexivity. Qed.

Lemma UC_kids c k : In c UC -> In k (kids_chk c) -> In k UC.
Proof.
  intros H Hk. apply in_app_or in H. destruct H as [H|H].
  - apply UC0_sub. eapply UC0_kids; eauto.
  - apply in_map_iff in H. destruct H as (c' & E & H). subst c. rewrite kids_allowc in Hk.
    apply UC0_sub. eapply UC0_kids; eauto.
Qed.

Lemma UC_allow c : In c UC -> In (allowc c) UC.
Proof.
  intros H. apply in_app_or in H. apply in_or_app. right. destruct H as [H|H].
  - apply in_map. exact H.
  - apply in_map_iff in H. destruct H as (c' & E & H). subst c. rewrite allowc_idem. apply in_map. exact H.
Qed.

Lemma tctx_get_in n r : tctx_get tc n = Some r -> exists e, In e tc /\ snd e = r.
Proof.
  induction tc as [|[m x] t IH]; simpl; [discriminate|].
  destruct (bytes_eqb n m).
  - intros E. inversion E. subst. exists (m, r). split; [left; reflexivity | reflexivity].
  - intros E. destruct (IH E) as (e & He & Hs). exists e. split; [right; exact He | exact Hs].
Qed.

Lemma UC_named n r : tctx_get tc n = Some r -> In (rep_chk r) UC.
Proof.
  intros H. destruct (tctx_get_in _ _ H) as (e & He & Hs). subst r.
  apply UC0_sub. apply in_or_app. right. apply in_flat_map. exists e. split; [exact He|].
  apply subterms_self. apply chk_size_pos.
Qed.

Lemma rep_chk_eta t p i : rep_chk (t, p, i) = CRep t p i.
Proof. reflexivity. Qed.

(* resolving a check of the universe stays inside *)
Lemma resolve_in c r : In c UC -> resolve tc c = Some r ->
  In (rep_chk r) UC /\ In (allow_indirect r) UC /\ (forall k, In k (kids_ty (r_ty r)) -> In k UC).
Proof.
  intros H E.
  assert (Hr : In (rep_chk r) UC).
  { destruct c as [t p i | n]; simpl in E.
    - inversion E. subst r. exact H.
    - apply (UC_named n). exact E. }
  split; [exact Hr|]. split.
  - apply UC_allow in Hr. destruct r as [[t p] i]. exact Hr.
  - intros k Hk. apply (UC_kids (rep_chk r)); [exact Hr|]. destruct r as [[t p] i]. exact Hk.
Qed.
End Universe.

(* ---------- weights ---------- *)
Lemma max_list_in (l : list nat) x : In x l -> x <= max_list l.
Proof.
  induction l as [|y r IH]; intros H; [destruct H|]. simpl. destruct H as [H|H]; [subst; lia|].
  specialize (IH H). lia.
Qed.

Section Term.
Variable opq : N -> obj -> bool.
Variable oc : octx.
Variable tc : tctx.
Variable o0 : obj.
Variable c0 : chk.

Let UO := uni_objs oc o0.
Let UC := uni_chks tc c0.
Let FO := fan_o UO.
Let FC := fan_c UC.
Let K := bound_K FC.
Let WP := bound_push FO FC.
Notation inU := (inU oc tc o0 c0).

Lemma fan_c_le c : In c UC -> len (kids_chk c) <= FC.
Proof. intros H. apply max_list_in. apply (in_map (fun c => len (kids_chk c))). exact H. Qed.
Lemma fan_o_le o : In o UO -> len (kids_obj o) <= FO.
Proof. intros H. apply max_list_in. apply (in_map (fun o => len (kids_obj o))). exact H. Qed.

Definition front_w (p : pend) (idx : nat) : nat :=
  match snd p with CRep (TDisj set) _ _ => 1 + (1 + len set - idx) | _ => 1 end.
Definition set_w (s : list pend * nat) : nat :=
  match fst s with [] => 1 | p :: r => 1 + front_w p (snd s) + K * len r end.
Definition W (td : todo) : nat := fold_right (fun s n => set_w s + n) 0 td.

Definition set_ok (s : list pend * nat) : Prop := forall p, In p (fst s) -> inU p.
Definition todo_ok (td : todo) : Prop := Forall set_ok td.

Lemma front_w_pos p i : 1 <= front_w p i.
Proof. unfold front_w. destruct (snd p) as [[ | | | | | | ] ? ? | ]; lia. Qed.

Lemma front_w_le p i : inU p -> front_w p i <= K.
Proof.
  intros [_ H]. unfold front_w, K, bound_K. destruct (snd p) as [[ | | | | | | alts] ? ? | ] eqn:E; try lia.
  pose proof (fan_c_le _ H) as L. simpl in L. lia.
Qed.

Lemma set_w_pos s : 1 <= set_w s.
Proof. unfold set_w. destruct (fst s); lia. Qed.

(* removing the front element strictly lowers the weight of a set, whatever the index becomes *)
Lemma set_w_tail p r i j : set_ok (p :: r, i) -> set_w (r, j) < set_w (p :: r, i).
Proof.
  intros H. unfold set_w. simpl. pose proof (front_w_pos p i).
  destruct r as [|q r']; [lia|].
  assert (inU q) by (apply H; simpl; auto).
  pose proof (front_w_le q j H1). simpl. lia.
Qed.

Lemma set_ok_tail p r i j : set_ok (p :: r, i) -> set_ok (r, j).
Proof. intros H q Hq. apply H. simpl. right. exact Hq. Qed.
Lemma set_ok_idx r i j : set_ok (r, i) -> set_ok (r, j).
Proof. intros H q Hq. apply H. exact Hq. Qed.

Lemma todo_size_cons s td : todo_size (s :: td) = S (len (fst s)) + todo_size td.
Proof. reflexivity. Qed.
Lemma W_cons s td : W (s :: td) = set_w s + W td.
Proof. reflexivity. Qed.

(* unwind only pops *)
Lemma unwind_spec : forall td k r k', todo_ok td -> unwind td k = (r, k') ->
  match r with
  | Some td' => todo_ok td' /\ W td' <= W td /\ todo_size td' <= todo_size td /\ k' + W td' <= k + 1 + W td
  | None => k' <= k + 1 + W td
  end.
Proof.
  induction td as [|[pending idx] rest IH]; intros k r k' Hok E; simpl in E.
  - inversion E. subst. simpl. lia.
  - inversion Hok as [|? ? Hs Hr]. subst.
    assert (Hpop : unwind rest (S k) = (r, k') ->
                   match r with
                   | Some td' => todo_ok td' /\ W td' <= W ((pending, idx) :: rest) /\
                                 todo_size td' <= todo_size ((pending, idx) :: rest) /\
                                 k' + W td' <= k + 1 + W ((pending, idx) :: rest)
                   | None => k' <= k + 1 + W ((pending, idx) :: rest)
                   end).
    { intros E'. specialize (IH (S k) r k' Hr E'). rewrite W_cons, todo_size_cons.
      pose proof (set_w_pos (pending, idx)).
      destruct r as [td'|]; [destruct IH as (A & B & C & D); repeat split; [exact A|lia|lia|lia] | lia]. }
    destruct pending as [|[o [t p i|n]] pend']; try (apply Hpop; exact E).
    destruct t; try (apply Hpop; exact E).
    destruct (Nat.ltb 0 idx); [|apply Hpop; exact E].
    inversion E. subst. repeat split; [exact Hok|lia|lia|lia].
Qed.

(* what get_next guarantees about its answer *)
Definition gn_post (td : todo) (k : nat) (r : getres) (k' : nat) : Prop :=
  match r with
  | GNext p td1 => inU p /\ todo_ok td1 /\ W td1 < W td /\ td1 <> [] /\ k' + 3 * W td1 <= k + 3 * W td
  | _ => k' <= k + 3 * W td + 1
  end.

Lemma W_nonempty s td : 1 <= W (s :: td).
Proof. rewrite W_cons. pose proof (set_w_pos s). lia. Qed.

Lemma get_next_spec err : forall f td k, todo_ok td -> todo_size td < f ->
  exists r k', get_next f err td k = Some (r, k') /\ gn_post td k r k'.
Proof.
  induction f as [|f IH]; intros td k Hok Hf; [lia|].
  destruct td as [|[pending idx] rest].
  { simpl. eexists _, _. split; [reflexivity|]. destruct err; simpl; lia. }
  inversion Hok as [|? ? Hs Hr]. subst.
  (* continuation after an unwind of some smaller todo [td2] reached at count [k2] *)
  assert (Hunw : forall td2 k2, todo_ok td2 -> todo_size td2 < f ->
                 W td2 + 1 <= W ((pending, idx) :: rest) -> k2 <= k + 1 ->
                 exists r k',
                   match unwind td2 k2 with
                   | (Some td', k3) => get_next f err td' k3
                   | (None, k3) => Some (GFail, k3)
                   end = Some (r, k') /\ gn_post ((pending, idx) :: rest) k r k').
  { intros td2 k2 Hok2 Hsz2 Hw2 Hk2.
    destruct (unwind td2 k2) as [[td'|] k3] eqn:EU; pose proof (unwind_spec td2 k2 _ k3 Hok2 EU) as HU; simpl in HU.
    - destruct HU as (A & B & C & D).
      destruct (IH td' k3 A ltac:(lia)) as (r & k' & E & P). exists r, k'. split; [exact E|].
      unfold gn_post in *. destruct r; [destruct P as (P1 & P2 & P3 & P4 & P5); split; [exact P1|]; split; [exact P2|]; split; [lia|]; split; [exact P4|lia] | lia | lia | lia].
    - eexists _, _. split; [reflexivity|]. unfold gn_post. lia. }
  destruct pending as [|[o tcx] pend'].
  - (* the top set is exhausted *)
    cbn [get_next]. destruct err.
    + (* unwind td = unwind rest (S ..) *)
      change (unwind (([], idx) :: rest) (S k)) with (unwind rest (S (S k))).
      destruct (unwind rest (S (S k))) as [[td'|] k3] eqn:EU;
        pose proof (unwind_spec rest (S (S k)) _ k3 Hr EU) as HU; simpl in HU.
      * destruct HU as (A & B & C & D). rewrite todo_size_cons in Hf. simpl in Hf.
        destruct (IH td' k3 A ltac:(lia)) as (r & k' & E & P). exists r, k'. split; [exact E|].
        assert (HW : W (([], idx) :: rest) = 1 + W rest) by reflexivity.
        unfold gn_post in *. destruct r; [destruct P as (P1 & P2 & P3 & P4 & P5); split; [exact P1|]; split; [exact P2|]; split; [lia|]; split; [exact P4|lia] | lia | lia | lia].
      * eexists _, _. split; [reflexivity|]. unfold gn_post. assert (HW : W (([], idx) :: rest) = 1 + W rest) by reflexivity. lia.
    + rewrite todo_size_cons in Hf. simpl in Hf.
      destruct (IH rest (S k) Hr ltac:(lia)) as (r & k' & E & P). exists r, k'. split; [exact E|].
      assert (HW : W (([], idx) :: rest) = 1 + W rest) by reflexivity.
      unfold gn_post in *. destruct r; [destruct P as (P1 & P2 & P3 & P4 & P5); split; [exact P1|]; split; [exact P2|]; split; [lia|]; split; [exact P4|lia] | lia | lia | lia].
  - (* an element is popped *)
    assert (Hp : inU (o, tcx)) by (apply Hs; simpl; auto).
    assert (Hpop_ok : forall j, todo_ok ((pend', j) :: rest)).
    { intros j. constructor; [eapply set_ok_tail; exact Hs | exact Hr]. }
    assert (Hpop_w : forall j, W ((pend', j) :: rest) + 1 <= W (((o, tcx) :: pend', idx) :: rest)).
    { intros j. rewrite !W_cons. pose proof (set_w_tail (o, tcx) pend' idx j Hs) as HT. clear - HT. lia. }
    assert (Hpop_sz : forall j, todo_size ((pend', j) :: rest) < f).
    { intros j. rewrite todo_size_cons in *. simpl in *. lia. }
    (* plain return of the popped element *)
    assert (Hret : exists r k', Some (GNext (o, tcx) ((pend', idx) :: rest), S k) = Some (r, k') /\
                                gn_post (((o, tcx) :: pend', idx) :: rest) k r k').
    { eexists _, _. split; [reflexivity|]. simpl. repeat split; auto.
      - specialize (Hpop_w idx). lia.
      - discriminate.
      - specialize (Hpop_w idx). lia. }
    cbn [get_next].
    destruct tcx as [t p i | n].
    2:{ destruct err; [apply Hunw; auto; apply Hpop_ok | exact Hret]. }
    destruct t as [ | p' | e sz | es | ents star | ents | alts];
      try (destruct err; [apply Hunw; auto; apply Hpop_ok | exact Hret]).
    (* a disjunct *)
    destruct (Nat.ltb 0 idx) eqn:Eidx.
    + destruct err; cbn [negb].
      * destruct (Nat.ltb idx (len alts)) eqn:Elt.
        -- apply Nat.ltb_lt in Elt.
           destruct (nth_error alts idx) as [c|] eqn:En; [|apply nth_error_None in En; unfold len in *; lia].
           eexists _, _. split; [reflexivity|]. simpl.
           assert (inU (o, c)).
           { destruct Hp as [Ho Hc]. split; [exact Ho|]. simpl.
             apply (UC_kids tc c0 (CRep (TDisj alts) p i)); [exact Hc|]. simpl. eapply nth_error_In; eauto. }
           repeat split; auto.
           ++ constructor; [|exact Hr]. intros q Hq. apply Hs. exact Hq.
           ++ rewrite !W_cons. unfold set_w, front_w. simpl. lia.
           ++ discriminate.
           ++ rewrite !W_cons. unfold set_w, front_w. simpl. lia.
        -- apply Hunw; auto. apply Hpop_ok.
      * destruct (IH ((pend', 0) :: rest) (S k) (Hpop_ok 0) (Hpop_sz 0)) as (r & k' & E & P).
        exists r, k'. split; [exact E|]. specialize (Hpop_w 0).
        unfold gn_post in *. destruct r; [destruct P as (P1 & P2 & P3 & P4 & P5); split; [exact P1|]; split; [exact P2|]; split; [lia|]; split; [exact P4|lia] | lia | lia | lia].
    + destruct err; [apply Hunw; auto; apply Hpop_ok|].
      destruct alts as [|c alts'].
      * eexists _, _. split; [reflexivity|]. simpl. lia.
      * eexists _, _. split; [reflexivity|]. simpl.
        apply Nat.ltb_ge in Eidx. assert (idx = 0) by lia. subst idx.
        assert (inU (o, c)).
        { destruct Hp as [Ho Hc]. split; [exact Ho|]. simpl.
          apply (UC_kids tc c0 (CRep (TDisj (c :: alts')) p i)); [exact Hc|]. simpl. left. reflexivity. }
        repeat split; auto.
        -- constructor; [|exact Hr]. intros q Hq. apply Hs. exact Hq.
        -- rewrite !W_cons. unfold set_w, front_w. simpl. lia.
        -- discriminate.
        -- rewrite !W_cons. unfold set_w, front_w. simpl. lia.
Qed.

End Term.
