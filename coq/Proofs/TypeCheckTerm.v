(* Proofs/TypeCheckTerm.v — C09: the work loop of the (repaired) type checker terminates within an
   explicit bound, on every object graph (cyclic or not) and every specification (recursive or not).

   Measure: (number of universe pairs not yet among the failed alternatives, number of universe
   pairs not on the trail of examined checks, weight of the pending stack), lexicographically,
   packed into one number [Phi].  The trail shrinks when an alternative of a disjunct fails
   (rollback), but then the failed alternative is new among the failed ones: it is the pair examined
   first under that alternative (invariant [stack_ok]), it is on the trail, and the trail and the
   failed alternatives are disjoint. *)
From PV Require Import Model.TypeCheck Proofs.TypeCheckEq Proofs.TypeCheckLoop.
From Coq Require Import Lia Arith.

(* ---------- sub-term closure ---------- *)
Section Subterms.
Context {A : Type} (kids : A -> list A) (size : A -> nat).
Hypothesis size_pos : forall x, 0 < size x.
Hypothesis kid_size : forall x k, In k (kids x) -> size k < size x.

Lemma subterms_self n x : 0 < n -> In x (subterms kids n x).
Proof. destruct n; [lia|]. intros _. left. reflexivity. Qed.

Lemma subterms_closed : forall n x y, size x <= n -> In y (subterms kids n x) ->
  forall k, In k (kids y) -> In k (subterms kids n x).
Proof.
  induction n as [|n IH]; intros x y Hs Hy k Hk; [destruct Hy|].
  simpl in Hy |- *. destruct Hy as [Hy | Hy].
  - subst y. right. apply in_flat_map. exists k. split; [exact Hk|].
    apply subterms_self. pose proof (kid_size _ _ Hk). pose proof (size_pos k). lia.
  - right. apply in_flat_map in Hy. destruct Hy as (x' & Hx' & Hy).
    apply in_flat_map. exists x'. split; [exact Hx'|].
    apply (IH x' y); [pose proof (kid_size _ _ Hx'); lia | exact Hy | exact Hk].
Qed.
End Subterms.

Lemma obj_size_pos o : 0 < obj_size o.
Proof. destruct o; simpl; lia. Qed.

Lemma fold_size_in {X} (f : X -> nat) (l : list X) x :
  In x l -> f x <= fold_right (fun y n => f y + n) 0 l.
Proof.
  induction l as [|y r IH]; intros H; [destruct H|]. simpl. destruct H as [H|H]; [subst; lia|].
  specialize (IH H). lia.
Qed.

Lemma kid_obj_size o k : In k (kids_obj o) -> obj_size k < obj_size o.
Proof.
  destruct o as [ | | | | | | | | l | l | l c]; simpl; intros H; try destruct H.
  - pose proof (fold_size_in obj_size l k H). lia.
  - apply in_map_iff in H. destruct H as ([k' v] & E & H). simpl in E. subst v.
    pose proof (fold_size_in (fun kv => obj_size (snd kv)) l (k', k) H). simpl in H0. lia.
  - apply in_map_iff in H. destruct H as ([k' v] & E & H). simpl in E. subst v.
    pose proof (fold_size_in (fun kv => obj_size (snd kv)) l (k', k) H). simpl in H0. lia.
Qed.

Lemma chk_size_pos c : 0 < chk_size c.
Proof. destruct c; simpl; lia. Qed.

Lemma go_chk_in (l : list chk) k :
  In k l -> chk_size k <= (fix go (l : list chk) := match l with [] => 0 | x :: r => chk_size x + go r end) l.
Proof.
  induction l as [|y r IH]; intros H; [destruct H|]. destruct H as [H|H]; [subst; lia|].
  specialize (IH H). lia.
Qed.
Lemma go_dent_in (l : list dent) k :
  In k (List.map ent_chk l) ->
  chk_size k <= (fix go (l : list dent) := match l with [] => 0 | x :: r => dent_size x + go r end) l.
Proof.
  induction l as [|[kk c o] r IH]; intros H; [destruct H|]. destruct H as [H|H].
  - simpl in H. subst. simpl. lia.
  - specialize (IH H). simpl. lia.
Qed.

Lemma kid_chk_size c k : In k (kids_chk c) -> chk_size k < chk_size c.
Proof.
  destruct c as [t p i | n]; [|intros []].
  simpl. destruct t as [ | p' | e sz | es | ents star | ents | alts]; simpl; intros H; try destruct H.
  - subst. lia.
  - destruct H.
  - pose proof (go_chk_in es k H). lia.
  - apply in_app_or in H. destruct H as [H|H].
    + pose proof (go_dent_in ents k H). lia.
    + destruct star as [[c o]|]; [|destruct H]. destruct H as [H|[]]. subst. lia.
  - pose proof (go_dent_in ents k H). lia.
  - pose proof (go_chk_in alts k H). lia.
Qed.

(* ---------- the universe is closed under everything the checker does ---------- *)
Section Universe.
Variable opq : N -> obj -> bool.
Variable oc : octx.
Variable tc : tctx.
Variable o0 : obj.
Variable c0 : chk.

Let UO := uni_objs oc o0.
Let UC := uni_chks tc c0.
Definition inU (p : pend) : Prop := In (fst p) UO /\ In (snd p) UC.

Lemma UO_null : In ONull UO.
Proof. left. reflexivity. Qed.

Lemma UO_root : In o0 UO.
Proof.
  right. apply in_or_app. left. apply subterms_self. apply obj_size_pos.
Qed.

Lemma octx_get_in id o : octx_get oc id = Some o -> exists e, In e oc /\ snd e = o.
Proof.
  induction oc as [|[[n g] x] r IH]; simpl; [discriminate|].
  destruct (N.eqb n (fst id) && N.eqb g (snd id))%bool.
  - intros E. inversion E. subst. exists ((n, g), o). split; [left; reflexivity | reflexivity].
  - intros E. destruct (IH E) as (e & He & Hs). exists e. split; [right; exact He | exact Hs].
Qed.

Lemma UO_lookup id o : octx_get oc id = Some o -> In o UO.
Proof.
  intros H. destruct (octx_get_in _ _ H) as (e & He & Hs). subst o.
  right. apply in_or_app. right. apply in_flat_map. exists e. split; [exact He|].
  apply subterms_self. apply obj_size_pos.
Qed.

Lemma UO_kids o k : In o UO -> In k (kids_obj o) -> In k UO.
Proof.
  intros [H|H] Hk; [subst o; destruct Hk|]. right.
  apply in_app_or in H. apply in_or_app. destruct H as [H|H].
  - left. eapply (subterms_closed kids_obj obj_size obj_size_pos kid_obj_size); [|exact H|exact Hk]. lia.
  - right. apply in_flat_map in H. destruct H as (e & He & H). apply in_flat_map. exists e. split; [exact He|].
    eapply (subterms_closed kids_obj obj_size obj_size_pos kid_obj_size); [|exact H|exact Hk]. lia.
Qed.

Let UC0 := uni_chks0 tc c0.

Lemma UC0_kids c k : In c UC0 -> In k (kids_chk c) -> In k UC0.
Proof.
  intros H Hk. apply in_app_or in H. apply in_or_app. destruct H as [H|H].
  - left. eapply (subterms_closed kids_chk chk_size chk_size_pos kid_chk_size); [|exact H|exact Hk]. lia.
  - right. apply in_flat_map in H. destruct H as (e & He & H). apply in_flat_map. exists e. split; [exact He|].
    eapply (subterms_closed kids_chk chk_size chk_size_pos kid_chk_size); [|exact H|exact Hk]. lia.
Qed.

(* the four parts of the universe of checks *)
Lemma UC_parts c : In c UC <->
  In c UC0 \/ (exists x, In x UC0 /\ c = allowc x) \/ (exists x, In x UC0 /\ c = ownc x) \/
  (exists x, In x UC0 /\ c = allowc (ownc x)).
Proof.
  unfold UC, uni_chks. fold UC0. rewrite !in_app_iff, !in_map_iff. split.
  - intros [H|[(x & E & H)|[(x & E & H)|(x & E & H)]]]; [left; exact H | right; left | right; right; left | right; right; right];
      exists x; split; auto.
  - intros [H|[(x & H & E)|[(x & H & E)|(x & H & E)]]]; [left; exact H | right; left | right; right; left | right; right; right];
      exists x; split; auto.
Qed.

Lemma UC0_sub c : In c UC0 -> In c UC.
Proof. intros H. apply UC_parts. left. exact H. Qed.

Lemma UC_root : In c0 UC.
Proof. apply UC0_sub. apply in_or_app. left. apply subterms_self. apply chk_size_pos. Qed.

Lemma kids_allowc c : kids_chk (allowc c) = kids_chk c.
Proof. destruct c; reflexivity. Qed.
Lemma allowc_idem c : allowc (allowc c) = allowc c.
Proof. destruct c; reflexivity. Qed.
Lemma kids_ownc c : kids_chk (ownc c) = [].
Proof. destruct c; reflexivity. Qed.
Lemma ownc_idem c : ownc (ownc c) = ownc c.
Proof. destruct c; reflexivity. Qed.
Lemma ownc_allowc c : ownc (allowc c) = allowc (ownc c).
Proof. destruct c; reflexivity. Qed.

Lemma UC_kids c k : In c UC -> In k (kids_chk c) -> In k UC.
Proof.
  intros H Hk. apply UC_parts in H. destruct H as [H|[(x & H & E)|[(x & H & E)|(x & H & E)]]]; subst.
  - apply UC0_sub. eapply UC0_kids; eauto.
  - rewrite kids_allowc in Hk. apply UC0_sub. eapply UC0_kids; eauto.
  - rewrite kids_ownc in Hk. destruct Hk.
  - rewrite kids_allowc, kids_ownc in Hk. destruct Hk.
Qed.

Lemma UC_allow c : In c UC -> In (allowc c) UC.
Proof.
  intros H. apply UC_parts in H. apply UC_parts.
  destruct H as [H|[(x & H & E)|[(x & H & E)|(x & H & E)]]]; subst.
  - right; left. exists c. auto.
  - right; left. exists x. rewrite allowc_idem. auto.
  - right; right; right. exists x. auto.
  - right; right; right. exists x. rewrite allowc_idem. auto.
Qed.

Lemma UC_own c : In c UC -> In (ownc c) UC.
Proof.
  intros H. apply UC_parts in H. apply UC_parts.
  destruct H as [H|[(x & H & E)|[(x & H & E)|(x & H & E)]]]; subst.
  - right; right; left. exists c. auto.
  - right; right; right. exists x. rewrite ownc_allowc. auto.
  - right; right; left. exists x. rewrite ownc_idem. auto.
  - right; right; right. exists x. rewrite ownc_allowc, ownc_idem. auto.
Qed.

Lemma tctx_get_in n r : tctx_get tc n = Some r -> exists e, In e tc /\ snd e = r.
Proof.
  induction tc as [|[m x] t IH]; simpl; [discriminate|].
  destruct (bytes_eqb n m).
  - intros E. inversion E. subst. exists (m, r). split; [left; reflexivity | reflexivity].
  - intros E. destruct (IH E) as (e & He & Hs). exists e. split; [right; exact He | exact Hs].
Qed.

Lemma UC_named n r : tctx_get tc n = Some r -> In (rep_chk r) UC.
Proof.
  intros H. destruct (tctx_get_in _ _ H) as (e & He & Hs). subst r.
  apply UC0_sub. apply in_or_app. right. apply in_flat_map. exists e. split; [exact He|].
  apply subterms_self. apply chk_size_pos.
Qed.

(* resolving a check of the universe stays inside *)
Lemma resolve_in c r : In c UC -> resolve tc c = Some r ->
  In (rep_chk r) UC /\ In (allow_indirect r) UC /\ (forall k, In k (kids_ty (r_ty r)) -> In k UC).
Proof.
  intros H E.
  assert (Hr : In (rep_chk r) UC).
  { destruct c as [t p i | n]; simpl in E.
    - inversion E. subst r. exact H.
    - apply (UC_named n). exact E. }
  split; [exact Hr|]. split.
  - apply UC_allow in Hr. destruct r as [[t p] i]. exact Hr.
  - intros k Hk. apply (UC_kids (rep_chk r)); [exact Hr|]. destruct r as [[t p] i]. exact Hk.
Qed.

(* the value of a reference is in the universe *)
Lemma lookup_value_in : forall f seen id o, lookup_value oc f seen id = Some o -> In o UO.
Proof.
  induction f as [|f IH]; intros seen id o E; simpl in E; [discriminate|].
  destruct (existsb (id_eqb id) seen); [discriminate|].
  destruct (octx_get oc id) as [x|] eqn:G; [|discriminate].
  destruct x; try solve [inversion E; subst; eapply UO_lookup; eauto].
  eapply IH. exact E.
Qed.

Lemma ref_value_in n g : In (ref_value oc n g) UO.
Proof.
  unfold ref_value. destruct (lookup_value oc _ [] (n, g)) as [o|] eqn:E; [eapply lookup_value_in; eauto | apply UO_null].
Qed.
End Universe.

(* ---------- small arithmetic / list facts ---------- *)
Lemma max_list_in (l : list nat) x : In x l -> x <= max_list l.
Proof.
  induction l as [|y r IH]; intros H; [destruct H|]. simpl. destruct H as [H|H]; [subst; lia|].
  specialize (IH H). lia.
Qed.

Lemma filter_len_le {X} (f : X -> bool) l : len (filter f l) <= len l.
Proof. unfold len. induction l as [|x r IH]; simpl; [lia|]. destruct (f x); simpl; lia. Qed.

Lemma filter_lt {X} (f g : X -> bool) l x :
  (forall y, g y = true -> f y = true) -> In x l -> f x = true -> g x = false ->
  len (filter g l) + 1 <= len (filter f l).
Proof.
  intros Hi Hx Hf Hg. unfold len. induction l as [|y r IH]; [destruct Hx|].
  simpl. destruct Hx as [Hx|Hx].
  - subst y. rewrite Hf, Hg. simpl.
    clear IH. induction r as [|z r IH]; simpl; [lia|].
    destruct (g z) eqn:Gz; [rewrite (Hi z Gz); simpl; lia | destruct (f z); simpl; lia].
  - specialize (IH Hx). destruct (g y) eqn:Gy; [rewrite (Hi y Gy); simpl; lia | destruct (f y); simpl; lia].
Qed.

Lemma filter_le {X} (f g : X -> bool) l :
  (forall y, g y = true -> f y = true) -> len (filter g l) <= len (filter f l).
Proof.
  intros Hi. unfold len. induction l as [|y r IH]; simpl; [lia|].
  destruct (g y) eqn:Gy; [rewrite (Hi y Gy); simpl; lia | destruct (f y); simpl; lia].
Qed.

(* ---------- trails ---------- *)
Definition trail_at (ex : list pend) (m : nat) : option pend := nth_error (rev ex) m.

Lemma trail_at_cons p ex m : m < len ex -> trail_at (p :: ex) m = trail_at ex m.
Proof.
  intros H. unfold trail_at. simpl. rewrite nth_error_app1; [reflexivity|]. rewrite rev_length. exact H.
Qed.
Lemma trail_at_new p ex : trail_at (p :: ex) (len ex) = Some p.
Proof.
  unfold trail_at. simpl. rewrite nth_error_app2; rewrite rev_length; [|unfold len; lia].
  unfold len. rewrite Nat.sub_diag. reflexivity.
Qed.
Lemma trail_at_in ex m q : trail_at ex m = Some q -> In q ex.
Proof. unfold trail_at. intros H. apply nth_error_In in H. apply in_rev. exact H. Qed.

Lemma rollback_len ex m : m <= len ex -> len (rollback ex m) = m.
Proof. intros H. unfold rollback, len in *. rewrite skipn_length. lia. Qed.
Lemma rollback_all ex m : len ex <= m -> rollback ex m = ex.
Proof. intros H. unfold rollback. replace (len ex - m) with 0 by lia. reflexivity. Qed.
Lemma rollback_in ex m e : In e (rollback ex m) -> In e ex.
Proof. unfold rollback. apply In_skipn. Qed.

Lemma rev_skipn {X} (l : list X) n : rev (skipn n l) = firstn (List.length l - n) (rev l).
Proof.
  revert n. induction l as [|x l IH]; intros n; [rewrite skipn_nil; destruct (0 - n); reflexivity|].
  destruct n as [|n]; simpl skipn.
  - rewrite Nat.sub_0_r. rewrite <- rev_length. rewrite firstn_all. reflexivity.
  - rewrite IH. simpl. rewrite firstn_app. rewrite rev_length.
    replace (List.length l - n - List.length l) with 0 by lia. simpl. rewrite app_nil_r. reflexivity.
Qed.

Lemma nth_error_firstn_lt {X} (l : list X) : forall n j, j < n -> nth_error (firstn n l) j = nth_error l j.
Proof.
  induction l as [|x l IH]; intros n j H; [rewrite firstn_nil; reflexivity|].
  destruct n; [lia|]. destruct j; [reflexivity|]. simpl. apply IH. lia.
Qed.

Lemma trail_at_rollback ex m j : m <= len ex -> j < m -> trail_at (rollback ex m) j = trail_at ex j.
Proof.
  intros Hm Hj. unfold trail_at, rollback. rewrite rev_skipn. unfold len in *.
  replace (List.length ex - (List.length ex - m)) with m by lia.
  apply nth_error_firstn_lt. exact Hj.
Qed.

Lemma NoDup_skipn {X} (l : list X) n : NoDup l -> NoDup (skipn n l).
Proof.
  revert n. induction l as [|x l IH]; intros n H; [rewrite skipn_nil; constructor|].
  destruct n; [exact H|]. simpl. apply IH. inversion H. assumption.
Qed.

(* the element at trail position m is not among the m older ones *)
Lemma trail_at_not_older ex m q : NoDup ex -> m <= len ex -> trail_at ex m = Some q -> ~ In q (rollback ex m).
Proof.
  intros ND Hm H Hin. unfold trail_at in H. unfold rollback in Hin.
  apply in_rev in Hin. rewrite rev_skipn in Hin. unfold len in *.
  replace (List.length ex - (List.length ex - m)) with m in Hin by lia.
  apply NoDup_rev in ND.
  assert (Hlt : m < List.length (rev ex)) by (apply nth_error_Some; congruence).
  apply (In_nth_error) in Hin. destruct Hin as (j & Hj).
  assert (j < m).
  { assert (nth_error (firstn m (rev ex)) j <> None) by congruence. apply nth_error_Some in H0.
    rewrite firstn_length in H0. lia. }
  rewrite nth_error_firstn_lt in Hj by exact H0.
  rewrite NoDup_nth_error in ND. specialize (ND j m ltac:(lia)). rewrite Hj, H in ND. specialize (ND eq_refl). lia.
Qed.

Lemma mul_step a b m : a + 1 <= b -> a * m + m <= b * m.
Proof. intros H. nia. Qed.

Section Term.
Variable opq : N -> obj -> bool.
Variable oc : octx.
Variable tc : tctx.
Variable o0 : obj.
Variable c0 : chk.

Let UO := uni_objs oc o0.
Let UC := uni_chks tc c0.
Let FO := fan_o UO.
Let FC := fan_c UC.
Let K := bound_K FC.
Let WP := bound_push FO FC.
Notation inU := (inU oc tc o0 c0).

Lemma fan_c_le c : In c UC -> len (kids_chk c) <= FC.
Proof. intros H. apply max_list_in. apply (in_map (fun c => len (kids_chk c))). exact H. Qed.
Lemma fan_o_le o : In o UO -> len (kids_obj o) <= FO.
Proof. intros H. apply max_list_in. apply (in_map (fun o => len (kids_obj o))). exact H. Qed.

(* ---------- weights ---------- *)
Definition wt (p : pend) : nat :=
  match snd p with CRep (TDisj set) _ _ => 3 + len set | _ => 1 end.
Definition front_w (p : pend) (idx : nat) : nat :=
  match snd p with
  | CRep (TDisj set) _ _ => if Nat.eqb idx 0 then 3 + len set else 1 + (1 + len set - idx)
  | _ => 1
  end.
Definition sumw (l : list pend) : nat := fold_right (fun p n => wt p + n) 0 l.
Definition set_w (s : pset) : nat :=
  match fst (fst s) with [] => 1 | p :: r => 1 + front_w p (snd (fst s)) + sumw r end.
Definition W (td : todo) : nat := fold_right (fun s n => set_w s + n) 0 td.

Definition set_ok (s : pset) : Prop := forall p, In p (fst (fst s)) -> inU p.
Definition todo_ok (td : todo) : Prop := Forall set_ok td.

Lemma front_w_pos p i : 1 <= front_w p i.
Proof. unfold front_w. destruct (snd p) as [[ | | | | | | ] ? ? | ]; try lia. destruct (Nat.eqb i 0); lia. Qed.
Lemma front_w_wt p i : front_w p i <= wt p.
Proof. unfold front_w, wt. destruct (snd p) as [[ | | | | | | ] ? ? | ]; try lia. destruct (Nat.eqb i 0); lia. Qed.
Lemma wt_le p : inU p -> wt p <= K.
Proof.
  intros [_ H]. unfold wt, K, bound_K. destruct (snd p) as [[ | | | | | | alts] ? ? | ] eqn:E; try lia.
  pose proof (fan_c_le _ H) as L. simpl in L. lia.
Qed.
Lemma sumw_le l : (forall p, In p l -> inU p) -> sumw l <= K * len l.
Proof.
  induction l as [|p r IH]; intros H; simpl; [lia|].
  pose proof (wt_le p (H p (or_introl eq_refl))). specialize (IH (fun q Hq => H q (or_intror Hq))).
  unfold len in *. simpl. lia.
Qed.
Lemma sumw_app a b : sumw (a ++ b) = sumw a + sumw b.
Proof. induction a as [|p r IH]; simpl; [reflexivity|]. rewrite IH. lia. Qed.

Lemma set_w_pos s : 1 <= set_w s.
Proof. unfold set_w. destruct (fst (fst s)); lia. Qed.

(* removing the front element strictly lowers the weight of a set, whatever index and mark become *)
Lemma set_w_tail p r i m j m' : set_w (r, j, m') < set_w (p :: r, i, m).
Proof.
  unfold set_w. simpl. pose proof (front_w_pos p i).
  destruct r as [|q r']; [lia|]. pose proof (front_w_wt q j). simpl. lia.
Qed.

Lemma todo_size_cons s td : todo_size (s :: td) = S (len (fst (fst s))) + todo_size td.
Proof. reflexivity. Qed.
Lemma W_cons s td : W (s :: td) = set_w s + W td.
Proof. reflexivity. Qed.
Lemma W_nonempty s td : 1 <= W (s :: td).
Proof. rewrite W_cons. pose proof (set_w_pos s). lia. Qed.

Lemma W_alt_step o alts p i pend' idx m rest : 1 <= idx -> idx < len alts ->
  W (((o, CRep (TDisj alts) p i) :: pend', S idx, m) :: rest) + 1 <= W (((o, CRep (TDisj alts) p i) :: pend', idx, m) :: rest).
Proof.
  intros H1 H. rewrite !W_cons. unfold set_w, front_w. cbn [fst snd].
  destruct idx; [lia|]. cbn [Nat.eqb]. lia.
Qed.

Lemma wt_own o p i : sumw (own_check o p i) <= 1.
Proof. unfold own_check. destruct p, i; simpl; lia. Qed.

Lemma W_open_step o alts p i pend' m m' rest :
  W (((o, CRep (TDisj alts) p i) :: own_check o p i ++ pend', 1, m') :: rest) + 1
  <= W (((o, CRep (TDisj alts) p i) :: pend', 0, m) :: rest).
Proof.
  rewrite !W_cons. unfold set_w, front_w. cbn [fst snd Nat.eqb]. rewrite sumw_app.
  pose proof (wt_own o p i). lia.
Qed.

(* ---------- the disjunct in progress in a pending set ---------- *)
Definition is_disj (p : pend) : bool :=
  match snd p with CRep (TDisj _) _ _ => true | _ => false end.
Fixpoint first_disj (l : list pend) : option (obj * list chk) :=
  match l with
  | [] => None
  | p :: r => match snd p with CRep (TDisj set) _ _ => Some (fst p, set) | _ => first_disj r end
  end.
Definition cur_alt (pending : list pend) (idx : nat) : option pend :=
  match first_disj pending with
  | Some (o, set) => match nth_error set (idx - 1) with Some a => Some (o, a) | None => None end
  | None => None
  end.
Definition front_disj (pending : list pend) : bool :=
  match pending with p :: _ => is_disj p | [] => false end.

Lemma first_disj_skip p r : is_disj p = false -> first_disj (p :: r) = first_disj r.
Proof. unfold is_disj. simpl. destruct (snd p) as [[ | | | | | | ] ? ? | ]; intros H; try reflexivity; discriminate. Qed.

Lemma cur_alt_skip p r idx : is_disj p = false -> cur_alt (p :: r) idx = cur_alt r idx.
Proof. intros H. unfold cur_alt. rewrite first_disj_skip by exact H. reflexivity. Qed.

(* ---------- the invariant on the stack ---------- *)
Definition ent_ok (ex : list pend) (b : nat) (e : pset) : Prop :=
  1 <= snd (fst e) ->
  snd e < b /\
  (forall q, cur_alt (fst (fst e)) (snd (fst e)) = Some q -> snd e < len ex -> trail_at ex (snd e) = Some q).
Definition sb (e : pset) (b : nat) : nat :=
  if Nat.eqb (snd (fst e)) 0 then b else Nat.min b (snd e).
Fixpoint stk_ok (ex : list pend) (b : nat) (td : todo) : Prop :=
  match td with
  | [] => True
  | e :: rest => ent_ok ex b e /\ stk_ok ex (sb e b) rest
  end.
Definition top_ok (ex : list pend) (td : todo) : Prop :=
  match td with
  | [] => True
  | e :: _ => 1 <= snd (fst e) -> front_disj (fst (fst e)) = false -> snd e < len ex
  end.
Definition stack_ok (ex : list pend) (td : todo) : Prop :=
  match td with
  | [] => True
  | e :: rest => ent_ok ex (S (len ex)) e /\ stk_ok ex (sb e (len ex)) rest
  end /\ top_ok ex td.

Definition Inv (td : todo) (ex fl : list pend) : Prop :=
  todo_ok td /\ NoDup ex /\ (forall e, In e ex -> ~ In e fl) /\ stack_ok ex td.

Lemma sb_le e b : sb e b <= b.
Proof. unfold sb. destruct (Nat.eqb (snd (fst e)) 0); lia. Qed.
Lemma sb_mono e b b' : b <= b' -> sb e b <= sb e b'.
Proof. unfold sb. destruct (Nat.eqb (snd (fst e)) 0); lia. Qed.

Lemma ent_ok_weaken ex b b' e : b <= b' -> ent_ok ex b e -> ent_ok ex b' e.
Proof. intros L H Hi. destruct (H Hi) as [A B]. split; [lia|exact B]. Qed.

Lemma stk_ok_weaken ex : forall td b b', b <= b' -> stk_ok ex b td -> stk_ok ex b' td.
Proof.
  induction td as [|e rest IH]; intros b b' L H; [exact I|]. destruct H as [A B]. split.
  - eapply ent_ok_weaken; eauto.
  - eapply IH; [|exact B]. apply sb_mono. exact L.
Qed.

(* popping the top set *)
Lemma stack_ok_pop ex e rest : stack_ok ex (e :: rest) -> stack_ok ex rest.
Proof.
  intros [[A B] T]. destruct rest as [|e' rest']; [split; exact I|].
  destruct B as [B1 B2]. pose proof (sb_le e (len ex)) as L. split; [split|].
  - eapply ent_ok_weaken; [|exact B1]. lia.
  - eapply stk_ok_weaken; [|exact B2]. apply sb_mono. exact L.
  - intros Hi _. destruct (B1 Hi) as [B1' _]. lia.
Qed.

Lemma Inv_pop e rest ex fl : Inv (e :: rest) ex fl -> Inv rest ex fl.
Proof.
  intros (A & B & C & D). split; [inversion A; assumption|]. split; [exact B|]. split; [exact C|].
  eapply stack_ok_pop; eauto.
Qed.

(* the trail grows by one check *)
Lemma stk_ok_cons p ex : forall td b, b <= len ex -> stk_ok ex b td -> stk_ok (p :: ex) b td.
Proof.
  induction td as [|e rest IH]; intros b L H; [exact I|]. destruct H as [A B]. split.
  - intros Hi. destruct (A Hi) as [A1 A2]. split; [exact A1|]. intros q Hq _.
    rewrite trail_at_cons by lia. apply A2; [exact Hq|lia].
  - apply IH; [pose proof (sb_le e b); lia | exact B].
Qed.

(* the trail is cut back to [m] *)
Lemma stk_ok_rollback ex m : forall td b, b <= m -> m <= len ex -> stk_ok ex b td -> stk_ok (rollback ex m) b td.
Proof.
  induction td as [|e rest IH]; intros b L Hm H; [exact I|]. destruct H as [A B]. split.
  - intros Hi. destruct (A Hi) as [A1 A2]. split; [exact A1|]. intros q Hq _.
    rewrite trail_at_rollback by lia. apply A2; [exact Hq|lia].
  - apply IH; [pose proof (sb_le e b); lia | exact Hm | exact B].
Qed.

Lemma todo_ok_cons s td : todo_ok (s :: td) <-> set_ok s /\ todo_ok td.
Proof. split; [intros H; inversion H; auto | intros [A B]; constructor; auto]. Qed.

(* ---------- transitions of get_next_check preserve the invariant ---------- *)
(* a non-disjunct front element is popped *)
Lemma Inv_pop_front p pend' idx mark rest ex fl :
  Inv ((p :: pend', idx, mark) :: rest) ex fl -> is_disj p = false ->
  Inv ((pend', idx, mark) :: rest) ex fl.
Proof.
  intros (A & B & C & [[D1 D2] T]) Hp. apply todo_ok_cons in A. destruct A as [A1 A2].
  split; [apply todo_ok_cons; split; [intros q Hq; apply A1; right; exact Hq | exact A2]|].
  split; [exact B|]. split; [exact C|].
  assert (Hlt : 1 <= idx -> mark < len ex).
  { intros Hi. apply T; [exact Hi|]. simpl. exact Hp. }
  split; [split|].
  - intros Hi. destruct (D1 Hi) as [E1 E2]. split; [exact E1|].
    intros q Hq Hl. apply E2; [|exact Hl]. cbn [fst snd] in *. rewrite cur_alt_skip by exact Hp. exact Hq.
  - exact D2.
  - intros Hi _. apply Hlt. exact Hi.
Qed.

(* the front element is popped and the index reset (a finished or never started disjunct) *)
Lemma Inv_pop_reset p pend' idx mark mark' rest ex fl :
  Inv ((p :: pend', idx, mark) :: rest) ex fl -> Inv ((pend', 0, mark') :: rest) ex fl.
Proof.
  intros (A & B & C & [[D1 D2] T]). apply todo_ok_cons in A. destruct A as [A1 A2].
  split; [apply todo_ok_cons; split; [intros q Hq; apply A1; right; exact Hq | exact A2]|].
  split; [exact B|]. split; [exact C|]. split; [split|].
  - intros Hi. simpl in Hi. lia.
  - eapply stk_ok_weaken; [|exact D2]. unfold sb. simpl. destruct (Nat.eqb idx 0); lia.
  - intros Hi. simpl in Hi. lia.
Qed.

Lemma own_check_in o p i q : In q (own_check o p i) -> q = (o, CRep TAny p i).
Proof. unfold own_check. destruct p, i; simpl; intros H; try destruct H as [H|[]]; try (symmetry; exact H); destruct H. Qed.

(* a disjunct is taken up *)
Lemma Inv_open o set p i pend' mark rest ex fl :
  Inv (((o, CRep (TDisj set) p i) :: pend', 0, mark) :: rest) ex fl ->
  Inv (((o, CRep (TDisj set) p i) :: own_check o p i ++ pend', 1, len ex) :: rest) ex fl.
Proof.
  intros (A & B & C & [[D1 D2] T]). apply todo_ok_cons in A. destruct A as [A1 A2].
  split.
  { apply todo_ok_cons. split; [|exact A2]. intros q [Hq|Hq]; [apply A1; left; exact Hq|].
    apply in_app_or in Hq. destruct Hq as [Hq|Hq]; [|apply A1; right; exact Hq].
    apply own_check_in in Hq. subst q.
    assert (HD : inU (o, CRep (TDisj set) p i)) by (apply A1; left; reflexivity).
    destruct HD as [HD1 HD2]. split; [exact HD1|]. simpl in *.
    apply (UC_own tc c0) in HD2. exact HD2. }
  split; [exact B|]. split; [exact C|]. split; [split|].
  - intros _. simpl. split; [lia|]. intros q _ Hl. lia.
  - unfold sb in *. simpl in *. rewrite Nat.min_id. exact D2.
  - intros _ Hf. simpl in Hf. discriminate.
Qed.

(* an alternative of the disjunct in progress has failed *)
Lemma Inv_fail o set p i pend' idx mark rest ex fl a :
  Inv (((o, CRep (TDisj set) p i) :: pend', idx, mark) :: rest) ex fl ->
  1 <= idx -> nth_error set (idx - 1) = Some a ->
  (len ex = mark -> In (o, a) fl) ->
  let ex' := rollback ex mark in
  let fl' := (o, a) :: fl in
  len ex' = mark /\ NoDup ex' /\ (forall e, In e ex' -> ~ In e fl') /\ stk_ok ex' mark rest /\
  inU (o, a) /\ (mark < len ex -> ~ In (o, a) fl).
Proof.
  intros (A & B & C & [[D1 D2] T]) Hi Ha He ex' fl'. apply todo_ok_cons in A. destruct A as [A1 A2].
  destruct (D1 Hi) as [E1 E2]. cbn [fst snd] in E1, E2.
  assert (Hq : cur_alt ((o, CRep (TDisj set) p i) :: pend') idx = Some (o, a)).
  { unfold cur_alt. simpl. rewrite Ha. reflexivity. }
  assert (Hm : mark <= len ex) by lia.
  split; [apply rollback_len; exact Hm|].
  split; [apply NoDup_skipn; exact B|].
  assert (HU : inU (o, a)).
  { assert (HD : inU (o, CRep (TDisj set) p i)) by (apply A1; left; reflexivity).
    destruct HD as [HD1 HD2]. split; [exact HD1|]. simpl in *.
    apply (UC_kids tc c0 _ a HD2). simpl. eapply nth_error_In; eauto. }
  assert (HN : mark < len ex -> ~ In (o, a) fl).
  { intros Hl. apply C. eapply trail_at_in. apply E2; [exact Hq|exact Hl]. }
  split; [|split; [|split; [exact HU|exact HN]]].
  - intros e Hin [Heq|Hfl].
    + subst e. destruct (Nat.eq_dec (len ex) mark) as [Hl|Hl].
      * apply (C (o, a)); [eapply rollback_in; eauto | apply He; exact Hl].
      * apply (trail_at_not_older ex mark (o, a) B Hm); [apply E2; [exact Hq|lia] | exact Hin].
    + apply (C e); [eapply rollback_in; eauto | exact Hfl].
  - apply stk_ok_rollback; [lia | exact Hm |].
    eapply stk_ok_weaken; [|exact D2]. unfold sb. simpl.
    destruct idx; [lia|]. simpl. lia.
Qed.


(* ---------- unwind only pops ---------- *)
Definition lt_top (ex : list pend) (td : todo) : Prop :=
  match td with [] => True | e :: _ => 1 <= snd (fst e) -> snd e < len ex end.

Lemma unwind_spec : forall td k r k', unwind td k = (r, k') ->
  match r with
  | Some td' => (exists pre, td = pre ++ td') /\ W td' <= W td /\ todo_size td' <= todo_size td /\
                k' + W td' <= k + 1 + W td
  | None => k' <= k + 1 + W td
  end.
Proof.
  induction td as [|[[pending idx] mark] rest IH]; intros k r k' E; simpl in E.
  - inversion E. subst. simpl. lia.
  - assert (Hpop : unwind rest (S k) = (r, k') ->
                   match r with
                   | Some td' => (exists pre, (pending, idx, mark) :: rest = pre ++ td') /\
                                 W td' <= W ((pending, idx, mark) :: rest) /\
                                 todo_size td' <= todo_size ((pending, idx, mark) :: rest) /\
                                 k' + W td' <= k + 1 + W ((pending, idx, mark) :: rest)
                   | None => k' <= k + 1 + W ((pending, idx, mark) :: rest)
                   end).
    { intros E'. specialize (IH (S k) r k' E'). rewrite W_cons, todo_size_cons.
      pose proof (set_w_pos (pending, idx, mark)).
      destruct r as [td'|]; [|lia]. destruct IH as ((pre & Hpre) & B & C & D).
      split; [exists ((pending, idx, mark) :: pre); rewrite Hpre; reflexivity|]. lia. }
    destruct pending as [|[o [t p i|n]] pend']; try (apply Hpop; exact E).
    destruct t; try (apply Hpop; exact E).
    destruct (Nat.ltb 0 idx); [|apply Hpop; exact E].
    inversion E. subst. split; [exists []; reflexivity|]. lia.
Qed.

Lemma Inv_suffix pre : forall td' ex fl, Inv (pre ++ td') ex fl -> Inv td' ex fl.
Proof.
  induction pre as [|e pre IH]; intros td' ex fl H; [exact H|]. apply IH. eapply Inv_pop. exact H.
Qed.

(* below the top set every disjunct in progress was taken up strictly before the end of the trail *)
Lemma stk_lt_top ex : forall td b, stk_ok ex b td -> b <= len ex ->
  forall pre td', td = pre ++ td' -> lt_top ex td'.
Proof.
  induction td as [|e rest IH]; intros b H L pre td' E.
  - destruct pre; [|discriminate]. simpl in E. subst. exact I.
  - destruct H as [A B]. destruct pre as [|e' pre].
    + simpl in E. subst td'. intros Hi. destruct (A Hi). lia.
    + simpl in E. injection E as E1 E2. eapply IH; [exact B | pose proof (sb_le e b); lia | exact E2].
Qed.

(* ---------- the measure ---------- *)
Definition UP : list pend := list_prod UO UC.
Definition uncov (l : list pend) : nat := len (filter (fun u => negb (have_examined l u)) UP).
Definition PP : nat := len UP.
Definition M1 : nat := WP + 1.
Definition M2 : nat := PP * M1 + 1.
Definition Phi (td : todo) (ex fl : list pend) : nat := uncov fl * M2 + uncov ex * M1 + W td.

Lemma inU_UP p : inU p -> In p UP.
Proof. destruct p as [o c]. intros [A B]. apply in_prod; assumption. Qed.

Lemma uncov_le l : uncov l <= PP.
Proof. apply filter_len_le. Qed.

Lemma have_examined_cons p l u : have_examined (p :: l) u = (pend_eqb u p || have_examined l u)%bool.
Proof. reflexivity. Qed.

Lemma uncov_cons_le p l : uncov (p :: l) <= uncov l.
Proof.
  apply filter_le. intros y. rewrite have_examined_cons. destruct (pend_eqb y p); simpl; [discriminate|auto].
Qed.

Lemma uncov_cons_lt p l : inU p -> ~ In p l -> uncov (p :: l) + 1 <= uncov l.
Proof.
  intros Hp Hn. unfold uncov. apply (filter_lt _ _ UP p).
  - intros y. rewrite have_examined_cons. destruct (pend_eqb y p); simpl; [discriminate|auto].
  - apply inU_UP. exact Hp.
  - apply have_examined_not_in in Hn. rewrite Hn. reflexivity.
  - rewrite have_examined_cons, pend_eqb_refl. reflexivity.
Qed.

(* a new failed alternative pays for any rollback of the trail *)
Lemma Phi_fail_new td td' ex ex' fl q : inU q -> ~ In q fl -> W td' <= W td ->
  Phi td' ex' (q :: fl) + 1 + (W td - W td') <= Phi td ex fl.
Proof.
  intros Hq Hn Hw. unfold Phi.
  pose proof (uncov_cons_lt q fl Hq Hn) as HF. pose proof (mul_step _ _ M2 HF) as HM.
  pose proof (uncov_le ex') as HE. assert (uncov ex' * M1 <= PP * M1) by (apply Nat.mul_le_mono_r; exact HE).
  unfold M2 in *. lia.
Qed.

(* a failed alternative that was already known leaves the trail alone *)
Lemma Phi_fail_old td td' ex fl q : W td' <= W td ->
  Phi td' ex (q :: fl) + (W td - W td') <= Phi td ex fl.
Proof.
  intros Hw. unfold Phi. pose proof (uncov_cons_le q fl) as HF.
  assert (uncov (q :: fl) * M2 <= uncov fl * M2) by (apply Nat.mul_le_mono_r; exact HF). lia.
Qed.


(* ---------- get_next_check ---------- *)
(* an error is pending and nothing was examined under the current alternative: it is a known failure *)
Definition err_ok (td : todo) (ex fl : list pend) : Prop :=
  match td with
  | [] => True
  | e :: _ => 1 <= snd (fst e) -> forall q, cur_alt (fst (fst e)) (snd (fst e)) = Some q -> len ex = snd e -> In q fl
  end.
(* the check handed out is the current alternative when nothing was examined under it yet *)
Definition hand_ok (p : pend) (td : todo) (ex : list pend) : Prop :=
  match td with
  | [] => True
  | e :: _ => 1 <= snd (fst e) -> forall q, cur_alt (fst (fst e)) (snd (fst e)) = Some q -> len ex = snd e -> p = q
  end.

Lemma lt_top_err_ok td ex fl : lt_top ex td -> err_ok td ex fl.
Proof. destruct td as [|e r]; [intros; exact I|]. intros H Hi q _ Hl. specialize (H Hi). lia. Qed.
Lemma lt_top_hand_ok p td ex : lt_top ex td -> hand_ok p td ex.
Proof. destruct td as [|e r]; [intros; exact I|]. intros H Hi q _ Hl. specialize (H Hi). lia. Qed.

Definition gn_post (td : todo) (ex fl : list pend) (k : nat) (r : getres) (k' : nat) : Prop :=
  match r with
  | GNext p td1 ex1 fl1 =>
    inU p /\ Inv td1 ex1 fl1 /\ hand_ok p td1 ex1 /\ td1 <> [] /\
    Phi td1 ex1 fl1 + 1 <= Phi td ex fl /\ k' + 3 * Phi td1 ex1 fl1 <= k + 3 * Phi td ex fl
  | _ => k' <= k + 3 * Phi td ex fl + 1
  end.

Lemma Phi_W td td' ex fl : Phi td' ex fl + W td = Phi td ex fl + W td'.
Proof. unfold Phi. lia. Qed.

Lemma W_le_Phi td ex fl : W td <= Phi td ex fl.
Proof. unfold Phi. lia. Qed.

Lemma get_next_spec err : forall f td ex fl k, Inv td ex fl -> (err = true -> err_ok td ex fl) ->
  todo_size td < f ->
  exists r k', get_next f err td ex fl k = Some (r, k') /\ gn_post td ex fl k r k'.
Proof.
  induction f as [|f IH]; intros td ex fl k HI HE Hf; [lia|].
  destruct td as [|[[pending idx] mark] rest].
  { simpl. eexists _, _. split; [reflexivity|]. destruct err; simpl; lia. }
  set (td := (pending, idx, mark) :: rest) in *.
  (* continuing with a state that is not worse *)
  assert (Hcont : forall td2 ex2 fl2 k2, Inv td2 ex2 fl2 -> (err = true -> err_ok td2 ex2 fl2) ->
            todo_size td2 < f -> Phi td2 ex2 fl2 <= Phi td ex fl ->
            k2 + 3 * Phi td2 ex2 fl2 <= k + 3 * Phi td ex fl ->
            exists r k', get_next f err td2 ex2 fl2 k2 = Some (r, k') /\ gn_post td ex fl k r k').
  { intros td2 ex2 fl2 k2 I2 E2 S2 P2 K2.
    destruct (IH td2 ex2 fl2 k2 I2 E2 S2) as (r & k' & E & P). exists r, k'. split; [exact E|].
    unfold gn_post in *. destruct r; [|lia|lia|lia].
    destruct P as (P1 & P2' & P3 & P4 & P5 & P6). split; [exact P1|]. split; [exact P2'|].
    split; [exact P3|]. split; [exact P4|]. split; lia. }
  (* unwinding a state all of whose disjuncts in progress were taken up before the end of the trail *)
  assert (Hunw : forall td2 ex2 fl2 k2, Inv td2 ex2 fl2 ->
            (forall pre td', td2 = pre ++ td' -> lt_top ex2 td') ->
            todo_size td2 < f -> Phi td2 ex2 fl2 <= Phi td ex fl ->
            k2 + 1 + 3 * Phi td2 ex2 fl2 <= k + 3 * Phi td ex fl ->
            exists r k',
              match unwind td2 k2 with
              | (Some td', k3) => get_next f err td' ex2 fl2 k3
              | (None, k3) => Some (GFail, k3)
              end = Some (r, k') /\ gn_post td ex fl k r k').
  { intros td2 ex2 fl2 k2 I2 L2 S2 P2 K2.
    destruct (unwind td2 k2) as [[td'|] k3] eqn:EU; pose proof (unwind_spec td2 k2 _ k3 EU) as HU; cbv beta iota in HU.
    - destruct HU as ((pre & Hpre) & B & C & D).
      pose proof (Phi_W td2 td' ex2 fl2) as PW.
      apply Hcont.
      + eapply Inv_suffix. rewrite <- Hpre. exact I2.
      + intros _. apply lt_top_err_ok. eapply L2. exact Hpre.
      + lia.
      + lia.
      + lia.
    - pose proof (W_le_Phi td2 ex2 fl2). eexists _, _. split; [reflexivity|]. unfold gn_post. lia. }
  pose proof HI as HI'. destruct HI' as (HT & HN & HD & HS).
  destruct HS as [[HS1 HS2] HS3].
  assert (Hrest_lt : forall pre td', rest = pre ++ td' -> lt_top ex td').
  { intros pre td' E. eapply stk_lt_top; [exact HS2 | apply sb_le | exact E]. }
  destruct pending as [|[o tcx] pend'].
  - (* the top set is exhausted *)
    assert (HW : W td = 1 + W rest) by reflexivity.
    assert (HP : Phi rest ex fl + 1 = Phi td ex fl) by (unfold Phi; lia).
    cbn [get_next]. destruct err.
    + change (unwind (([], idx, mark) :: rest) (S k)) with (unwind rest (S (S k))).
      apply Hunw; [eapply Inv_pop; exact HI | exact Hrest_lt | | lia | lia].
      unfold td in Hf. rewrite todo_size_cons in Hf. simpl in Hf. lia.
    + apply Hcont; [eapply Inv_pop; exact HI | discriminate | | lia | lia].
      unfold td in Hf. rewrite todo_size_cons in Hf. simpl in Hf. lia.
  - (* an element is popped *)
    assert (Hp : inU (o, tcx)).
    { apply todo_ok_cons in HT. destruct HT as [HT1 _]. apply HT1. left. reflexivity. }
    assert (Hpop_w : forall j m, W ((pend', j, m) :: rest) + 1 <= W td).
    { intros j m. unfold td. rewrite !W_cons. pose proof (set_w_tail (o, tcx) pend' idx mark j m). unfold pset, pend in *. lia. }
    assert (Hpop_phi : forall j m, Phi ((pend', j, m) :: rest) ex fl + 1 <= Phi td ex fl).
    { intros j m. specialize (Hpop_w j m). unfold Phi. lia. }
    assert (Hpop_sz : forall j m, todo_size ((pend', j, m) :: rest) < f).
    { intros j m. unfold td in Hf. rewrite todo_size_cons in *. simpl in *. unfold len in *. simpl in Hf. lia. }
    assert (Hsuf : forall j m, (1 <= j -> m < len ex) ->
               forall pre td', (pend', j, m) :: rest = pre ++ td' -> lt_top ex td').
    { intros j m Hjm pre td' E. destruct pre as [|e' pre].
      - simpl in E. subst td'. exact Hjm.
      - simpl in E. injection E as _ E2. eapply Hrest_lt. exact E2. }
    (* the plain cases: the popped element is not a disjunct *)
    assert (Hplain : is_disj (o, tcx) = false ->
              exists r k',
                (if err
                 then match unwind ((pend', idx, mark) :: rest) (S k) with
                      | (Some td', k3) => get_next f err td' ex fl k3
                      | (None, k3) => Some (GFail, k3)
                      end
                 else Some (GNext (o, tcx) ((pend', idx, mark) :: rest) ex fl, S k)) = Some (r, k') /\
                gn_post td ex fl k r k').
    { intros Hnd.
      assert (Hlt : 1 <= idx -> mark < len ex) by (intros Hi; apply HS3; [exact Hi | exact Hnd]).
      assert (HIp : Inv ((pend', idx, mark) :: rest) ex fl) by (eapply Inv_pop_front; [exact HI | exact Hnd]).
      pose proof (Hpop_phi idx mark) as HPp.
      destruct err.
      - apply Hunw; [exact HIp | apply Hsuf; exact Hlt | apply Hpop_sz | lia | lia].
      - eexists _, _. split; [reflexivity|]. unfold gn_post.
        split; [exact Hp|]. split; [exact HIp|].
        split; [apply lt_top_hand_ok; exact Hlt|]. split; [discriminate|]. lia. }
    cbn [get_next].
    destruct tcx as [t p i | n]; [|apply Hplain; reflexivity].
    destruct t as [ | p' | e sz | es | ents star | ents | alts]; try (apply Hplain; reflexivity).
    (* a disjunct *)
    destruct (Nat.ltb 0 idx) eqn:Eidx.
    + apply Nat.ltb_lt in Eidx.
      destruct err; cbn [negb].
      * (* the alternative tried last has failed *)
        destruct (nth_error alts (idx - 1)) as [a|] eqn:Ea.
        2:{ eexists _, _. split; [reflexivity|]. unfold gn_post. lia. }
        assert (He : len ex = mark -> In (o, a) fl).
        { intros Hl. specialize (HE eq_refl). unfold td, err_ok in HE. cbn [fst snd] in HE.
          apply (HE ltac:(lia) (o, a)); [|exact Hl]. unfold cur_alt. simpl. rewrite Ea. reflexivity. }
        destruct (Inv_fail o alts p i pend' idx mark rest ex fl a HI ltac:(lia) Ea He)
          as (F1 & F2 & F3 & F4 & F5 & F6).
        set (ex' := rollback ex mark) in *. set (fl' := (o, a) :: fl) in *.
        assert (HPf : forall td', W td' <= W td -> Phi td' ex' fl' + (W td - W td') <= Phi td ex fl).
        { intros td' Hw. destruct (Nat.lt_ge_cases mark (len ex)) as [Hl|Hl].
          - pose proof (Phi_fail_new td td' ex ex' fl (o, a) F5 (F6 Hl) Hw) as HH. unfold fl'. unfold pset, pend in *. lia.
          - unfold ex'. rewrite rollback_all by exact Hl. apply Phi_fail_old. exact Hw. }
        apply todo_ok_cons in HT. destruct HT as [HT1 HT2].
        destruct (Nat.ltb idx (len alts)) eqn:Elt.
        -- apply Nat.ltb_lt in Elt.
           destruct (nth_error alts idx) as [c|] eqn:En; [|apply nth_error_None in En; unfold len in *; lia].
           eexists _, _. split; [reflexivity|]. unfold gn_post.
           pose proof (W_alt_step o alts p i pend' idx mark rest ltac:(lia) Elt) as HA.
           assert (HPf' := HPf (((o, CRep (TDisj alts) p i) :: pend', S idx, mark) :: rest) ltac:(unfold td; unfold pset, pend in *; lia)).
           assert (inU (o, c)).
           { destruct Hp as [Ho Hc]. split; [exact Ho|]. simpl.
             apply (UC_kids tc c0 (CRep (TDisj alts) p i)); [exact Hc|]. simpl. eapply nth_error_In; eauto. }
           split; [assumption|]. split.
           { split; [apply todo_ok_cons; split; [exact HT1|exact HT2]|]. split; [exact F2|]. split; [exact F3|].
             split; [split|].
             - intros _. cbn [fst snd]. split; [lia|]. intros q _ Hl. lia.
             - unfold sb. cbn [fst snd Nat.eqb]. rewrite F1, Nat.min_id. exact F4.
             - intros _ Hfd. simpl in Hfd. discriminate. }
           split.
           { intros _ q Hq _. cbn [fst snd] in Hq. unfold cur_alt in Hq. simpl in Hq.
             rewrite Nat.sub_0_r in Hq. rewrite En in Hq. congruence. }
           split; [discriminate|]. unfold td in *. unfold pset, pend in *. lia.
        -- (* no alternative is left *)
           apply Hunw.
           ++ split; [apply todo_ok_cons; split; [intros q Hq; apply HT1; right; exact Hq | exact HT2]|].
              split; [exact F2|]. split; [exact F3|]. split; [split|].
              ** intros Hi. simpl in Hi. lia.
              ** unfold sb. cbn [fst snd Nat.eqb]. rewrite F1. exact F4.
              ** intros Hi. simpl in Hi. lia.
           ++ intros pre td' E. destruct pre as [|e' pre].
              ** simpl in E. subst td'. intros Hi. simpl in Hi. lia.
              ** simpl in E. injection E as _ E2. eapply stk_lt_top; [exact F4 | lia | exact E2].
           ++ apply Hpop_sz.
           ++ specialize (Hpop_w 0 mark). assert (HPf' := HPf ((pend', 0, mark) :: rest) ltac:(lia)). lia.
           ++ specialize (Hpop_w 0 mark). assert (HPf' := HPf ((pend', 0, mark) :: rest) ltac:(lia)). lia.
      * (* the disjunct in progress has matched *)
        apply Hcont; [eapply Inv_pop_reset; exact HI | discriminate | apply Hpop_sz | |];
          specialize (Hpop_phi 0 mark); lia.
    + apply Nat.ltb_ge in Eidx. assert (idx = 0) by lia. subst idx.
      destruct err.
      * apply Hunw; [eapply Inv_pop_reset; exact HI | apply Hsuf; lia | apply Hpop_sz | |];
          specialize (Hpop_phi 0 mark); lia.
      * destruct alts as [|c alts'].
        -- (* a disjunct without options is handed to the work loop *)
           eexists _, _. split; [reflexivity|]. unfold gn_post.
           pose proof (Hpop_phi 0 mark) as HPp.
           split; [exact Hp|]. split; [eapply Inv_pop_reset; exact HI|].
           split; [apply lt_top_hand_ok; intros Hi; simpl in Hi; lia|]. split; [discriminate|].
           unfold td in *. unfold pset, pend in *. lia.
        -- eexists _, _. split; [reflexivity|]. unfold gn_post.
           assert (inU (o, c)).
           { destruct Hp as [Ho Hc]. split; [exact Ho|]. simpl.
             apply (UC_kids tc c0 (CRep (TDisj (c :: alts')) p i)); [exact Hc|]. simpl. left. reflexivity. }
           pose proof (W_open_step o (c :: alts') p i pend' mark (len ex) rest) as HA.
           split; [assumption|]. split; [apply Inv_open with (mark := mark); exact HI|].
           split.
           { intros _ q Hq _. cbn [fst snd] in Hq. unfold cur_alt in Hq. simpl in Hq. congruence. }
           split; [discriminate|]. unfold Phi, td in *. unfold pset, pend in *. lia.
Qed.


(* ---------- pushing work ---------- *)
Lemma K_pos : 3 <= K.
Proof. unfold K, bound_K. lia. Qed.
Lemma WP_2K : 2 * K <= WP.
Proof. unfold WP, bound_push. fold K. nia. Qed.
Lemma WP_push : 1 + K * (FO + FC) <= WP.
Proof. unfold WP, bound_push. fold K. nia. Qed.

Lemma lt_top_cons_idx0 ex set m td : lt_top ex ((set, 0, m) :: td).
Proof. intros Hi. simpl in Hi. lia. Qed.

(* a check has been examined: the trail grows *)
Lemma Inv_examine p td ex fl : Inv td ex fl -> hand_ok p td ex -> ~ In p ex -> ~ In p fl ->
  Inv td (p :: ex) fl /\ lt_top (p :: ex) td.
Proof.
  intros (A & B & C & D) H Hex Hfl.
  assert (HL : lt_top (p :: ex) td).
  { destruct td as [|e rest]; [exact I|]. destruct D as [[D1 _] _]. intros Hi. destruct (D1 Hi) as [E1 _].
    unfold len in *. simpl. lia. }
  split; [|exact HL].
  split; [exact A|]. split; [constructor; assumption|].
  split; [intros e [He|He]; [subst e; exact Hfl | apply C; exact He]|].
  destruct td as [|e rest]; [split; exact I|]. destruct D as [[D1 D2] T].
  assert (Hlen : len (p :: ex) = S (len ex)) by reflexivity.
  split; [split|].
  - intros Hi. destruct (D1 Hi) as [E1 E2]. split; [lia|]. intros q Hq Hl.
    destruct (Nat.eq_dec (snd e) (len ex)) as [Heq|Hne].
    + rewrite Heq. rewrite trail_at_new. f_equal. apply (H Hi q Hq). lia.
    + rewrite trail_at_cons by lia. apply E2; [exact Hq|lia].
  - eapply stk_ok_weaken; [|apply stk_ok_cons; [apply sb_le | exact D2]]. apply sb_mono. lia.
  - intros Hi Hf. specialize (T Hi Hf). lia.
Qed.

(* a new set is pushed on a stack whose disjuncts in progress were all taken up before the end of the trail *)
Lemma Inv_push set td ex fl : Inv td ex fl -> lt_top ex td -> (forall p, In p set -> inU p) ->
  Inv ((set, 0, 0) :: td) ex fl.
Proof.
  intros (A & B & C & D) HL Hs. split; [apply todo_ok_cons; split; [exact Hs | exact A]|].
  split; [exact B|]. split; [exact C|]. split; [split|].
  - intros Hi. simpl in Hi. lia.
  - unfold sb. cbn [fst snd Nat.eqb]. destruct td as [|e rest]; [exact I|]. destruct D as [[D1 D2] T]. split.
    + intros Hi. destruct (D1 Hi) as [E1 E2]. split; [apply HL; exact Hi | exact E2].
    + exact D2.
  - intros Hi. simpl in Hi. lia.
Qed.

Lemma Inv_return td ex fl q td' : Inv td ex fl -> lt_top ex td -> inU q -> is_disj q = false ->
  return_check td q = Some td' -> Inv td' ex fl /\ lt_top ex td' /\ W td' <= W td + WP.
Proof.
  intros (A & B & C & D) HL Hq Hd E. destruct td as [|[[pending i] m] rest]; simpl in E; [discriminate|].
  inversion E. subst td'. apply todo_ok_cons in A. destruct A as [A1 A2]. destruct D as [[D1 D2] T].
  split; [|split].
  - split; [apply todo_ok_cons; split; [intros x [Hx|Hx]; [subst; exact Hq | apply A1; exact Hx] | exact A2]|].
    split; [exact B|]. split; [exact C|]. split; [split|].
    + intros Hi. destruct (D1 Hi) as [E1 E2]. split; [exact E1|]. intros x Hx Hl. apply E2; [|exact Hl].
      cbn [fst snd] in *. rewrite cur_alt_skip in Hx by exact Hd. exact Hx.
    + exact D2.
    + intros Hi _. apply HL. exact Hi.
  - exact HL.
  - rewrite !W_cons. pose proof WP_2K. pose proof (wt_le q Hq). pose proof (front_w_wt q i).
    unfold set_w. cbn [fst snd]. destruct pending as [|p' r]; [simpl; lia|].
    pose proof (front_w_pos p' i). pose proof (front_w_wt p' i).
    assert (inU p') by (apply A1; left; reflexivity). pose proof (wt_le p' H4). simpl. lia.
Qed.

Lemma push_checks_spec ex td cs fl : Inv td ex fl -> lt_top ex td -> (forall p, In p cs -> inU p) ->
  len cs <= FO + FC ->
  Inv (push_checks ex td cs) ex fl /\ lt_top ex (push_checks ex td cs) /\ W (push_checks ex td cs) <= W td + WP.
Proof.
  intros HI HL Hcs Hl. unfold push_checks.
  destruct (filter (fun p => negb (have_examined ex p)) cs) as [|p r] eqn:E; [split; [exact HI|split; [exact HL|lia]]|].
  assert (Hs : forall q, In q (p :: r) -> inU q).
  { intros q Hq. apply Hcs. rewrite <- E in Hq. apply filter_In in Hq. apply Hq. }
  split; [apply Inv_push; assumption|]. split; [apply lt_top_cons_idx0|].
  rewrite W_cons. unfold set_w. cbn [fst snd].
  pose proof (front_w_wt p 0). pose proof (sumw_le (p :: r) Hs) as HS. simpl in HS.
  pose proof (filter_len_le (fun p => negb (have_examined ex p)) cs) as FL. rewrite E in FL.
  pose proof WP_push. assert (K * len (p :: r) <= K * (FO + FC)) by (apply Nat.mul_le_mono_l; lia).
  unfold len in *. simpl in *. lia.
Qed.

Lemma push_disjunct_spec ex td q fl : Inv td ex fl -> lt_top ex td -> inU q ->
  Inv (push_disjunct td q) ex fl /\ lt_top ex (push_disjunct td q) /\ W (push_disjunct td q) <= W td + WP.
Proof.
  intros HI HL Hq. unfold push_disjunct.
  split; [apply Inv_push; [exact HI | exact HL | intros x [Hx|[]]; subst; exact Hq]|].
  split; [apply lt_top_cons_idx0|].
  rewrite W_cons. unfold set_w. cbn [fst snd]. pose proof (front_w_wt q 0). pose proof (wt_le q Hq).
  pose proof WP_2K. pose proof K_pos. simpl. lia.
Qed.

(* ---------- the children pushed by each arm are in the universe ---------- *)
Lemma dict_get_in {V} (d : list (bytes * V)) k v : dict_get d k = Some v -> In v (List.map snd d).
Proof.
  induction d as [|[k' v'] r IH]; simpl; [discriminate|].
  destruct (bytes_eqb k k'); intros E; [inversion E; left; reflexivity | right; apply IH; exact E].
Qed.

Lemma dict_ents_spec d ents e cs : dict_ents tc d ents = Some (e, cs) ->
  (forall p, In p cs -> In (fst p) (List.map snd d) /\ In (snd p) (List.map ent_chk ents)) /\ len cs <= len ents.
Proof.
  revert e cs. induction ents as [|[k c opt] r IH]; intros e cs E; simpl in E.
  - inversion E. split; [intros p []|simpl; lia].
  - destruct (resolve tc c) as [rc|]; [|discriminate].
    assert (Hrec : dict_ents tc d r = Some (e, cs) ->
                   (forall p, In p cs -> In (fst p) (List.map snd d) /\ In (snd p) (List.map ent_chk (DEnt k c opt :: r))) /\
                   len cs <= len (DEnt k c opt :: r)).
    { intros E'. destruct (IH _ _ E') as [A B]. split; [|simpl in *; unfold len in *; simpl; lia].
      intros p Hp. destruct (A p Hp). split; [assumption|right; assumption]. }
    destruct (dict_get d k) as [v|] eqn:G.
    + destruct opt.
      * destruct (r_ty rc); try (apply Hrec; exact E);
          (destruct (dict_ents tc d r) as [[e' cs']|] eqn:E'; [|discriminate]; inversion E; subst;
           destruct (IH _ _ eq_refl) as [A B]; split; [|unfold len in *; simpl; lia];
           intros q [Hq|Hq]; [subst q; simpl; split; [eapply dict_get_in; eauto | left; reflexivity]
                             | destruct (A q Hq); split; [assumption | right; assumption]]).
      * destruct (r_ty rc); try (apply Hrec; exact E);
          (destruct (dict_ents tc d r) as [[e' cs']|] eqn:E'; [|discriminate]; inversion E; subst;
           destruct (IH _ _ eq_refl) as [A B]; split; [|unfold len in *; simpl; lia];
           intros q [Hq|Hq]; [subst q; simpl; split; [eapply dict_get_in; eauto | left; reflexivity]
                             | destruct (A q Hq); split; [assumption | right; assumption]]).
      * inversion E. split; [intros p []|simpl; lia].
    + destruct opt; try (apply Hrec; exact E). inversion E. split; [intros p []|simpl; lia].
Qed.

Lemma stream_ents_spec d ents e cs : stream_ents tc d ents = Some (e, cs) ->
  (forall p, In p cs -> In (fst p) (List.map snd d) /\ In (snd p) (List.map ent_chk ents)) /\ len cs <= len ents.
Proof.
  revert e cs. induction ents as [|[k c opt] r IH]; intros e cs E; simpl in E.
  - inversion E. split; [intros p []|simpl; lia].
  - destruct (resolve tc c) as [rc|]; [|discriminate].
    destruct (stream_ents tc d r) as [[e' cs']|] eqn:E'; [|discriminate].
    destruct (IH _ _ eq_refl) as [A B].
    assert (Hsame : (forall p, In p cs' -> In (fst p) (List.map snd d) /\ In (snd p) (List.map ent_chk (DEnt k c opt :: r))) /\
                    len cs' <= len (DEnt k c opt :: r)).
    { split; [|unfold len in *; simpl; lia]. intros p Hp. destruct (A p Hp). split; [assumption|right; assumption]. }
    destruct (dict_get d k) as [v|] eqn:G.
    + destruct opt; try (inversion E; subst; exact Hsame);
        (destruct (r_ty rc); try (inversion E; subst; exact Hsame);
         (inversion E; subst; split; [|unfold len in *; simpl; lia];
          intros q [Hq|Hq]; [subst q; simpl; split; [eapply dict_get_in; eauto | left; reflexivity]
                            | destruct (A q Hq); split; [assumption | right; assumption]])).
    + destruct opt; inversion E; subst; exact Hsame.
Qed.

Lemma star_ents_spec d spec sc sopt sty e cs : star_ents d spec sc sopt sty = (e, cs) ->
  (forall p, In p cs -> In (fst p) (List.map snd d) /\ snd p = sc) /\ len cs <= len d.
Proof.
  revert e cs. induction d as [|[k v] r IH]; intros e cs E; simpl in E.
  - inversion E. split; [intros p []|simpl; lia].
  - assert (Hrec : star_ents r spec sc sopt sty = (e, cs) ->
                   (forall p, In p cs -> In (fst p) (List.map snd ((k, v) :: r)) /\ snd p = sc) /\ len cs <= len ((k, v) :: r)).
    { intros E'. destruct (IH _ _ E') as [A B]. split; [|unfold len in *; simpl; lia].
      intros p Hp. destruct (A p Hp). split; [right; assumption|assumption]. }
    destruct (existsb (bytes_eqb k) spec); [apply Hrec; exact E|].
    destruct sopt.
    + destruct sty; try (apply Hrec; exact E);
        (destruct (star_ents r spec sc KReq _) as [e' cs'] eqn:E'; inversion E; subst;
         destruct (IH _ _ eq_refl) as [A B]; split; [|unfold len in *; simpl; lia];
         intros q [Hq|Hq]; [subst q; simpl; split; [left; reflexivity | reflexivity]
                           | destruct (A q Hq); split; [right; assumption | assumption]]).
    + destruct sty; try (apply Hrec; exact E);
        (destruct (star_ents r spec sc KOpt _) as [e' cs'] eqn:E'; inversion E; subst;
         destruct (IH _ _ eq_refl) as [A B]; split; [|unfold len in *; simpl; lia];
         intros q [Hq|Hq]; [subst q; simpl; split; [left; reflexivity | reflexivity]
                           | destruct (A q Hq); split; [right; assumption | assumption]]).
    + inversion E. split; [intros p []|simpl; lia].
Qed.


Lemma in_combine_both {X Y} (l : list X) (m : list Y) x y : In (x, y) (combine l m) -> In x l /\ In y m.
Proof. intros H. split; [eapply in_combine_l; eauto | eapply in_combine_r; eauto]. Qed.



(* ---------- one iteration of the work loop ---------- *)
(* what every arm of the match delivers, starting from the todo [td1] returned by get_next and the
   trail [ex2] after state.examine *)
Definition arm_ok (td1 : todo) (ex2 fl1 : list pend) (k1 : nat) (res : stepres * nat) : Prop :=
  snd res = k1 /\
  match fst res with
  | SCont td' ex' fl' _ => ex' = ex2 /\ fl' = fl1 /\ Inv td' ex2 fl1 /\ lt_top ex2 td' /\ W td' <= W td1 + WP
  | SStop o => o <> Stuck
  end.

Lemma step_arms td1 ex2 fl1 k1 o tcx c :
  Inv td1 ex2 fl1 -> lt_top ex2 td1 -> inU (o, tcx) -> resolve tc tcx = Some c ->
  (forall alts, r_ty c <> TDisj alts) ->
  arm_ok td1 ex2 fl1 k1 (step_arm opq oc tc td1 ex2 fl1 k1 o tcx c).
Proof.
  intros HI HL [Ho Hc] Hres Hnd. unfold step_arm.
  set (cont := fun td' e => (SCont td' ex2 fl1 e, k1)). set (stop := fun x => (SStop x, k1)). simpl in Ho, Hc.
  destruct (resolve_in tc c0 tcx c Hc Hres) as (Hrc & Hal & Hkids).
  destruct c as [[t p] i]. cbn [r_ty r_pred r_ind fst snd] in *.
  assert (Hcont : forall e, arm_ok td1 ex2 fl1 k1 (cont td1 e)).
  { intros e. split; [reflexivity|]. simpl. split; [reflexivity|]. split; [reflexivity|].
    split; [exact HI|]. split; [exact HL|lia]. }
  assert (Hstop : forall x, x <> Stuck -> arm_ok td1 ex2 fl1 k1 (stop x)) by (intros x Hx; split; [reflexivity|exact Hx]).
  assert (Hpush : forall cs e, (forall q, In q cs -> inU q) -> len cs <= FO + FC ->
            arm_ok td1 ex2 fl1 k1 (cont (push_checks ex2 td1 cs) e)).
  { intros cs e A B. destruct (push_checks_spec ex2 td1 cs fl1 HI HL A B) as (P1 & P2 & P3).
    split; [reflexivity|]. simpl. auto. }
  destruct o as [ | b | z | n d | s | s | s | n g | l | d | d content].
  (* the reference *)
  8:{ assert (Hret : arm_ok td1 ex2 fl1 k1
                  (match return_check td1 (ref_value oc n g, allow_indirect (t, p, i)) with
                   | Some td' => cont td' None
                   | None => stop Panicked
                   end)).
      { destruct (return_check td1 (ref_value oc n g, allow_indirect (t, p, i))) as [td'|] eqn:E; [|apply Hstop; discriminate].
        assert (Hq : inU (ref_value oc n g, allow_indirect (t, p, i))) by (split; [apply ref_value_in | exact Hal]).
        assert (Hd : is_disj (ref_value oc n g, allow_indirect (t, p, i)) = false).
        { unfold is_disj, allow_indirect. cbn [snd r_ty fst]. destruct t; try reflexivity. exfalso. eapply Hnd. reflexivity. }
        destruct (Inv_return td1 ex2 fl1 _ td' HI HL Hq Hd E) as (R1 & R2 & R3).
        split; [reflexivity|]. simpl. auto. }
      destruct t; destruct i; try apply Hcont; exact Hret. }
  (* direct objects *)
  all: destruct i; try apply Hcont.
  all: destruct t as [ | p' | e sz | es | ents star | ents | alts]; try apply Hcont;
       try (apply Hstop; discriminate);
       try (match goal with |- context [prim_match ?o ?p] => destruct (prim_match o p) end; apply Hcont).
  (* arrays: Array *)
  1,3: (destruct (match sz with Some n => negb (Nat.eqb (len l) n) | None => false end); [apply Hcont|];
        destruct (resolve tc e) as [re|]; [|apply Hstop; discriminate];
        destruct (match r_ty re with TAny => no_attrs re | _ => false end); [apply Hcont|];
        destruct (check_pred opq (OArr l) p); [apply Hcont|];
        apply Hpush;
        [ intros q Hq; apply in_map_iff in Hq; destruct Hq as (x & Eq & Hx); subst q; split;
          [ apply (UO_kids oc o0 (OArr l)); [exact Ho | exact Hx] | apply Hkids; left; reflexivity ]
        | pose proof (fan_o_le (OArr l) Ho) as L; simpl in L; unfold len, pend in *; rewrite map_length; lia ]).
  (* arrays: HetArray *)
  1,2: (destruct (negb (Nat.eqb (len l) (len es))); [apply Hcont|];
        destruct (check_pred opq (OArr l) p); [apply Hcont|];
        apply Hpush;
        [ intros [x y] Hq; apply in_combine_both in Hq; destruct Hq as [Hx Hy]; split;
          [ apply (UO_kids oc o0 (OArr l)); [exact Ho | exact Hx] | apply Hkids; exact Hy ]
        | pose proof (fan_c_le _ Hrc) as L; simpl in L; unfold len, pend in *; rewrite combine_length; lia ]).
  (* dictionaries *)
  1,2: (destruct (check_pred opq (ODict d) p); [apply Hcont|];
        destruct (dict_ents tc d ents) as [[[e|] cs]|] eqn:DE; [apply Hcont | | apply Hstop; discriminate];
        destruct (dict_ents_spec d ents None cs DE) as [A B];
        pose proof (fan_c_le _ Hrc) as LC; pose proof (fan_o_le (ODict d) Ho) as LO;
        simpl in LC, LO; unfold len, pend in *; rewrite app_length, map_length in LC; rewrite map_length in LO;
        assert (Hcs : forall q, In q cs -> inU q);
        [ intros q Hq; destruct (A q Hq) as [A1 A2]; split;
          [ apply (UO_kids oc o0 (ODict d)); [exact Ho | exact A1]
          | apply Hkids; simpl; apply in_or_app; left; exact A2 ] |];
        destruct star as [[sc sopt]|]; [|apply Hpush; [exact Hcs | lia]];
        destruct (resolve tc sc) as [rs|]; [|apply Hstop; discriminate];
        destruct (star_ents d (List.map ent_key ents) sc sopt (r_ty rs)) as [[e|] cs2] eqn:SE; [apply Hcont|];
        destruct (star_ents_spec _ _ _ _ _ _ _ SE) as [A' B'];
        apply Hpush;
        [ intros q Hq; apply in_app_or in Hq; destruct Hq as [Hq|Hq]; [apply Hcs; exact Hq|];
          destruct (A' q Hq) as [A1 A2]; split;
          [ apply (UO_kids oc o0 (ODict d)); [exact Ho | exact A1]
          | rewrite A2; apply Hkids; simpl; apply in_or_app; right; left; reflexivity ]
        | unfold len, pend in *; rewrite app_length; simpl in LC; lia ]).
  (* streams *)
  1,2: (destruct (check_pred opq (OStream d content) p); [apply Hcont|];
        destruct (stream_ents tc d ents) as [[[e|] cs]|] eqn:DE; [apply Hcont | | apply Hstop; discriminate];
        destruct (stream_ents_spec d ents None cs DE) as [A B];
        pose proof (fan_c_le _ Hrc) as LC; simpl in LC; unfold len, pend in *; rewrite map_length in LC;
        apply Hpush;
        [ intros q Hq; destruct (A q Hq) as [A1 A2]; split;
          [ apply (UO_kids oc o0 (OStream d content)); [exact Ho | exact A1]
          | apply Hkids; simpl; exact A2 ]
        | lia ]).
Qed.


Definition err_inv (err : option tcerr) (td : todo) (ex fl : list pend) : Prop :=
  match err with Some _ => err_ok td ex fl | None => True end.

Lemma step_spec td ex fl err k res k' : Inv td ex fl -> err_inv err td ex fl ->
  step opq oc tc td ex fl err k = (res, k') ->
  match res with
  | SCont td' ex' fl' err' =>
    Inv td' ex' fl' /\ err_inv err' td' ex' fl' /\ Phi td' ex' fl' + 1 <= Phi td ex fl /\
    k' + 5 * Phi td' ex' fl' <= k + 5 * Phi td ex fl
  | SStop o => o <> Stuck /\ k' <= k + 3 * Phi td ex fl + 2
  end.
Proof.
  intros HI HE. unfold step, process.
  assert (HE' : is_some err = true -> err_ok td ex fl).
  { destruct err; [intros _; exact HE | discriminate]. }
  destruct (get_next_spec (is_some err) (S (todo_size td)) td ex fl (S k) HI HE' (Nat.lt_succ_diag_r _))
    as (r & k1 & E & P).
  rewrite E. unfold gn_post in P. destruct r as [[o tcx] td1 ex1 fl1 | | | ].
  - destruct P as (Hp & HI1 & Hh & Hne & Hphi & Hk).
    destruct (resolve tc tcx) as [c|] eqn:R.
    2:{ intros Eq. inversion Eq. subst. split; [discriminate|lia]. }
    destruct (have_examined fl1 (o, tcx)) eqn:HF.
    { (* an alternative that failed before *)
      intros Eq. inversion Eq. subst. split; [exact HI1|]. split; [|split; lia].
      apply have_examined_in in HF. unfold err_inv, err_ok. destruct td1 as [|e rest]; [exact I|].
      intros Hi q Hq Hl. rewrite <- (Hh Hi q Hq Hl). exact HF. }
    destruct (have_examined ex1 (o, tcx)) eqn:HX.
    { intros Eq. inversion Eq. subst. split; [exact HI1|]. split; [exact I|]. split; lia. }
    apply have_examined_not_in in HF. apply have_examined_not_in in HX.
    destruct (Inv_examine (o, tcx) td1 ex1 fl1 HI1 Hh HX HF) as [HI2 HL2].
    pose proof (uncov_cons_lt (o, tcx) ex1 Hp HX) as HU.
    pose proof (mul_step _ _ M1 HU) as HM.
    assert (Hfin : forall td' ex' fl' err', ex' = (o, tcx) :: ex1 -> fl' = fl1 -> Inv td' ((o, tcx) :: ex1) fl1 ->
              lt_top ((o, tcx) :: ex1) td' -> W td' <= W td1 + WP ->
              Inv td' ex' fl' /\ err_inv err' td' ex' fl' /\ Phi td' ex' fl' + 1 <= Phi td ex fl /\
              k1 + 5 * Phi td' ex' fl' <= k + 5 * Phi td ex fl).
    { intros td' ex' fl' err' -> -> A B C. split; [exact A|]. split.
      - destruct err'; [apply lt_top_err_ok; exact B | exact I].
      - unfold Phi in *. unfold M1 in *. unfold pset, pend in *. lia. }
    destruct (r_ty c) as [ | p' | e sz | es | ents star | ents | alts] eqn:Ety.
    7:{ (* a named or nested disjunct *)
      destruct alts as [|a0 alts0].
      { (* without options: it matches nothing *)
        intros Eq. inversion Eq. subst. apply Hfin; auto. lia. }
      intros Eq. inversion Eq. subst.
      destruct Hp as [Ho Hc]. destruct (resolve_in tc c0 tcx c Hc R) as (Hrc & _ & _).
      destruct (push_disjunct_spec ((o, tcx) :: ex1) td1 (o, rep_chk c) fl1 HI2 HL2 (conj Ho Hrc)) as (Q1 & Q2 & Q3).
      apply Hfin; auto. }
    all: (pose proof (step_arms td1 ((o, tcx) :: ex1) fl1 k1 o tcx c HI2 HL2 Hp R) as HA;
          intros Eq; rewrite Eq in HA;
          destruct HA as [Hk' Hm]; [intros alts; rewrite Ety; discriminate|];
          simpl in Hk', Hm; subst k';
          destruct res as [td' ex' fl' err'|x]; [|split; [exact Hm|lia]];
          destruct Hm as (Hex & Hfl & Hok' & Hlt' & Hw'); apply Hfin; assumption).
  - intros Eq. destruct err; inversion Eq; subst; (split; [discriminate|lia]).
  - intros Eq. destruct err; inversion Eq; subst; (split; [discriminate|lia]).
  - intros Eq. inversion Eq. subst. split; [discriminate|lia].
Qed.

(* ---------- the loop ---------- *)
Lemma run_terminates : forall n td ex fl err k, Inv td ex fl -> err_inv err td ex fl -> Phi td ex fl < n ->
  fst (run opq oc tc n td ex fl err k) <> Stuck /\
  snd (run opq oc tc n td ex fl err k) <= k + 5 * Phi td ex fl + 2.
Proof.
  induction n as [|n IH]; intros td ex fl err k HI HE Hn; [lia|].
  simpl. destruct (step opq oc tc td ex fl err k) as [res k'] eqn:E.
  pose proof (step_spec td ex fl err k res k' HI HE E) as S.
  destruct res as [td' ex' fl' err'|x].
  - destruct S as (HI' & HE' & Hphi & Hk). destruct (IH td' ex' fl' err' k' HI' HE' ltac:(lia)) as [A B].
    split; [exact A|lia].
  - destruct S as [A B]. simpl. split; [exact A|]. lia.
Qed.

Lemma Inv_init o c : inU (o, c) -> Inv [([(o, c)], 0, 0)] [] [].
Proof.
  intros H. split; [constructor; [intros p [Hp|[]]; subst; exact H | constructor]|].
  split; [constructor|]. split; [intros e []|]. split; [split; [|exact I]|].
  - intros Hi. simpl in Hi. lia.
  - intros Hi. simpl in Hi. lia.
Qed.

Lemma Phi_init o c : inU (o, c) -> Phi [([(o, c)], 0, 0)] [] [] < step_bound oc tc o0 c0.
Proof.
  intros H. unfold Phi, step_bound. fold UO UC FO FC. fold K WP.
  assert (HP : PP = len UO * len UC) by (unfold PP, UP, len, pend; rewrite prod_length; reflexivity).
  pose proof (uncov_le []) as HU.
  assert (W [([(o, c)], 0, 0)] <= 1 + K).
  { simpl. unfold set_w. cbn [fst snd]. pose proof (front_w_wt (o, c) 0). pose proof (wt_le (o, c) H). simpl. lia. }
  assert (uncov [] * M2 <= PP * M2) by (apply Nat.mul_le_mono_r; exact HU).
  assert (uncov [] * M1 <= PP * M1) by (apply Nat.mul_le_mono_r; exact HU).
  rewrite <- HP. unfold M2, M1 in *. unfold K in *. nia.
Qed.
End Term.

(* ---------- the theorems ---------- *)
Theorem run_root_terminates opq oc tc o c n :
  step_bound oc tc o c <= n ->
  fst (run opq oc tc n [([(o, c)], 0, 0)] [] [] None 0) <> Stuck /\
  snd (run opq oc tc n [([(o, c)], 0, 0)] [] [] None 0) <= 5 * step_bound oc tc o c + 2.
Proof.
  intros Hn.
  assert (Hin : inU oc tc o c (o, c)) by (split; [apply UO_root | apply UC_root]).
  pose proof (Phi_init oc tc o c o c Hin) as HP.
  destruct (run_terminates opq oc tc o c _ _ [] [] None 0 (Inv_init oc tc o c o c Hin) I HP) as [A B].
  rewrite (run_mono opq oc tc _ n _ _ _ _ _ A Hn). split; [exact A|lia].
Qed.

Theorem check_fuel_terminates opq oc tc o c r n :
  resolve tc c = Some r -> step_bound oc tc o (norm_chk (rep_chk r)) <= n ->
  fst (check_fuel opq oc tc n o c) <> Stuck /\
  snd (check_fuel opq oc tc n o c) <= 5 * step_bound oc tc o (norm_chk (rep_chk r)) + 2.
Proof. intros R Hn. unfold check_fuel. rewrite R. apply run_root_terminates. exact Hn. Qed.

(* the verdict does not depend on the fuel once the bound is reached: running again gives the same answer *)
Theorem check_fuel_deterministic opq oc tc o c r n m :
  resolve tc c = Some r -> step_bound oc tc o (norm_chk (rep_chk r)) <= n -> n <= m ->
  check_fuel opq oc tc m o c = check_fuel opq oc tc n o c.
Proof.
  intros R Hn Hm. apply check_fuel_mono; [|exact Hm].
  apply (check_fuel_terminates opq oc tc o c r n R Hn).
Qed.

Theorem check_terminates opq oc tc o c r :
  resolve tc c = Some r ->
  fst (check opq oc tc o c) <> Stuck /\
  snd (check opq oc tc o c) <= 5 * step_bound oc tc o (norm_chk (rep_chk r)) + 2.
Proof.
  intros R. unfold check. rewrite R. rewrite check_N_fuel, step_bound_N_nat.
  apply (check_fuel_terminates opq oc tc o c r _ R). lia.
Qed.
