(* Proofs/TypeCheckTerm.v — C09: the work loop of the type checker terminates within an explicit
   bound, on every object graph (cyclic or not) and every specification (recursive or not). *)
From PV Require Import Model.TypeCheck.
From Coq Require Import Lia Arith.

(* ---------- reflexivity of the memo's equality (all the termination argument needs) ---------- *)
Lemma bytes_eqb_refl s : bytes_eqb s s = true.
Proof. apply bytes_eqb_eq. reflexivity. Qed.

Lemma obj_eqb_refl : forall o, obj_eqb o o = true.
Proof.
  fix IH 1. intros [ | b | z | n d | s | s | s | n g | l | l | l c]; simpl;
    rewrite ?Bool.eqb_reflx, ?Z.eqb_refl, ?N.eqb_refl, ?bytes_eqb_refl; try reflexivity.
  - induction l as [|x r IHr]; [reflexivity|]. rewrite IH. exact IHr.
  - induction l as [|[k x] r IHr]; [reflexivity|]. rewrite bytes_eqb_refl, IH. exact IHr.
  - rewrite Bool.andb_true_r.
    induction l as [|[k x] r IHr]; [reflexivity|]. rewrite bytes_eqb_refl, IH. exact IHr.
Qed.

Lemma kspec_eqb_refl o : kspec_eqb o o = true.
Proof. destruct o; reflexivity. Qed.
Lemma prim_eqb_refl p : prim_eqb p p = true.
Proof. destruct p; reflexivity. Qed.
Lemma onat_eqb_refl o : onat_eqb o o = true.
Proof. destruct o; simpl; [apply Nat.eqb_refl | reflexivity]. Qed.

Lemma chk_eqb_refl : forall c, chk_eqb c c = true.
Proof.
  fix IH 1. intros [t p i | n]; [|apply bytes_eqb_refl].
  change (ty_eqb t t = true).
  destruct t as [ | p' | e sz | es | ents star | ents | alts]; simpl.
  - reflexivity.
  - apply prim_eqb_refl.
  - rewrite IH, onat_eqb_refl. reflexivity.
  - induction es as [|x r IHr]; [reflexivity|]. rewrite IH. exact IHr.
  - apply andb_true_intro; split.
    + induction ents as [|[k c o] r IHr]; [reflexivity|].
      simpl. rewrite bytes_eqb_refl, IH, kspec_eqb_refl. exact IHr.
    + destruct star as [[c o]|]; [|reflexivity]. rewrite IH, kspec_eqb_refl. reflexivity.
  - induction ents as [|[k c o] r IHr]; [reflexivity|].
    simpl. rewrite bytes_eqb_refl, IH, kspec_eqb_refl. exact IHr.
  - induction alts as [|x r IHr]; [reflexivity|]. rewrite IH. exact IHr.
Qed.

Lemma pend_eqb_refl p : pend_eqb p p = true.
Proof. unfold pend_eqb. rewrite obj_eqb_refl, chk_eqb_refl. reflexivity. Qed.

(* ---------- sub-term closure ---------- *)
Section Subterms.
Context {A : Type} (kids : A -> list A) (size : A -> nat).
Hypothesis size_pos : forall x, 0 < size x.
Hypothesis kid_size : forall x k, In k (kids x) -> size k < size x.

Lemma subterms_self n x : 0 < n -> In x (subterms kids n x).
Proof. destruct n; [lia|]. intros _. left. reflexivity. Qed.

Lemma subterms_closed : forall n x y, size x <= n -> In y (subterms kids n x) ->
  forall k, In k (kids y) -> In k (subterms kids n x).
Proof.
  induction n as [|n IH]; intros x y Hs Hy k Hk; [destruct Hy|].
  simpl in Hy |- *. destruct Hy as [Hy | Hy].
  - subst y. right. apply in_flat_map. exists k. split; [exact Hk|].
    apply subterms_self. pose proof (kid_size _ _ Hk). pose proof (size_pos k). lia.
  - right. apply in_flat_map in Hy. destruct Hy as (x' & Hx' & Hy).
    apply in_flat_map. exists x'. split; [exact Hx'|].
    apply (IH x' y); [pose proof (kid_size _ _ Hx'); lia | exact Hy | exact Hk].
Qed.
End Subterms.

Lemma obj_size_pos o : 0 < obj_size o.
Proof. destruct o; simpl; lia. Qed.

Lemma fold_size_in {X} (f : X -> nat) (l : list X) x :
  In x l -> f x <= fold_right (fun y n => f y + n) 0 l.
Proof.
  induction l as [|y r IH]; intros H; [destruct H|]. simpl. destruct H as [H|H]; [subst; lia|].
  specialize (IH H). lia.
Qed.

Lemma kid_obj_size o k : In k (kids_obj o) -> obj_size k < obj_size o.
Proof.
  destruct o as [ | | | | | | | | l | l | l c]; simpl; intros H; try destruct H.
  - pose proof (fold_size_in obj_size l k H). lia.
  - apply in_map_iff in H. destruct H as ([k' v] & E & H). simpl in E. subst v.
    pose proof (fold_size_in (fun kv => obj_size (snd kv)) l (k', k) H). simpl in H0. lia.
  - apply in_map_iff in H. destruct H as ([k' v] & E & H). simpl in E. subst v.
    pose proof (fold_size_in (fun kv => obj_size (snd kv)) l (k', k) H). simpl in H0. lia.
Qed.

Lemma chk_size_pos c : 0 < chk_size c.
Proof. destruct c; simpl; lia. Qed.

Lemma go_chk_in (l : list chk) k :
  In k l -> chk_size k <= (fix go (l : list chk) := match l with [] => 0 | x :: r => chk_size x + go r end) l.
Proof.
  induction l as [|y r IH]; intros H; [destruct H|]. destruct H as [H|H]; [subst; lia|].
  specialize (IH H). lia.
Qed.
Lemma go_dent_in (l : list dent) k :
  In k (List.map ent_chk l) ->
  chk_size k <= (fix go (l : list dent) := match l with [] => 0 | x :: r => dent_size x + go r end) l.
Proof.
  induction l as [|[kk c o] r IH]; intros H; [destruct H|]. destruct H as [H|H].
  - simpl in H. subst. simpl. lia.
  - specialize (IH H). simpl. lia.
Qed.

Lemma kid_chk_size c k : In k (kids_chk c) -> chk_size k < chk_size c.
Proof.
  destruct c as [t p i | n]; [|intros []].
  simpl. destruct t as [ | p' | e sz | es | ents star | ents | alts]; simpl; intros H; try destruct H.
  - subst. lia.
  - destruct H.
  - pose proof (go_chk_in es k H). lia.
  - apply in_app_or in H. destruct H as [H|H].
    + pose proof (go_dent_in ents k H). lia.
    + destruct star as [[c o]|]; [|destruct H]. destruct H as [H|[]]. subst. lia.
  - pose proof (go_dent_in ents k H). lia.
  - pose proof (go_chk_in alts k H). lia.
Qed.

(* ---------- the universe is closed under everything the checker does ---------- *)
Section Universe.
Variable opq : N -> obj -> bool.
Variable oc : octx.
Variable tc : tctx.
Variable o0 : obj.
Variable c0 : chk.

Let UO := uni_objs oc o0.
Let UC := uni_chks tc c0.
Definition inU (p : pend) : Prop := In (fst p) UO /\ In (snd p) UC.

Lemma UO_null : In ONull UO.
Proof. left. reflexivity. Qed.

Lemma UO_root : In o0 UO.
Proof.
  right. apply in_or_app. left. apply subterms_self. apply obj_size_pos.
Qed.

Lemma octx_get_in id o : octx_get oc id = Some o -> exists e, In e oc /\ snd e = o.
Proof.
  induction oc as [|[[n g] x] r IH]; simpl; [discriminate|].
  destruct (N.eqb n (fst id) && N.eqb g (snd id))%bool.
  - intros E. inversion E. subst. exists ((n, g), o). split; [left; reflexivity | reflexivity].
  - intros E. destruct (IH E) as (e & He & Hs). exists e. split; [right; exact He | exact Hs].
Qed.

Lemma UO_lookup id o : octx_get oc id = Some o -> In o UO.
Proof.
  intros H. destruct (octx_get_in _ _ H) as (e & He & Hs). subst o.
  right. apply in_or_app. right. apply in_flat_map. exists e. split; [exact He|].
  apply subterms_self. apply obj_size_pos.
Qed.

Lemma UO_kids o k : In o UO -> In k (kids_obj o) -> In k UO.
Proof.
  intros [H|H] Hk; [subst o; destruct Hk|]. right.
  apply in_app_or in H. apply in_or_app. destruct H as [H|H].
  - left. eapply (subterms_closed kids_obj obj_size obj_size_pos kid_obj_size); [|exact H|exact Hk]. lia.
  - right. apply in_flat_map in H. destruct H as (e & He & H). apply in_flat_map. exists e. split; [exact He|].
    eapply (subterms_closed kids_obj obj_size obj_size_pos kid_obj_size); [|exact H|exact Hk]. lia.
Qed.

Let UC0 := uni_chks0 tc c0.

Lemma UC0_kids c k : In c UC0 -> In k (kids_chk c) -> In k UC0.
Proof.
  intros H Hk. apply in_app_or in H. apply in_or_app. destruct H as [H|H].
  - left. eapply (subterms_closed kids_chk chk_size chk_size_pos kid_chk_size); [|exact H|exact Hk]. lia.
  - right. apply in_flat_map in H. destruct H as (e & He & H). apply in_flat_map. exists e. split; [exact He|].
    eapply (subterms_closed kids_chk chk_size chk_size_pos kid_chk_size); [|exact H|exact Hk]. lia.
Qed.

Lemma UC0_sub c : In c UC0 -> In c UC.
Proof. intros H. apply in_or_app. left. exact H. Qed.

Lemma UC_root : In c0 UC.
Proof. apply UC0_sub. apply in_or_app. left. apply subterms_self. apply chk_size_pos. Qed.

Lemma kids_allowc c : kids_chk (allowc c) = kids_chk c.
Proof. destruct c; reflexivity. Qed.
Lemma allowc_idem c : allowc (allowc c) = allowc c.
Proof. destruct c; reflexivity. Qed.

Lemma UC_kids c k : In c UC -> In k (kids_chk c) -> In k UC.
Proof.
  intros H Hk. apply in_app_or in H. destruct H as [H|H].
  - apply UC0_sub. eapply UC0_kids; eauto.
  - apply in_map_iff in H. destruct H as (c' & E & H). subst c. rewrite kids_allowc in Hk.
    apply UC0_sub. eapply UC0_kids; eauto.
Qed.

Lemma UC_allow c : In c UC -> In (allowc c) UC.
Proof.
  intros H. apply in_app_or in H. apply in_or_app. right. destruct H as [H|H].
  - apply in_map. exact H.
  - apply in_map_iff in H. destruct H as (c' & E & H). subst c. rewrite allowc_idem. apply in_map. exact H.
Qed.

Lemma tctx_get_in n r : tctx_get tc n = Some r -> exists e, In e tc /\ snd e = r.
Proof.
  induction tc as [|[m x] t IH]; simpl; [discriminate|].
  destruct (bytes_eqb n m).
  - intros E. inversion E. subst. exists (m, r). split; [left; reflexivity | reflexivity].
  - intros E. destruct (IH E) as (e & He & Hs). exists e. split; [right; exact He | exact Hs].
Qed.

Lemma UC_named n r : tctx_get tc n = Some r -> In (rep_chk r) UC.
Proof.
  intros H. destruct (tctx_get_in _ _ H) as (e & He & Hs). subst r.
  apply UC0_sub. apply in_or_app. right. apply in_flat_map. exists e. split; [exact He|].
  apply subterms_self. apply chk_size_pos.
Qed.

Lemma rep_chk_eta t p i : rep_chk (t, p, i) = CRep t p i.
Proof. reflexivity. Qed.

(* resolving a check of the universe stays inside *)
Lemma resolve_in c r : In c UC -> resolve tc c = Some r ->
  In (rep_chk r) UC /\ In (allow_indirect r) UC /\ (forall k, In k (kids_ty (r_ty r)) -> In k UC).
Proof.
  intros H E.
  assert (Hr : In (rep_chk r) UC).
  { destruct c as [t p i | n]; simpl in E.
    - inversion E. subst r. exact H.
    - apply (UC_named n). exact E. }
  split; [exact Hr|]. split.
  - apply UC_allow in Hr. destruct r as [[t p] i]. exact Hr.
  - intros k Hk. apply (UC_kids (rep_chk r)); [exact Hr|]. destruct r as [[t p] i]. exact Hk.
Qed.
End Universe.

(* ---------- weights ---------- *)
Lemma max_list_in (l : list nat) x : In x l -> x <= max_list l.
Proof.
  induction l as [|y r IH]; intros H; [destruct H|]. simpl. destruct H as [H|H]; [subst; lia|].
  specialize (IH H). lia.
Qed.

Lemma mul_step a b m : a + 1 <= b -> a * m + m <= b * m.
Proof. intros H. nia. Qed.

Section Term.
Variable opq : N -> obj -> bool.
Variable oc : octx.
Variable tc : tctx.
Variable o0 : obj.
Variable c0 : chk.

Let UO := uni_objs oc o0.
Let UC := uni_chks tc c0.
Let FO := fan_o UO.
Let FC := fan_c UC.
Let K := bound_K FC.
Let WP := bound_push FO FC.
Notation inU := (inU oc tc o0 c0).

Lemma fan_c_le c : In c UC -> len (kids_chk c) <= FC.
Proof. intros H. apply max_list_in. apply (in_map (fun c => len (kids_chk c))). exact H. Qed.
Lemma fan_o_le o : In o UO -> len (kids_obj o) <= FO.
Proof. intros H. apply max_list_in. apply (in_map (fun o => len (kids_obj o))). exact H. Qed.

Definition front_w (p : pend) (idx : nat) : nat :=
  match snd p with CRep (TDisj set) _ _ => 1 + (1 + len set - idx) | _ => 1 end.
Definition set_w (s : list pend * nat) : nat :=
  match fst s with [] => 1 | p :: r => 1 + front_w p (snd s) + K * len r end.
Definition W (td : todo) : nat := fold_right (fun s n => set_w s + n) 0 td.

Definition set_ok (s : list pend * nat) : Prop := forall p, In p (fst s) -> inU p.
Definition todo_ok (td : todo) : Prop := Forall set_ok td.

Lemma front_w_pos p i : 1 <= front_w p i.
Proof. unfold front_w. destruct (snd p) as [[ | | | | | | ] ? ? | ]; lia. Qed.

Lemma front_w_le p i : inU p -> front_w p i <= K.
Proof.
  intros [_ H]. unfold front_w, K, bound_K. destruct (snd p) as [[ | | | | | | alts] ? ? | ] eqn:E; try lia.
  pose proof (fan_c_le _ H) as L. simpl in L. lia.
Qed.

Lemma set_w_pos s : 1 <= set_w s.
Proof. unfold set_w. destruct (fst s); lia. Qed.

(* removing the front element strictly lowers the weight of a set, whatever the index becomes *)
Lemma set_w_tail p r i j : set_ok (p :: r, i) -> set_w (r, j) < set_w (p :: r, i).
Proof.
  intros H. unfold set_w. simpl. pose proof (front_w_pos p i).
  destruct r as [|q r']; [lia|].
  assert (inU q) by (apply H; simpl; auto).
  pose proof (front_w_le q j H1). simpl. lia.
Qed.

Lemma set_ok_tail p r i j : set_ok (p :: r, i) -> set_ok (r, j).
Proof. intros H q Hq. apply H. simpl. right. exact Hq. Qed.
Lemma set_ok_idx r i j : set_ok (r, i) -> set_ok (r, j).
Proof. intros H q Hq. apply H. exact Hq. Qed.

Lemma todo_size_cons s td : todo_size (s :: td) = S (len (fst s)) + todo_size td.
Proof. reflexivity. Qed.
Lemma W_cons s td : W (s :: td) = set_w s + W td.
Proof. reflexivity. Qed.

(* unwind only pops *)
Lemma unwind_spec : forall td k r k', todo_ok td -> unwind td k = (r, k') ->
  match r with
  | Some td' => todo_ok td' /\ W td' <= W td /\ todo_size td' <= todo_size td /\ k' + W td' <= k + 1 + W td
  | None => k' <= k + 1 + W td
  end.
Proof.
  induction td as [|[pending idx] rest IH]; intros k r k' Hok E; simpl in E.
  - inversion E. subst. simpl. lia.
  - inversion Hok as [|? ? Hs Hr]. subst.
    assert (Hpop : unwind rest (S k) = (r, k') ->
                   match r with
                   | Some td' => todo_ok td' /\ W td' <= W ((pending, idx) :: rest) /\
                                 todo_size td' <= todo_size ((pending, idx) :: rest) /\
                                 k' + W td' <= k + 1 + W ((pending, idx) :: rest)
                   | None => k' <= k + 1 + W ((pending, idx) :: rest)
                   end).
    { intros E'. specialize (IH (S k) r k' Hr E'). rewrite W_cons, todo_size_cons.
      pose proof (set_w_pos (pending, idx)).
      destruct r as [td'|]; [destruct IH as (A & B & C & D); repeat split; [exact A|lia|lia|lia] | lia]. }
    destruct pending as [|[o [t p i|n]] pend']; try (apply Hpop; exact E).
    destruct t; try (apply Hpop; exact E).
    destruct (Nat.ltb 0 idx); [|apply Hpop; exact E].
    inversion E. subst. repeat split; [exact Hok|lia|lia|lia].
Qed.

Lemma W_alt_step o alts p i pend' idx rest : idx < len alts ->
  W (((o, CRep (TDisj alts) p i) :: pend', S idx) :: rest) + 1 <= W (((o, CRep (TDisj alts) p i) :: pend', idx) :: rest).
Proof. intros H. rewrite !W_cons. unfold set_w, front_w. cbn [fst snd]. lia. Qed.

(* what get_next guarantees about its answer *)
Definition gn_post (td : todo) (k : nat) (r : getres) (k' : nat) : Prop :=
  match r with
  | GNext p td1 => inU p /\ todo_ok td1 /\ W td1 < W td /\ td1 <> [] /\ k' + 3 * W td1 <= k + 3 * W td
  | _ => k' <= k + 3 * W td + 1
  end.

Lemma W_nonempty s td : 1 <= W (s :: td).
Proof. rewrite W_cons. pose proof (set_w_pos s). lia. Qed.

Lemma get_next_spec err : forall f td k, todo_ok td -> todo_size td < f ->
  exists r k', get_next f err td k = Some (r, k') /\ gn_post td k r k'.
Proof.
  induction f as [|f IH]; intros td k Hok Hf; [lia|].
  destruct td as [|[pending idx] rest].
  { simpl. eexists _, _. split; [reflexivity|]. destruct err; simpl; lia. }
  inversion Hok as [|? ? Hs Hr]. subst.
  (* continuation after an unwind of some smaller todo [td2] reached at count [k2] *)
  assert (Hunw : forall td2 k2, todo_ok td2 -> todo_size td2 < f ->
                 W td2 + 1 <= W ((pending, idx) :: rest) -> k2 <= k + 1 ->
                 exists r k',
                   match unwind td2 k2 with
                   | (Some td', k3) => get_next f err td' k3
                   | (None, k3) => Some (GFail, k3)
                   end = Some (r, k') /\ gn_post ((pending, idx) :: rest) k r k').
  { intros td2 k2 Hok2 Hsz2 Hw2 Hk2.
    destruct (unwind td2 k2) as [[td'|] k3] eqn:EU; pose proof (unwind_spec td2 k2 _ k3 Hok2 EU) as HU; simpl in HU.
    - destruct HU as (A & B & C & D).
      destruct (IH td' k3 A ltac:(lia)) as (r & k' & E & P). exists r, k'. split; [exact E|].
      unfold gn_post in *. destruct r; [destruct P as (P1 & P2 & P3 & P4 & P5); split; [exact P1|]; split; [exact P2|]; split; [lia|]; split; [exact P4|lia] | lia | lia | lia].
    - eexists _, _. split; [reflexivity|]. unfold gn_post. lia. }
  destruct pending as [|[o tcx] pend'].
  - (* the top set is exhausted *)
    cbn [get_next]. destruct err.
    + (* unwind td = unwind rest (S ..) *)
      change (unwind (([], idx) :: rest) (S k)) with (unwind rest (S (S k))).
      destruct (unwind rest (S (S k))) as [[td'|] k3] eqn:EU;
        pose proof (unwind_spec rest (S (S k)) _ k3 Hr EU) as HU; simpl in HU.
      * destruct HU as (A & B & C & D). rewrite todo_size_cons in Hf. simpl in Hf.
        destruct (IH td' k3 A ltac:(lia)) as (r & k' & E & P). exists r, k'. split; [exact E|].
        assert (HW : W (([], idx) :: rest) = 1 + W rest) by reflexivity.
        unfold gn_post in *. destruct r; [destruct P as (P1 & P2 & P3 & P4 & P5); split; [exact P1|]; split; [exact P2|]; split; [lia|]; split; [exact P4|lia] | lia | lia | lia].
      * eexists _, _. split; [reflexivity|]. unfold gn_post. assert (HW : W (([], idx) :: rest) = 1 + W rest) by reflexivity. lia.
    + rewrite todo_size_cons in Hf. simpl in Hf.
      destruct (IH rest (S k) Hr ltac:(lia)) as (r & k' & E & P). exists r, k'. split; [exact E|].
      assert (HW : W (([], idx) :: rest) = 1 + W rest) by reflexivity.
      unfold gn_post in *. destruct r; [destruct P as (P1 & P2 & P3 & P4 & P5); split; [exact P1|]; split; [exact P2|]; split; [lia|]; split; [exact P4|lia] | lia | lia | lia].
  - (* an element is popped *)
    assert (Hp : inU (o, tcx)) by (apply Hs; simpl; auto).
    assert (Hpop_ok : forall j, todo_ok ((pend', j) :: rest)).
    { intros j. constructor; [eapply set_ok_tail; exact Hs | exact Hr]. }
    assert (Hpop_w : forall j, W ((pend', j) :: rest) + 1 <= W (((o, tcx) :: pend', idx) :: rest)).
    { intros j. rewrite !W_cons. pose proof (set_w_tail (o, tcx) pend' idx j Hs) as HT. unfold pend in *. lia. }
    assert (Hpop_sz : forall j, todo_size ((pend', j) :: rest) < f).
    { intros j. rewrite todo_size_cons in *. simpl in *. lia. }
    (* plain return of the popped element *)
    assert (Hret : exists r k', Some (GNext (o, tcx) ((pend', idx) :: rest), S k) = Some (r, k') /\
                                gn_post (((o, tcx) :: pend', idx) :: rest) k r k').
    { eexists _, _. split; [reflexivity|]. unfold gn_post. specialize (Hpop_w idx).
      split; [exact Hp|]. split; [apply Hpop_ok|]. split; [lia|]. split; [discriminate|lia]. }
    cbn [get_next].
    destruct tcx as [t p i | n].
    2:{ destruct err; [apply Hunw; [apply Hpop_ok | apply Hpop_sz | apply Hpop_w | lia] | exact Hret]. }
    destruct t as [ | p' | e sz | es | ents star | ents | alts];
      try (destruct err; [apply Hunw; [apply Hpop_ok | apply Hpop_sz | apply Hpop_w | lia] | exact Hret]).
    (* a disjunct *)
    destruct (Nat.ltb 0 idx) eqn:Eidx.
    + destruct err; cbn [negb].
      * destruct (Nat.ltb idx (len alts)) eqn:Elt.
        -- apply Nat.ltb_lt in Elt.
           destruct (nth_error alts idx) as [c|] eqn:En; [|apply nth_error_None in En; unfold len in *; lia].
           eexists _, _. split; [reflexivity|]. unfold gn_post.
           assert (inU (o, c)).
           { destruct Hp as [Ho Hc]. split; [exact Ho|]. simpl.
             apply (UC_kids tc c0 (CRep (TDisj alts) p i)); [exact Hc|]. simpl. eapply nth_error_In; eauto. }
           pose proof (W_alt_step o alts p i pend' idx rest Elt) as HA. unfold pend in *.
           split; [assumption|]. split; [constructor; [intros q Hq; apply Hs; exact Hq | exact Hr]|].
           split; [lia|]. split; [discriminate|lia].
        -- apply Hunw; [apply Hpop_ok | apply Hpop_sz | apply Hpop_w | lia].
      * destruct (IH ((pend', 0) :: rest) (S k) (Hpop_ok 0) (Hpop_sz 0)) as (r & k' & E & P).
        exists r, k'. split; [exact E|]. specialize (Hpop_w 0).
        unfold gn_post in *. unfold pend in *. destruct r; [destruct P as (P1 & P2 & P3 & P4 & P5); split; [exact P1|]; split; [exact P2|]; split; [lia|]; split; [exact P4|lia] | lia | lia | lia].
    + destruct err; [apply Hunw; [apply Hpop_ok | apply Hpop_sz | apply Hpop_w | lia]|].
      destruct alts as [|c alts'].
      * eexists _, _. split; [reflexivity|]. unfold gn_post. lia.
      * eexists _, _. split; [reflexivity|]. unfold gn_post.
        apply Nat.ltb_ge in Eidx. assert (idx = 0) by lia. subst idx.
        assert (inU (o, c)).
        { destruct Hp as [Ho Hc]. split; [exact Ho|]. simpl.
          apply (UC_kids tc c0 (CRep (TDisj (c :: alts')) p i)); [exact Hc|]. simpl. left. reflexivity. }
        pose proof (W_alt_step o (c :: alts') p i pend' 0 rest ltac:(simpl; lia)) as HA. unfold pend in *.
        split; [assumption|]. split; [constructor; [intros q Hq; apply Hs; exact Hq | exact Hr]|].
        split; [lia|]. split; [discriminate|lia].
Qed.


(* ---------- pushing work ---------- *)
Lemma K_pos : 2 <= K.
Proof. unfold K, bound_K. lia. Qed.
Lemma WP_2K : 2 * K <= WP.
Proof. unfold WP, bound_push. fold K. nia. Qed.
Lemma WP_push : 1 + K * (FO + FC) <= WP.
Proof. unfold WP, bound_push. fold K. nia. Qed.

Lemma set_w_le set i : set_ok (set, i) -> set_w (set, i) <= 1 + K * len set.
Proof.
  intros H. unfold set_w. simpl. destruct set as [|p r]; [lia|].
  assert (inU p) by (apply H; simpl; auto). pose proof (front_w_le p i H0). simpl. lia.
Qed.

Lemma return_check_spec td1 q td' : todo_ok td1 -> inU q -> return_check td1 q = Some td' ->
  todo_ok td' /\ W td' <= W td1 + WP.
Proof.
  intros Hok Hq E. destruct td1 as [|[pending i] rest]; simpl in E; [discriminate|]. inversion E. subst td'.
  inversion Hok as [|? ? Hs Hr]. subst. split.
  - constructor; [|exact Hr]. intros p [Hp|Hp]; [subst; exact Hq | apply Hs; exact Hp].
  - rewrite !W_cons. pose proof WP_2K. pose proof (front_w_le q i Hq). pose proof (front_w_pos q i).
    unfold set_w. simpl. destruct pending as [|p' r]; [simpl; lia|].
    pose proof (front_w_pos p' i). simpl. lia.
Qed.

Lemma filter_len_le {X} (f : X -> bool) l : len (filter f l) <= len l.
Proof. unfold len. induction l as [|x r IH]; simpl; [lia|]. destruct (f x); simpl; lia. Qed.

Lemma push_checks_spec ex td1 cs : todo_ok td1 -> (forall p, In p cs -> inU p) -> len cs <= FO + FC ->
  todo_ok (push_checks ex td1 cs) /\ W (push_checks ex td1 cs) <= W td1 + WP.
Proof.
  intros Hok Hcs Hl. unfold push_checks.
  destruct (filter (fun p => negb (have_examined ex p)) cs) as [|p r] eqn:E; [split; [exact Hok|lia]|].
  assert (Hs : set_ok (p :: r, 0)).
  { intros q Hq. apply Hcs. change (In q (p :: r)) in Hq. rewrite <- E in Hq. apply filter_In in Hq. apply Hq. }
  split; [constructor; assumption|].
  rewrite W_cons. pose proof (set_w_le _ _ Hs).
  pose proof (filter_len_le (fun p => negb (have_examined ex p)) cs) as FL. rewrite E in FL.
  pose proof WP_push. assert (K * len (p :: r) <= K * (FO + FC)) by (apply Nat.mul_le_mono_l; lia). lia.
Qed.

(* ---------- the children pushed by each arm are in the universe ---------- *)
Lemma dict_get_in {V} (d : list (bytes * V)) k v : dict_get d k = Some v -> In v (List.map snd d).
Proof.
  induction d as [|[k' v'] r IH]; simpl; [discriminate|].
  destruct (bytes_eqb k k'); intros E; [inversion E; left; reflexivity | right; apply IH; exact E].
Qed.

Lemma dict_ents_spec d ents e cs : dict_ents tc d ents = Some (e, cs) ->
  (forall p, In p cs -> In (fst p) (List.map snd d) /\ In (snd p) (List.map ent_chk ents)) /\ len cs <= len ents.
Proof.
  revert e cs. induction ents as [|[k c opt] r IH]; intros e cs E; simpl in E.
  - inversion E. split; [intros p []|simpl; lia].
  - destruct (resolve tc c) as [rc|]; [|discriminate].
    assert (Hrec : dict_ents tc d r = Some (e, cs) ->
                   (forall p, In p cs -> In (fst p) (List.map snd d) /\ In (snd p) (List.map ent_chk (DEnt k c opt :: r))) /\
                   len cs <= len (DEnt k c opt :: r)).
    { intros E'. destruct (IH _ _ E') as [A B]. split; [|simpl in *; unfold len in *; simpl; lia].
      intros p Hp. destruct (A p Hp). split; [assumption|right; assumption]. }
    destruct (dict_get d k) as [v|] eqn:G.
    + destruct opt.
      * destruct (r_ty rc); try (apply Hrec; exact E);
          (destruct (dict_ents tc d r) as [[e' cs']|] eqn:E'; [|discriminate]; inversion E; subst;
           destruct (IH _ _ eq_refl) as [A B]; split; [|unfold len in *; simpl; lia];
           intros q [Hq|Hq]; [subst q; simpl; split; [eapply dict_get_in; eauto | left; reflexivity]
                             | destruct (A q Hq); split; [assumption | right; assumption]]).
      * destruct (r_ty rc); try (apply Hrec; exact E);
          (destruct (dict_ents tc d r) as [[e' cs']|] eqn:E'; [|discriminate]; inversion E; subst;
           destruct (IH _ _ eq_refl) as [A B]; split; [|unfold len in *; simpl; lia];
           intros q [Hq|Hq]; [subst q; simpl; split; [eapply dict_get_in; eauto | left; reflexivity]
                             | destruct (A q Hq); split; [assumption | right; assumption]]).
      * inversion E. split; [intros p []|simpl; lia].
    + destruct opt; try (apply Hrec; exact E). inversion E. split; [intros p []|simpl; lia].
Qed.

Lemma stream_ents_spec d ents e cs : stream_ents tc d ents = Some (e, cs) ->
  (forall p, In p cs -> In (fst p) (List.map snd d) /\ In (snd p) (List.map ent_chk ents)) /\ len cs <= len ents.
Proof.
  revert e cs. induction ents as [|[k c opt] r IH]; intros e cs E; simpl in E.
  - inversion E. split; [intros p []|simpl; lia].
  - destruct (resolve tc c) as [rc|]; [|discriminate].
    destruct (stream_ents tc d r) as [[e' cs']|] eqn:E'; [|discriminate].
    destruct (IH _ _ eq_refl) as [A B].
    assert (Hsame : (forall p, In p cs' -> In (fst p) (List.map snd d) /\ In (snd p) (List.map ent_chk (DEnt k c opt :: r))) /\
                    len cs' <= len (DEnt k c opt :: r)).
    { split; [|unfold len in *; simpl; lia]. intros p Hp. destruct (A p Hp). split; [assumption|right; assumption]. }
    destruct (dict_get d k) as [v|] eqn:G.
    + destruct opt; try (inversion E; subst; exact Hsame);
        (destruct (r_ty rc); try (inversion E; subst; exact Hsame);
         (inversion E; subst; split; [|unfold len in *; simpl; lia];
          intros q [Hq|Hq]; [subst q; simpl; split; [eapply dict_get_in; eauto | left; reflexivity]
                            | destruct (A q Hq); split; [assumption | right; assumption]])).
    + destruct opt; inversion E; subst; exact Hsame.
Qed.

Lemma star_ents_spec d spec sc sopt sty e cs : star_ents d spec sc sopt sty = (e, cs) ->
  (forall p, In p cs -> In (fst p) (List.map snd d) /\ snd p = sc) /\ len cs <= len d.
Proof.
  revert e cs. induction d as [|[k v] r IH]; intros e cs E; simpl in E.
  - inversion E. split; [intros p []|simpl; lia].
  - assert (Hrec : star_ents r spec sc sopt sty = (e, cs) ->
                   (forall p, In p cs -> In (fst p) (List.map snd ((k, v) :: r)) /\ snd p = sc) /\ len cs <= len ((k, v) :: r)).
    { intros E'. destruct (IH _ _ E') as [A B]. split; [|unfold len in *; simpl; lia].
      intros p Hp. destruct (A p Hp). split; [right; assumption|assumption]. }
    destruct (existsb (bytes_eqb k) spec); [apply Hrec; exact E|].
    destruct sopt.
    + destruct sty; try (apply Hrec; exact E);
        (destruct (star_ents r spec sc KReq _) as [e' cs'] eqn:E'; inversion E; subst;
         destruct (IH _ _ eq_refl) as [A B]; split; [|unfold len in *; simpl; lia];
         intros q [Hq|Hq]; [subst q; simpl; split; [left; reflexivity | reflexivity]
                           | destruct (A q Hq); split; [right; assumption | assumption]]).
    + destruct sty; try (apply Hrec; exact E);
        (destruct (star_ents r spec sc KOpt _) as [e' cs'] eqn:E'; inversion E; subst;
         destruct (IH _ _ eq_refl) as [A B]; split; [|unfold len in *; simpl; lia];
         intros q [Hq|Hq]; [subst q; simpl; split; [left; reflexivity | reflexivity]
                           | destruct (A q Hq); split; [right; assumption | assumption]]).
    + inversion E. split; [intros p []|simpl; lia].
Qed.


(* ---------- the measure ---------- *)
Definition UP : list pend := list_prod UO UC.
Definition uncov (ex : list pend) : nat := len (filter (fun u => negb (have_examined ex u)) UP).
Definition Phi (td : todo) (ex : list pend) : nat := uncov ex * (WP + 1) + W td.

Lemma inU_UP p : inU p -> In p UP.
Proof. destruct p as [o c]. intros [A B]. apply in_prod; assumption. Qed.

Lemma filter_lt {X} (f g : X -> bool) l x :
  (forall y, g y = true -> f y = true) -> In x l -> f x = true -> g x = false ->
  len (filter g l) + 1 <= len (filter f l).
Proof.
  intros Hi Hx Hf Hg. unfold len. induction l as [|y r IH]; [destruct Hx|].
  simpl. destruct Hx as [Hx|Hx].
  - subst y. rewrite Hf, Hg. simpl.
    clear IH. induction r as [|z r IH]; simpl; [lia|].
    destruct (g z) eqn:Gz; [rewrite (Hi z Gz); simpl; lia | destruct (f z); simpl; lia].
  - specialize (IH Hx). destruct (g y) eqn:Gy; [rewrite (Hi y Gy); simpl; lia | destruct (f y); simpl; lia].
Qed.

Lemma uncov_cons p ex : inU p -> have_examined ex p = false -> uncov (p :: ex) + 1 <= uncov ex.
Proof.
  intros Hp Hn. unfold uncov. apply (filter_lt _ _ UP p).
  - intros y Hy. unfold have_examined in *. simpl in Hy. destruct (pend_eqb y p); [discriminate|exact Hy].
  - apply inU_UP. exact Hp.
  - rewrite Hn. reflexivity.
  - unfold have_examined. simpl. rewrite pend_eqb_refl. reflexivity.
Qed.

(* ---------- one iteration of the work loop ---------- *)
(* what every arm of the match delivers, starting from the todo [td1] returned by get_next *)
Definition arm_ok (td1 : todo) (ex1 : list pend) (k1 : nat) (res : stepres * nat) : Prop :=
  snd res = k1 /\
  match fst res with
  | SCont td' ex' _ => ex' = ex1 /\ todo_ok td' /\ W td' <= W td1 + WP
  | SStop o => o <> Stuck
  end.

Lemma arm_cont td1 ex1 k1 e : todo_ok td1 -> arm_ok td1 ex1 k1 (SCont td1 ex1 e, k1).
Proof. intros H. split; [reflexivity|]. simpl. split; [reflexivity|]. split; [exact H|lia]. Qed.
Lemma arm_stop td1 ex1 k1 o : o <> Stuck -> arm_ok td1 ex1 k1 (SStop o, k1).
Proof. intros H. split; [reflexivity|exact H]. Qed.
Lemma arm_push td1 ex1 k1 cs e : todo_ok td1 -> (forall p, In p cs -> inU p) -> len cs <= FO + FC ->
  arm_ok td1 ex1 k1 (SCont (push_checks ex1 td1 cs) ex1 e, k1).
Proof.
  intros H A B. destruct (push_checks_spec ex1 td1 cs H A B). split; [reflexivity|]. simpl. auto.
Qed.

Lemma in_combine_both {X Y} (l : list X) (m : list Y) x y : In (x, y) (combine l m) -> In x l /\ In y m.
Proof. intros H. split; [eapply in_combine_l; eauto | eapply in_combine_r; eauto]. Qed.

Lemma step_arms td1 ex k1 o tcx c :
  todo_ok td1 -> td1 <> [] -> inU (o, tcx) -> resolve tc tcx = Some c ->
  arm_ok td1 ((o, tcx) :: ex) k1 (step_arm opq oc tc td1 ((o, tcx) :: ex) k1 o tcx c).
Proof.
  intros Hok Hne [Ho Hc] Hres. unfold step_arm. set (ex1 := (o, tcx) :: ex).
  set (cont := fun td' e => (SCont td' ex1 e, k1)). set (stop := fun x => (SStop x, k1)). simpl in Ho, Hc.
  destruct (resolve_in tc c0 tcx c Hc Hres) as (Hrc & Hal & Hkids).
  destruct c as [[t p] i]. cbn [r_ty r_pred r_ind fst snd] in *.
  assert (Hcont : forall e, arm_ok td1 ex1 k1 (cont td1 e)) by (intros e; apply arm_cont; exact Hok).
  assert (Hstop : forall x, x <> Stuck -> arm_ok td1 ex1 k1 (stop x)) by (intros x Hx; apply arm_stop; exact Hx).
  assert (Hret : forall q, inU q ->
            arm_ok td1 ex1 k1 (match return_check td1 q with Some td' => cont td' None | None => stop Panicked end)).
  { intros q Hq. destruct (return_check td1 q) as [td'|] eqn:E; [|apply Hstop; discriminate].
    destruct (return_check_spec td1 q td' Hok Hq E). split; [reflexivity|]. simpl. auto. }
  assert (Hpush : forall cs e, (forall q, In q cs -> inU q) -> len cs <= FO + FC ->
            arm_ok td1 ex1 k1 (cont (push_checks ex1 td1 cs) e)).
  { intros cs e A B. apply arm_push; assumption. }
  destruct o as [ | b | z | n d | s | s | s | n g | l | d | d content].
  (* the reference *)
  8:{ destruct t; destruct i; try apply Hcont;
      (destruct (octx_get oc (n, g)) as [o'|] eqn:G; apply Hret;
       [ split; [eapply UO_lookup; eauto | exact Hal] | split; [apply UO_null | exact Hc] ]). }
  (* direct objects *)
  all: destruct i; try apply Hcont.
  all: destruct t as [ | p' | e sz | es | ents star | ents | alts]; try apply Hcont;
       try (apply Hstop; discriminate);
       try (match goal with |- context [prim_match ?o ?p] => destruct (prim_match o p) end; apply Hcont).
  (* arrays: Array *)
  1,3: (destruct (match sz with Some n => negb (Nat.eqb (len l) n) | None => false end); [apply Hcont|];
        destruct (resolve tc e) as [re|]; [|apply Hstop; discriminate];
        assert (Hpe : arm_ok td1 ex1 k1 (cont (push_checks ex1 td1 (List.map (fun x => (x, e)) l)) None));
        [ apply Hpush;
          [ intros q Hq; apply in_map_iff in Hq; destruct Hq as (x & Eq & Hx); subst q; split;
            [ apply (UO_kids oc o0 (OArr l)); [exact Ho | exact Hx] | apply Hkids; left; reflexivity ]
          | pose proof (fan_o_le (OArr l) Ho) as L; simpl in L; unfold len, pend in *; rewrite map_length; lia ]
        | destruct (r_ty re); try exact Hpe; apply Hcont ]).
  (* arrays: HetArray *)
  1,2: (destruct (negb (Nat.eqb (len l) (len es))); [apply Hcont|];
        apply Hpush;
        [ intros [x y] Hq; apply in_combine_both in Hq; destruct Hq as [Hx Hy]; split;
          [ apply (UO_kids oc o0 (OArr l)); [exact Ho | exact Hx] | apply Hkids; exact Hy ]
        | pose proof (fan_c_le _ Hrc) as L; simpl in L; unfold len, pend in *;  rewrite combine_length; lia ]).
  (* dictionaries *)
  1,2: (destruct (dict_ents tc d ents) as [[[e|] cs]|] eqn:DE; [apply Hcont | | apply Hstop; discriminate];
        destruct (dict_ents_spec d ents None cs DE) as [A B];
        pose proof (fan_c_le _ Hrc) as LC; pose proof (fan_o_le (ODict d) Ho) as LO;
        simpl in LC, LO; unfold len, pend in *; rewrite app_length, map_length in LC; rewrite map_length in LO;
        assert (Hcs : forall q, In q cs -> inU q);
        [ intros q Hq; destruct (A q Hq) as [A1 A2]; split;
          [ apply (UO_kids oc o0 (ODict d)); [exact Ho | exact A1]
          | apply Hkids; simpl; apply in_or_app; left; exact A2 ] |];
        destruct star as [[sc sopt]|]; [|apply Hpush; [exact Hcs | lia]];
        destruct (resolve tc sc) as [rs|]; [|apply Hstop; discriminate];
        destruct (star_ents d (List.map ent_key ents) sc sopt (r_ty rs)) as [[e|] cs2] eqn:SE; [apply Hcont|];
        destruct (star_ents_spec _ _ _ _ _ _ _ SE) as [A' B'];
        apply Hpush;
        [ intros q Hq; apply in_app_or in Hq; destruct Hq as [Hq|Hq]; [apply Hcs; exact Hq|];
          destruct (A' q Hq) as [A1 A2]; split;
          [ apply (UO_kids oc o0 (ODict d)); [exact Ho | exact A1]
          | rewrite A2; apply Hkids; simpl; apply in_or_app; right; left; reflexivity ]
        | unfold len, pend in *; rewrite app_length; simpl in LC; lia ]).
  (* streams *)
  1,2: (destruct (stream_ents tc d ents) as [[[e|] cs]|] eqn:DE; [apply Hcont | | apply Hstop; discriminate];
        destruct (stream_ents_spec d ents None cs DE) as [A B];
        pose proof (fan_c_le _ Hrc) as LC; simpl in LC; unfold len, pend in *; rewrite map_length in LC;
        apply Hpush;
        [ intros q Hq; destruct (A q Hq) as [A1 A2]; split;
          [ apply (UO_kids oc o0 (OStream d content)); [exact Ho | exact A1]
          | apply Hkids; simpl; exact A2 ]
        | lia ]).
Qed.


Lemma step_spec td ex err k res k' : todo_ok td -> step opq oc tc td ex err k = (res, k') ->
  match res with
  | SCont td' ex' _ => todo_ok td' /\ Phi td' ex' + 1 <= Phi td ex /\ k' + 5 * Phi td' ex' <= k + 5 * Phi td ex
  | SStop o => o <> Stuck /\ k' <= k + 3 * W td + 2
  end.
Proof.
  intros Hok. unfold step.
  destruct (get_next_spec (is_some err) (S (todo_size td)) td (S k) Hok (Nat.lt_succ_diag_r _)) as (r & k1 & E & P).
  rewrite E. unfold gn_post in P. destruct r as [[o tcx] td1 | | | ].
  - destruct P as (Hp & Hok1 & Hw & Hne & Hk).
    destruct (resolve tc tcx) as [c|] eqn:R.
    + destruct (have_examined ex (o, tcx)) eqn:HE.
      * intros Eq. inversion Eq. subst. split; [exact Hok1|]. unfold Phi. lia.
      * pose proof (step_arms td1 ex k1 o tcx c Hok1 Hne Hp R) as HA.
        intros Eq. rewrite Eq in HA. destruct HA as [Hk' Hm]. simpl in Hk', Hm. subst k'.
        destruct res as [td' ex' err'|x]; [|split; [exact Hm|lia]].
        destruct Hm as (Hex & Hok' & Hw'). subst ex'.
        pose proof (uncov_cons (o, tcx) ex Hp HE) as HU.
        pose proof (mul_step _ _ (WP + 1) HU) as HM. unfold pend in *.
        split; [exact Hok'|]. unfold Phi. lia.
    + intros Eq. inversion Eq. subst. split; [discriminate|lia].
  - intros Eq. destruct err; inversion Eq; subst; (split; [discriminate|lia]).
  - intros Eq. destruct err; inversion Eq; subst; (split; [discriminate|lia]).
  - intros Eq. inversion Eq. subst. split; [discriminate|lia].
Qed.

(* ---------- the loop ---------- *)
Lemma run_terminates : forall n td ex err k, todo_ok td -> Phi td ex < n ->
  fst (run opq oc tc n td ex err k) <> Stuck /\ snd (run opq oc tc n td ex err k) <= k + 5 * Phi td ex + 2.
Proof.
  induction n as [|n IH]; intros td ex err k Hok Hn; [lia|].
  simpl. destruct (step opq oc tc td ex err k) as [res k'] eqn:E.
  pose proof (step_spec td ex err k res k' Hok E) as S.
  destruct res as [td' ex' err'|x].
  - destruct S as (Hok' & Hphi & Hk). destruct (IH td' ex' err' k' Hok' ltac:(lia)) as [A B].
    split; [exact A|lia].
  - destruct S as [A B]. simpl. split; [exact A|]. unfold Phi. lia.
Qed.

Lemma Phi_init o c : inU (o, c) -> Phi [([(o, c)], 0)] [] < step_bound oc tc o0 c0.
Proof.
  intros H. unfold Phi, step_bound. fold UO UC FO FC. fold K WP.
  assert (uncov [] <= len UO * len UC).
  { unfold uncov. etransitivity; [apply filter_len_le|]. unfold UP, len, pend. rewrite prod_length. lia. }
  assert (W [([(o, c)], 0)] <= 1 + K).
  { simpl. unfold set_w. simpl. pose proof (front_w_le (o, c) 0 H). lia. }
  assert (uncov [] * (WP + 1) <= len UO * len UC * (WP + 1)) by (apply Nat.mul_le_mono_r; assumption).
  unfold K in *. lia.
Qed.
End Term.

(* more fuel does not change the answer of a finished run *)
Lemma run_mono opq oc tc : forall n m td ex err k, fst (run opq oc tc n td ex err k) <> Stuck -> n <= m ->
  run opq oc tc m td ex err k = run opq oc tc n td ex err k.
Proof.
  induction n as [|n IH]; intros m td ex err k H L; [simpl in H; congruence|].
  destruct m as [|m]; [lia|]. simpl in *.
  destruct (step opq oc tc td ex err k) as [[td' ex' err'|x] k']; [|reflexivity].
  apply IH; [exact H|lia].
Qed.



(* ---------- the theorems ---------- *)
Theorem run_root_terminates opq oc tc o c n :
  step_bound oc tc o c <= n ->
  fst (run opq oc tc n [([(o, c)], 0)] [] None 0) <> Stuck /\
  snd (run opq oc tc n [([(o, c)], 0)] [] None 0) <= 5 * step_bound oc tc o c + 2.
Proof.
  intros Hn.
  assert (Hin : inU oc tc o c (o, c)) by (split; [apply UO_root | apply UC_root]).
  assert (Hok : todo_ok oc tc o c [([(o, c)], 0)]).
  { constructor; [|constructor]. intros p [Hp|[]]. subst p. exact Hin. }
  pose proof (Phi_init oc tc o c o c Hin) as HP.
  destruct (run_terminates opq oc tc o c _ _ [] None 0 Hok HP) as [A B].
  rewrite (run_mono opq oc tc _ n _ _ _ _ A Hn). split; [exact A|lia].
Qed.

Theorem check_fuel_terminates opq oc tc o c r n :
  resolve tc c = Some r -> step_bound oc tc o (norm_chk (rep_chk r)) <= n ->
  fst (check_fuel opq oc tc n o c) <> Stuck /\
  snd (check_fuel opq oc tc n o c) <= 5 * step_bound oc tc o (norm_chk (rep_chk r)) + 2.
Proof. intros R Hn. unfold check_fuel. rewrite R. apply run_root_terminates. exact Hn. Qed.

(* the verdict does not depend on the fuel once the bound is reached: running again gives the same answer *)
Theorem check_fuel_deterministic opq oc tc o c r n m :
  resolve tc c = Some r -> step_bound oc tc o (norm_chk (rep_chk r)) <= n -> n <= m ->
  check_fuel opq oc tc m o c = check_fuel opq oc tc n o c.
Proof.
  intros R Hn Hm. unfold check_fuel. rewrite R. apply run_mono; [|exact Hm].
  apply run_root_terminates. exact Hn.
Qed.

(* ---------- the binary-fuel loop of the executable entry is the same loop ---------- *)
Section RunPos.
Variable opq : N -> obj -> bool.
Variable oc : octx.
Variable tc : tctx.

Fixpoint run_rs (n : nat) (s : rs) : rs :=
  match n with O => s | S n' => run_rs n' (step_rs opq oc tc s) end.

Lemma run_rs_stop n o k : run_rs n (RStop o k) = RStop o k.
Proof. induction n; simpl; auto. Qed.

Lemma run_rs_add a b s : run_rs (a + b) s = run_rs b (run_rs a s).
Proof. revert s. induction a as [|a IH]; intros s; simpl; [reflexivity|apply IH]. Qed.

Lemma run_pos_rs : forall p s, run_pos opq oc tc p s = run_rs (Pos.to_nat p) s.
Proof.
  induction p as [p IH|p IH|]; intros s; destruct s as [td ex err k|o k]; try (rewrite run_rs_stop; reflexivity).
  - cbn [run_pos]. rewrite !IH. rewrite Pos2Nat.inj_xI.
    replace (S (2 * Pos.to_nat p)) with (1 + (Pos.to_nat p + Pos.to_nat p)) by lia.
    rewrite !run_rs_add. reflexivity.
  - cbn [run_pos]. rewrite !IH. rewrite Pos2Nat.inj_xO.
    replace (2 * Pos.to_nat p) with (Pos.to_nat p + Pos.to_nat p) by lia.
    rewrite run_rs_add. reflexivity.
  - reflexivity.
Qed.

Lemma run_rs_run : forall n td ex err k,
  rs_result (run_rs n (RCont td ex err k)) = run opq oc tc n td ex err k.
Proof.
  induction n as [|n IH]; intros td ex err k; [reflexivity|].
  simpl. destruct (step opq oc tc td ex err k) as [[td' ex' err'|o] k'].
  - apply IH.
  - rewrite run_rs_stop. reflexivity.
Qed.

Lemma check_N_fuel n o c : check_N opq oc tc n o c = check_fuel opq oc tc (N.to_nat n) o c.
Proof.
  unfold check_N, check_fuel. destruct (resolve tc c) as [r|]; [|reflexivity].
  destruct n as [|p]; [reflexivity|]. simpl run_N. rewrite run_pos_rs. apply run_rs_run.
Qed.
End RunPos.

Lemma step_bound_N_nat oc tc o c : N.to_nat (step_bound_N oc tc o c) = step_bound oc tc o c.
Proof.
  unfold step_bound_N, step_bound, bound_push, bound_K.
  set (a := len (uni_objs oc o)). set (b := len (uni_chks tc c)).
  set (fo := fan_o (uni_objs oc o)). set (fc := fan_c (uni_chks tc c)). lia.
Qed.

Theorem check_terminates opq oc tc o c r :
  resolve tc c = Some r ->
  fst (check opq oc tc o c) <> Stuck /\
  snd (check opq oc tc o c) <= 5 * step_bound oc tc o (norm_chk (rep_chk r)) + 2.
Proof.
  intros R. unfold check. rewrite R. rewrite check_N_fuel, step_bound_N_nat.
  apply (check_fuel_terminates opq oc tc o c r _ R). lia.
Qed.

(* with an undefined root name the answer is immediate *)
Lemma check_unresolved opq oc tc o c : resolve tc c = None -> check opq oc tc o c = (SpecErr EUnknown, 0).
Proof. intros R. unfold check. rewrite R. reflexivity. Qed.
