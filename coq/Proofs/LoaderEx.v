(* Proofs/LoaderEx.v — the hypotheses of [load_history] are satisfiable: a two-revision history with an
   xref stream, an object stream, a forward-referenced /Length, an update (classic table) that
   redefines an object, adds one and frees one with the incremented generation. *)
From PV Require Import Model.Loader Proofs.Loader Proofs.LoaderObjs Proofs.LoaderMain Proofs.LoaderWit.
Open Scope N_scope.

Definition cat2 : obj := ODict [(B "Pages", ORef 4 0); (B "Type", OName (B "Catalog"))].

Definition ex_pdf : pdf := mkpdf true 500 (Some 400)
  [(15, (IObj (1, 0) cat, 50));
   (50, (IObjStm (10, 0) 11 None [(6, OInt 1); (7, OInt 2)], 138));
   (138, (IObj (3, 0) (OStream [(B "Length", ORef 9 0)] (B "abc")), 160));
   (160, (IObj (9, 0) (OInt 3), 170));
   (170, (IObj (5, 0) (OStr (B "old")), 180));
   (180, (IXStm (11, 0) [mkxent 0 65535 (XFree 0); mkxent 1 0 (XInUse 15); mkxent 3 0 (XInUse 138); mkxent 5 0 (XInUse 170);
                          mkxent 6 0 (XInStream 10 0); mkxent 7 0 (XInStream 10 1); mkxent 9 0 (XInUse 160);
                          mkxent 10 0 (XInUse 50); mkxent 11 0 (XInUse 180)] (Some (ORef 1 0)) None, 277));
   (277, (IGarbage, 298));
   (298, (IObj (1, 0) cat2, 330));
   (330, (IObj (4, 0) (OArr [OInt 1; OInt 2]), 400));
   (400, (IXSect [mkxent 1 0 (XInUse 298); mkxent 4 0 (XInUse 330); mkxent 5 1 (XFree 0)] (tr (ORef 1 0) (Some 180)), 470));
   (470, (IGarbage, 500))].

Definition ex_S : list sect :=
  [(400, [mkxent 1 0 (XInUse 298); mkxent 4 0 (XInUse 330); mkxent 5 1 (XFree 0)], Some (ORef 1 0));
   (180, [mkxent 0 65535 (XFree 0); mkxent 1 0 (XInUse 15); mkxent 3 0 (XInUse 138); mkxent 5 0 (XInUse 170);
          mkxent 6 0 (XInStream 10 0); mkxent 7 0 (XInStream 10 1); mkxent 9 0 (XInUse 160);
          mkxent 10 0 (XInUse 50); mkxent 11 0 (XInUse 180)], Some (ORef 1 0))].

Lemma ex_hyps :
  exists c, load ex_pdf = Loaded c (1, 0) /\
            forall id, ctx_get c id = resolve (p_file ex_pdf) (all_ents ex_S) id.
Proof.
  apply (load_history ex_pdf ex_S 1 0 400); try reflexivity.
  - (* sections *)
    eapply SS_cons; [reflexivity | eapply SA_table; reflexivity |]. eapply SS_last; [reflexivity|]. eapply SA_stream; reflexivity.
  - repeat constructor; cbn; intuition discriminate.
  - (* (3) *)
    intros e ofs Hin St. vm_compute in Hin.
    repeat (destruct Hin as [<-|Hin]); try (destruct Hin); cbn in St; try discriminate; inversion St; subst ofs.
    all: split; [reflexivity|]; eexists; eexists; eexists; (split; [reflexivity|]); (split; [reflexivity|]).
    all: try (left; exact Logic.I).
    right. exists (9, 0), 3. split; [split; reflexivity|]. exists 160, 170. split; [vm_compute; tauto|]. split; reflexivity.
  - (* (4) *)
    intros e stm idx ms n v Hin St C Hm. vm_compute in Hin.
    repeat (destruct Hin as [<-|Hin]); try (destruct Hin); cbn in St; try discriminate; inversion St; subst stm idx.
    all: vm_compute in C; inversion C; subst ms; destruct Hm as [Hm|[Hm|[]]]; inversion Hm; subst; eexists; reflexivity.
  - intros e stm idx ms Hin St C. vm_compute in Hin.
    repeat (destruct Hin as [<-|Hin]); try (destruct Hin); cbn in St; try discriminate; inversion St; subst stm idx.
    all: vm_compute in C; inversion C; subst ms; repeat constructor; cbn; intuition discriminate.
Qed.

(* and what the theorem then says about this history, evaluated *)
Example ex_values :
  get (load ex_pdf) (1, 0) = Some (VObj cat2) /\ get (load ex_pdf) (4, 0) = Some (VObj (OArr [OInt 1; OInt 2])) /\
  get (load ex_pdf) (5, 0) = None /\ get (load ex_pdf) (5, 1) = None /\
  get (load ex_pdf) (3, 0) = Some (VObj (OStream [(B "Length", ORef 9 0)] (B "abc"))) /\
  get (load ex_pdf) (6, 0) = Some (VObj (OInt 1)) /\ get (load ex_pdf) (7, 0) = Some (VObj (OInt 2)) /\
  get (load ex_pdf) (11, 0) = Some VXStm.
Proof. vm_compute. repeat split; reflexivity. Qed.

(* ---------- [layout_of] is satisfiable: a three-object document in a HYBRID layout ---------- *)
From PV Require Import Proofs.LoaderDoc.

Definition hy_doc : doc := [((1, 0), cat); ((2, 0), OInt 7); ((6, 0), OStr (B "a"))].

Definition hy_pdf : pdf := mkpdf true 320 (Some 200)
  [(15, (IObj (1, 0) cat, 50));
   (50, (IObj (2, 0) (OInt 7), 70));
   (70, (IObjStm (10, 0) 5 None [(6, OStr (B "a"))], 120));
   (120, (IXStm (11, 0) [mkxent 6 0 (XInStream 10 0)] None None, 200));
   (200, (IXSect [mkxent 0 65535 (XFree 0); mkxent 1 0 (XInUse 15); mkxent 2 0 (XInUse 50); mkxent 10 0 (XInUse 70);
                  mkxent 11 0 (XInUse 120)] (Some (mktrailer (Some (ORef 1 0)) None (Some 120))), 300));
   (300, (IGarbage, 320))].

Definition hy_E : list xent :=
  [mkxent 0 65535 (XFree 0); mkxent 1 0 (XInUse 15); mkxent 2 0 (XInUse 50); mkxent 10 0 (XInUse 70);
   mkxent 11 0 (XInUse 120)] ++ [mkxent 6 0 (XInStream 10 0)].

Ltac split_eqb_in H :=
  repeat match type of H with
         | context [N.eqb ?k ?x] => is_var x; let E := fresh "E" in destruct (N.eqb k x) eqn:E; [apply N.eqb_eq in E; subst x|]
         end.

Lemma hy_layout : layout_of hy_doc (1, 0) hy_pdf hy_E.
Proof.
  constructor.
  - reflexivity.
  - exists 200. split; [reflexivity|]. split; [reflexivity|]. eapply SA_hybrid; reflexivity.
  - intros e ofs Hin St. vm_compute in Hin.
    repeat (destruct Hin as [<-|Hin]); try (destruct Hin); cbn in St; try discriminate; inversion St; subst ofs.
    all: split; [reflexivity|]; eexists; eexists; eexists; (split; [reflexivity|]); (split; [reflexivity|]); left; exact Logic.I.
  - intros e stm idx ms n v Hin St C Hm. vm_compute in Hin.
    repeat (destruct Hin as [<-|Hin]); try (destruct Hin); cbn in St; try discriminate; inversion St; subst stm idx.
    vm_compute in C; inversion C; subst ms; destruct Hm as [Hm|[]]; inversion Hm; subst; eexists; reflexivity.
  - intros e stm idx ms Hin St C. vm_compute in Hin.
    repeat (destruct Hin as [<-|Hin]); try (destruct Hin); cbn in St; try discriminate; inversion St; subst stm idx.
    vm_compute in C; inversion C; subst ms; repeat constructor; cbn; intuition discriminate.
  - intros id v H. cbn [hy_doc In] in H. destruct H as [H|[H|[H|[]]]]; inversion H; subst; vm_compute; reflexivity.
  - intros [n g] w H. unfold resolve, hy_E in H. cbn [fst snd app lookup_ent x_num] in H. split_eqb_in H; cbn in H; try discriminate; split_eqb_in H; cbn in H; try discriminate.
    all: try match type of H with (if N.eqb ?g0 0 then _ else _) = _ => destruct (N.eqb g0 0) eqn:Eg0; [apply N.eqb_eq in Eg0; subst g0 | discriminate] end.
    all: inversion H; subst; clear H.
    all: try (left; eexists; split; [reflexivity|]; cbn; tauto).
    all: try (right; left; reflexivity).
    all: try (right; right; eexists; reflexivity).
Qed.

Example hy_loaded : exists c, load hy_pdf = Loaded c (1, 0) /\ ctx_get c (6, 0) = Some (VObj (OStr (B "a"))) /\ ctx_get c (2, 0) = Some (VObj (OInt 7)).
Proof.
  destruct (load_document _ _ _ _ hy_layout) as (c & L & K & _). exists c. split; [exact L|].
  split; apply K; cbn; tauto.
Qed.
