(* Proofs/LoaderBytesHist.v — C04b, the composition: for every history of incremental updates written in the classic
   layout (Spec/RenderHistory.v), the loader model run on the BYTES walks the /Prev chain through all tables and
   binds every identifier to what the newest revision that mentions its number says ([resolve_h]). *)
From PV Require Import Model.Obj Model.XrefTab Model.Loader Model.LoaderBytes Spec.Spelling Spec.XrefEnc Spec.RenderClassic Spec.RenderHistory.
From PV Require Import Proofs.XrefBase Proofs.XrefTab Proofs.ObjStream Proofs.ObjSpell
     Proofs.Loader Proofs.LoaderObjs Proofs.LoaderMain
     Proofs.LoaderBytesBase Proofs.LoaderBytesObj Proofs.LoaderBytesSect Proofs.LoaderBytesTab Proofs.LoaderBytesMain Proofs.LoaderBytesRev.
From Coq Require Import Lia FinFun.
Close Scope N_scope.

(* ---------- where the revisions are written ---------- *)
Definition placed := (nat * option N * revision * rlayout)%type.     (* base offset, /Prev, revision, its layout *)
Definition q_b (q : placed) : nat := fst (fst (fst q)).
Definition q_prev (q : placed) : option N := snd (fst (fst q)).
Definition q_r (q : placed) : revision := snd (fst q).
Definition q_rl (q : placed) : rlayout := snd q.
Definition q_s (q : placed) : nat := sect_off (q_b q) (q_r q) (q_rl q).

Fixpoint place (b : nat) (prev : option N) (h : list revision) (ls : list rlayout) : list placed :=
  match h, ls with
  | r :: h', rl :: ls' =>
    (b, prev, r, rl) :: place (b + len (render_rev b r rl)) (Some (N.of_nat (sect_off b r rl))) h' ls'
  | _, _ => []
  end.

(* ---------- side conditions ---------- *)
Definition wf_history (h : history) : Prop :=
  h <> [] /\ Forall (fun r => NoDup (List.map (fun p => fst (fst p)) (r_objs r))) h.

Record wf_layouts_p (prev0 : option N) (h : history) (L : hlayout) : Prop := {
  wh_garbage : find_tag kw_pdf (hl_garbage L ++ kw_pdf) = Some (len (hl_garbage L));
  wh_len : len (hl_revs L) = len h;
  (* every revision is legally written where it stands, its trailer's /Prev being the offset of the previous table
     ([prev0] in the base revision: None in a legal file) *)
  wh_revs : Forall (fun q => wf_rev (q_b q) (q_prev q) (q_r q) (q_rl q)) (place (len (hhead L)) prev0 h (hl_revs L));
  wh_seol : plain_ws (hl_seol L) /\ hl_seol L <> [];
  wh_sx : 1 <= hl_sxw L /\
          (N.of_nat (last_sect_off (len (hhead L)) h (hl_revs L) 0) < 10 ^ N.of_nat (hl_sxw L))%N /\
          (N.of_nat (last_sect_off (len (hhead L)) h (hl_revs L) 0) < i64_lim)%N;
  wh_eeol : plain_ws (hl_eeol L);
  wh_tail : Forall (fun b => b <> 37%N) (hl_tail L) }.

Definition wf_layouts := wf_layouts_p None.

(* ---------- facts on [place] ---------- *)
Lemma place_revs : forall h ls b prev, len ls = len h -> List.map q_r (place b prev h ls) = h.
Proof.
  induction h as [|r h IH]; intros ls b prev L; destruct ls as [|rl ls]; try discriminate; [reflexivity|].
  cbn [place List.map]. unfold q_r at 1. cbn [fst snd]. f_equal. apply IH. cbn [len List.length] in L. unfold len in *. lia.
Qed.

Lemma place_located : forall h ls pre post prev, len ls = len h ->
  forall q, In q (place (len pre) prev h ls) ->
  exists rest, at_cur (pre ++ render_revs (len pre) h ls ++ post) (q_b q) (render_rev (q_b q) (q_r q) (q_rl q) ++ rest).
Proof.
  induction h as [|r h IH]; intros ls pre post prev L q Hq; destruct ls as [|rl ls]; try discriminate; [destruct Hq|].
  cbn [place render_revs] in *. destruct Hq as [<-|Hq].
  - unfold q_b, q_r, q_rl. cbn [fst snd]. eexists. rewrite <- app_assoc. apply at_cur_mid.
  - rewrite <- len_app in Hq.
    destruct (IH ls (pre ++ render_rev (len pre) r rl) post _ ltac:(cbn [len List.length] in L; unfold len in *; lia) q Hq) as (rest & A).
    exists rest. rewrite len_app in A. rewrite <- !app_assoc in A. rewrite <- app_assoc. exact A.
Qed.

Lemma place_base_le : forall h ls b prev q, In q (place b prev h ls) -> b <= q_b q.
Proof.
  induction h as [|r h IH]; intros ls b prev q Hq; destruct ls as [|rl ls]; try destruct Hq.
  - subst q. unfold q_b. cbn. lia.
  - apply IH in H. lia.
Qed.

Lemma render_rev_gt b r rl : sect_off b r rl < b + len (render_rev b r rl).
Proof. unfold sect_off, render_rev. rewrite !len_app. cbn [kw_trailer len List.length]. lia. Qed.

Lemma place_sect_NoDup : forall h ls b prev, NoDup (List.map q_s (place b prev h ls)).
Proof.
  induction h as [|r h IH]; intros ls b prev; destruct ls as [|rl ls]; try constructor.
  - cbn [place List.map]. intros H. apply in_map_iff in H as (q & Eq & Hq). apply place_base_le in Hq.
    unfold q_s at 2 in Eq. unfold q_b, q_r, q_rl in Eq. cbn [fst snd] in Eq. pose proof (render_rev_gt b r rl).
    unfold q_s, sect_off in Eq. unfold sect_off in H. lia.
  - apply IH.
Qed.

(* ---------- the sections of the chain ---------- *)
Definition sect_of (q : placed) : sect :=
  (N.of_nat (q_s q), E_rev (q_b q) (q_r q) (q_rl q), Some (ORef (fst (r_root (q_r q))) (snd (r_root (q_r q))))).

Lemma rev_head_root : forall h ls b prev d, len ls = len h -> h <> [] ->
  exists o E S', rev (List.map sect_of (place b prev h ls)) =
                 (o, E, Some (ORef (fst (r_root (last h d))) (snd (r_root (last h d))))) :: S'.
Proof.
  induction h as [|r h IH]; intros ls b prev d L Hn; [contradiction|]. destruct ls as [|rl ls]; [discriminate|].
  cbn [place List.map rev]. destruct h as [|r2 h].
  - cbn [place List.map rev app last]. unfold sect_of at 1. unfold q_r. cbn [fst snd]. eauto.
  - destruct (IH ls (b + len (render_rev b r rl)) (Some (N.of_nat (sect_off b r rl))) d
                ltac:(cbn [len List.length] in *; unfold len in *; lia) ltac:(discriminate)) as (o & E & S' & Eq).
    rewrite Eq. change (last (r :: r2 :: h) d) with (last (r2 :: h) d). cbn [app]. eauto.
Qed.

Lemma lookup_ent_app a b n :
  lookup_ent (a ++ b) n = match lookup_ent a n with Some e => Some e | None => lookup_ent b n end.
Proof. induction a as [|e a IH]; cbn [app lookup_ent]; [reflexivity|]. destruct (N.eqb (x_num e) n); [reflexivity|exact IH]. Qed.

Lemma objs_mention_In l n g v : objs_mention l n = Some (g, v) -> In ((n, g), v) l.
Proof.
  induction l as [|[[k g'] v'] l IH]; cbn [objs_mention In]; [discriminate|].
  destruct (N.eqb_spec k n); [intros H; injection H as -> ->; left; subst; reflexivity|intros H; right; apply IH, H].
Qed.

(* ---------- what [resolve_h] says when a revision is appended ---------- *)
Lemma resolve_h_newest h r id m :
  rev_mention r (fst id) = Some m ->
  resolve_h (h ++ [r]) id = match m with Some (g, v) => if N.eqb g (snd id) then Some v else None | None => None end.
Proof. intros M. unfold resolve_h. rewrite rev_app_distr. cbn [rev app mention_h]. rewrite M. destruct m as [[g v]|]; reflexivity. Qed.

Lemma resolve_h_older h r id : rev_mention r (fst id) = None -> resolve_h (h ++ [r]) id = resolve_h h id.
Proof. intros M. unfold resolve_h. rewrite rev_app_distr. cbn [rev app mention_h]. rewrite M. reflexivity. Qed.

Section Hist.
  Variables (rel : bool) (h : history) (L : hlayout) (prev0 : option N).
  Hypothesis Wh : wf_history h.
  Hypothesis Wl : wf_layouts_p prev0 h L.

  Let hd := hhead L.
  Let P := place (len hd) prev0 h (hl_revs L).
  Let V := render_history_view h L.
  Let f := file_of rel V.
  Let flen := N.of_nat (len V).
  Let sx := last_sect_off (len hd) h (hl_revs L) 0.
  Let post := kw_startxref ++ hl_seol L ++ digits (hl_sxw L) (N.of_nat sx) ++ hl_eeol L ++ kw_eof ++ hl_tail L.

  Lemma V_shape_h : V = hd ++ render_revs (len hd) h (hl_revs L) ++ post.
  Proof. unfold V, render_history_view, hbody, post, sx, hd. rewrite <- app_assoc. reflexivity. Qed.

  Lemma q_facts q : In q P ->
    wf_rev (q_b q) (q_prev q) (q_r q) (q_rl q) /\ NoDup (List.map fst (r_objs (q_r q))) /\
    exists rest, at_cur V (q_b q) (render_rev (q_b q) (q_r q) (q_rl q) ++ rest).
  Proof.
    intros Hq. split; [exact (proj1 (Forall_forall _ _) (wh_revs _ _ _ Wl) q Hq)|]. split.
    - assert (Hr : In (q_r q) h).
      { rewrite <- (place_revs h (hl_revs L) (len hd) prev0 (wh_len _ _ _ Wl)). apply in_map, Hq. }
      pose proof (proj1 (Forall_forall _ _) (proj2 Wh) _ Hr) as ND.
      cbv beta in ND. rewrite <- (map_map fst fst) in ND. eapply NoDup_map_inv, ND.
    - rewrite V_shape_h. apply (place_located h (hl_revs L) hd post prev0 (wh_len _ _ _ Wl) q Hq).
  Qed.

  Lemma q_table q : In q P ->
    q_s q < len V /\
    exists nx, Loader.find f (N.of_nat (q_s q)) =
               Some (IXSect (E_rev (q_b q) (q_r q) (q_rl q))
                            (Some (mktrailer (Some (ORef (fst (r_root (q_r q))) (snd (r_root (q_r q))))) (q_prev q) None)), nx).
  Proof.
    intros Hq. destruct (q_facts q Hq) as (W & ND & rest & A). split.
    - exact (rev_s_lt V _ _ _ rest A).
    - exact (rev_table_found rel V _ _ _ _ rest A W).
  Qed.

  (* ---------- the abstraction of the rendered file ---------- *)
  Lemma abstract_history :
    abstract_file rel (render_history_classic h L) = mkpdf true flen (Some (N.of_nat sx)) f.
  Proof.
    assert (EV : exists r, V = kw_pdf ++ r).
    { exists (hl_hdr L ++ render_revs (len hd) h (hl_revs L) ++ post). rewrite V_shape_h. unfold hd, hhead. rewrite <- !app_assoc. reflexivity. }
    destruct EV as (r & EV).
    unfold abstract_file, render_history_classic. fold V. rewrite EV.
    rewrite (magic_found _ r (wh_garbage _ _ _ Wl)).
    replace (skipn (len (hl_garbage L)) (hl_garbage L ++ kw_pdf ++ r)) with V
      by (rewrite EV; symmetry; replace (len (hl_garbage L)) with (len (hl_garbage L) + 0) by lia; apply skipn_app_len).
    destruct (header_found V r EV) as (c' & Eh). rewrite Eh.
    assert (Sx : find_startxref V = Some (N.of_nat sx)).
    { destruct (wh_seol _ _ _ Wl) as (S1 & S2). destruct (wh_sx _ _ _ Wl) as (X0 & X1 & X2).
      replace V with ((hd ++ render_revs (len hd) h (hl_revs L)) ++
                      kw_startxref ++ hl_seol L ++ digits (hl_sxw L) (N.of_nat sx) ++ hl_eeol L ++ kw_eof ++ hl_tail L).
      - apply startxref_found; try assumption. exact (wh_eeol _ _ _ Wl). exact (wh_tail _ _ _ Wl).
      - rewrite V_shape_h. unfold post. rewrite <- !app_assoc. reflexivity. }
    rewrite Sx. reflexivity.
  Qed.

  (* ---------- a base revision whose /Prev dangles ---------- *)
  Lemma q_step q : In q P ->
    (N.of_nat (q_s q) <? flen)%N = true /\
    step f flen (N.of_nat (q_s q)) =
    Some (E_rev (q_b q) (q_r q) (q_rl q), Some (ORef (fst (r_root (q_r q))) (snd (r_root (q_r q)))), q_prev q).
  Proof.
    intros Hq. destruct (q_table q Hq) as (Lt & nx & F). split; [apply N.ltb_lt; unfold flen; lia|].
    apply section_step. eapply SA_table. exact F.
  Qed.

  (* the offsets the walk visits, newest first, and the /Prev it is left with *)
  Lemma follows_build : forall hh ls b prev Lold acc,
    (forall q, In q (place b prev hh ls) -> In q P) ->
    (Lold = [] /\ prev = prev0) \/ (exists p, prev = Some p /\ follows f flen p Lold prev0) ->
    hh <> [] -> len ls = len hh ->
    follows f flen (N.of_nat (last_sect_off b hh ls acc))
            (rev (List.map (fun q => N.of_nat (q_s q)) (place b prev hh ls)) ++ Lold) prev0.
  Proof.
    induction hh as [|r hh IH]; intros ls b prev Lold acc Sub Hp Hn Ll; [contradiction|].
    destruct ls as [|rl ls]; [discriminate|]. cbn [place last_sect_off List.map rev].
    set (q := (b, prev, r, rl) : placed).
    assert (Hq : In q P) by (apply Sub; left; reflexivity).
    destruct (q_step q Hq) as (Lt & St). change (q_s q) with (sect_off b r rl) in *. change (q_prev q) with prev in St.
    assert (One : follows f flen (N.of_nat (sect_off b r rl)) (N.of_nat (sect_off b r rl) :: Lold) prev0).
    { destruct Hp as [(-> & Ep)|(p & -> & Fo)].
      - rewrite Ep in St. eapply F_last; eassumption.
      - eapply F_cons; eassumption. }
    destruct hh as [|r2 hh].
    - cbn [place List.map rev app last_sect_off]. exact One.
    - rewrite <- app_assoc. cbn [app].
      apply (IH ls _ (Some (N.of_nat (sect_off b r rl))) (N.of_nat (sect_off b r rl) :: Lold) (sect_off b r rl)).
      + intros q' Hq'. apply Sub. right. exact Hq'.
      + right. eexists. split; [reflexivity|exact One].
      + discriminate.
      + cbn [len List.length] in *. unfold len in *. lia.
  Qed.

  (* a base revision whose /Prev points back at one of the tables, or outside the file: rejected *)
  Theorem load_bytes_prev_dangling t :
    prev0 = Some t -> In t (List.map (fun q => N.of_nat (q_s q)) P) \/ (flen <= t)%N ->
    load_bytes rel (render_history_classic h L) = Rejected.
  Proof.
    intros Ep Ht. unfold load_bytes. rewrite abstract_history.
    pose proof (follows_build h (hl_revs L) (len hd) prev0 [] 0 (fun q H => H) (or_introl (conj eq_refl eq_refl))
                  (proj1 Wh) (wh_len _ _ _ Wl)) as Fo.
    rewrite app_nil_r in Fo. fold P in Fo. rewrite Ep in Fo.
    eapply load_dangling; [reflexivity|exact Fo|]. cbn [p_flen]. destruct Ht as [Ht|Ht]; [left; apply in_rev in Ht|right]; exact Ht.
  Qed.

  (* ---------- the legal case: no /Prev in the base revision ---------- *)
  Hypothesis Hp0 : prev0 = None.

  (* the /Prev chain, newest section first *)
  Lemma chain_build : forall hh ls b prev Sold acc,
    (forall q, In q (place b prev hh ls) -> In q P) ->
    match prev with None => Sold = [] | Some p => sections f flen p Sold end ->
    hh <> [] -> len ls = len hh ->
    sections f flen (N.of_nat (last_sect_off b hh ls acc)) (rev (List.map sect_of (place b prev hh ls)) ++ Sold).
  Proof.
    induction hh as [|r hh IH]; intros ls b prev Sold acc Sub Hp Hn Ll; [contradiction|].
    destruct ls as [|rl ls]; [discriminate|]. cbn [place last_sect_off List.map rev].
    set (q := (b, prev, r, rl) : placed).
    assert (Hq : In q P) by (apply Sub; left; reflexivity).
    destruct (q_table q Hq) as (Lt & nx & F).
    assert (One : sections f flen (N.of_nat (sect_off b r rl)) (sect_of q :: Sold)).
    { unfold sect_of. change (q_s q) with (sect_off b r rl) in *. change (q_prev q) with prev in F.
      destruct prev as [p|].
      - eapply SS_cons; [apply N.ltb_lt; unfold flen; lia|eapply SA_table; exact F|exact Hp].
      - subst Sold. eapply SS_last; [apply N.ltb_lt; unfold flen; lia|eapply SA_table; exact F]. }
    destruct hh as [|r2 hh].
    - cbn [place List.map rev app last_sect_off]. exact One.
    - rewrite <- app_assoc. cbn [app].
      apply (IH ls _ (Some (N.of_nat (sect_off b r rl))) (sect_of q :: Sold) (sect_off b r rl)).
      + intros q' Hq'. apply Sub. right. exact Hq'.
      + exact One.
      + discriminate.
      + cbn [len List.length] in *. unfold len in *. lia.
  Qed.

  Let S := rev (List.map sect_of P).

  Lemma S_sections : sections f flen (N.of_nat sx) S.
  Proof.
    pose proof (chain_build h (hl_revs L) (len hd) prev0 [] 0 (fun q H => H)) as C. rewrite Hp0 in C.
    specialize (C eq_refl (proj1 Wh) (wh_len _ _ _ Wl)). rewrite <- Hp0 in C.
    rewrite app_nil_r in C. exact C.
  Qed.

  Lemma S_offs : NoDup (List.map s_off S).
  Proof.
    unfold S. rewrite <- map_rev, map_map.
    assert (E : List.map (fun x => s_off (sect_of x)) (rev P) = List.map N.of_nat (List.map q_s (rev P))) by (rewrite map_map; reflexivity).
    rewrite E. apply FinFun.Injective_map_NoDup; [intros a b' H; apply Nat2N.inj, H|].
    rewrite map_rev. apply NoDup_rev, place_sect_NoDup.
  Qed.

  Lemma S_ents e : In e (all_ents S) -> exists q, In q P /\ In e (E_rev (q_b q) (q_r q) (q_rl q)).
  Proof.
    unfold all_ents, S. intros H. apply in_concat in H as (l & Hl & He). apply in_map_iff in Hl as (s & <- & Hs).
    apply in_rev in Hs. apply in_map_iff in Hs as (q & <- & Hq). exists q. split; [exact Hq|exact He].
  Qed.

  (* looking a number up in all entries, newest section first, is asking the newest revision that mentions it *)
  Lemma mention_lookup : forall Pn, (forall q, In q Pn -> In q P) -> forall n,
    match mention_h (List.map q_r Pn) n with
    | Some (Some (g, v)) =>
      exists e o nx, lookup_ent (all_ents (List.map sect_of Pn)) n = Some e /\ x_gen e = g /\
                     x_st e = Loader.XInUse (N.of_nat o) /\ Loader.find f (N.of_nat o) = Some (IObj (n, g) v, nx)
    | Some None => exists e nx, lookup_ent (all_ents (List.map sect_of Pn)) n = Some e /\ x_st e = Loader.XFree nx
    | None => lookup_ent (all_ents (List.map sect_of Pn)) n = None
    end.
  Proof.
    induction Pn as [|q Pn IH]; intros Sub n; [reflexivity|].
    assert (Hq : In q P) by (apply Sub; left; reflexivity).
    destruct (q_facts q Hq) as (W & ND & rest & A).
    cbn [List.map mention_h]. unfold all_ents. cbn [List.map concat]. fold (all_ents (List.map sect_of Pn)).
    change (s_ents (sect_of q)) with (E_rev (q_b q) (q_r q) (q_rl q)). rewrite lookup_ent_app.
    destruct (rev_mention (q_r q) n) as [[[g v]|]|] eqn:M.
    - unfold rev_mention in M. destruct (objs_mention (r_objs (q_r q)) n) as [[g' v']|] eqn:OM.
      + injection M as -> ->. apply objs_mention_In in OM.
        destruct (Erev_defined rel V _ _ _ _ rest A W ND n g v OM) as (e & o & nx & Lk & Eg & St & F).
        rewrite Lk. eauto 8.
      + destruct (existsb (N.eqb n) (r_frees (q_r q))); discriminate.
    - unfold rev_mention in M. destruct (objs_mention (r_objs (q_r q)) n); [discriminate|].
      destruct (existsb (N.eqb n) (r_frees (q_r q))) eqn:Ex; [|discriminate].
      apply existsb_exists in Ex as (n' & Hn & En). apply N.eqb_eq in En. subst n'.
      destruct (Erev_freed _ _ _ _ W n Hn) as (e & nx & Lk & St). rewrite Lk. eauto.
    - rewrite (Erev_unmentioned _ _ _ _ W n M). apply IH. intros q' Hq'. apply Sub. right. exact Hq'.
  Qed.

  Lemma resolve_history id : resolve f (all_ents S) id = option_map VObj (resolve_h h id).
  Proof.
    unfold S. rewrite <- map_rev.
    pose proof (mention_lookup (rev P) (fun q H => proj2 (in_rev P q) H) (fst id)) as ML.
    rewrite map_rev in ML. unfold P in ML at 1. rewrite (place_revs h (hl_revs L) (len hd) prev0 (wh_len _ _ _ Wl)) in ML.
    unfold resolve, resolve_h. destruct (mention_h (rev h) (fst id)) as [[[g v]|]|].
    - destruct ML as (e & o & nx & Lk & Eg & St & F). rewrite Lk, St, Eg.
      destruct (N.eqb g (snd id)); [|reflexivity]. unfold obj_at. rewrite F. reflexivity.
    - destruct ML as (e & nx & Lk & St). rewrite Lk, St. reflexivity.
    - rewrite ML. reflexivity.
  Qed.

  (* THE END-TO-END THEOREM for incremental updates *)
  Theorem load_bytes_history :
    exists c, load_bytes rel (render_history_classic h L) = Loaded c (latest_root h) /\
              forall id, ctx_get c id = option_map VObj (resolve_h h id).
  Proof.
    unfold load_bytes. set (p := abstract_file rel (render_history_classic h L)).
    assert (Ep : p = mkpdf true flen (Some (N.of_nat sx)) f) by apply abstract_history.
    destruct (rev_head_root h (hl_revs L) (len hd) prev0 (mk_rev [] [] (0, 0)%N) (wh_len _ _ _ Wl) (proj1 Wh)) as (o & E0 & S' & ES).
    fold P in ES. fold S in ES.
    assert (Lt : (N.of_nat sx <? flen)%N = true).
    { pose proof S_sections as C. inversion C; assumption. }
    destruct (load_history p S (fst (latest_root h)) (snd (latest_root h)) (N.of_nat sx)) as (c & Ld & K).
    - rewrite Ep. reflexivity.
    - rewrite Ep. reflexivity.
    - rewrite Ep. exact Lt.
    - rewrite Ep. exact S_sections.
    - exact S_offs.
    - rewrite ES. reflexivity.
    - intros e ofs Hin St. apply first_per_key_incl in Hin. destruct (S_ents e Hin) as (q & Hq & He).
      destruct (q_facts q Hq) as (W & ND & rest & A).
      destruct (Erev_inuse rel V _ _ _ _ rest A W ND e ofs He St) as (v & nx & _ & Lo & F & Sm).
      rewrite Ep. cbn [p_file p_flen]. split; [exact Lo|].
      exists (IObj (x_id e) v), nx, (VObj v). split; [exact F|]. split; [reflexivity|]. left. exact Sm.
    - intros e stm idx ms n v Hin St. apply first_per_key_incl in Hin. destruct (S_ents e Hin) as (q & Hq & He).
      destruct (q_facts q Hq) as (W & ND & rest & A).
      destruct (Erev_status _ _ _ e He) as [(? & K)|(? & K)]; congruence.
    - intros e stm idx ms Hin St. apply first_per_key_incl in Hin. destruct (S_ents e Hin) as (q & Hq & He).
      destruct (Erev_status _ _ _ e He) as [(? & K)|(? & K)]; congruence.
    - exists c. split; [destruct (latest_root h); exact Ld|]. intros id. rewrite K, Ep. cbn [p_file]. apply resolve_history.
  Qed.
End Hist.

Theorem load_bytes_history_classic rel h L :
  wf_history h -> wf_layouts h L ->
  exists c, load_bytes rel (render_history_classic h L) = Loaded c (latest_root h) /\
            forall id, ctx_get c id = option_map VObj (resolve_h h id).
Proof. intros Wh Wl. exact (load_bytes_history rel h L None Wh Wl eq_refl). Qed.

Theorem load_bytes_prev_cycle rel h L t :
  wf_history h -> wf_layouts_p (Some t) h L ->
  In t (List.map (fun q => N.of_nat (q_s q)) (place (len (hhead L)) (Some t) h (hl_revs L))) ->
  load_bytes rel (render_history_classic h L) = Rejected.
Proof. intros Wh Wl Ht. exact (load_bytes_prev_dangling rel h L (Some t) Wh Wl t eq_refl (or_introl Ht)). Qed.

Theorem load_bytes_prev_oob rel h L t :
  wf_history h -> wf_layouts_p (Some t) h L ->
  (N.of_nat (len (render_history_view h L)) <= t)%N ->
  load_bytes rel (render_history_classic h L) = Rejected.
Proof. intros Wh Wl Ht. exact (load_bytes_prev_dangling rel h L (Some t) Wh Wl t eq_refl (or_intror Ht)). Qed.

(* ---------- an incremental update, seen as a relation between TWO files ----------
   The file of the history [h ++ [r]] (any layouts) defines exactly what the file of [h] alone (any, unrelated, layouts)
   defines, overridden by what the update [r] says: a number [r] (re)defines is bound to the new value under the new
   generation only, a number [r] frees is undefined under every generation, every other identifier keeps the
   binding the old file gives it.  The root is the update's. *)
Theorem load_bytes_update_classic rel h r L L' :
  wf_history h -> wf_layouts h L' -> wf_history (h ++ [r]) -> wf_layouts (h ++ [r]) L ->
  exists c c',
    load_bytes rel (render_history_classic h L') = Loaded c' (latest_root h) /\
    load_bytes rel (render_history_classic (h ++ [r]) L) = Loaded c (r_root r) /\
    forall id, ctx_get c id =
      match rev_mention r (fst id) with
      | Some (Some (g, v)) => if N.eqb g (snd id) then Some (VObj v) else None
      | Some None => None
      | None => ctx_get c' id
      end.
Proof.
  intros Wh Wl' Wh2 Wl.
  destruct (load_bytes_history_classic rel h L' Wh Wl') as (c' & Ld' & K').
  destruct (load_bytes_history_classic rel (h ++ [r]) L Wh2 Wl) as (c & Ld & K).
  exists c, c'. split; [exact Ld'|]. split.
  - rewrite Ld. unfold latest_root. rewrite last_last. reflexivity.
  - intros id. rewrite K. destruct (rev_mention r (fst id)) as [m|] eqn:M.
    + rewrite (resolve_h_newest h r id m M). destruct m as [[g v]|]; [destruct (N.eqb g (snd id)); reflexivity|reflexivity].
    + rewrite (resolve_h_older h r id M). symmetry. apply K'.
Qed.
