(* Proofs/PrimExtra.v — facts about the token values that the object-level proofs (C02) need:
   the windows(3) name decoder equals the obvious left-to-right decoder; the value of a literal
   string is the raw text between the outer parentheses.  Not part of the C15 cone. *)
From PV Require Import Model.Prim Proofs.PrimBase Proofs.PrimTok Proofs.PrimLit.
From Coq Require Import ZifyBool ZifyNat ZifyN.

(* ---------- NameP / OperatorP: #xx decoding ---------- *)
Definition hex_code (b c : N) : N := (16 * from_hex (to_lower b) + from_hex (to_lower c))%N.

(* left to right: "#hh" (two hex digits) is one byte, 0 is an error; anything else is itself *)
Fixpoint simple_dec (fuel : nat) (l : bytes) : option bytes :=
  match fuel with
  | O => Some l
  | S f =>
    match l with
    | a :: b :: c :: r =>
      if N.eqb a 35 && is_hex_b b && is_hex_b c then
        if N.eqb (hex_code b c) 0 then None
        else match simple_dec f r with Some t => Some (hex_code b c :: t) | None => None end
      else match simple_dec f (b :: c :: r) with Some t => Some (a :: t) | None => None end
    | _ => Some l
    end
  end.
Definition simple_decode (l : bytes) : option bytes := simple_dec (len l) l.

Lemma simple_dec_short f l : len l < 3 -> simple_dec f l = Some l.
Proof. destruct f; [reflexivity|]. destruct l as [|a [|b [|c r]]]; cbn; try reflexivity; lia. Qed.

Lemma name_dec_cons a b c rest :
  name_dec (a :: b :: c :: rest) =
    if N.eqb a 35 && is_hex_b b && is_hex_b c then
      if N.eqb (hex_code b c) 0 then None
      else match rest with
           | [] => Some [hex_code b c]
           | [d] => Some [hex_code b c; d]
           | [d; e] => Some [hex_code b c; d; e]
           | _ => match name_dec rest with Some r => Some (hex_code b c :: r) | None => None end
           end
    else match rest with
         | [] => Some [a; b; c]
         | _ => match name_dec (b :: c :: rest) with Some r => Some (a :: r) | None => None end
         end.
Proof. reflexivity. Qed.

Lemma simple_dec_cons f a b c r :
  simple_dec (S f) (a :: b :: c :: r) =
    if N.eqb a 35 && is_hex_b b && is_hex_b c then
      if N.eqb (hex_code b c) 0 then None
      else match simple_dec f r with Some t => Some (hex_code b c :: t) | None => None end
    else match simple_dec f (b :: c :: r) with Some t => Some (a :: t) | None => None end.
Proof. reflexivity. Qed.

Lemma name_dec_simple f : forall l, 3 <= len l -> len l <= f -> name_dec l = simple_dec f l.
Proof.
  induction f as [|f IH]; intros l H3 Hf; [lia|].
  destruct l as [|a [|b [|c r]]]; try (cbn in H3; lia).
  rewrite name_dec_cons, simple_dec_cons.
  destruct (N.eqb a 35 && is_hex_b b && is_hex_b c).
  - destruct (N.eqb (hex_code b c) 0); [reflexivity|].
    destruct r as [|d [|e [|g r']]]; cbv iota.
    + rewrite simple_dec_short by (cbn; lia). reflexivity.
    + rewrite simple_dec_short by (cbn; lia). reflexivity.
    + rewrite simple_dec_short by (cbn; lia). reflexivity.
    + rewrite (IH (d :: e :: g :: r')) by (unfold len in *; cbn in *; lia). reflexivity.
  - destruct r as [|d r']; cbv iota.
    + rewrite simple_dec_short by (cbn; lia). reflexivity.
    + rewrite (IH (b :: c :: d :: r')) by (unfold len in *; cbn in *; lia). reflexivity.
Qed.

Theorem name_decode_is_simple l : name_decode l = simple_decode l.
Proof.
  unfold name_decode, simple_decode. destruct (Nat.ltb_spec (len l) 3).
  - rewrite simple_dec_short by assumption. reflexivity.
  - apply name_dec_simple; lia.
Qed.

(* the cases the property text worries about *)
Example name_dec_tail1 : name_decode (B "A#4") = Some (B "A#4"). Proof. reflexivity. Qed.
Example name_dec_tail2 : name_decode (B "##20") = Some (B "# "). Proof. reflexivity. Qed.
Example name_dec_tail3 : name_decode (B "#20#") = Some (B " #"). Proof. reflexivity. Qed.
Example name_dec_tail4 : name_decode (B "#41#4a#4") = Some (B "AJ#4"). Proof. reflexivity. Qed.
Example name_dec_null : name_decode (B "a#00") = None. Proof. reflexivity. Qed.

(* ---------- RawLiteralString: the value is the raw body ---------- *)
Lemma sub_snoc (s : bytes) a b x : a <= b -> peek s b = Some x -> sub s a b ++ [x] = sub s a (S b).
Proof.
  intros H E. rewrite (sub_split s a b (S b)) by lia. f_equal.
  unfold sub. replace (S b - b) with 1 by lia. unfold peek in E. rewrite (skipn_cons_nth _ _ _ E). reflexivity.
Qed.

Lemma lit_loop_value f rel s st : forall c ls d v v' a b c',
  st < c -> v = sub s (S st) c ->
  lit_loop f rel s st c ls d v = POk (v', a, b) c' -> v' = sub s (S st) (b - 1).
Proof.
  induction f as [|f IH]; intros c ls d v v' a b c' Hst Hv H; cbn [lit_loop] in H; [discriminate|].
  set (n := until lit_stops s c) in *.
  destruct (peek s (c + n)) as [x|] eqn:Ep; [|unfold setc in H; destruct (Nat.leb st (len s)); discriminate].
  pose proof (peek_Some_lt _ _ _ Ep) as Lt. rewrite !incr_ok in H by assumption.
  assert (V0 : v ++ sub s c (c + n) = sub s (S st) (c + n)) by (rewrite Hv, <- sub_split by lia; reflexivity).
  assert (V1 : forall y, x = y -> (v ++ sub s c (c + n)) ++ [y] = sub s (S st) (S (c + n))).
  { intros y <-. rewrite V0. apply sub_snoc; [lia|exact Ep]. }
  destruct (N.eqb_spec x 40); [|destruct (N.eqb_spec x 41); [|destruct (N.eqb_spec x 92); [|discriminate]]].
  - rewrite app_assoc in H. rewrite (V1 40%N) in H by assumption.
    destruct (escaped ls (c + n)); [eapply IH; [| |exact H]; [lia|reflexivity]|].
    destruct (i32_incr rel d); [|discriminate]. eapply IH; [| |exact H]; [lia|reflexivity].
  - destruct (escaped ls (c + n)).
    + rewrite (V1 41%N) in H by assumption. eapply IH; [| |exact H]; [lia|reflexivity].
    + destruct (i32_decr rel d) as [d'|]; [|discriminate]. destruct (Z.eqb d' 0).
      * injection H as <- _ <- _. rewrite V0. f_equal. lia.
      * rewrite (V1 41%N) in H by assumption. eapply IH; [| |exact H]; [lia|reflexivity].
  - rewrite app_assoc in H. rewrite (V1 92%N) in H by assumption.
    eapply IH; [| |exact H]; [lia|reflexivity].
Qed.

(* the value of a literal string is the text strictly between the reported span's first and last byte *)
Theorem lit_string_value rel s c v a b c' :
  lit_string rel s c = POk (v, a, b) c' -> v = sub s (S a) (b - 1) /\ peek s a = Some 40%N /\ peek s (b - 1) = Some 41%N.
Proof.
  intros H. pose proof H as H0. unfold lit_string in H.
  destruct (peek_is s c 40) eqn:E; cbn [negb] in H; [|discriminate].
  pose proof (peek_is_lt _ _ _ E) as Lt. rewrite incr_ok in H by assumption.
  pose proof (lit_loop_shape _ _ _ _ _ _ _ _ _ _ _ _ H) as (-> & <- & Lb & Lb2).
  split; [eapply lit_loop_value; [| |exact H]; [lia|]|split; [apply peek_is_true, E|]].
  - unfold sub. replace (S c - S c) with 0 by lia. reflexivity.
  - (* the last byte consumed is the closing parenthesis *)
    clear H0 E. revert H. generalize (S (len s - c)) as f. generalize (@nil N) as v0. generalize 1%Z as d.
    generalize (@None nat) as ls. generalize (S c) as p.
    intros p ls d v0 f; revert p ls d v0. induction f as [|f IH]; intros p ls d v0 H; cbn [lit_loop] in H; [discriminate|].
    destruct (peek s (p + until lit_stops s p)) as [x|] eqn:Ep; [|unfold setc in H; destruct (Nat.leb c (len s)); discriminate].
    pose proof (peek_Some_lt _ _ _ Ep) as Lt'. rewrite !incr_ok in H by assumption.
    destruct (N.eqb_spec x 40); [|destruct (N.eqb_spec x 41); [|destruct (N.eqb_spec x 92); [|discriminate]]].
    + destruct (escaped ls _); [eapply IH, H|]. destruct (i32_incr rel d); [eapply IH, H|discriminate].
    + destruct (escaped ls _); [eapply IH, H|]. destruct (i32_decr rel d) as [d'|]; [|discriminate].
      destruct (Z.eqb d' 0); [|eapply IH, H]. injection H as _ <-. cbn [Nat.sub]. rewrite Nat.sub_0_r. subst x. exact Ep.
    + eapply IH, H.
Qed.
