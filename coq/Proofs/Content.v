(* Proofs/Content.v — C12: the translated table + transition match agree with Figure 9 on every (level, operator)
   pair; the extractor loop accepts exactly as the diagram says and outputs the documented tokens. *)
From PV Require Import Model.Content.
From Coq Require Import Lia.

(* ------------------------------------------------------------------ correspondence of the two state types *)
Definition st_of (s : state) : gstate :=
  match s with
  | SContent => PageLevel | SText => TextObject | SPath => PathObject
  | SClipping => ClippingPath | SInlineImage => InlineImageObject
  end.

(* the implementation's transition on an operator name: table lookup, then the translated match *)
Definition impl_next (s : state) (n : bytes) : option state :=
  match op_lookup n with
  | None => None
  | Some (ty, _) => trans s ty n
  end.

Definition gstate_eqb (a b : gstate) : bool :=
  match a, b with
  | PageLevel, PageLevel | TextObject, TextObject | PathObject, PathObject
  | ClippingPath, ClippingPath | InlineImageObject, InlineImageObject => true
  | _, _ => false
  end.

Lemma gstate_eqb_eq a b : gstate_eqb a b = true -> a = b.
Proof. destruct a, b; simpl; congruence. Qed.

Definition opt_gstate_eqb (a b : option gstate) : bool :=
  match a, b with
  | Some x, Some y => gstate_eqb x y
  | None, None => true
  | _, _ => false
  end.

Lemma opt_gstate_eqb_eq a b : opt_gstate_eqb a b = true -> a = b.
Proof. destruct a, b; simpl; try congruence. intros H; f_equal; apply gstate_eqb_eq, H. Qed.

(* ------------------------------------------------------------------ the finite sweep *)
(* every operator name that occurs in the implementation's table or in Table 51 *)
Definition all_names : list bytes := List.map fst operators ++ op_names.

Definition is_some {A} (o : option A) : bool := match o with Some _ => true | None => false end.

(* what the operand-handling match must do for an operator, by name (from the property text) *)
Definition spec_arm (n : bytes) : harm :=
  if is_name n [B "Tj"; [39%N]; [34%N]] then HShow3
  else if is_name n [B "TJ"] then HShowTJ
  else if is_name n [B "Td"; B "TD"; B "T*"] then HLineMove
  else if is_name n [B "BT"; B "ET"] then HTextObject
  else if is_name n [B "BX"] then HBX
  else if is_name n [B "EX"] then HEX
  else HNone.

Definition harm_eqb (a b : harm) : bool :=
  match a, b with
  | HShow3, HShow3 | HShowTJ, HShowTJ | HLineMove, HLineMove | HTextObject, HTextObject
  | HBX, HBX | HEX, HEX | HNone, HNone => true
  | _, _ => false
  end.

Lemma harm_eqb_eq a b : harm_eqb a b = true -> a = b.
Proof. destruct a, b; simpl; congruence. Qed.

(* operand count of the text-showing operators (Table 109) *)
Definition spec_arity (n : bytes) : option nat :=
  if is_name n [B "Tj"; [39%N]; B "TJ"] then Some 1 else if is_name n [[34%N]] then Some 3 else None.

Definition name_check (n : bytes) : bool :=
  (* every level: the translated transition equals Figure 9 *)
  forallb (fun s => opt_gstate_eqb (option_map st_of (impl_next s n)) (fig9 (st_of s) n)) all_state
  (* known to the implementation <-> in Table 51 *)
  && Bool.eqb (is_some (op_lookup n)) (is_some (class_of n))
  (* the operand-handling arm selected and the arity used are those of the operator's name *)
  && match op_lookup n with
     | None => true
     | Some (ty, oargs) =>
       harm_eqb (handle_arm ty n) (spec_arm n)
       && match spec_arity n with Some k => Nat.eqb (len oargs) k | None => true end
     end.

Definition table_check : bool := forallb name_check all_names.

Lemma table_check_ok : table_check = true.
Proof. vm_compute. reflexivity. Qed.

(* ------------------------------------------------------------------ lifting the sweep to ALL names *)
Lemma op_lookup_in_notin tbl n acc : ~ In n (List.map fst tbl) -> op_lookup_in tbl n acc = acc.
Proof.
  revert acc; induction tbl as [|[k info] r IH]; intros acc H; simpl; [reflexivity|].
  simpl in H. rewrite IH by tauto.
  destruct (bytes_eqb n k) eqn:E; [|reflexivity].
  apply bytes_eqb_eq in E. subst. tauto.
Qed.

Lemma assoc_notin {V} (l : list (bytes * V)) n : ~ In n (List.map fst l) -> assoc l n = None.
Proof.
  induction l as [|[k v] r IH]; intros H; simpl; [reflexivity|].
  simpl in H. destruct (bytes_eqb n k) eqn:E.
  - apply bytes_eqb_eq in E. subst. tauto.
  - apply IH. tauto.
Qed.

Lemma bytes_eq_dec (a b : bytes) : {a = b} + {a <> b}.
Proof. apply list_eq_dec, N.eq_dec. Qed.

Lemma all_state_complete s : In s all_state.
Proof. destruct s; simpl; tauto. Qed.

Lemma unknown_both n : ~ In n all_names -> op_lookup n = None /\ class_of n = None.
Proof.
  intros H. unfold all_names in H. rewrite in_app_iff in H. split.
  - unfold op_lookup. apply op_lookup_in_notin. tauto.
  - unfold class_of. apply assoc_notin. unfold op_names in H. tauto.
Qed.

Lemma name_check_all n : name_check n = true.
Proof.
  destruct (in_dec bytes_eq_dec n all_names) as [Hin|Hout].
  - pose proof table_check_ok as H. unfold table_check in H. rewrite forallb_forall in H. apply H, Hin.
  - destruct (unknown_both n Hout) as [H1 H2]. unfold name_check, impl_next, fig9. rewrite H1, H2. reflexivity.
Qed.

(* C12_table: for EVERY level and EVERY operator name, the implementation (table lookup + translated match)
   permits the operator iff Figure 9 does, and moves to the same level *)
Theorem table_all s n : option_map st_of (impl_next s n) = fig9 (st_of s) n.
Proof.
  pose proof (name_check_all n) as H. unfold name_check in H.
  apply andb_true_iff in H as [H _]. apply andb_true_iff in H as [H _].
  rewrite forallb_forall in H. apply opt_gstate_eqb_eq, H, all_state_complete.
Qed.

Lemma known_iff n : op_lookup n = None <-> class_of n = None.
Proof.
  pose proof (name_check_all n) as H. unfold name_check in H.
  apply andb_true_iff in H as [H _]. apply andb_true_iff in H as [_ H].
  apply Bool.eqb_prop in H.
  destruct (op_lookup n), (class_of n); simpl in H; split; intros; congruence.
Qed.

Lemma table_arm n ty oargs :
  op_lookup n = Some (ty, oargs) ->
  handle_arm ty n = spec_arm n /\ (forall k, spec_arity n = Some k -> len oargs = k).
Proof.
  intros L. pose proof (name_check_all n) as H. unfold name_check in H.
  apply andb_true_iff in H as [_ H]. rewrite L in H. apply andb_true_iff in H as [H1 H2].
  split; [apply harm_eqb_eq, H1|].
  intros k Hk. rewrite Hk in H2. apply Nat.eqb_eq, H2.
Qed.

(* the sweep really covers 5 levels x 73 operators *)
Lemma sweep_size : len all_state = 5 /\ len operators = 73 /\ len op_names = 73.
Proof. vm_compute. repeat split. Qed.

(* ------------------------------------------------------------------ operand handling vs. the documented output *)
Lemma tj_elems_spec l texts :
  tj_elems l texts =
  if forallb (fun o => is_str o || is_num o) l then Ok (texts ++ strings_of l) else Err EGuard.
Proof.
  revert texts; induction l as [|o r IH]; intros texts; simpl.
  - rewrite app_nil_r. reflexivity.
  - destruct o; simpl; try reflexivity; rewrite IH; destruct (forallb _ r); try reflexivity.
    rewrite <- app_assoc. reflexivity.
Qed.

Lemma is_name_cons n x l : is_name n (x :: l) = bytes_eqb n x || is_name n l.
Proof. reflexivity. Qed.

Lemma is_name_nil n : is_name n [] = false.
Proof. reflexivity. Qed.

Lemma last_opt_single {A} (x : A) : last_opt [x] = Some x.
Proof. reflexivity. Qed.

Ltac name_case n X :=
  let E := fresh "E" in
  destruct (bytes_eqb n X) eqn:E; [apply bytes_eqb_eq in E; subst n|].

(* one operator application whose operator is known to the table: the code's operand handling does exactly what
   the property text says — error iff the operands are not those of the operator, otherwise the documented tokens
   and the compatibility depth *)
Lemma handle_spec n ty oargs ops nc texts :
  op_lookup n = Some (ty, oargs) ->
  handle ty n oargs (List.map TObj ops) nc texts =
  if operands_ok ops n then Ok (next_depth nc n, texts ++ out_of (IOp ops n)) else Err EGuard.
Proof.
  intros L.
  name_case n (B "Tj").
  { vm_compute in L. inversion L; subst ty oargs. clear L.
    destruct ops as [|o1 [|o2 r]]; try reflexivity; destruct o1; reflexivity. }
  name_case n [39%N].
  { vm_compute in L. inversion L; subst ty oargs. clear L.
    destruct ops as [|o1 [|o2 r]]; try reflexivity; destruct o1; try reflexivity.
    unfold handle. simpl. rewrite <- app_assoc. reflexivity. }
  name_case n [34%N].
  { vm_compute in L. inversion L; subst ty oargs. clear L.
    destruct ops as [|o1 [|o2 [|o3 [|o4 r]]]]; try reflexivity.
    - destruct o1, o2, o3; try reflexivity; unfold handle; simpl; rewrite <- app_assoc; reflexivity.
    - destruct o3; reflexivity. }
  name_case n (B "TJ").
  { vm_compute in L. inversion L; subst ty oargs. clear L.
    destruct ops as [|o1 [|o2 r]]; try reflexivity.
    - destruct o1; try reflexivity.
      unfold handle. change (handle_arm OpTextShow (B "TJ")) with HShowTJ. cbv iota.
      change (len (List.map TObj [OArr l])) with 1. change (len [ArgNumberOrStringArray]) with 1.
      change (negb (Nat.eqb 1 1)) with false. cbv iota.
      change (last_opt (List.map TObj [OArr l])) with (Some (TObj (OArr l))). cbv iota. rewrite tj_elems_spec.
      change (operands_ok [OArr l] (B "TJ")) with (forallb (fun o => is_str o || is_num o) l).
      destruct (forallb _ l); reflexivity.
    - destruct o1; reflexivity. }
  (* the remaining operators: the output does not depend on the operands *)
  destruct (table_arm n ty oargs L) as [HA _].
  assert (OK : operands_ok ops n = true).
  { unfold operands_ok. rewrite !is_name_cons, !is_name_nil, E, E0, E1, E2. reflexivity. }
  rewrite OK. unfold handle. rewrite HA.
  unfold spec_arm, out_of, next_depth. rewrite !is_name_cons, !is_name_nil, E, E0, E1, E2. simpl.
  destruct (bytes_eqb n (B "Td")) eqn:F1; [apply bytes_eqb_eq in F1; subst n; reflexivity|].
  destruct (bytes_eqb n (B "TD")) eqn:F2; [apply bytes_eqb_eq in F2; subst n; reflexivity|].
  destruct (bytes_eqb n (B "T*")) eqn:F3; [apply bytes_eqb_eq in F3; subst n; reflexivity|].
  destruct (bytes_eqb n (B "BT")) eqn:F4; [apply bytes_eqb_eq in F4; subst n; reflexivity|].
  destruct (bytes_eqb n (B "ET")) eqn:F5; [apply bytes_eqb_eq in F5; subst n; reflexivity|].
  destruct (bytes_eqb n (B "BX")) eqn:F6;
    [apply bytes_eqb_eq in F6; subst n; simpl; rewrite app_nil_r; reflexivity|].
  destruct (bytes_eqb n (B "EX")) eqn:F7;
    [apply bytes_eqb_eq in F7; subst n; simpl; rewrite app_nil_r;
     destruct nc; simpl; [reflexivity|rewrite Nat.sub_0_r; reflexivity]|].
  simpl. rewrite app_nil_r. reflexivity.
Qed.

(* an operator that is not in Table 51 contributes nothing *)
Lemma out_of_unknown ops n : class_of n = None -> out_of (IOp ops n) = [].
Proof.
  intros H. unfold out_of. rewrite !is_name_cons, !is_name_nil.
  repeat match goal with
         | |- context [bytes_eqb n ?X] =>
           let E := fresh "E" in
           destruct (bytes_eqb n X) eqn:E;
             [apply bytes_eqb_eq in E; subst n; vm_compute in H; discriminate|]
         end.
  reflexivity.
Qed.

(* ------------------------------------------------------------------ the loop *)
Lemma loop_op n rest st nc args texts :
  loop (TOp n :: rest) st nc args texts =
  match op_lookup n with
  | None =>
    if Nat.ltb 0 nc then match rest with [] => Ok texts | _ => loop rest st nc [] texts end
    else Err EGuard
  | Some (ty, op_args) =>
    match trans st ty n with
    | None => Err EGuard
    | Some next_state =>
      match handle ty n op_args args nc texts with
      | Ok (nc', texts') => match rest with [] => Ok texts' | _ => loop rest next_state nc' [] texts' end
      | Err k => Err k | Panic => Panic | Fuel => Fuel
      end
    end
  end.
Proof. reflexivity. Qed.

Lemma loop_operands ops rest st nc args texts :
  forallb no_comment ops = true ->
  loop (List.map TObj ops ++ rest) st nc args texts = loop rest st nc (args ++ List.map TObj ops) texts.
Proof.
  revert args; induction ops as [|o r IH]; intros args H; simpl.
  - rewrite app_nil_r. reflexivity.
  - simpl in H. apply andb_true_iff in H as [H1 H2].
    destruct o; try discriminate; rewrite IH by exact H2; rewrite <- app_assoc; reflexivity.
Qed.

Lemma flatten_cons ops n r :
  flatten (IOp ops n :: r) = List.map TObj ops ++ TOp n :: flatten r.
Proof. unfold flatten. simpl. rewrite <- app_assoc. reflexivity. Qed.

Lemma flatten_nonempty items : items <> [] -> flatten items <> [].
Proof.
  destruct items as [|[ops n] r]; [congruence|]. intros _. rewrite flatten_cons.
  destruct ops; simpl; discriminate.
Qed.

(* one step of the loop on a whole operator application *)
Lemma loop_item ops n r st nc texts :
  forallb no_comment ops = true ->
  loop (flatten (IOp ops n :: r)) st nc [] texts = loop (TOp n :: flatten r) st nc (List.map TObj ops) texts.
Proof. intros H. rewrite flatten_cons, loop_operands by exact H. reflexivity. Qed.

Lemma trans_of_fig9 st n ty oargs s' :
  op_lookup n = Some (ty, oargs) -> fig9 (st_of st) n = Some s' ->
  exists st', trans st ty n = Some st' /\ st_of st' = s'.
Proof.
  intros L F. pose proof (table_all st n) as T. unfold impl_next in T. rewrite L, F in T.
  destruct (trans st ty n) as [st'|]; simpl in T; [|discriminate]. exists st'. split; congruence.
Qed.

Lemma trans_none_of_fig9 st n ty oargs :
  op_lookup n = Some (ty, oargs) -> fig9 (st_of st) n = None -> trans st ty n = None.
Proof.
  intros L F. pose proof (table_all st n) as T. unfold impl_next in T. rewrite L, F in T.
  destruct (trans st ty n); simpl in T; [discriminate|reflexivity].
Qed.

Lemma rest_case {A} (l : list cstoken) (a b : A) :
  l <> [] -> match l with [] => a | _ :: _ => b end = b.
Proof. destruct l; congruence. Qed.

Lemma tokens_spec_cons it r : tokens_spec (it :: r) = out_of it ++ tokens_spec r.
Proof. reflexivity. Qed.

Lemma legal_from_cons s d ops n r :
  legal_from s d (IOp ops n :: r) =
  match class_of n with
  | None => Nat.ltb 0 d && legal_from s d r
  | Some _ =>
    match fig9 s n with
    | None => false
    | Some s' => operands_ok ops n && (if is_name n [B "EX"] then Nat.ltb 0 d else true)
                 && legal_from s' (next_depth d n) r
    end
  end.
Proof. reflexivity. Qed.

Lemma illegal_from_cons s d ops n r :
  illegal_from s d (IOp ops n :: r) =
  match class_of n with
  | None => if Nat.eqb d 0 then true else illegal_from s d r
  | Some _ =>
    match fig9 s n with
    | None => true
    | Some s' =>
      if negb (operands_ok ops n) then true
      else if is_name n [B "EX"] && Nat.eqb d 0 then false
      else illegal_from s' (next_depth d n) r
    end
  end.
Proof. reflexivity. Qed.

Lemma wf_items_cons ops n r : wf_items (IOp ops n :: r) = forallb no_comment ops && wf_items r.
Proof. reflexivity. Qed.

(* invariant: (level, compatibility depth); the accumulated tokens are a parameter *)
Lemma loop_legal items : forall st nc texts,
  items <> [] ->
  wf_items items = true ->
  legal_from (st_of st) nc items = true ->
  loop (flatten items) st nc [] texts = Ok (texts ++ tokens_spec items).
Proof.
  induction items as [|[ops n] r IH]; intros st nc texts NE WF LG; [congruence|].
  rewrite wf_items_cons in WF. apply andb_true_iff in WF as [WF1 WF2].
  rewrite loop_item by exact WF1. rewrite loop_op.
  rewrite legal_from_cons in LG. rewrite tokens_spec_cons.
  destruct (class_of n) as [k|] eqn:C.
  - (* known operator *)
    destruct (op_lookup n) as [[ty oargs]|] eqn:L; [|apply known_iff in L; congruence].
    destruct (fig9 (st_of st) n) as [s'|] eqn:F; [|discriminate].
    apply andb_true_iff in LG as [LG LG3]. apply andb_true_iff in LG as [LG1 LG2].
    destruct (trans_of_fig9 st n ty oargs s' L F) as [st' [T S']]. rewrite T.
    rewrite (handle_spec n ty oargs ops nc texts L), LG1.
    destruct r as [|it r'].
    + simpl. rewrite app_nil_r. reflexivity.
    + rewrite rest_case by (apply flatten_nonempty; discriminate).
      rewrite IH; try discriminate; try assumption.
      * rewrite <- app_assoc. reflexivity.
      * rewrite S'. exact LG3.
  - (* unknown operator inside BX … EX *)
    assert (L : op_lookup n = None) by (apply known_iff; exact C). rewrite L.
    apply andb_true_iff in LG as [LG1 LG2]. rewrite LG1.
    rewrite (out_of_unknown ops n C). simpl.
    destruct r as [|it r'].
    + simpl. rewrite app_nil_r. reflexivity.
    + rewrite rest_case by (apply flatten_nonempty; discriminate).
      apply IH; try discriminate; assumption.
Qed.

Lemma illegal_nonempty s d items : illegal_from s d items = true -> items <> [].
Proof. destruct items; simpl; congruence. Qed.

Lemma loop_illegal items : forall st nc texts,
  wf_items items = true ->
  illegal_from (st_of st) nc items = true ->
  exists k, loop (flatten items) st nc [] texts = Err k.
Proof.
  induction items as [|[ops n] r IH]; intros st nc texts WF IL; [discriminate|].
  rewrite wf_items_cons in WF. apply andb_true_iff in WF as [WF1 WF2].
  rewrite loop_item by exact WF1. rewrite loop_op.
  rewrite illegal_from_cons in IL.
  destruct (class_of n) as [k|] eqn:C.
  - destruct (op_lookup n) as [[ty oargs]|] eqn:L; [|apply known_iff in L; congruence].
    destruct (fig9 (st_of st) n) as [s'|] eqn:F.
    + destruct (trans_of_fig9 st n ty oargs s' L F) as [st' [T S']]. rewrite T.
      rewrite (handle_spec n ty oargs ops nc texts L).
      destruct (operands_ok ops n); cbv beta iota delta [negb] in IL; [|eexists; reflexivity].
      destruct (is_name n [B "EX"] && Nat.eqb nc 0); [discriminate|].
      pose proof (illegal_nonempty _ _ _ IL) as NE.
      rewrite rest_case by (apply flatten_nonempty; exact NE).
      apply IH; [exact WF2 | rewrite S'; exact IL].
    + rewrite (trans_none_of_fig9 st n ty oargs L F). eexists; reflexivity.
  - assert (L : op_lookup n = None) by (apply known_iff; exact C). rewrite L.
    destruct nc as [|nc']; simpl in IL |- *; [eexists; reflexivity|].
    pose proof (illegal_nonempty _ _ _ IL) as NE.
    rewrite rest_case by (apply flatten_nonempty; exact NE).
    apply IH; assumption.
Qed.

(* the two classes of streams the property speaks about are disjoint *)
Lemma legal_not_illegal items : forall s d, legal_from s d items = true -> illegal_from s d items = false.
Proof.
  induction items as [|[ops n] r IH]; intros s d LG; [reflexivity|].
  rewrite legal_from_cons in LG. rewrite illegal_from_cons.
  destruct (class_of n).
  - destruct (fig9 s n) as [s'|]; [|discriminate].
    apply andb_true_iff in LG as [LG LG3]. apply andb_true_iff in LG as [LG1 LG2].
    rewrite LG1. cbv beta iota delta [negb].
    destruct (is_name n [B "EX"]).
    + apply Nat.ltb_lt in LG2. destruct d; [lia|]. simpl. apply IH, LG3.
    + simpl. apply IH, LG3.
  - apply andb_true_iff in LG as [LG1 LG2]. apply Nat.ltb_lt in LG1.
    destruct d; [lia|]. simpl. apply IH, LG2.
Qed.

(* ------------------------------------------------------------------ the theorems *)
(* every legal walk of Figure 9 (any operands where the property does not constrain them, unknown operators
   inside BX … EX; the empty stream included) is accepted and yields exactly the documented tokens *)
Theorem extract_legal items :
  wf_items items = true -> legal_walk items = true ->
  extract (flatten items) = Ok (tokens_spec items).
Proof.
  intros WF LG. destruct items as [|it r]; [reflexivity|].
  assert (NE : it :: r <> []) by discriminate.
  unfold extract. rewrite rest_case by (apply flatten_nonempty, NE).
  apply (loop_legal (it :: r) SContent 0 [] NE WF LG).
Qed.

(* every stream with an operator not permitted at the current level, an unknown operator outside BX … EX, or a
   text-showing operator with the wrong number or kind of operands is rejected *)
Theorem extract_illegal items :
  wf_items items = true -> illegal items = true -> exists k, extract (flatten items) = Err k.
Proof.
  intros WF IL. pose proof (illegal_nonempty _ _ _ IL) as NE.
  unfold extract. rewrite rest_case by (apply flatten_nonempty, NE).
  apply (loop_illegal items SContent 0 [] WF IL).
Qed.

(* the hypotheses are satisfiable, and the three kinds of rejection occur *)
Example legal_example :
  let items := [IOp [] (B "BT"); IOp [OName (B "F1"); OInt 12] (B "Tf"); IOp [OStr (B "Hi")] (B "Tj");
                IOp [OArr [OStr (B "a"); OInt (-120); OStr (B "b")]] (B "TJ"); IOp [] (B "BX"); IOp [ONull] (B "zz");
                IOp [] (B "EX"); IOp [OInt 1; OReal 5 10; OStr (B "q")] [34%N]; IOp [] (B "ET")] in
  legal_walk items = true /\ wf_items items = true /\
  extract (flatten items) = Ok [Space; RawText (B "Hi"); RawText (B "a"); RawText (B "b"); Space; RawText (B "q"); Space].
Proof. vm_compute. repeat split. Qed.

Example illegal_examples :
  illegal [IOp [] (B "BT"); IOp [] (B "TJ")] = true /\
  illegal [IOp [] (B "BT"); IOp [OStr (B "a"); OStr (B "b"); OStr (B "c")] [34%N]] = true /\
  illegal [IOp [] (B "BT"); IOp [] (B "q")] = true /\
  illegal [IOp [] (B "zz")] = true /\
  illegal [IOp [OInt 0; OInt 0] (B "m"); IOp [] (B "W"); IOp [OInt 0; OInt 0] (B "l")] = true.
Proof. vm_compute. repeat split. Qed.
