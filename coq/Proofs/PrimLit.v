(* Proofs/PrimLit.v — C15 for RawLiteralString (the paren/backslash matching loop). *)
From PV Require Import Model.Prim Proofs.PrimBase Proofs.PrimTok.
From Coq Require Import ZifyBool ZifyNat ZifyN.

(* ---------- failure restores the cursor (no hypothesis at all) ---------- *)
Lemma lit_loop_err f rel s st : forall c ls d v k c',
  lit_loop f rel s st c ls d v = PErr k c' -> c' = st.
Proof.
  induction f as [|f IH]; intros c ls d v k c' H; cbn [lit_loop] in H; [discriminate|].
  destruct (peek s (c + until lit_stops s c)) as [x|].
  - unfold incr in H.
    repeat match type of H with
           | context [if ?b then _ else _] => destruct b eqn:?
           | context [match ?x with _ => _ end] => destruct x eqn:?
           end; try discriminate; eapply IH; eassumption.
  - unfold setc in H. destruct (Nat.leb st (len s)); [|discriminate]. injection H as _ <-. reflexivity.
Qed.

Lemma lit_string_err rel : err_restores (lit_string rel).
Proof.
  intros s c k c' H. unfold lit_string in H. destruct (negb (peek_is s c 40)).
  - injection H as _ <-. reflexivity.
  - unfold incr in H. destruct (Nat.ltb c (len s)); [|discriminate]. eapply lit_loop_err, H.
Qed.

(* ---------- shape of a success ---------- *)
Lemma lit_loop_shape f rel s st : forall c ls d v v' a b c',
  lit_loop f rel s st c ls d v = POk (v', a, b) c' -> a = st /\ b = c' /\ c < b /\ b <= len s.
Proof.
  induction f as [|f IH]; intros c ls d v v' a b c' H; cbn [lit_loop] in H; [discriminate|].
  pose proof (Nat.le_add_r c (until lit_stops s c)) as Lc.
  set (cp := c + until lit_stops s c) in *.
  destruct (peek s cp) as [x|] eqn:Ep.
  - apply peek_Some_lt in Ep. rewrite !incr_ok in H by assumption.
    repeat match type of H with
           | context [if ?b then _ else _] => destruct b eqn:?
           | context [match ?x with _ => _ end] => destruct x eqn:?
           end; try discriminate;
      try (apply IH in H; destruct H as (-> & -> & H1 & H2); repeat split; lia).
    injection H as _ <- <- <-. repeat split; lia.
  - unfold setc in H. destruct (Nat.leb st (len s)); discriminate.
Qed.

(* ---------- no panic, no fuel exhaustion ---------- *)
Lemma lit_stops_cases x : memb x lit_stops = true -> x = 40%N \/ x = 41%N \/ x = 92%N.
Proof.
  intros H. apply memb_In in H. vm_compute in H. intuition.
Qed.

Lemma lit_loop_np f rel s st : forall c ls d v,
  st <= len s -> c <= len s -> (1 <= d <= Z.of_nat c)%Z -> (Z.of_nat (len s) < 2147483648)%Z ->
  len s - c < f -> fine (lit_loop f rel s st c ls d v).
Proof.
  induction f as [|f IH]; intros c ls d v Hst Hc Hd Hs Hf; [lia|]. cbn [lit_loop].
  pose proof (until_le lit_stops s c Hc) as L.
  set (n := until lit_stops s c) in *.
  destruct (peek s (c + n)) as [x|] eqn:Ep.
  - pose proof (peek_Some_lt _ _ _ Ep) as Lt. rewrite !incr_ok by assumption.
    pose proof (until_stop lit_stops s c x Ep) as Hx. apply lit_stops_cases in Hx.
    unfold i32_incr, i32_decr, i32_max, i32_min.
    destruct (N.eqb_spec x 40); [|destruct (N.eqb_spec x 41); [|destruct (N.eqb_spec x 92); [|exfalso; intuition]]].
    + destruct (escaped ls (c + n)); [apply IH; lia|].
      destruct (Z.ltb_spec d 2147483647); [apply IH; lia|lia].
    + destruct (escaped ls (c + n)); [apply IH; lia|].
      destruct (Z.ltb_spec (-2147483648) d); [|lia].
      destruct (Z.eqb_spec (d - 1) 0); [exact I|apply IH; lia].
    + apply IH; lia.
  - rewrite setc_ok by assumption. exact I.
Qed.

Lemma lit_string_np rel s c :
  c <= len s -> (Z.of_nat (len s) < 2147483648)%Z -> fine (lit_string rel s c).
Proof.
  intros Hc Hs. unfold lit_string. destruct (peek_is s c 40) eqn:E; cbn [negb]; [|exact I].
  pose proof (peek_is_lt _ _ _ E) as Lt. rewrite incr_ok by assumption.
  apply lit_loop_np; lia.
Qed.

(* ---------- re-parsing the span ---------- *)
(* the backslash position seen from the window *)
Definition ls_rel (c : nat) (ls ls' : option nat) : Prop :=
  match ls, ls' with
  | Some q, Some q' => q = c + q'
  | None, None => True
  | _, _ => False
  end.

Lemma escaped_rel c ls ls' i : ls_rel c ls ls' -> escaped ls' i = escaped ls (c + i).
Proof.
  destruct ls as [q|], ls' as [q'|]; cbn; intros H; try contradiction; [|reflexivity]. subst q.
  destruct (Nat.eqb_spec (q' + 1) i), (Nat.eqb_spec (c + q' + 1) (c + i)); try reflexivity; lia.
Qed.

Lemma lit_loop_win rel s c f : forall p i ls ls' d v v' a b c' f2,
  p = c + i -> lit_loop f rel s c p ls d v = POk (v', a, b) c' -> ls_rel c ls ls' -> b - p < f2 ->
  lit_loop f2 rel (sub s c b) 0 i ls' d v = POk (v', 0, b - c) (b - c).
Proof.
  induction f as [|f IH]; intros p i ls ls' d v v' a b c' f2 -> H Hls Hf; [discriminate|].
  pose proof (lit_loop_shape _ _ _ _ _ _ _ _ _ _ _ _ H) as (-> & <- & Lb & Lb2).
  cbn [lit_loop] in H. destruct f2 as [|f2]; [lia|]. cbn [lit_loop].
  set (n := until lit_stops s (c + i)) in *.
  destruct (peek s (c + i + n)) as [x|] eqn:Ep; [|unfold setc in H; destruct (Nat.leb c (len s)); discriminate].
  pose proof (peek_Some_lt _ _ _ Ep) as Lt. rewrite !incr_ok in H by assumption.
  (* the stop byte lies inside the window: every continuation ends beyond it *)
  assert (Lcp : c + i + n < b).
  { repeat match type of H with
           | context [if ?b then _ else _] => destruct b eqn:?
           | context [match ?x with _ => _ end] => destruct x eqn:?
           end; try discriminate;
      try (apply lit_loop_shape in H; lia).
    injection H; intros; lia. }
  rewrite (until_win lit_stops s c b (c + i) i) by (fold n; lia). fold n.
  rewrite (peek_win s c b (c + i + n) (i + n)) by lia. rewrite Ep.
  rewrite !incr_win by lia.
  rewrite (sub_win s c b (c + i) (c + i + n) i (i + n)) by lia.
  rewrite (escaped_rel c ls ls' (i + n) Hls). replace (c + (i + n)) with (c + i + n) by lia.
  destruct (N.eqb x 40); [|destruct (N.eqb x 41); [|destruct (N.eqb x 92); [|discriminate]]].
  - destruct (escaped ls (c + i + n)).
    + eapply (IH (S (c + i + n)) (S (i + n))); try eassumption; lia.
    + destruct (i32_incr rel d); [|discriminate].
      eapply (IH (S (c + i + n)) (S (i + n))); try eassumption; try lia; exact I.
  - destruct (escaped ls (c + i + n)).
    + eapply (IH (S (c + i + n)) (S (i + n))); try eassumption; lia.
    + destruct (i32_decr rel d) as [d'|]; [|discriminate].
      destruct (Z.eqb d' 0).
      * injection H; intros; subst. f_equal; [f_equal; lia|lia].
      * eapply (IH (S (c + i + n)) (S (i + n))); try eassumption; try lia; exact I.
  - eapply (IH (S (c + i + n)) (S (i + n))); try eassumption; try lia.
    destruct ls as [q|], ls' as [q'|]; cbn in Hls |- *; try contradiction.
    + subst q. destruct (Nat.eqb_spec (c + q' + 1) (c + i + n)), (Nat.eqb_spec (q' + 1) (i + n)); cbn; lia.
    + lia.
Qed.

Lemma lit_string_span rel : ok_span (lit_string rel).
Proof.
  intros s c v a b c' Hc H. unfold lit_string in H.
  destruct (peek_is s c 40) eqn:E; cbn [negb] in H; [|discriminate].
  pose proof (peek_is_lt _ _ _ E) as Lt. rewrite incr_ok in H by assumption.
  pose proof (lit_loop_shape _ _ _ _ _ _ _ _ _ _ _ _ H) as (-> & <- & Lb & Lb2).
  repeat split; try lia. exists v. split; [|reflexivity]. unfold lit_string.
  rewrite (peek_is_win s c b c 0) by lia. rewrite E. cbn [negb]. rewrite incr_win by lia.
  eapply (lit_loop_win rel s c _ (S c) 1); try eassumption; try lia; [exact I|].
  rewrite len_sub by lia. lia.
Qed.

(* release profile: the i32 depth counter wraps, so there is no panic whatever the buffer size *)
Lemma lit_loop_np_rel f s st : forall c ls d v,
  st <= len s -> c <= len s -> len s - c < f -> fine (lit_loop f true s st c ls d v).
Proof.
  induction f as [|f IH]; intros c ls d v Hst Hc Hf; [lia|]. cbn [lit_loop].
  pose proof (until_le lit_stops s c Hc) as L.
  set (n := until lit_stops s c) in *.
  destruct (peek s (c + n)) as [x|] eqn:Ep.
  - pose proof (peek_Some_lt _ _ _ Ep) as Lt. rewrite !incr_ok by assumption.
    pose proof (until_stop lit_stops s c x Ep) as Hx. apply lit_stops_cases in Hx.
    unfold i32_incr, i32_decr.
    destruct (N.eqb_spec x 40); [|destruct (N.eqb_spec x 41); [|destruct (N.eqb_spec x 92); [|exfalso; intuition]]].
    + destruct (escaped ls (c + n)); [apply IH; lia|]. destruct (Z.ltb d i32_max); apply IH; lia.
    + destruct (escaped ls (c + n)); [apply IH; lia|].
      destruct (Z.ltb i32_min d); match goal with |- context [Z.eqb ?a 0] => destruct (Z.eqb a 0) end;
        try exact I; apply IH; lia.
    + apply IH; lia.
  - rewrite setc_ok by assumption. exact I.
Qed.

Lemma lit_string_np_rel s c : c <= len s -> fine (lit_string true s c).
Proof.
  intros Hc. unfold lit_string. destruct (peek_is s c 40) eqn:E; cbn [negb]; [|exact I].
  pose proof (peek_is_lt _ _ _ E) as Lt. rewrite incr_ok by assumption.
  apply lit_loop_np_rel; lia.
Qed.
