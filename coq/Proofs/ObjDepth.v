(* Proofs/ObjDepth.v — C16: the depth counter of PDFObjContext.
   - the counter form of the model equals the budget form (enter_obj/leave_obj never do anything
     but count the structural recursion), for every input;
   - ctxt.depth() after parse_pdf_obj equals ctxt.depth() before, for EVERY outcome;
   - an accepted object has nesting depth <= the levels that were left;
   - a text that opens more containers than levels are left is rejected with a GuardError. *)
From PV Require Import Model.Obj Proofs.PrimBase.
From Coq Require Import Lia.

(* ------------------------------------------------------------------ bind *)
Lemma bind_ok {A B} (r : pres A) (k : A -> nat -> pres B) x c :
  bind r k = POk x c -> exists a c1, r = POk a c1 /\ k a c1 = POk x c.
Proof. destruct r; cbn; intros H; try discriminate. eauto. Qed.

Lemma bind_POk {A B} (a : A) c (k : A -> nat -> pres B) : bind (POk a c) k = k a c.
Proof. reflexivity. Qed.
Lemma bind_PErr {A B} e c (k : A -> nat -> pres B) : bind (PErr e c) k = PErr e c.
Proof. reflexivity. Qed.

(* ================================================================== counter = budget *)
Section CounterBudget.
  Variable rel : bool.
  Variable rec : bytes -> nat -> pres (lv obj).
  Variable rec_st : bytes -> nat -> nat -> pres (lv obj) * nat.
  Variable cur : nat.
  Hypothesis Hrec : forall s c, rec_st s c cur = (rec s c, cur).

  Lemma array_loop_st_eq fuel : forall s c objs,
    array_loop_st rec_st fuel s c objs cur = (array_loop rec fuel s c objs, cur).
  Proof.
    induction fuel as [|f IH]; intros s c objs; cbn [array_loop_st array_loop]; [reflexivity|].
    destruct (ws_eol true s c) as [u c1| | |]; cbn [bind]; try reflexivity.
    destruct (exact kw_rbrack s c1); [reflexivity|].
    rewrite Hrec. destruct (rec s c1) as [o c2| | |]; cbn [bind]; try reflexivity.
    apply IH.
  Qed.

  Lemma dict_loop_st_eq fuel : forall s c map names,
    dict_loop_st rec_st fuel s c map names cur = (dict_loop rec fuel s c map names, cur).
  Proof.
    induction fuel as [|f IH]; intros s c map names; cbn [dict_loop_st dict_loop]; [reflexivity|].
    destruct (ws_eol true s c) as [u c1| | |]; cbn [bind]; try reflexivity.
    destruct (exact kw_rdict s c1); [reflexivity|].
    destruct (name s c1) as [n c2| | |]; cbn [bind]; try reflexivity.
    destruct (existsb _ names); [reflexivity|].
    destruct (ws_eol true s c2) as [u' c3| | |]; cbn [bind]; try reflexivity.
    rewrite Hrec. destruct (rec s c3) as [o c4| | |]; cbn [bind]; try reflexivity.
    destruct (lv_val o); apply IH.
  Qed.

  Lemma parse_internal_st_eq s c :
    parse_internal_st rel rec_st s c cur = (parse_internal rel rec s c, cur).
  Proof.
    unfold parse_internal_st, parse_internal.
    destruct (peek s c) as [b|]; [|reflexivity].
    repeat match goal with |- context [if ?x then _ else _] =>
      lazymatch x with
      | N.eqb b 91 => fail
      | N.eqb b 60 => fail
      | _ => destruct x; [reflexivity|]
      end end.
    destruct (N.eqb b 91).
    { unfold array_p_st, array_p. destruct (exact kw_lbrack s c); [|reflexivity].
      rewrite array_loop_st_eq. reflexivity. }
    destruct (N.eqb b 60).
    { unfold incr, setc. destruct (Nat.ltb c (len s)); [|reflexivity].
      destruct (Nat.leb c (len s)); [|reflexivity].
      destruct (peek s (S c)) as [x|]; [|reflexivity].
      destruct x as [|p]; [reflexivity|].
      do 6 (destruct p; try reflexivity).
      unfold dict_p_st, dict_p. destruct (exact kw_ldict s c); [|reflexivity].
      rewrite dict_loop_st_eq. reflexivity. }
    destruct (_ && _)%bool; reflexivity.
  Qed.

  Lemma pdfobj_p_st_eq s c :
    pdfobj_p_st rel rec_st s c cur = (pdfobj_p rel rec s c, cur).
  Proof.
    unfold pdfobj_p_st, pdfobj_p. destruct (ws_eol true s c) as [u st| | |]; cbn [bind]; try reflexivity.
    rewrite parse_internal_st_eq. reflexivity.
  Qed.
End CounterBudget.

(* the counter form computes the budget form with max - cur levels, and leaves the counter alone *)
Theorem counter_is_budget rel : forall fuel max s c cur,
  cur <= max -> max - cur < fuel ->
  parse_obj_st rel fuel max s c cur = (parse_obj rel (max - cur) s c, cur).
Proof.
  induction fuel as [|f IH]; intros max s c cur Hle Hf; [lia|].
  cbn [parse_obj_st]. destruct (Nat.eqb_spec cur max) as [->|Hne].
  - replace (max - max) with 0 by lia. reflexivity.
  - replace (max - cur) with (S (max - S cur)) by lia. cbn [parse_obj].
    rewrite (pdfobj_p_st_eq rel (parse_obj rel (max - S cur)) (parse_obj_st rel f max) (S cur)).
    + reflexivity.
    + intros s' c'. apply IH; lia.
Qed.

(* ================================================================== balance, for every outcome *)
Section Balanced.
  Variable rel : bool.
  Variable rec_st : bytes -> nat -> nat -> pres (lv obj) * nat.
  Hypothesis Hrec : forall s c cur, snd (rec_st s c cur) = cur.

  Lemma array_loop_st_bal fuel : forall s c objs cur, snd (array_loop_st rec_st fuel s c objs cur) = cur.
  Proof.
    induction fuel as [|f IH]; intros s c objs cur; cbn [array_loop_st]; [reflexivity|].
    destruct (ws_eol true s c) as [u c1| | |]; try reflexivity.
    destruct (exact kw_rbrack s c1); [reflexivity|].
    pose proof (Hrec s c1 cur) as E. destruct (rec_st s c1 cur) as [r cur']. cbn in E. subst cur'.
    destruct r; try reflexivity. apply IH.
  Qed.

  Lemma dict_loop_st_bal fuel : forall s c map names cur, snd (dict_loop_st rec_st fuel s c map names cur) = cur.
  Proof.
    induction fuel as [|f IH]; intros s c map names cur; cbn [dict_loop_st]; [reflexivity|].
    destruct (ws_eol true s c) as [u c1| | |]; try reflexivity.
    destruct (exact kw_rdict s c1); [reflexivity|].
    destruct (name s c1) as [n c2| | |]; try reflexivity.
    destruct (existsb _ names); [reflexivity|].
    destruct (ws_eol true s c2) as [u' c3| | |]; try reflexivity.
    pose proof (Hrec s c3 cur) as E. destruct (rec_st s c3 cur) as [r cur']. cbn in E. subst cur'.
    destruct r as [o c4| | |]; try reflexivity. destruct (lv_val o); apply IH.
  Qed.

  Lemma parse_internal_st_bal s c cur : snd (parse_internal_st rel rec_st s c cur) = cur.
  Proof.
    unfold parse_internal_st.
    destruct (peek s c) as [b|]; [|reflexivity].
    repeat match goal with |- context [if ?x then _ else _] =>
      lazymatch x with
      | N.eqb b 91 => fail
      | N.eqb b 60 => fail
      | _ => destruct x; [reflexivity|]
      end end.
    destruct (N.eqb b 91).
    { unfold array_p_st. destruct (exact kw_lbrack s c); [|reflexivity].
      pose proof (array_loop_st_bal (S (len s)) s n [] cur) as E.
      destruct (array_loop_st _ _ _ _ _ _) as [r cur']. exact E. }
    destruct (N.eqb b 60).
    { destruct (Nat.ltb c (len s)); [|reflexivity].
      destruct (Nat.leb c (len s)); [|reflexivity].
      destruct (peek s (S c)) as [x|]; [|reflexivity].
      destruct x as [|p]; [reflexivity|].
      do 6 (destruct p; try reflexivity).
      unfold dict_p_st. destruct (exact kw_ldict s c); [|reflexivity].
      pose proof (dict_loop_st_bal (S (len s)) s n [] [] cur) as E.
      destruct (dict_loop_st _ _ _ _ _ _ _) as [r cur']. exact E. }
    destruct (_ && _)%bool; reflexivity.
  Qed.

  Lemma pdfobj_p_st_bal s c cur : snd (pdfobj_p_st rel rec_st s c cur) = cur.
  Proof.
    unfold pdfobj_p_st. destruct (ws_eol true s c) as [u st| | |]; try reflexivity.
    pose proof (parse_internal_st_bal s st cur) as E.
    destruct (parse_internal_st _ _ _ _ _) as [r cur']. exact E.
  Qed.
End Balanced.

(* whatever the fuel, the bound, the counter (even an inconsistent one) and the outcome are *)
Theorem depth_balanced rel : forall fuel max s c cur, snd (parse_obj_st rel fuel max s c cur) = cur.
Proof.
  induction fuel as [|f IH]; intros max s c cur; cbn [parse_obj_st]; [reflexivity|].
  destruct (Nat.eqb cur max); [reflexivity|].
  pose proof (pdfobj_p_st_bal rel (parse_obj_st rel f max) (fun s c cur => IH max s c cur) s c (S cur)) as E.
  destruct (pdfobj_p_st _ _ _ _ _) as [r cur1]. cbn in E. subst cur1. reflexivity.
Qed.

(* the assert!(cur_depth != 0) of leave_obj is never the cause of a panic: a panic of the counter
   form is a panic of the budget form, which contains no leave_obj *)
Theorem no_assert rel fuel max s c cur :
  cur <= max -> max - cur < fuel ->
  fst (parse_obj_st rel fuel max s c cur) = PPanic -> parse_obj rel (max - cur) s c = PPanic.
Proof. intros H1 H2. rewrite counter_is_budget by assumption. exact (fun H => H). Qed.

(* ================================================================== accepted ⇒ depth <= budget *)
Definition depth_le (n : nat) (o : obj) : Prop := obj_depth o <= n.

Lemma fold_max_le {A} (f : A -> nat) n l : Forall (fun x => f x <= n) l -> fold_right (fun x m => Nat.max (f x) m) 0 l <= n.
Proof. induction 1; cbn; lia. Qed.

Lemma dict_insert_Forall {V} (P : bytes * V -> Prop) k v (d : list (bytes * V)) :
  P (k, v) -> Forall P d -> Forall P (fst (dict_insert k v d)).
Proof.
  intros Hk. induction 1 as [|[k' v'] r Hx Hr IH]; cbn [dict_insert fst].
  - constructor; [exact Hk|constructor].
  - destruct (bytes_cmp k k'); cbn [fst].
    + constructor; [exact Hk|exact Hr].
    + constructor; [exact Hk|constructor; assumption].
    + destruct (dict_insert k v r) as [r' b]. cbn [fst] in *. constructor; assumption.
Qed.

Lemma reference_depth s c o c' : reference s c = POk o c' -> obj_depth o = 1.
Proof.
  unfold reference. intros H.
  apply bind_ok in H as (num & c1 & _ & H).
  destruct (negb _); [unfold setc in H; destruct (Nat.leb c (len s)); discriminate|].
  apply bind_ok in H as (u & c2 & _ & H).
  apply bind_ok in H as (gen & c3 & _ & H).
  destruct (negb _); [unfold setc in H; destruct (Nat.leb c2 (len s)); discriminate|].
  apply bind_ok in H as (u' & c4 & _ & H).
  destruct (exact kw_R s c4); [|discriminate].
  destruct (usize_N (lv_val num)); [|discriminate].
  destruct (usize_N (lv_val gen)); [|discriminate].
  injection H as <- _. reflexivity.
Qed.

Lemma number_or_ref_depth s c o c' : number_or_ref s c = POk o c' -> obj_depth o = 1.
Proof.
  unfold number_or_ref. intros H.
  apply bind_ok in H as (r & c1 & _ & H).
  destruct (negb _); [injection H as <- _; reflexivity|].
  destruct (real_numerator (lv_val r)) as [n1|]; [|discriminate].
  assert (B : forall x, setc s c1 (fun c'0 => POk (OInt n1) c'0) = POk o x -> obj_depth o = 1).
  { unfold setc. intros x Hx. destruct (Nat.leb c1 (len s)); [|discriminate]. injection Hx as <- _. reflexivity. }
  destruct (ws_eol false s c1) as [u c2| | |]; try discriminate; [|eapply B, H].
  destruct (integer s c2) as [i c3| | |]; try discriminate; [|eapply B, H].
  destruct (ws_eol false s c3) as [u' c4| | |]; try discriminate; [|eapply B, H].
  destruct (check_prefix kw_R s c4); [|eapply B, H].
  unfold setc in H. destruct (Nat.leb c (len s)); [|discriminate].
  eapply reference_depth, H.
Qed.

Section Within.
  Variable rel : bool.
  Variable rec : bytes -> nat -> pres (lv obj).
  Variable n : nat.
  Hypothesis Hrec : forall s c o c', rec s c = POk o c' -> depth_le n (lv_val o).

  Lemma array_loop_within fuel : forall s c objs l c',
    Forall (depth_le n) objs -> array_loop rec fuel s c objs = POk l c' -> Forall (depth_le n) l.
  Proof.
    induction fuel as [|f IH]; intros s c objs l c' Ho H; cbn [array_loop] in H; [discriminate|].
    apply bind_ok in H as (u & c1 & _ & H).
    destruct (exact kw_rbrack s c1).
    - injection H as <- _. exact Ho.
    - apply bind_ok in H as (o & c2 & Er & H). eapply IH; [|exact H].
      apply Forall_app; split; [exact Ho|]. constructor; [eapply Hrec, Er|constructor].
  Qed.

  Lemma dict_loop_within fuel : forall s c map names l c',
    Forall (fun kv => depth_le n (snd kv)) map -> dict_loop rec fuel s c map names = POk l c' ->
    Forall (fun kv => depth_le n (snd kv)) l.
  Proof.
    induction fuel as [|f IH]; intros s c map names l c' Hm H; cbn [dict_loop] in H; [discriminate|].
    apply bind_ok in H as (u & c1 & _ & H).
    destruct (exact kw_rdict s c1).
    - injection H as <- _. exact Hm.
    - apply bind_ok in H as (nm & c2 & _ & H).
      destruct (existsb _ names); [discriminate|].
      apply bind_ok in H as (u' & c3 & _ & H).
      apply bind_ok in H as (o & c4 & Er & H).
      apply Hrec in Er.
      destruct (lv_val o) eqn:Eo; try (eapply IH; [|exact H]; apply dict_insert_Forall; [exact Er|exact Hm]).
      eapply IH; [exact Hm|exact H].
  Qed.

  Lemma parse_internal_within s c o c' : parse_internal rel rec s c = POk o c' -> depth_le (S n) o.
  Proof.
    unfold parse_internal, depth_le. intros H.
    destruct (peek s c) as [b|]; [|discriminate].
    destruct (_ || _)%bool. { apply bind_ok in H as (? & ? & _ & H). injection H as <- _. cbn. lia. }
    destruct (N.eqb b 110). { apply bind_ok in H as (? & ? & _ & H). injection H as <- _. cbn. lia. }
    destruct (N.eqb b 40). { apply bind_ok in H as (? & ? & _ & H). injection H as <- _. cbn. lia. }
    destruct (N.eqb b 37). { apply bind_ok in H as (? & ? & _ & H). injection H as <- _. cbn. lia. }
    destruct (N.eqb b 47). { apply bind_ok in H as (? & ? & _ & H). injection H as <- _. cbn. lia. }
    destruct (N.eqb b 91).
    { unfold array_p in H. destruct (exact kw_lbrack s c); [|discriminate].
      apply bind_ok in H as (l & c2 & El & H). injection H as <- _.
      apply array_loop_within in El; [|constructor].
      cbn [obj_depth]. apply le_n_S. apply fold_max_le. exact El. }
    destruct (N.eqb b 60).
    { unfold incr, setc in H. destruct (Nat.ltb c (len s)); [|discriminate].
      destruct (Nat.leb c (len s)); [|discriminate].
      assert (Hx : bind (hexstring s c) (fun v c2 => POk (OStr (lv_val v)) c2) = POk o c' -> obj_depth o <= S n).
      { intros Hh. apply bind_ok in Hh as (? & ? & _ & Hh). injection Hh as <- _. cbn. lia. }
      destruct (peek s (S c)) as [x|]; [|exact (Hx H)].
      destruct x as [|p]; [exact (Hx H)|].
      do 6 (destruct p; try exact (Hx H)).
      unfold dict_p in H. destruct (exact kw_ldict s c); [|discriminate].
      apply bind_ok in H as (l & c2 & El & H). injection H as <- _.
      apply dict_loop_within in El; [|constructor].
      cbn [obj_depth]. apply le_n_S. apply (fold_max_le (fun kv => obj_depth (snd kv))). exact El. }
    destruct (_ && _)%bool; [discriminate|].
    apply number_or_ref_depth in H. lia.
  Qed.

  Lemma pdfobj_p_within s c o c' : pdfobj_p rel rec s c = POk o c' -> depth_le (S n) (lv_val o).
  Proof.
    unfold pdfobj_p. intros H.
    apply bind_ok in H as (u & st & _ & H).
    apply bind_ok in H as (v & e & Ev & H). injection H as <- _.
    eapply parse_internal_within, Ev.
  Qed.
End Within.

Theorem accept_within rel : forall d s c o a b c',
  parse_obj rel d s c = POk (o, a, b) c' -> obj_depth o <= d.
Proof.
  intros d. assert (G : forall s c o c', parse_obj rel d s c = POk o c' -> depth_le d (lv_val o)).
  { induction d as [|d IH]; intros s c o c' H; cbn [parse_obj] in H; [discriminate|].
    eapply pdfobj_p_within; [|exact H]. exact IH. }
  intros s c o a b c' H. exact (G _ _ _ _ H).
Qed.

(* ================================================================== deeper ⇒ rejected *)
(* [opens s n c]: reading from cursor c, the text opens n nested containers one directly inside
   the other — each an array whose first element, or a dictionary whose first value, is the next —
   before anything else is looked at.  (Hypotheses are the token parsers' own verdicts.) *)
Inductive opens (s : bytes) : nat -> nat -> Prop :=
| opens_0 c : opens s 0 c
| opens_arr n c u1 c1 u3 c3 :
    ws_eol true s c = POk u1 c1 ->                 (* optional whitespace/comments *)
    peek s c1 = Some 91%N ->                       (* '[' *)
    ws_eol true s (S c1) = POk u3 c3 ->
    exact kw_rbrack s c3 = None ->                 (* not the empty array *)
    opens s n c3 ->
    opens s (S n) c
| opens_dict n c u1 c1 u3 c3 k c4 u5 c5 :
    ws_eol true s c = POk u1 c1 ->
    peek s c1 = Some 60%N -> peek s (S c1) = Some 60%N ->     (* "<<" *)
    ws_eol true s (S (S c1)) = POk u3 c3 ->
    exact kw_rdict s c3 = None ->                  (* not the empty dictionary *)
    name s c3 = POk k c4 ->                        (* a key *)
    ws_eol true s c4 = POk u5 c5 ->
    opens s n c5 ->
    opens s (S n) c.

Lemma exact_peek1 x s c : peek s c = Some x -> exact [x] s c = Some (S c).
Proof.
  unfold peek, exact. intros E. rewrite (skipn_cons_nth _ _ _ E). cbn [prefixb].
  rewrite N.eqb_refl. cbn [andb]. f_equal. unfold len. cbn [length]. lia.
Qed.

Lemma exact_peek2 x y s c : peek s c = Some x -> peek s (S c) = Some y -> exact [x; y] s c = Some (S (S c)).
Proof.
  unfold peek, exact. intros E1 E2. rewrite (skipn_cons_nth _ _ _ E1), (skipn_cons_nth _ _ _ E2). cbn [prefixb].
  rewrite !N.eqb_refl. cbn [andb]. f_equal. unfold len. cbn [length]. lia.
Qed.

Theorem reject_deeper rel : forall d s c, opens s d c -> exists c', parse_obj rel d s c = PErr EGuard c'.
Proof.
  induction d as [|d IH]; intros s c Ho;
    inversion Ho as [c0 | n c0 u1 c1 u3 c3 Hw1 Hp Hw3 Hx Hop | n c0 u1 c1 u3 c3 k c4 u5 c5 Hw1 Hp1 Hp2 Hw3 Hx Hn Hw5 Hop]; subst.
  - exists c. reflexivity.
  - (* array *)
    destruct (IH _ _ Hop) as (c' & E). exists c'.
    cbn [parse_obj]. unfold pdfobj_p. rewrite Hw1. cbn [bind].
    unfold parse_internal. rewrite Hp. cbn.
    unfold array_p. rewrite (exact_peek1 _ _ _ Hp : exact kw_lbrack s c1 = Some (S c1)).
    cbn [array_loop]. rewrite Hw3. cbn [bind]. rewrite Hx, E. reflexivity.
  - (* dictionary *)
    destruct (IH _ _ Hop) as (c' & E). exists c'.
    cbn [parse_obj]. unfold pdfobj_p. rewrite Hw1. cbn [bind].
    unfold parse_internal. rewrite Hp1. cbn.
    pose proof (peek_Some_lt _ _ _ Hp1) as Lt.
    rewrite incr_ok, setc_ok by lia. rewrite Hp2.
    unfold dict_p. rewrite (exact_peek2 _ _ _ _ Hp1 Hp2 : exact kw_ldict s c1 = Some (S (S c1))).
    cbn [dict_loop]. rewrite Hw3. cbn [bind]. rewrite Hx, Hn. cbn [bind existsb]. rewrite Hw5. cbn [bind].
    rewrite E. reflexivity.
Qed.

(* the hostile inputs of the property text: k '[' in a row, anything behind *)
Lemma ws_eol_nonws s c x :
  peek s c = Some x -> memb x ws_eol_set = false -> x <> 37%N -> ws_eol true s c = POk (tt, c, c) c.
Proof.
  intros E Hm Hx. unfold ws_eol. cbn [ws_eol_loop].
  assert (A : allowed ws_eol_set s c = 0).
  { unfold allowed. unfold peek in E. rewrite (skipn_cons_nth _ _ _ E). cbn [span_n]. rewrite Hm. reflexivity. }
  rewrite A, Nat.add_0_r. cbn [Nat.eqb].
  unfold peek_is. rewrite E. destruct (N.eqb_spec x 37); [contradiction|]. reflexivity.
Qed.

Lemma opens_brackets k : forall pre rest s c,
  s = pre ++ repeat 91%N (S k) ++ rest -> c = len pre -> opens s k c.
Proof.
  induction k as [|k IH]; intros pre rest s c Hs Hc; [constructor|].
  assert (P : forall i, i <= S k -> peek s (c + i) = Some 91%N).
  { intros i Hi. subst s c. unfold peek, len. rewrite nth_error_app2 by lia.
    replace (length pre + i - length pre) with i by lia.
    rewrite nth_error_app1 by (rewrite repeat_length; lia).
    apply nth_error_repeat. lia. }
  pose proof (P 0 ltac:(lia)) as P0. rewrite Nat.add_0_r in P0.
  pose proof (P 1 ltac:(lia)) as P1. replace (c + 1) with (S c) in P1 by lia.
  eapply opens_arr.
  - apply (ws_eol_nonws _ _ _ P0); [reflexivity|discriminate].
  - exact P0.
  - apply (ws_eol_nonws _ _ _ P1); [reflexivity|discriminate].
  - unfold exact. unfold peek in P1. rewrite (skipn_cons_nth _ _ _ P1). reflexivity.
  - apply (IH (pre ++ [91%N]) rest).
    + subst s. rewrite <- app_assoc. reflexivity.
    + subst c. unfold len. rewrite app_length. cbn. lia.
Qed.

Theorem reject_deep_brackets rel d k pre rest :
  d <= k -> exists c', parse_obj rel d (pre ++ repeat 91%N (S k) ++ rest) (len pre) = PErr EGuard c'.
Proof.
  intros Hk. apply reject_deeper.
  replace (S k) with (S d + (k - d)) by lia. rewrite repeat_app, <- app_assoc.
  eapply opens_brackets; reflexivity.
Qed.
