(* Proofs/PrimWs.v — C15 for WhitespaceEOL (the comment-skipping loop). *)
From PV Require Import Model.Prim Proofs.PrimBase Proofs.PrimTok.
From Coq Require Import ZifyBool ZifyNat ZifyN.

(* Comment, without the cursor plumbing *)
Definition comment_end (s : bytes) (c : nat) : nat := opt_byte s (S c + until comment_stop s (S c)) 10.

Lemma comment_flat s c :
  peek_is s c 37 = true ->
  comment s c = POk (sub s (S c) (S c + until comment_stop s (S c)), c, comment_end s c) (comment_end s c).
Proof.
  intros E. unfold comment, comment_end. rewrite E. cbn [negb]. rewrite (incr_peek _ _ _ _ E).
  rewrite (opt_incr s _ 10 (fun c3 => POk (sub s (S c) (S c + until comment_stop s (S c)), c, c3) c3)). reflexivity.
Qed.

Lemma comment_end_bounds s c : peek_is s c 37 = true -> c < comment_end s c /\ comment_end s c <= len s.
Proof.
  intros E. apply peek_is_lt in E. unfold comment_end.
  pose proof (until_le comment_stop s (S c) E).
  destruct (opt_byte_le s (S c + until comment_stop s (S c)) 10 H) as (A & B & C). lia.
Qed.

(* a comment inside a window that contains it *)
Lemma comment_win s c e p i :
  p = c + i -> c <= e -> e <= len s -> peek_is s p 37 = true -> comment_end s p <= e ->
  peek_is (sub s c e) i 37 = true /\ comment_end (sub s c e) i = comment_end s p - c.
Proof.
  intros -> H1 H2 E L. destruct (comment_end_bounds _ _ E) as [B1 B2].
  assert (Pk : peek_is (sub s c e) i 37 = true) by (rewrite (peek_is_win s c e (c + i) i) by lia; exact E).
  split; [exact Pk|].
  unfold comment_end in *.
  pose proof (until_le comment_stop s (S (c + i)) ltac:(apply peek_is_lt in E; lia)) as U.
  set (n := until comment_stop s (S (c + i))) in *.
  destruct (opt_byte_le s (S (c + i) + n) 10 U) as (A & B & C).
  rewrite (until_win comment_stop s c e (S (c + i)) (S i)) by (fold n; lia). fold n.
  unfold opt_byte in *.
  destruct (peek_is s (S (c + i) + n) 10) eqn:E10.
  - rewrite (peek_is_win s c e (S (c + i) + n) (S i + n)) by lia. rewrite E10. lia.
  - destruct (Nat.lt_ge_cases (S (c + i) + n) e).
    + rewrite (peek_is_win s c e (S (c + i) + n) (S i + n)) by lia. rewrite E10. lia.
    + rewrite (peek_is_win_out s c e (S (c + i) + n) (S i + n)) by lia. lia.
Qed.

(* ---------- the loop ---------- *)
Lemma ws_eol_loop_shape f s c e :
  c <= len s ->
  match ws_eol_loop f s c e with
  | POk e' c' => c <= c' /\ c' <= len s /\ (e = false -> e' = false) /\ (e' = true -> c' = c)
  | PErr _ _ => False
  | PPanic => False
  | PFuel => f <= len s - c
  end.
Proof.
  revert c e; induction f as [|f IH]; intros c e Hc; cbn [ws_eol_loop]; [lia|].
  pose proof (allowed_le ws_eol_set s c Hc) as L.
  set (n := allowed ws_eol_set s c) in *.
  destruct (peek_is s (c + n) 37) eqn:E.
  - rewrite (comment_flat _ _ E). destruct (comment_end_bounds _ _ E) as [B1 B2].
    specialize (IH (comment_end s (c + n)) false B2).
    destruct (ws_eol_loop f s (comment_end s (c + n)) false) as [e' c'| | |]; try assumption; [|lia].
    destruct IH as (I1 & I2 & I3 & I4). repeat split; try lia.
  - repeat split; try lia; destruct (Nat.eqb_spec n 0); intros; subst; try reflexivity; try discriminate; lia.
Qed.

Lemma ws_eol_err e : err_restores (ws_eol e).
Proof.
  intros s c k c' H. unfold ws_eol in H.
  destruct (Nat.le_gt_cases c (len s)) as [Hc|Hc].
  - pose proof (ws_eol_loop_shape (S (len s - c)) s c true Hc) as Sh.
    destruct (ws_eol_loop (S (len s - c)) s c true) as [e' c1| | |]; try contradiction; try discriminate.
    destruct Sh as (_ & _ & _ & S4). destruct e'; cbn in H.
    + destruct e; cbn in H; [discriminate|]. injection H as _ <-. apply S4. reflexivity.
    + discriminate.
  - (* outside the buffer invariant: nothing to read *)
    replace (len s - c) with 0 in H by lia. cbn [ws_eol_loop] in H.
    assert (A0 : allowed ws_eol_set s c = 0).
    { unfold allowed. rewrite skipn_all2 by (unfold len in *; lia). reflexivity. }
    rewrite A0 in H. rewrite peek_is_ge in H by lia. cbn in H. destruct e; cbn in H; [discriminate|].
    injection H as _ <-. lia.
Qed.

Lemma ws_eol_np e : no_panic (ws_eol e).
Proof.
  intros s c Hc. unfold ws_eol.
  pose proof (ws_eol_loop_shape (S (len s - c)) s c true Hc) as Sh.
  destruct (ws_eol_loop (S (len s - c)) s c true) as [e' c1| | |]; try contradiction; [|lia].
  destruct (e' && negb e); exact I.
Qed.

(* simulation of the loop on a window that ends where the loop ends *)
Lemma ws_eol_loop_win s c b f : forall p i e0 e1 f2,
  p = c + i -> c <= p -> b <= len s ->
  ws_eol_loop f s p e0 = POk e1 b -> b - p < f2 ->
  ws_eol_loop f2 (sub s c b) i e0 = POk e1 (b - c).
Proof.
  induction f as [|f IH]; intros p i e0 e1 f2 -> Hp Hb H Hf; cbn [ws_eol_loop] in H; [discriminate|].
  destruct f2 as [|f2]; [lia|]. cbn [ws_eol_loop].
  assert (Hpl : c + i <= len s).
  { destruct (Nat.le_gt_cases (c + i) (len s)); [assumption|].
    exfalso. assert (A0 : allowed ws_eol_set s (c + i) = 0).
    { unfold allowed. rewrite skipn_all2 by (unfold len in *; lia). reflexivity. }
    rewrite A0, peek_is_ge in H by lia. injection H as _ <-. lia. }
  pose proof (allowed_le ws_eol_set s (c + i) Hpl) as L.
  set (n := allowed ws_eol_set s (c + i)) in *.
  destruct (peek_is s (c + i + n) 37) eqn:E.
  - rewrite (comment_flat _ _ E) in H. destruct (comment_end_bounds _ _ E) as [B1 B2].
    set (p2 := comment_end s (c + i + n)) in *.
    pose proof (ws_eol_loop_shape f s p2 false B2) as Sh. rewrite H in Sh. destruct Sh as (S1 & _).
    rewrite (allowed_win ws_eol_set s c b (c + i) i) by (fold n; lia). fold n.
    destruct (comment_win s c b (c + i + n) (i + n) ltac:(lia) ltac:(lia) Hb E ltac:(fold p2; lia)) as [Pk Ce].
    rewrite Pk. rewrite (comment_flat _ _ Pk). rewrite Ce. fold p2.
    apply (IH p2 (p2 - c) false e1 f2); try lia. exact H.
  - injection H as <- <-.
    rewrite (allowed_win ws_eol_set s c (c + i + n) (c + i) i) by (fold n; lia). fold n.
    rewrite (peek_is_win_out s c (c + i + n) (c + i + n) (i + n)) by lia.
    f_equal. lia.
Qed.

Lemma ws_eol_span e : ok_span (ws_eol e).
Proof.
  intros s c v a b c' Hc H. unfold ws_eol in H.
  pose proof (ws_eol_loop_shape (S (len s - c)) s c true Hc) as Sh.
  destruct (ws_eol_loop (S (len s - c)) s c true) as [e' c1| | |] eqn:EL; try contradiction; try discriminate.
  destruct Sh as (S1 & S2 & _ & _).
  destruct (e' && negb e) eqn:Ec; [discriminate|].
  injection H as Hv Ha Hb Hc2; subst v a b c'. repeat split; try lia.
  exists tt. split; [|reflexivity]. unfold ws_eol.
  rewrite (ws_eol_loop_win s c c1 _ c 0 true e' (S (len (sub s c c1) - 0)) ltac:(lia) ltac:(lia) S2 EL)
    by (rewrite len_sub by lia; lia).
  rewrite Ec. reflexivity.
Qed.
