(* Proofs/DomInv.v — what a successful call of each converter tells (inversion lemmas), the queue
   update of to_page_kids as a fold, and the invariant rule for the to_page_dom loop. *)
From PV Require Import Model.Dom Spec.DomSpec Proofs.DomFollow.

(* ---------- get_resolved_dict = the specification's [declares] ---------- *)
Lemma get_resolved_dict_some c d k rd :
  get_resolved_dict c d k = OSome rd -> exists v, dget d k = Some v /\ resolves c v (ODict rd).
Proof.
  unfold get_resolved_dict, get_resolved. destruct (dget d k) as [v|]; [|discriminate].
  destruct (follow c v) eqn:F; try discriminate.
  destruct o; try discriminate. intros H; inversion H; subst.
  exists v. split; [reflexivity | apply follow_sound; exact F].
Qed.

Lemma get_resolved_dict_none c d k :
  get_resolved_dict c d k = ONone -> forall v rd, dget d k = Some v -> ~ resolves c v (ODict rd).
Proof.
  unfold get_resolved_dict, get_resolved. intros H v rd Hv Hr. rewrite Hv in H.
  rewrite (follow_complete _ _ _ Hr) in H. discriminate.
Qed.

Lemma get_resolved_dict_fuel c d k : get_resolved_dict c d k <> OFuel.
Proof.
  unfold get_resolved_dict, get_resolved. destruct (dget d k) as [v|]; [|discriminate].
  destruct (follow c v) eqn:F; try discriminate.
  - destruct o; discriminate.
  - exfalso. eapply follow_fuel; eauto.
Qed.

(* ---------- node_resources ---------- *)
Lemma node_resources_ok c d r res :
  node_resources c d r = DOk res ->
  (exists rd x, declares c (ODict d) rd /\ to_resources c rd = DOk x /\ res = Some x) \/
  ((forall rd, ~ declares c (ODict d) rd) /\ res = r).
Proof.
  unfold node_resources. destruct (get_resolved_dict c d (B "Resources")) as [rd| |] eqn:G.
  - destruct (to_resources c rd) as [x| |] eqn:T; try discriminate. intros H; inversion H; subst.
    left. apply get_resolved_dict_some in G as [v [Hv Hr]].
    exists rd, x. split; [|auto]. exists d, v. auto.
  - intros H; inversion H; subst. right. split; [|reflexivity].
    intros rd [d0 [v [E [Hv Hr]]]]. inversion E; subst.
    eapply get_resolved_dict_none; eauto.
  - discriminate.
Qed.

(* ---------- to_page_kids: the queue update as a fold over the listed ids ---------- *)
Definition add_kid (c : octx) (r : option resources) (q : cq) (id : Dom.oid) : cq :=
  match lookup c id with Some o => cq_add q id r o | None => q end.
Definition add_kids (c : octx) (r : option resources) (ids : list Dom.oid) (q : cq) : cq :=
  fold_left (add_kid c r) ids q.

Lemma kids_loop_eq c r : forall a q k,
  kids_loop c r a q k = (add_kids c r (refs_of a) q, k ++ refs_of a).
Proof.
  induction a as [|o a IH]; intros q k; cbn [kids_loop refs_of].
  - unfold add_kids. cbn. rewrite app_nil_r. reflexivity.
  - destruct o; try apply IH.
    rewrite IH. unfold add_kids. cbn [fold_left]. unfold add_kid at 2.
    rewrite <- app_assoc. reflexivity.
Qed.

Lemma page_kids_obj_ok c q r o q' kids :
  page_kids_obj c q r o = OSome (q', kids) ->
  exists a, o = OArr a /\ q' = add_kids c r (refs_of a) q /\ kids = refs_of a.
Proof.
  destruct o; try discriminate. cbn [page_kids_obj]. rewrite kids_loop_eq. intros H; inversion H; subst.
  exists l. auto.
Qed.

Lemma to_page_kids_ok c q r v q' kids :
  to_page_kids c q r v = OSome (q', kids) ->
  exists a, resolves c v (OArr a) /\ q' = add_kids c r (refs_of a) q /\ kids = refs_of a.
Proof.
  unfold to_page_kids. destruct v; try (cbn; discriminate).
  2: { intros H; apply page_kids_obj_ok in H as [a [E [Hq Hk]]]; inversion E; subst; exists a.
       split; [apply res_here; intros; discriminate | auto]. }
  destruct (follow c (ORef num gen)) eqn:F; try discriminate.
  intros H; apply page_kids_obj_ok in H as [a [E [Hq Hk]]]. subst.
  exists a. split; [apply follow_sound; exact F | auto].
Qed.

Lemma to_page_kids_fuel c q r v : to_page_kids c q r v <> OFuel.
Proof.
  unfold to_page_kids. destruct v; try (destruct_with_eqn (follow c (ORef num gen)));
    try discriminate; try (cbn; discriminate).
  - destruct o; cbn; discriminate.
  - exfalso. eapply follow_fuel; eauto.
Qed.

(* ---------- nodes, pages, root ---------- *)
Lemma to_page_tree_node_ok c q r o n q' :
  to_page_tree_node c q r o = DOk (n, q') ->
  exists d parent res count v a,
    o = ODict d /\ node_resources c d r = DOk res /\ dget d (B "Kids") = Some v /\
    resolves c v (OArr a) /\ q' = add_kids c res (refs_of a) q /\ n = PNode parent res count (refs_of a).
Proof.
  unfold to_page_tree_node. destruct o; try discriminate.
  destruct (get_ref l (B "Parent")) as [parent|]; [|discriminate].
  destruct (node_resources c l r) as [res| |] eqn:NR; try discriminate.
  destruct (get_usize l (B "Count")) as [count|]; [|discriminate].
  destruct (dget l (B "Kids")) as [v|] eqn:K; [|discriminate].
  destruct (to_page_kids c q res v) as [[q1 kids]| |] eqn:TK; try discriminate.
  intros H; inversion H; subst.
  apply to_page_kids_ok in TK as [a [Hr [Hq Hk]]]. subst.
  exists l, parent, res, count, v, a. auto 10.
Qed.

Lemma to_root_ok c q o res count kids q' :
  to_root_page_tree_node c q o = DOk (res, count, kids, q') ->
  exists d v a,
    o = ODict d /\ node_resources c d None = DOk res /\ dget d (B "Kids") = Some v /\
    resolves c v (OArr a) /\ q' = add_kids c res (refs_of a) q /\ kids = refs_of a.
Proof.
  unfold to_root_page_tree_node. destruct o; try discriminate.
  destruct (node_resources c l None) as [res0| |] eqn:NR; try discriminate.
  destruct (get_usize l (B "Count")) as [count0|]; [|discriminate].
  destruct (dget l (B "Kids")) as [v|] eqn:K; [|discriminate].
  destruct (to_page_kids c q res0 v) as [[q1 kids1]| |] eqn:TK; try discriminate.
  intros H; inversion H; subst.
  apply to_page_kids_ok in TK as [a [Hr [Hq Hk]]]. subst.
  exists l, v, a. auto 10.
Qed.

Lemma to_catalog_ok c q o res count kids q' :
  to_catalog c q o = DOk (res, count, kids, q') ->
  exists d rid root,
    o = ODict d /\ get_ref d (B "Pages") = Some rid /\ lookup c rid = Some root /\
    to_root_page_tree_node c q root = DOk (res, count, kids, q').
Proof.
  unfold to_catalog. destruct o; try discriminate.
  destruct (get_ref l (B "Pages")) as [rid|] eqn:G; [|discriminate].
  destruct (lookup c rid) as [root|] eqn:L; [|discriminate].
  intros H. exists l, rid, root. auto.
Qed.

Lemma to_page_ok c r o p :
  to_page c r o = DOk p ->
  exists d parent res v cs,
    o = ODict d /\ node_resources c d r = DOk res /\ dget d (B "Contents") = Some v /\
    to_page_contents c v = OSome cs /\ p = PLeaf parent (match res with Some x => x | None => [] end) cs.
Proof.
  unfold to_page. destruct o; try discriminate.
  destruct (get_ref l (B "Parent")) as [parent|]; [|discriminate].
  destruct (node_resources c l r) as [res| |] eqn:NR; try discriminate.
  destruct (dget l (B "Contents")) as [v|] eqn:K; [|discriminate].
  destruct (to_page_contents c v) as [cs| |] eqn:TC; try discriminate.
  intros H; inversion H; subst. exists l, parent, res, v, cs. auto 10.
Qed.

(* ---------- BTreeMap insert on the page map ---------- *)
Lemma oid_cmp_eq a b : oid_cmp a b = Eq -> a = b.
Proof.
  destruct a as [a1 a2], b as [b1 b2]. unfold oid_cmp. cbn [fst snd].
  destruct (N.compare a1 b1) eqn:E1; try discriminate. intros E2.
  apply N.compare_eq in E1, E2. subst. reflexivity.
Qed.

Lemma pages_insert_in id p : forall pg x,
  In x (pages_insert id p pg) -> x = (id, p) \/ In x pg.
Proof.
  induction pg as [|[id' p'] pg IH]; intros x; cbn [pages_insert].
  - intros [H|[]]; auto.
  - destruct (oid_cmp id id'); cbn [In].
    + intros [H|H]; auto.
    + intros [H|H]; auto.
    + intros [H|H]; auto. apply IH in H as [H|H]; auto.
Qed.

Lemma pages_insert_keys id p : forall pg x,
  In x (List.map fst (pages_insert id p pg)) <-> x = id \/ In x (List.map fst pg).
Proof.
  induction pg as [|[id' p'] pg IH]; intros x; cbn [pages_insert].
  - cbn. intuition.
  - destruct (oid_cmp id id') eqn:E; cbn [List.map fst In].
    + apply oid_cmp_eq in E. subst. intuition.
    + intuition.
    + rewrite IH. intuition.
Qed.

Lemma pages_insert_nodup id p : forall pg,
  ~ In id (List.map fst pg) -> NoDup (List.map fst pg) -> NoDup (List.map fst (pages_insert id p pg)).
Proof.
  induction pg as [|[id' p'] pg IH]; intros Hn Hd; cbn [pages_insert].
  - cbn. constructor; auto.
  - cbn [List.map fst In] in Hn, Hd. inversion Hd; subst.
    destruct (oid_cmp id id') eqn:E; cbn [List.map fst].
    + apply oid_cmp_eq in E. subst. exfalso. apply Hn. auto.
    + constructor; auto.
    + constructor.
      * rewrite pages_insert_keys. intros [H|H]; [subst; apply Hn; auto | auto].
      * apply IH; auto.
Qed.

(* ---------- the loop: invariant rule ---------- *)
Definition qid (e : qentry) : Dom.oid := fst (fst e).

Section LoopRule.
  Variable c : octx.
  Variable P : cq -> pages -> Prop.

  (* a page-tree node is taken from the queue and converted *)
  Hypothesis step_node : forall id r d rest ex n q' pg,
    P (mkq ((id, r, ODict d) :: rest) ex) pg ->
    get_name d (B "Type") = Some (B "Pages") ->
    to_page_tree_node c (mkq rest ex) r (ODict d) = DOk (n, q') ->
    P q' (pages_insert id n pg).
  (* a page is taken from the queue and converted *)
  Hypothesis step_page : forall id r d rest ex p pg,
    P (mkq ((id, r, ODict d) :: rest) ex) pg ->
    get_name d (B "Type") = Some (B "Page") ->
    to_page c r (ODict d) = DOk p ->
    P (mkq rest ex) (pages_insert id p pg).

  Lemma dom_loop_rule : forall fuel q pg pg',
    P q pg -> dom_loop fuel c q pg = DOk pg' -> exists ex, P (mkq [] ex) pg'.
  Proof.
    induction fuel as [|f IH]; intros q pg pg' HP H; cbn [dom_loop] in H; [discriminate|].
    destruct q as [nodes ex]. cbn [q_nodes q_examined] in H.
    destruct nodes as [|[[id r] o] rest].
    - inversion H; subst. exists ex. exact HP.
    - destruct o; try discriminate.
      destruct (get_name l (B "Type")) as [t|] eqn:T; [|discriminate].
      destruct (bytes_eqb t (B "Pages")) eqn:E1.
      + apply bytes_eqb_eq in E1. subst t.
        destruct (to_page_tree_node c (mkq rest ex) r (ODict l)) as [[n q']| |] eqn:TN; try discriminate.
        eapply IH; [|exact H]. eapply step_node; eauto.
      + destruct (bytes_eqb t (B "Page")) eqn:E2; [|discriminate].
        apply bytes_eqb_eq in E2. subst t.
        destruct (to_page c r (ODict l)) as [p| |] eqn:TP; try discriminate.
        eapply IH; [|exact H]. eapply step_page; eauto.
  Qed.
End LoopRule.
