(* Proofs/ObjIndTotal.v — C05: the indirect-object parser is total.  For ALL inputs and ALL contexts
   IndirectP / parse_pdf_indirect_obj reach no panic site (assert, unwrap, index, the
   `panic!("can never happen")` arm) and never exhaust the model's fuel; a successful parse stays
   inside the buffer.  Built from parse_obj_wbs (Proofs/ContentLexTotal.v), the token parsers'
   no-panic / span lemmas (Proofs/Prim*.v, incl. StreamContentP) and the /Length lookup. *)
From PV Require Import Model.Obj Proofs.PrimBase Proofs.PrimTok Proofs.PrimWs Proofs.PrimLit Proofs.ContentLexTotal.
From Coq Require Import Lia.

Lemma stream_content_wb n e s c : c <= len s -> wb s c (stream_content n e s c).
Proof.
  intros Hc. pose proof (stream_content_np n e s c Hc) as F.
  destruct (stream_content n e s c) as [[[v a] b] c'| | |] eqn:E; cbn in *; try tauto.
  destruct (stream_content_span n e s c v a b c' Hc E) as (_ & Hb & Hle & Hlen & _). subst. lia.
Qed.

(* the /Length lookup returns a length or an error kind — nothing else *)
Lemma stream_length_total ctx d : stream_length ctx d <> Panic /\ stream_length ctx d <> Fuel.
Proof.
  unfold stream_length, convert_stream_length.
  destruct (dict_get d key_Length) as [v|]; [|split; discriminate].
  destruct v; try (split; discriminate).
  - destruct (int_is_usize z); split; discriminate.
  - destruct (octx_get ctx (num, gen)) as [o|]; [|split; discriminate].
    destruct o; try (split; discriminate). destruct (int_is_usize z); split; discriminate.
Qed.

Lemma stream_tail_wb ctx d os s c : c <= len s -> wb s c (stream_tail ctx d os s c).
Proof.
  intros Hc. unfold stream_tail. destruct (stream_length_total ctx d) as [NP NF].
  destruct (stream_length ctx d) as [l|k| |]; [|exact I|contradiction|contradiction].
  apply bind_wb; [apply stream_content_wb, Hc|].
  intros [[[[st sz] ct] a] e] c1 H1 H2. cbn. lia.
Qed.

Lemma maybe_stream_wb ctx o s c : c <= len s -> wb s c (maybe_stream ctx o s c).
Proof.
  intros Hc. unfold maybe_stream. destruct o as [[v os] oe].
  destruct v; try (cbn; lia).
  apply bind_wb; [apply ws_wb, Hc|]. intros u c1 H1 H2.
  destruct (check_prefix kw_stream s c1); [apply stream_tail_wb, H2|cbn; lia].
Qed.

Lemma exact_wb tag s c e : c <= len s -> exact tag s c = Some e -> c <= e /\ e <= len s.
Proof. intros Hc H. destruct (exact_some _ _ _ _ H) as [-> L]. split; [lia|apply L, Hc]. Qed.

Lemma usize_N_some z : (0 <= z)%Z -> exists n, usize_N z = Some n.
Proof. intros H. unfold usize_N. destruct (Z.leb_spec 0 z); [eauto|lia]. Qed.

Lemma usize_checks z : negb (int_is_usize z) = false -> (0 <= z)%Z.
Proof. unfold int_is_usize. destruct (Z.leb_spec 0 z); [auto|discriminate]. Qed.

Lemma zero_or_usize z : negb ((z =? 0)%Z || int_is_usize z) = false -> (0 <= z)%Z.
Proof. unfold int_is_usize. destruct (Z.eqb_spec z 0); [lia|]. destruct (Z.leb_spec 0 z); [auto|discriminate]. Qed.

(* the second half, for identifiers that passed the checks of the first half *)
Lemma indirect_tail_wb ctx start num gen o s c :
  (0 <= num)%Z -> (0 <= gen)%Z -> c <= len s -> wb s c (indirect_tail ctx start num gen o s c).
Proof.
  intros Hn Hg Hc. unfold indirect_tail.
  apply bind_wb; [apply maybe_stream_wb, Hc|]. intros [[[v os] oe] strm] c8 H1 H2.
  apply bind_wb; [apply ws_wb, H2|]. intros u c9 H3 H4.
  destruct (exact kw_endobj s c9) as [c10|] eqn:E; [|exact I].
  destruct (exact_wb _ _ _ _ H4 E) as [H5 H6].
  destruct (usize_N_some _ Hn) as (n & ->). destruct (usize_N_some _ Hg) as (g & ->).
  destruct (octx_get ctx (n, g)); cbn; [exact I|lia].
Qed.

Theorem indirect_internal_wb rel b ctx s c :
  lit_fine rel s -> c <= len s -> wb s c (indirect_internal rel b ctx s c).
Proof.
  intros LF Hc. unfold indirect_internal, indirect_head.
  (* re-associate: walk through the first half, then hand over to the second *)
  pose proof (integer_wbs s c Hc) as I1.
  destruct (integer s c) as [num c1| | |] eqn:E1; cbn [bind]; cbn in I1; try tauto.
  destruct (negb (int_is_usize (lv_val num))) eqn:U1; [rewrite setc_ok by exact Hc; exact I|].
  apply usize_checks in U1.
  pose proof (ws_wb true s c1 ltac:(lia)) as W1.
  destruct (ws_eol true s c1) as [u1 c2| | |]; cbn [bind]; cbn in W1; try tauto.
  pose proof (integer_wbs s c2 ltac:(lia)) as I2.
  destruct (integer s c2) as [gen c3| | |] eqn:E2; cbn [bind]; cbn in I2; try tauto.
  destruct (negb ((lv_val gen =? 0)%Z || int_is_usize (lv_val gen))) eqn:U2; [rewrite setc_ok by lia; exact I|].
  apply zero_or_usize in U2.
  pose proof (ws_wb true s c3 ltac:(lia)) as W2.
  destruct (ws_eol true s c3) as [u2 c4| | |]; cbn [bind]; cbn in W2; try tauto.
  destruct (exact kw_obj s c4) as [c5|] eqn:X; [|exact I].
  destruct (exact_wb kw_obj s c4 c5 ltac:(lia) X) as [X1 X2].
  pose proof (ws_wb true s c5 X2) as W3.
  destruct (ws_eol true s c5) as [u3 c6| | |]; cbn [bind]; cbn in W3; try tauto.
  pose proof (parse_obj_wbs rel s LF b c6 ltac:(lia)) as PO.
  destruct (parse_obj rel b s c6) as [o c7| | |]; cbn [bind]; cbn in PO; try tauto.
  pose proof (indirect_tail_wb ctx c (lv_val num) (lv_val gen) o s c7 U1 U2 ltac:(lia)) as T.
  destruct (indirect_tail ctx c (lv_val num) (lv_val gen) o s c7); cbn in *; try tauto. lia.
Qed.

Theorem indirect_p_wb rel b ctx s c :
  lit_fine rel s -> c <= len s -> wb s c (indirect_p rel b ctx s c).
Proof.
  intros LF Hc. unfold indirect_p. apply bind_wb; [apply ws_wb, Hc|].
  intros u c0 H1 H2. apply indirect_internal_wb; assumption.
Qed.

(* parse_pdf_indirect_obj: no panic, no fuel exhaustion; success stays inside the buffer.
   Debug builds: inputs below 2 GiB (RawLiteralString's i32 nesting counter); release: any input. *)
Theorem indirect_p_total rel b ctx s c :
  (Z.of_nat (len s) < 2147483648)%Z -> c <= len s ->
  indirect_p rel b ctx s c <> PPanic /\ indirect_p rel b ctx s c <> PFuel /\
  (forall v c', indirect_p rel b ctx s c = POk v c' -> c <= c' /\ c' <= len s).
Proof.
  intros Hs Hc. pose proof (indirect_p_wb rel b ctx s c (lit_fine_small rel s Hs) Hc) as W.
  destruct (indirect_p rel b ctx s c) as [v1 c1|k1 c1| |]; cbn in W; try contradiction.
  - split; [discriminate|]. split; [discriminate|]. intros v2 c2 E. inversion E; subst. exact W.
  - split; [discriminate|]. split; [discriminate|]. intros v2 c2 E. discriminate E.
Qed.

Theorem indirect_p_total_release b ctx s c :
  c <= len s -> indirect_p true b ctx s c <> PPanic /\ indirect_p true b ctx s c <> PFuel.
Proof.
  intros Hc. pose proof (indirect_p_wb true b ctx s c (lit_fine_release s) Hc) as W.
  destruct (indirect_p true b ctx s c); cbn in W; try contradiction; split; discriminate.
Qed.

Theorem indirect_internal_total rel b ctx s c :
  (Z.of_nat (len s) < 2147483648)%Z -> c <= len s ->
  indirect_internal rel b ctx s c <> PPanic /\ indirect_internal rel b ctx s c <> PFuel.
Proof.
  intros Hs Hc. pose proof (indirect_internal_wb rel b ctx s c (lit_fine_small rel s Hs) Hc) as W.
  destruct (indirect_internal rel b ctx s c); cbn in W; try contradiction; split; discriminate.
Qed.
