(* Proofs/BufSteps.v — C17: one simulation lemma per operation.  For a view [v] satisfying [Inv]
   every operation of the (repaired) code returns the same value as the reference operation on
   the copy [abs v] of its window, the abstraction commutes, and [Inv] is preserved. *)
From PV Require Import Model.Buf Proofs.BufSpec Proofs.BufLists.
From Coq Require Import ZifyBool ZifyNat ZifyN.
Local Open Scope N_scope.

(* bytes an operation adds to the underlying vector *)
Definition app1 (o : op) : N := match o with OAppend t => lenN t | _ => 0 end.

Definition sim (o : op) (v : pb) (a : res (rv * pb)) (b : res (rv * rb)) : Prop :=
  match a, b with
  | Ok (x, v'), Ok (y, r') => x = y /\ abs v' = r' /\ Inv v' /\ lenN (data v') <= lenN (data v) + app1 o
  | Panic, Panic => True
  | _, _ => False
  end.

(* ---------- facts about a view satisfying Inv ---------- *)
Lemma window_len v : Inv v -> lenN (window v) = en v - st v.
Proof. intros (H1 & H2 & H3 & H4). unfold window, lenN in *. rewrite sub_length by lia. lia. Qed.

Lemma slice_ok d a b : a <= b -> b <= lenN d -> slice d a b = Ok (sub d (N.to_nat a) (N.to_nat b)).
Proof. intros H1 H2. unfold slice. replace ((a <=? b) && (b <=? lenN d)) with true by lia. reflexivity. Qed.

Lemma rest_eq v : Inv v -> r_rest (abs v) = sub (data v) (N.to_nat (ofs v)) (N.to_nat (en v)).
Proof.
  intros (H1 & H2 & H3 & H4). unfold r_rest, abs, window. cbn [rdata rcur].
  replace (N.to_nat (ofs v - st v)) with (N.to_nat (ofs v) - N.to_nat (st v))%nat by lia.
  apply skipn_sub. lia.
Qed.

Lemma rest_len v : Inv v -> lenN (r_rest (abs v)) = en v - ofs v.
Proof. intros I. rewrite rest_eq by assumption. destruct I as (H1 & H2 & H3 & H4). unfold lenN in *. rewrite sub_length by lia. lia. Qed.

Lemma slice_rest v : Inv v -> slice (data v) (ofs v) (en v) = Ok (r_rest (abs v)).
Proof. intros I. rewrite rest_eq by assumption. destruct I as (H1 & H2 & H3 & H4). apply slice_ok; lia. Qed.

Lemma before_eq v : Inv v ->
  firstn (N.to_nat (ofs v - st v)) (window v) = sub (data v) (N.to_nat (st v)) (N.to_nat (ofs v)).
Proof.
  intros (H1 & H2 & H3 & H4). unfold window.
  replace (N.to_nat (ofs v - st v)) with (N.to_nat (ofs v) - N.to_nat (st v))%nat by lia.
  apply firstn_sub. lia.
Qed.

Lemma before_len v : Inv v -> lenN (firstn (N.to_nat (ofs v - st v)) (window v)) = ofs v - st v.
Proof. intros I. rewrite before_eq by assumption. destruct I as (H1 & H2 & H3 & H4). unfold lenN in *. rewrite sub_length by lia. lia. Qed.

Lemma slice_before v : Inv v ->
  slice (data v) (st v) (ofs v) = Ok (firstn (N.to_nat (ofs v - st v)) (window v)).
Proof. intros I. rewrite before_eq by assumption. destruct I as (H1 & H2 & H3 & H4). apply slice_ok; lia. Qed.

Lemma peek_abs v : Inv v -> peek v = Ok (nth_error (window v) (N.to_nat (ofs v - st v))).
Proof.
  intros (H1 & H2 & H3 & H4). unfold peek, window.
  destruct (N.ltb_spec (ofs v) (en v)) as [L|L].
  - unfold index. replace (ofs v <? lenN (data v)) with true by lia.
    rewrite nth_error_sub by lia.
    replace (N.to_nat (st v) + N.to_nat (ofs v - st v))%nat with (N.to_nat (ofs v)) by lia.
    destruct (nth_error (data v) (N.to_nat (ofs v))) eqn:E; [reflexivity|].
    apply nth_error_None in E. unfold lenN in *. lia.
  - replace (N.to_nat (ofs v - st v)) with (N.to_nat (en v) - N.to_nat (st v))%nat by lia.
    unfold lenN in *. rewrite nth_error_sub_none by lia. reflexivity.
Qed.

Lemma observe_abs m v : Inv v -> observe m v = Ok (r_observe (abs v)).
Proof.
  intros I. pose proof (window_len v I) as HL. pose proof (peek_abs v I) as HP.
  pose proof (slice_rest v I) as HS. destruct I as (H1 & H2 & H3 & H4).
  unfold observe, get_cursor, size, remaining, buf.
  rewrite !usub_ok by lia. cbn [bind].
  replace (ofs v <=? en v) with true by lia. cbn [bind].
  rewrite HP, HS. cbn [bind]. unfold r_observe. cbn [abs rdata rcur]. rewrite HL.
  f_equal. f_equal. lia.
Qed.

Lemma abs_with_ofs v a c : a - st v = c -> abs (with_ofs v a) = r_with_cur (abs v) c.
Proof. intros <-. reflexivity. Qed.

Lemma Inv_with_ofs v a : Inv v -> st v <= a -> a <= en v -> Inv (with_ofs v a).
Proof. intros (H1 & H2 & H3 & H4) Ha Hb. unfold Inv, with_ofs. cbn [data st en ofs]. lia. Qed.

(* closes the four conjuncts of [sim] for an operation that only moves the cursor to [a] *)
Ltac move_to v I :=
  cbn [sim]; split; [try reflexivity | split; [apply abs_with_ofs; try lia | split;
    [apply Inv_with_ofs; [exact I | lia | lia] | cbn [with_ofs data app1]; lia]]].

Ltac stay v I :=
  cbn [sim]; split; [try reflexivity | split; [try reflexivity | split; [exact I | cbn [app1]; lia]]].

(* ---------- cursor management ---------- *)
Lemma set_cursor_sim m v k : Inv v -> sim (OSetCursor k) v (set_cursor m v k) (r_step (abs v) (OSetCursor k)).
Proof.
  intros I. pose proof (window_len v I) as HL. pose proof I as (H1 & H2 & H3 & H4).
  unfold set_cursor, size. rewrite usub_ok by lia. cbn [bind r_step abs rdata rcur]. rewrite HL.
  destruct (N.leb_spec k (en v - st v)).
  - rewrite uadd_ok by lia. cbn [bind]. move_to v I.
  - stay v I.
Qed.

Lemma incr_cursor_sim m v : Inv v -> sim OIncr v (incr_cursor m v) (r_step (abs v) OIncr).
Proof.
  intros I. pose proof (window_len v I) as HL. pose proof I as (H1 & H2 & H3 & H4).
  unfold incr_cursor. cbn [r_step abs rdata rcur]. rewrite HL.
  replace (ofs v - st v <? en v - st v) with (ofs v <? en v) by lia.
  destruct (N.ltb_spec (ofs v) (en v)).
  - rewrite uadd_ok by lia. cbn [bind]. move_to v I.
  - stay v I.
Qed.

Lemma decr_cursor_sim m v : Inv v -> sim ODecr v (decr_cursor m v) (r_step (abs v) ODecr).
Proof.
  intros I. pose proof I as (H1 & H2 & H3 & H4).
  unfold decr_cursor. cbn [r_step abs rdata rcur].
  replace (0 <? ofs v - st v) with (st v <? ofs v) by lia.
  destruct (N.ltb_spec (st v) (ofs v)).
  - rewrite usub_ok by lia. cbn [bind]. move_to v I.
  - stay v I.
Qed.

Lemma check_cursor_sim m v k : Inv v -> sim (OCheckCursor k) v (check_cursor m v k) (r_step (abs v) (OCheckCursor k)).
Proof.
  intros I. pose proof (window_len v I) as HL. pose proof I as (H1 & H2 & H3 & H4).
  unfold check_cursor, size. rewrite usub_ok by lia. cbn [bind r_step abs rdata rcur]. rewrite HL.
  stay v I.
Qed.

Lemma set_cursor_unsafe_sim m v k : Inv v -> sim (OSetCursorU k) v (set_cursor_unsafe m v k) (r_step (abs v) (OSetCursorU k)).
Proof.
  intros I. pose proof (window_len v I) as HL. pose proof I as (H1 & H2 & H3 & H4).
  unfold set_cursor_unsafe, size. rewrite usub_ok by lia. cbn [bind r_step abs rdata rcur]. rewrite HL.
  destruct (N.leb_spec k (en v - st v)).
  - rewrite uadd_ok by lia. cbn [bind]. move_to v I.
  - exact Logic.I.
Qed.

Lemma incr_cursor_unsafe_sim m v : Inv v -> sim OIncrU v (incr_cursor_unsafe m v) (r_step (abs v) OIncrU).
Proof.
  intros I. pose proof (window_len v I) as HL. pose proof I as (H1 & H2 & H3 & H4).
  unfold incr_cursor_unsafe. cbn [r_step abs rdata rcur]. rewrite HL.
  replace (ofs v - st v <? en v - st v) with (ofs v <? en v) by lia.
  destruct (N.ltb_spec (ofs v) (en v)).
  - rewrite uadd_ok by lia. cbn [bind]. move_to v I.
  - exact Logic.I.
Qed.

Lemma decr_cursor_unsafe_sim m v : Inv v -> sim ODecrU v (decr_cursor_unsafe m v) (r_step (abs v) ODecrU).
Proof.
  intros I. pose proof I as (H1 & H2 & H3 & H4).
  unfold decr_cursor_unsafe. cbn [r_step abs rdata rcur].
  replace (0 <? ofs v - st v) with (st v <? ofs v) by lia.
  destruct (N.ltb_spec (st v) (ofs v)).
  - rewrite usub_ok by lia. cbn [bind]. move_to v I.
  - exact Logic.I.
Qed.

(* ---------- parsing primitives ---------- *)
Lemma check_prefix_sim v t : Inv v -> sim (OCheckPrefix t) v (check_prefix v t) (r_step (abs v) (OCheckPrefix t)).
Proof.
  intros I. unfold check_prefix. rewrite slice_rest by assumption. cbn [bind r_step]. stay v I.
Qed.

Lemma take_sim m v f o x :
  Inv v -> x = take_while f (r_rest (abs v)) -> app1 o = 0 ->
  sim o v (a <- uadd m (ofs v) (lenN x);; Ok (RBytes x, with_ofs v a))
          (Ok (RBytes x, r_with_cur (abs v) (rcur (abs v) + lenN x))).
Proof.
  intros I -> Ho. pose proof (rest_len v I) as HR.
  pose proof (take_while_len f (r_rest (abs v))) as HT. pose proof I as (H1 & H2 & H3 & H4).
  rewrite uadd_ok by lia. cbn [bind sim abs rcur].
  split; [reflexivity|]. split; [apply abs_with_ofs; lia|].
  split; [apply Inv_with_ofs; [exact I | lia | lia] | cbn [with_ofs data]; lia].
Qed.

Lemma parse_allowed_bytes_sim m v t : Inv v -> sim (OAllowed t) v (parse_allowed_bytes m v t) (r_step (abs v) (OAllowed t)).
Proof.
  intros I. unfold parse_allowed_bytes. rewrite slice_rest by assumption. cbn [bind r_step].
  eapply take_sim; [exact I | reflexivity | reflexivity].
Qed.

Lemma parse_bytes_until_sim m v t : Inv v -> sim (OUntil t) v (parse_bytes_until m v t) (r_step (abs v) (OUntil t)).
Proof.
  intros I. unfold parse_bytes_until. rewrite slice_rest by assumption. cbn [bind r_step].
  eapply take_sim; [exact I | reflexivity | reflexivity].
Qed.

Lemma find_tag_nil l : find_tag [] l = Some 0.
Proof. destruct l; reflexivity. Qed.

Lemma scan_sim m v t : Inv v -> sim (OScan t) v (scan m v t) (r_step (abs v) (OScan t)).
Proof.
  intros I. pose proof (rest_len v I) as HR. pose proof I as (H1 & H2 & H3 & H4).
  unfold scan. cbn [r_step]. destruct t as [|b t].
  - rewrite find_tag_nil. cbn [sim]. split; [reflexivity|]. split; [|split; [exact I | cbn [app1]; lia]].
    unfold r_with_cur, abs. cbn [rdata rcur rshared]. f_equal. lia.
  - unfold get_cursor. rewrite usub_ok by lia. cbn [bind]. rewrite slice_rest by assumption. cbn [bind].
    rewrite scan_loop_find by discriminate.
    destruct (find_tag (b :: t) (r_rest (abs v))) as [j|] eqn:E.
    + apply find_tag_bound in E. replace (0 + j) with j by lia.
      rewrite uadd_ok by lia. cbn [bind abs rcur]. move_to v I.
    + stay v I.
Qed.

Lemma backward_scan_sim m v t : Inv v -> sim (OBScan t) v (backward_scan m v t) (r_step (abs v) (OBScan t)).
Proof.
  intros I. pose proof (before_len v I) as HB. pose proof I as (H1 & H2 & H3 & H4). pose proof W_gt as HW.
  unfold backward_scan. cbn [r_step abs rdata rcur]. destruct t as [|b t].
  - rewrite find_last_nil, HB. cbn [sim]. split; [f_equal; lia|]. split; [|split; [exact I | cbn [app1]; lia]].
    unfold r_with_cur, abs. cbn [rdata rcur rshared]. reflexivity.
  - unfold get_cursor. rewrite usub_ok by lia. cbn [bind]. rewrite slice_before by assumption. cbn [bind].
    pose proof (bscan_loop_find m (b :: t) (firstn (N.to_nat (ofs v - st v)) (window v)) 1) as HF.
    specialize (HF ltac:(discriminate)).
    destruct (find_last (b :: t) (firstn (N.to_nat (ofs v - st v)) (window v))) as [p|].
    + destruct HF as (i & Hi & ->). rewrite HB in Hi.
      unfold bret. rewrite uadd_ok by lia. cbn [bind]. rewrite usub_ok by lia. cbn [bind].
      rewrite usub_ok by lia. cbn [bind].
      cbn [sim]. split; [f_equal; lia|]. split; [apply abs_with_ofs; lia|].
      split; [apply Inv_with_ofs; [exact I | lia | lia] | cbn [with_ofs data app1]; lia].
    + rewrite HF. stay v I.
Qed.

Lemma exact_sim m v t : Inv v -> sim (OExact t) v (exact m v t) (r_step (abs v) (OExact t)).
Proof.
  intros I. pose proof (rest_len v I) as HR. pose proof I as (H1 & H2 & H3 & H4).
  unfold exact, get_cursor. rewrite usub_ok by lia. cbn [bind]. rewrite slice_rest by assumption.
  cbn [bind r_step]. destruct (prefixb t (r_rest (abs v))) eqn:E.
  - apply prefixb_true_len in E. unfold lenN in *.
    rewrite uadd_ok by lia. cbn [bind abs rcur]. move_to v I.
  - stay v I.
Qed.

Lemma extract_sim m v k : Inv v -> sim (OExtract k) v (extract m v k) (r_step (abs v) (OExtract k)).
Proof.
  intros I. pose proof (window_len v I) as HL. pose proof (rest_eq v I) as HE. pose proof I as (H1 & H2 & H3 & H4).
  unfold extract, remaining, get_cursor. replace (ofs v <=? en v) with true by lia.
  rewrite usub_ok by lia. cbn [bind r_step abs rdata rcur]. rewrite HL.
  replace (en v - st v - (ofs v - st v) <? k) with (en v - ofs v <? k) by lia.
  destruct (N.ltb_spec (en v - ofs v) k).
  - rewrite usub_ok by lia. cbn [bind]. stay v I.
  - rewrite uadd_ok by lia. cbn [bind]. rewrite slice_ok by lia. cbn [bind].
    cbn [sim]. split.
    + f_equal. change (r_rest {| rdata := window v; rcur := ofs v - st v; rshared := shared v |}) with (r_rest (abs v)).
      rewrite HE. replace (N.to_nat k) with (N.to_nat (ofs v + k) - N.to_nat (ofs v))%nat by lia.
      rewrite firstn_sub by lia. reflexivity.
    + split; [apply abs_with_ofs; lia|].
      split; [apply Inv_with_ofs; [exact I | lia | lia] | cbn [with_ofs data app1]; lia].
Qed.

(* ---------- StreamBufferT ---------- *)
Lemma drop_sim m v k : Inv v -> sim (ODrop k) v (drop m v k) (r_step (abs v) (ODrop k)).
Proof.
  intros I. pose proof I as (H1 & H2 & H3 & H4).
  unfold drop. cbn [r_step abs rdata rcur rshared]. destruct (shared v) eqn:S.
  - cbn [sim]. split; [reflexivity|]. split; [unfold abs; rewrite S; reflexivity|]. split; [exact I | cbn [app1]; lia].
  - rewrite usub_ok by lia. cbn [bind].
    destruct (N.ltb_spec (ofs v - st v) k).
    + cbn [sim]. split; [reflexivity|]. split; [unfold abs; rewrite S; reflexivity|]. split; [exact I | cbn [app1]; lia].
    + rewrite uadd_ok by lia. cbn [bind].
      replace (lenN (data v) <? st v + k) with false by lia.
      rewrite !usub_ok by lia. cbn [bind sim].
      split; [reflexivity|]. split; [|split].
      * unfold abs, window. cbn [data st en ofs shared]. f_equal; [|lia].
        replace (N.to_nat (st v + k)) with (N.to_nat (st v) + N.to_nat k)%nat by lia.
        replace (N.to_nat (en v - (st v + k))) with (N.to_nat (en v) - (N.to_nat (st v) + N.to_nat k))%nat by lia.
        change (N.to_nat 0) with 0%nat. apply sub_drop. lia.
      * unfold Inv. cbn [data st en ofs]. unfold lenN in *. rewrite skipn_length. lia.
      * cbn [data app1]. unfold lenN. rewrite skipn_length. lia.
Qed.

Lemma append_sim m v t : Inv v -> 2 * (lenN (data v) + lenN t) < W -> sim (OAppend t) v (append m v t) (r_step (abs v) (OAppend t)).
Proof.
  intros I HW. pose proof I as (H1 & H2 & H3 & H4).
  unfold append. cbn [r_step abs rdata rcur rshared]. destruct (shared v) eqn:S.
  - cbn [sim]. split; [reflexivity|]. split; [unfold abs; rewrite S; reflexivity|]. split; [exact I | cbn [app1]; lia].
  - rewrite uadd_ok by lia. cbn [bind sim].
    assert (HD : (if en v <? lenN (data v) then firstn (N.to_nat (en v)) (data v) else data v) = firstn (N.to_nat (en v)) (data v)).
    { destruct (N.ltb_spec (en v) (lenN (data v))); [reflexivity|]. unfold lenN in *. rewrite firstn_all2 by lia. reflexivity. }
    rewrite HD. split; [reflexivity|]. split; [|split].
    + unfold abs, window. cbn [data st en ofs shared]. f_equal.
      replace (N.to_nat (en v + lenN t)) with (N.to_nat (en v) + List.length t)%nat by (unfold lenN; lia).
      unfold lenN in *. apply sub_append; lia.
    + unfold Inv. cbn [data st en ofs]. rewrite lenN_app. unfold lenN in *. rewrite firstn_length. lia.
    + cbn [data app1]. rewrite lenN_app. unfold lenN in *. rewrite firstn_length. lia.
Qed.

(* ---------- views ---------- *)
Lemma new_view_ok m v a k : Inv v -> a + k <= en v - st v ->
  new_view m v a k = Ok {| data := data v; st := st v + a; en := st v + a + k; ofs := st v + a; shared := true |}.
Proof.
  intros (H1 & H2 & H3 & H4) H. unfold new_view, size.
  rewrite uadd_ok by lia. cbn [bind]. rewrite usub_ok by lia. cbn [bind].
  replace (a + k <=? en v - st v) with true by lia.
  rewrite uadd_ok by lia. cbn [bind]. rewrite uadd_ok by lia. reflexivity.
Qed.

Lemma view_abs v a k : Inv v -> a + k <= en v - st v ->
  abs {| data := data v; st := st v + a; en := st v + a + k; ofs := st v + a; shared := true |} =
  {| rdata := sub (window v) (N.to_nat a) (N.to_nat (a + k)); rcur := 0; rshared := true |}.
Proof.
  intros (H1 & H2 & H3 & H4) H. unfold abs, window. cbn [data st en ofs shared]. f_equal; [|lia].
  rewrite sub_sub by lia. f_equal; lia.
Qed.

Lemma view_Inv v a k : Inv v -> a + k <= en v - st v ->
  Inv {| data := data v; st := st v + a; en := st v + a + k; ofs := st v + a; shared := true |}.
Proof. intros (H1 & H2 & H3 & H4) H. unfold Inv. cbn [data st en ofs]. lia. Qed.

Lemma restrict_view_sim m v a k : Inv v -> sim (OView a k) v (restrict_view m v a k) (r_step (abs v) (OView a k)).
Proof.
  intros I. pose proof (window_len v I) as HL. pose proof I as (H1 & H2 & H3 & H4).
  unfold restrict_view, size. rewrite usub_ok by lia. cbn [bind r_step abs rdata rcur]. rewrite HL.
  destruct (N.leb_spec a (en v - st v)).
  - cbn [bind]. rewrite usub_ok by lia. cbn [bind].
    destruct (N.leb_spec k (en v - st v - a)).
    + rewrite new_view_ok by (assumption || lia). cbn [bind].
      replace (a + k <=? en v - st v) with true by lia. cbn [sim].
      split; [reflexivity|]. split; [apply view_abs; assumption || lia|].
      split; [apply view_Inv; assumption || lia | cbn [data app1]; lia].
    + replace (a + k <=? en v - st v) with false by lia. stay v I.
  - replace (a + k <=? en v - st v) with false by lia. stay v I.
Qed.

Lemma restrict_view_from_sim m v a : Inv v -> sim (OViewFrom a) v (restrict_view_from m v a) (r_step (abs v) (OViewFrom a)).
Proof.
  intros I. pose proof (window_len v I) as HL. pose proof I as (H1 & H2 & H3 & H4).
  unfold restrict_view_from, size. rewrite usub_ok by lia. cbn [bind r_step abs rdata rcur]. rewrite HL.
  destruct (N.ltb_spec a (en v - st v)).
  - cbn [bind]. rewrite usub_ok by lia. cbn [bind].
    rewrite new_view_ok by (assumption || lia). cbn [bind sim].
    split; [reflexivity|]. split; [|split; [apply view_Inv; assumption || lia | cbn [data app1]; lia]].
    rewrite view_abs by (assumption || lia). f_equal.
    replace (a + (en v - st v - a)) with (en v - st v) by lia.
    unfold sub. rewrite <- HL. unfold lenN.
    replace (N.to_nat (N.of_nat (List.length (window v))) - N.to_nat a)%nat
      with (List.length (skipn (N.to_nat a) (window v))) by (rewrite skipn_length; lia).
    apply firstn_all.
  - stay v I.
Qed.

Lemma release_sim v : Inv v -> sim ORelease v (Ok (RUnit, release v)) (r_step (abs v) ORelease).
Proof.
  intros I. cbn [r_step sim]. split; [reflexivity|]. split; [reflexivity|].
  split; [exact I | cbn [release data app1]; lia].
Qed.

(* ---------- every operation ---------- *)
Theorem step_sim m v o : Inv v -> 2 * (lenN (data v) + app1 o) < W -> sim o v (step m v o) (r_step (abs v) o).
Proof.
  intros I HW. destruct o; cbn [step].
  - apply set_cursor_sim, I.
  - apply incr_cursor_sim, I.
  - apply decr_cursor_sim, I.
  - apply check_cursor_sim, I.
  - apply set_cursor_unsafe_sim, I.
  - apply incr_cursor_unsafe_sim, I.
  - apply decr_cursor_unsafe_sim, I.
  - apply check_prefix_sim, I.
  - apply parse_allowed_bytes_sim, I.
  - apply parse_bytes_until_sim, I.
  - apply scan_sim, I.
  - apply backward_scan_sim, I.
  - apply exact_sim, I.
  - apply extract_sim, I.
  - apply drop_sim, I.
  - apply append_sim; [exact I | exact HW].
  - apply restrict_view_sim, I.
  - apply restrict_view_from_sim, I.
  - apply release_sim, I.
Qed.
