(* Proofs/TypeCheckNorm.v — normalize_check (removal of directly nested, attribute-free disjunctions)
   does not change what conforms: [conforms_gen sk o (norm_chk c) <-> conforms_gen sk o c].
   With Proofs/TypeCheckSound.v this states C08 for the specification as written. *)
From PV Require Import Spec.Conforms Proofs.TypeCheckEq Proofs.TypeCheckTerm Proofs.TypeCheckSound.
From Coq Require Import Lia Arith.

(* ---------- the shape of a normalised type ---------- *)
Definition flatten1 (y : chk) : list chk :=
  match y with CRep (TDisj nested) None IAllowed => nested | _ => [y] end.

Definition flat (alts : list chk) : list chk := flat_map (fun x => flatten1 (norm_chk x)) alts.

Lemma norm_disj alts : norm_ty (TDisj alts) = TDisj (flat alts).
Proof.
  simpl. f_equal. unfold flat. induction alts as [|x r IH]; [reflexivity|].
  simpl flat_map. rewrite <- IH.
  destruct (norm_chk x) as [t p i|nm]; [|reflexivity].
  destruct t; try reflexivity. destruct p; try reflexivity. destruct i; reflexivity.
Qed.

Lemma norm_het es : norm_ty (THet es) = THet (List.map norm_chk es).
Proof. reflexivity. Qed.

Lemma norm_dict ents star : norm_ty (TDict ents star) =
  TDict (List.map norm_dent ents) (match star with Some (c, o) => Some (norm_chk c, o) | None => None end).
Proof. reflexivity. Qed.

Lemma norm_stream ents : norm_ty (TStream ents) = TStream (List.map norm_dent ents).
Proof. reflexivity. Qed.

Lemma norm_arr e sz : norm_ty (TArr e sz) = TArr (norm_chk e) sz.
Proof. reflexivity. Qed.
Lemma norm_any : norm_ty TAny = TAny.
Proof. reflexivity. Qed.
Lemma norm_prim p : norm_ty (TPrim p) = TPrim p.
Proof. reflexivity. Qed.

Lemma norm_rep t p i : norm_chk (CRep t p i) = CRep (norm_ty t) p i.
Proof. reflexivity. Qed.

Lemma norm_dent_key e : ent_key (norm_dent e) = ent_key e.
Proof. destruct e; reflexivity. Qed.
Lemma norm_dent_opt e : ent_opt (norm_dent e) = ent_opt e.
Proof. destruct e; reflexivity. Qed.
Lemma norm_dent_chk e : ent_chk (norm_dent e) = norm_chk (ent_chk e).
Proof. destruct e; reflexivity. Qed.

Lemma norm_not_disj t : (forall alts, t <> TDisj alts) -> forall alts, norm_ty t <> TDisj alts.
Proof. intros H alts. destruct t; try discriminate. exfalso. eapply H. reflexivity. Qed.

Lemma forallb2_map_r {X Y} (f : X -> Y -> bool) (g : Y -> Y) :
  (forall x y, f x (g y) = true -> f x y = true) ->
  forall l m, forallb2 f l (List.map g m) = true -> forallb2 f l m = true.
Proof.
  intros H. induction l as [|x l IH]; intros [|y m]; simpl; auto.
  rewrite !andb_true_iff. intros [B1 B2]. split; [apply H; exact B1 | apply IH; exact B2].
Qed.

Section Norm.
Variable opq : N -> obj -> bool.
Variable oc : octx.
Variable tc : tctx.
Variable sk : bool.

Notation A := (approxg opq oc tc sk).
Notation A1 := (approx1g opq oc tc sk).

Lemma is_any_norm e : is_any tc (norm_chk e) = is_any tc e.
Proof.
  unfold is_any. destruct e as [t p i|nm]; [|reflexivity]. simpl resolve. cbn [r_ty fst].
  destruct t; reflexivity.
Qed.

Lemma keys_norm ents : List.map ent_key (List.map norm_dent ents) = List.map ent_key ents.
Proof. rewrite map_map. apply map_ext. intros e. apply norm_dent_key. Qed.

(* a flattened alternative, seen as the disjunct it came from *)
Lemma A_flattened n o nested : A (S n) o (CRep (TDisj nested) None IAllowed) = existsb (A n o) nested.
Proof.
  simpl. unfold approx1g. simpl resolve. cbn [r_ty r_pred r_ind fst snd].
  rewrite (A_plain_any opq oc tc sk n o _ (TAny, None, IAllowed)) by reflexivity. reflexivity.
Qed.

(* ---------- direction 1: what conforms to the normalised check conforms to the check ---------- *)
Lemma norm_down : forall n o c, A n o (norm_chk c) = true -> A n o c = true.
Proof.
  induction n as [|n IH]; intros o c H; [reflexivity|].
  destruct c as [t p i|nm]; [|exact H].
  rewrite norm_rep in H. simpl in H |- *. unfold approx1g in *. simpl resolve in *. cbn [r_ty r_pred r_ind fst snd] in *.
  assert (HE : forall d ents, ents_okg tc sk (A n) d (List.map norm_dent ents) = true -> ents_okg tc sk (A n) d ents = true).
  { intros d ents. unfold ents_okg. rewrite !forallb_forall. intros HH e He.
    specialize (HH (norm_dent e) (in_map norm_dent _ _ He)).
    rewrite norm_dent_key, norm_dent_opt, norm_dent_chk, is_any_norm in HH.
    destruct (dict_get d (ent_key e)); destruct (ent_opt e); auto;
      destruct (sk && is_any tc (ent_chk e))%bool; auto. }
  destruct t as [ | p' | e sz | es | ents star | ents | alts];
    rewrite ?norm_arr, ?norm_het, ?norm_dict, ?norm_stream, ?norm_disj, ?norm_any, ?norm_prim in H.
  7:{ rewrite andb_true_iff in *. destruct H as [H1 H2]. split; [exact H1|].
      rewrite existsb_exists in *. destruct H2 as (y & Hy & H2). unfold flat in Hy. apply in_flat_map in Hy.
      destruct Hy as (x & Hx & Hy). exists x. split; [exact Hx|]. apply IH.
      unfold flatten1 in Hy. destruct (norm_chk x) as [t' p'' i'|nm'] eqn:EN; [|destruct Hy as [<-|[]]; exact H2].
      destruct t'; try (destruct Hy as [<-|[]]; exact H2).
      destruct p''; [destruct Hy as [<-|[]]; exact H2|]. destruct i'; try (destruct Hy as [<-|[]]; exact H2).
      destruct n as [|m]; [reflexivity|]. rewrite A_flattened. apply existsb_exists. exists y. split; [exact Hy|].
      apply A_mono. exact H2. }
  all: destruct o; rewrite ?andb_true_iff in *;
       try (destruct H as [H1 H2]; split; [exact H1|]; apply IH; exact H2);
       try exact H;
       try (destruct H as [[H1 H2] H3]; repeat split; auto).
  - (* Array *) simpl in *. rewrite ?andb_true_iff in *. destruct H3 as [H3 H4]. split; [exact H3|].
    eapply forallb_mono; [|exact H4]. intros x. apply IH.
  - (* HetArray *) simpl in *. eapply forallb2_map_r; [|exact H3]. intros x y. apply IH.
  - (* Dict *) simpl in *. rewrite ?andb_true_iff in *. destruct H3 as [H3 H4]. split; [apply HE; exact H3|].
    destruct star as [[sc so]|]; [|reflexivity]. unfold star_okg in *. rewrite keys_norm in H4.
    rewrite forallb_forall in *. intros kv Hkv. specialize (H4 kv Hkv).
    destruct (existsb (bytes_eqb (fst kv)) (List.map ent_key ents)); [reflexivity|].
    rewrite is_any_norm in H4. destruct so; auto; destruct (sk && is_any tc sc)%bool; auto.
  - (* Stream *) simpl in *. apply HE. exact H3.
Qed.

(* ---------- direction 2: a refutation of the normalised check gives a refutation of the check ---------- *)
Definition refuted (o : obj) (c : chk) : Prop := exists m, A m o c = false.

Lemma forallb_false {X} (f : X -> bool) l : forallb f l = false -> exists x, In x l /\ f x = false.
Proof.
  induction l as [|x l IH]; simpl; [discriminate|]. destruct (f x) eqn:E.
  - simpl. intros H. destruct (IH H) as (y & Hy & Fy). exists y. split; [right; exact Hy|exact Fy].
  - intros _. exists x. split; [left; reflexivity|exact E].
Qed.

Lemma forallb_false_intro {X} (f : X -> bool) l x : In x l -> f x = false -> forallb f l = false.
Proof.
  intros Hx Fx. destruct (forallb f l) eqn:E; [|reflexivity]. rewrite forallb_forall in E. rewrite (E x Hx) in Fx. discriminate.
Qed.

Lemma refuted_S o c : (exists m, A1 (A m) o c = false) -> refuted o c.
Proof. intros (m & H). exists (S m). exact H. Qed.

(* all the alternatives refuted: at one common level *)
Lemma refuted_all o : forall alts, (forall x, In x alts -> refuted o x) -> exists M, forall x, In x alts -> A M o x = false.
Proof.
  induction alts as [|a alts IH]; intros H; [exists 0; intros x []|].
  destruct IH as (M & HM); [intros x Hx; apply H; right; exact Hx|].
  destruct (H a (or_introl eq_refl)) as (m & Hm). exists (Nat.max M m). intros x [<-|Hx].
  - eapply A_false_le; [|exact Hm]. lia.
  - eapply A_false_le; [|apply HM; exact Hx]. lia.
Qed.

Lemma A1_nondisj rec o t p i : (forall alts, t <> TDisj alts) ->
  A1 rec o (CRep t p i) =
  match o with
  | ORef _ _ => negb (ispec_eqb i IForb) && rec (value_of oc o) (CRep t p IAllowed)
  | _ => negb (ispec_eqb i IReq) && pred_ok opq p o && type_okg tc sk rec o t
  end.
Proof.
  intros H. unfold approx1g. simpl resolve. cbn [r_ty r_pred r_ind fst snd allow_indirect].
  destruct t; try reflexivity. exfalso. eapply H. reflexivity.
Qed.

Section Step.
Variable n : nat.
Hypothesis Pn : forall o c, A n o (norm_chk c) = false -> refuted o c.

Lemma ents_up d : forall ents, ents_okg tc sk (A n) d (List.map norm_dent ents) = false ->
  exists m, ents_okg tc sk (A m) d ents = false.
Proof.
  intros ents H. unfold ents_okg in H. apply forallb_false in H. destruct H as (e' & He' & F).
  apply in_map_iff in He'. destruct He' as (e & <- & He).
  rewrite norm_dent_key, norm_dent_opt, norm_dent_chk, is_any_norm in F.
  assert (Hst : forall m, (match dict_get d (ent_key e), ent_opt e with
                           | None, KReq => false | None, _ => true | Some _, KForb => false
                           | Some v, _ => if sk && is_any tc (ent_chk e) then true else A m v (ent_chk e) end) = false ->
                          ents_okg tc sk (A m) d ents = false).
  { intros m Fm. unfold ents_okg. eapply forallb_false_intro; [exact He|exact Fm]. }
  destruct (dict_get d (ent_key e)) as [v|] eqn:G; destruct (ent_opt e) eqn:O; try discriminate F;
    try (exists 0; apply Hst; reflexivity).
  all: (destruct (sk && is_any tc (ent_chk e))%bool eqn:SK; [discriminate F|];
        destruct (Pn v (ent_chk e) F) as (m & Hm); exists m; apply Hst; exact Hm).
Qed.

Lemma star_up d ents star :
  star_okg tc sk (A n) d (List.map norm_dent ents) (match star with Some (c, o) => Some (norm_chk c, o) | None => None end) = false ->
  exists m, star_okg tc sk (A m) d ents star = false.
Proof.
  destruct star as [[sc so]|]; [|discriminate]. unfold star_okg. rewrite keys_norm. intros H.
  apply forallb_false in H. destruct H as (kv & Hkv & F). rewrite is_any_norm in F.
  assert (Hst : forall m, (if existsb (bytes_eqb (fst kv)) (List.map ent_key ents) then true
                           else match so with KForb => false | _ => if sk && is_any tc sc then true else A m (snd kv) sc end) = false ->
                          forallb (fun kv => if existsb (bytes_eqb (fst kv)) (List.map ent_key ents) then true
                                             else match so with KForb => false | _ => if sk && is_any tc sc then true else A m (snd kv) sc end) d = false).
  { intros m Fm. eapply forallb_false_intro; [exact Hkv|exact Fm]. }
  destruct (existsb (bytes_eqb (fst kv)) (List.map ent_key ents)) eqn:EK; [discriminate F|].
  destruct so.
  3:{ exists 0. exact (Hst 0 eq_refl). }
  all: (destruct (sk && is_any tc sc)%bool eqn:SK; [simpl in F; discriminate F|];
        destruct (Pn (snd kv) sc F) as (m & Hm); exists m; apply Hst; exact Hm).
Qed.

Lemma het_up : forall l es, forallb2 (A n) l (List.map norm_chk es) = false -> exists m, forallb2 (A m) l es = false.
Proof.
  induction l as [|x l IH]; intros [|y es] H; simpl in *; try discriminate; try (exists 0; reflexivity).
  destruct (A n x (norm_chk y)) eqn:E.
  - simpl in H. destruct (IH es H) as (m & Hm). exists m. rewrite Hm. apply andb_false_r.
  - destruct (Pn x y E) as (m & Hm). exists m. rewrite Hm. reflexivity.
Qed.

Lemma type_up o t : (forall alts, t <> TDisj alts) ->
  type_okg tc sk (A n) o (norm_ty t) = false -> exists m, type_okg tc sk (A m) o t = false.
Proof.
  intros Hnd H. destruct t as [ | p' | e sz | es | ents star | ents | alts];
    rewrite ?norm_arr, ?norm_het, ?norm_dict, ?norm_stream, ?norm_any, ?norm_prim in H;
    try (exfalso; eapply Hnd; reflexivity).
  - destruct o; discriminate H.
  - exists 0. exact H.
  - destruct o; try (exists 0; reflexivity). simpl in *.
    destruct (match sz with Some n0 => Nat.eqb (len l) n0 | None => true end); [|exists 0; reflexivity].
    simpl in *. apply forallb_false in H. destruct H as (x & Hx & F). destruct (Pn x e F) as (m & Hm).
    exists m. eapply forallb_false_intro; eauto.
  - destruct o; try (exists 0; reflexivity). simpl in *. apply het_up. exact H.
  - destruct o; try (exists 0; reflexivity). simpl in *.
    destruct (ents_okg tc sk (A n) l (List.map norm_dent ents)) eqn:E1.
    + simpl in H. destruct (star_up l ents star H) as (m & Hm). exists m. rewrite Hm. apply andb_false_r.
    + destruct (ents_up l ents E1) as (m & Hm). exists m. rewrite Hm. reflexivity.
  - destruct o; try (exists 0; reflexivity). simpl in *. apply ents_up. exact H.
Qed.

Lemma disj_dec t : (exists alts, t = TDisj alts) \/ (forall alts, t <> TDisj alts).
Proof. destruct t; try (right; intros; discriminate). left. eexists. reflexivity. Qed.

Lemma A1_disj rec o alts p i :
  A1 rec o (CRep (TDisj alts) p i) = (rec o (CRep TAny p i) && existsb (rec o) alts)%bool.
Proof. reflexivity. Qed.

(* one more level, by induction on the size of the check (for directly nested disjunctions) *)
Lemma norm_up_step : forall sz c, chk_size c <= sz -> forall o, A (S n) o (norm_chk c) = false -> refuted o c.
Proof.
  induction sz as [|sz IHsz]; intros c Hsz o H; [pose proof (chk_size_pos c); lia|].
  destruct c as [t p i|nm]; [|exists (S n); exact H].
  rewrite norm_rep in H. change (A (S n) o (CRep (norm_ty t) p i)) with (A1 (A n) o (CRep (norm_ty t) p i)) in H.
  apply refuted_S.
  destruct (disj_dec t) as [(alts & ->)|Hnd].
  - (* a disjunction *)
    rewrite norm_disj, A1_disj in H.
    destruct (A n o (CRep TAny p i)) eqn:EO.
    2:{ destruct (Pn o (CRep TAny p i) EO) as (m & Hm). exists m. rewrite A1_disj, Hm. reflexivity. }
    simpl in H.
    assert (Hall : forall x, In x alts -> refuted o x).
    { intros x Hx.
      assert (Hfl : forall y, In y (flatten1 (norm_chk x)) -> A n o y = false).
      { intros y Hy. destruct (A n o y) eqn:EY; [|reflexivity]. exfalso.
        assert (existsb (A n o) (flat alts) = true).
        { apply existsb_exists. exists y. split; [|exact EY]. unfold flat. apply in_flat_map. exists x. split; assumption. }
        congruence. }
      assert (Hplain : A n o (norm_chk x) = false -> refuted o x) by (apply Pn).
      unfold flatten1 in Hfl. destruct (norm_chk x) as [t' p'' i'|nm'] eqn:EN; [|apply Hplain; apply Hfl; left; reflexivity].
      destruct t'; try (apply Hplain; apply Hfl; left; reflexivity).
      destruct p''; [apply Hplain; apply Hfl; left; reflexivity|].
      destruct i'; try (apply Hplain; apply Hfl; left; reflexivity).
      (* flattened: use the induction on the size *)
      apply (IHsz x); [pose proof (kid_chk_size (CRep (TDisj alts) p i) x Hx); lia|].
      rewrite EN. rewrite A_flattened.
      destruct (existsb (A n o) alts0) eqn:EE; [|reflexivity]. apply existsb_exists in EE.
      destruct EE as (y & Hy & EY). rewrite (Hfl y Hy) in EY. discriminate. }
    destruct (refuted_all o alts Hall) as (M & HM). exists M. rewrite A1_disj.
    assert (existsb (A M o) alts = false).
    { destruct (existsb (A M o) alts) eqn:EE; [|reflexivity]. apply existsb_exists in EE.
      destruct EE as (y & Hy & EY). rewrite (HM y Hy) in EY. discriminate. }
    rewrite H0. apply andb_false_r.
  - rewrite (A1_nondisj (A n) o (norm_ty t) p i (norm_not_disj t Hnd)) in H.
    assert (HG : forall m, (match o with
                           | ORef _ _ => negb (ispec_eqb i IForb) && A m (value_of oc o) (CRep t p IAllowed)
                           | _ => negb (ispec_eqb i IReq) && pred_ok opq p o && type_okg tc sk (A m) o t
                           end) = false -> A1 (A m) o (CRep t p i) = false).
    { intros m Hm. rewrite (A1_nondisj (A m) o t p i Hnd). exact Hm. }
    destruct o as [ | b | z | nn dd | s | s | s | rn rg | l | d | d content];
      try (destruct (negb (ispec_eqb i IReq)) eqn:EI; [|exists 0; apply HG; reflexivity];
           match type of H with context [pred_ok opq p ?ob] => destruct (pred_ok opq p ob) eqn:EP end;
           [|exists 0; apply HG; reflexivity];
           simpl andb in H;
           destruct (type_up _ t Hnd H) as (m & Hm); exists m; apply HG; rewrite Hm; reflexivity).
    destruct (negb (ispec_eqb i IForb)) eqn:EI; [|exists 0; apply HG; reflexivity].
    simpl andb in H.
    change (CRep (norm_ty t) p IAllowed) with (norm_chk (CRep t p IAllowed)) in H.
    destruct (Pn _ _ H) as (m & Hm). exists m. apply HG. rewrite Hm. reflexivity.
Qed.
End Step.

Lemma norm_up : forall n o c, A n o (norm_chk c) = false -> refuted o c.
Proof.
  induction n as [|n IH]; intros o c H; [discriminate|].
  apply (norm_up_step n IH (chk_size c) c (Nat.le_refl _) o H).
Qed.

Theorem conforms_norm o c : conforms_gen opq oc tc sk o (norm_chk c) <-> conforms_gen opq oc tc sk o c.
Proof.
  split; intros H n.
  - apply norm_down. apply H.
  - destruct (A n o (norm_chk c)) eqn:E; [reflexivity|]. destruct (norm_up n o c E) as (m & Hm).
    rewrite (H m) in Hm. discriminate.
Qed.
End Norm.

(* ---------- C08 for the specification as written ---------- *)
Section AsWritten.
Variable opq : N -> obj -> bool.
Variable oc : octx.
Variable tc : tctx.

Lemma conforms_gen_resolve sk o c r : resolve tc c = Some r ->
  (conforms_gen opq oc tc sk o c <-> conforms_gen opq oc tc sk o (rep_chk r)).
Proof.
  intros R. split; intros H n; [rewrite <- (A_resolve opq oc tc sk n o c r R) | rewrite (A_resolve opq oc tc sk n o c r R)]; apply H.
Qed.

Lemma conforms_gen_root sk o c r : resolve tc c = Some r ->
  (conforms_gen opq oc tc sk o (norm_chk (rep_chk r)) <-> conforms_gen opq oc tc sk o c).
Proof. intros R. rewrite conforms_norm. symmetry. apply conforms_gen_resolve. exact R. Qed.

Lemma conforms_root o c r : resolve tc c = Some r ->
  (conforms opq oc tc o (norm_chk (rep_chk r)) <-> conforms opq oc tc o c).
Proof.
  intros R. pose proof (conforms_gen_root false o c r R) as H.
  split; intros C n.
  - rewrite approx_approxg. apply H. intros m. rewrite <- approx_approxg. apply C.
  - rewrite approx_approxg. apply H. intros m. rewrite <- approx_approxg. apply C.
Qed.

Theorem check_accept_iff_conforms_skip_written o c r :
  resolve tc c = Some r -> wf_univ tc (norm_chk (rep_chk r)) = true ->
  (fst (check opq oc tc o c) = Accept <-> conforms_skip opq oc tc o c).
Proof.
  intros R WF. rewrite (check_accept_iff_conforms_skip opq oc tc o c r R WF).
  apply (conforms_gen_root true o c r R).
Qed.

Theorem check_accept_iff_conforms_written o c r :
  resolve tc c = Some r -> wf_univ tc (norm_chk (rep_chk r)) = true ->
  no_any_entry_attrs tc (norm_chk (rep_chk r)) = true ->
  (fst (check opq oc tc o c) = Accept <-> conforms opq oc tc o c).
Proof.
  intros R WF NA. rewrite (check_accept_iff_conforms opq oc tc o c r R WF NA).
  apply conforms_root. exact R.
Qed.
End AsWritten.
