(* Proofs/ObjStm.v — C14: object streams yield each object under its identifier, bound to the
   value located at its declared offset; existing definitions are never replaced; malformed
   headers / overruns / duplicates are rejected. *)
From PV Require Import Model.Prim Model.Obj Model.ObjStm Spec.XrefEnc Spec.ObjStmEnc.
From PV Require Import Proofs.XrefBase Proofs.XrefTab.
From Coq Require Import ZifyBool ZifyNat ZifyN.
Ltac Zify.zify_post_hook ::= Z.div_mod_to_equations.

(* ---------- the context ---------- *)
Lemma id_eqb_eq a b : id_eqb a b = true <-> a = b.
Proof.
  destruct a as [a1 a2], b as [b1 b2]. unfold id_eqb. cbn [fst snd]. rewrite andb_true_iff, !N.eqb_eq.
  split; [intros [-> ->]; reflexivity|intros H; inversion H; split; reflexivity].
Qed.

Lemma lookup_cons k o r id : lookup ((k, o) :: r) id = if id_eqb k id then Some o else lookup r id.
Proof. destruct k as [n g]. reflexivity. Qed.

Lemma lookup_set_same ctx id v : lookup (ctx_set ctx id v) id = Some v.
Proof.
  induction ctx as [|[k o] r IH]; cbn [ctx_set].
  - rewrite lookup_cons. rewrite (proj2 (id_eqb_eq id id) eq_refl). reflexivity.
  - destruct (id_eqb k id) eqn:E; rewrite lookup_cons, E; [reflexivity|exact IH].
Qed.

Lemma lookup_set_other ctx id v id' : id <> id' -> lookup (ctx_set ctx id v) id' = lookup ctx id'.
Proof.
  intros N. induction ctx as [|[k o] r IH]; cbn [ctx_set].
  - rewrite lookup_cons. destruct (id_eqb id id') eqn:E; [apply id_eqb_eq in E; contradiction|reflexivity].
  - destruct (id_eqb k id) eqn:E.
    + apply id_eqb_eq in E. subst k. rewrite !lookup_cons.
      destruct (id_eqb id id') eqn:E2; [apply id_eqb_eq in E2; contradiction|reflexivity].
    + rewrite !lookup_cons. destruct (id_eqb k id'); [reflexivity|exact IH].
Qed.

(* register_obj never changes an existing definition (f218988) *)
Lemma register_keeps ctx id v id' o :
  lookup ctx id' = Some o -> lookup (fst (register_obj ctx id v)) id' = Some o.
Proof.
  intros H. unfold register_obj. destruct (lookup ctx id) eqn:E; cbn [fst]; [exact H|].
  rewrite lookup_set_other; [exact H|]. intros ->. congruence.
Qed.

Lemma register_fresh ctx id v : lookup ctx id = None -> register_obj ctx id v = (ctx_set ctx id v, None).
Proof. intros H. unfold register_obj. rewrite H. reflexivity. Qed.

Lemma register_dup ctx id v o : lookup ctx id = Some o -> register_obj ctx id v = (ctx, Some o).
Proof. intros H. unfold register_obj. rewrite H. reflexivity. Qed.

(* ---------- members ---------- *)
Section Members.
  Variable rel : bool.
  Variable b : nat.
  Variable s : bytes.                                  (* the content view: the data from /First on *)

  Lemma set_cursor_ok c ofs : ofs <= len s -> set_cursor s c ofs = POk tt ofs.
  Proof. intros H. unfold set_cursor. destruct (Nat.leb_spec ofs (len s)); [reflexivity|lia]. Qed.

  Lemma obj_at_inv off v a e : obj_at rel b s off = Some (v, a, e) ->
    exists u o, ws_eol true s off = POk u a /\ parse_obj rel b s a = POk o e /\ lv_val o = v.
  Proof.
    unfold obj_at. intros H. destruct (ws_eol true s off) as [u c1| | |] eqn:E1; try discriminate.
    destruct (parse_obj rel b s c1) as [o c2| | |] eqn:E2; try discriminate. inversion H; subst.
    exists u, o. repeat split; assumption.
  Qed.

  (* one member at its declared offset *)
  Lemma os_objs_step m r c ctx :
    located rel b s m -> c <= m_off m ->
    os_objs rel b (member_meta m :: r) s c ctx =
    match register_obj ctx (m_id m, 0%N) (m_val m) with
    | (ctx', Some _) => (PErr EGuard (m_end m), ctx')
    | (ctx', None) =>
      match os_objs rel b r s (m_end m) ctx' with
      | (POk l c3, ctx'') => (POk (member_ent m :: l) c3, ctx'')
      | (e, ctx'') => (e, ctx'')
      end
    end.
  Proof.
    intros [L A] C. unfold member_meta. cbn [os_objs].
    destruct (N.ltb_spec (N.of_nat (m_off m)) (N.of_nat c)); [lia|].
    destruct (N.ltb_spec (N.of_nat (len s)) (N.of_nat (m_off m))); [lia|].
    rewrite Nat2N.id, (set_cursor_ok c _ L).
    destruct (obj_at_inv _ _ _ _ A) as (u & o & E1 & E2 & Ev). rewrite E1, E2, Ev. reflexivity.
  Qed.

  (* a prefix of well-placed fresh members is extracted, then the rest is processed *)
  Lemma os_objs_prefix l : forall rest c ctx,
    Forall (located rel b s) l -> ordered c l -> fresh ctx l ->
    os_objs rel b (List.map member_meta l ++ rest) s c ctx =
    match os_objs rel b rest s (match rev l with [] => c | m :: _ => m_end m end) (define ctx l) with
    | (POk l2 c3, ctx'') => (POk (List.map member_ent l ++ l2) c3, ctx'')
    | (e, ctx'') => (e, ctx'')
    end.
  Proof.
    induction l as [|m l IH]; intros rest c ctx F O [ND FR].
    - cbn. destruct (os_objs rel b rest s c ctx) as [[] ?]; reflexivity.
    - inversion F as [|? ? Fm Fl]; subst. destruct O as [Oc Ol]. cbn [List.map app].
      rewrite (os_objs_step m _ c ctx Fm Oc).
      rewrite (register_fresh ctx _ _ (FR m (or_introl eq_refl))).
      cbn [List.map] in ND. inversion ND as [|? ? Nin ND']; subst.
      rewrite (IH rest (m_end m) (ctx_set ctx (m_id m, 0%N) (m_val m)) Fl Ol).
      + cbn [define fold_left]. fold (define (ctx_set ctx (m_id m, 0%N) (m_val m)) l).
        replace (match rev (m :: l) with [] => c | m0 :: _ => m_end m0 end)
          with (match rev l with [] => m_end m | m0 :: _ => m_end m0 end).
        2:{ cbn [rev]. destruct (rev l); reflexivity. }
        destruct (os_objs rel b rest s _ _) as [[] ?]; reflexivity.
      + split; [exact ND'|]. intros m' Hm'. rewrite lookup_set_other; [apply FR; right; exact Hm'|].
        intros E. inversion E as [E1]. apply Nin. rewrite E1. apply in_map. exact Hm'.
  Qed.

  (* C14_extract, content part *)
  Theorem os_objs_ok l c ctx :
    Forall (located rel b s) l -> ordered c l -> fresh ctx l ->
    exists cend, os_objs rel b (List.map member_meta l) s c ctx = (POk (List.map member_ent l) cend, define ctx l).
  Proof.
    intros F O FR. pose proof (os_objs_prefix l [] c ctx F O FR) as H. rewrite app_nil_r in H.
    cbn [os_objs] in H. rewrite app_nil_r in H. eexists. exact H.
  Qed.

  (* an object that runs past the next declared offset, after any well-placed prefix *)
  Theorem os_objs_overrun l m rest c ctx :
    Forall (located rel b s) l -> ordered c l -> fresh ctx l ->
    l <> [] -> (forall x, hd_error (rev l) = Some x -> m_off m < m_end x) ->
    fst (os_objs rel b (List.map member_meta l ++ member_meta m :: rest) s c ctx) = PErr EGuard
        (match rev l with [] => c | x :: _ => m_end x end).
  Proof.
    intros F O FR NE Ov. rewrite (os_objs_prefix l _ c ctx F O FR).
    destruct (rev l) as [|x rl] eqn:E; [apply (f_equal (@rev _)) in E; rewrite rev_involutive in E; cbn in E; contradiction|].
    specialize (Ov x eq_refl). unfold member_meta at 1. cbn [os_objs].
    destruct (N.ltb_spec (N.of_nat (m_off m)) (N.of_nat (m_end x))); [reflexivity|lia].
  Qed.

  (* an identifier that is already defined (in the context, or by an earlier member), after any
     well-placed prefix: rejected *)
  Theorem os_objs_duplicate l m rest c ctx o :
    Forall (located rel b s) l -> ordered c l -> fresh ctx l ->
    located rel b s m -> (match rev l with [] => c | x :: _ => m_end x end) <= m_off m ->
    lookup (define ctx l) (m_id m, 0%N) = Some o ->
    os_objs rel b (List.map member_meta l ++ member_meta m :: rest) s c ctx = (PErr EGuard (m_end m), define ctx l).
  Proof.
    intros F O FR Lm Om D. rewrite (os_objs_prefix l _ c ctx F O FR).
    rewrite (os_objs_step m rest _ _ Lm Om). rewrite (register_dup _ _ _ _ D). reflexivity.
  Qed.

  (* a declared offset beyond the data: rejected (EndOfBuffer), nothing defined *)
  Theorem os_objs_offset_beyond onum ofs rest c ctx :
    c <= len s -> (N.of_nat (len s) < ofs)%N ->
    os_objs rel b ((onum, ofs) :: rest) s c ctx = (PErr EEndOfBuffer c, ctx).
  Proof.
    intros L B. cbn [os_objs]. destruct (N.ltb_spec ofs (N.of_nat c)); [lia|].
    destruct (N.ltb_spec (N.of_nat (len s)) ofs); [reflexivity|lia].
  Qed.

  (* whatever the header and the data are, a definition that exists is never changed *)
  Theorem os_objs_monotone meta : forall c ctx id o,
    lookup ctx id = Some o -> lookup (snd (os_objs rel b meta s c ctx)) id = Some o.
  Proof.
    induction meta as [|[onum ofs] r IH]; intros c ctx id o H; cbn [os_objs]; [exact H|].
    destruct (ofs <? N.of_nat c)%N; [exact H|].
    destruct (N.of_nat (len s) <? ofs)%N; [exact H|].
    destruct (set_cursor s c (N.to_nat ofs)) as [u c0| | |]; try exact H.
    destruct (ws_eol true s c0) as [u1 c1| | |]; try exact H.
    destruct (parse_obj rel b s c1) as [ob c2| | |]; try exact H.
    pose proof (register_keeps ctx (onum, 0%N) (lv_val ob) id o H) as K.
    destruct (register_obj ctx (onum, 0%N) (lv_val ob)) as [ctx' [old|]]; cbn [fst snd] in K |- *; [exact K|].
    specialize (IH c2 ctx' id o K). destruct (os_objs rel b r s c2 ctx') as [[] ctx'']; exact IH.
  Qed.
End Members.

(* define: the identifiers are bound to their values *)
Lemma define_other l : forall ctx id, (forall m, In m l -> (m_id m, 0%N) <> id) -> lookup (define ctx l) id = lookup ctx id.
Proof.
  induction l as [|m l IH]; intros ctx id H; [reflexivity|]. cbn [define fold_left]. fold (define (ctx_set ctx (m_id m, 0%N) (m_val m)) l).
  rewrite IH by (intros m' Hm'; apply H; right; exact Hm').
  apply lookup_set_other. apply H. left. reflexivity.
Qed.

Theorem define_binds l : forall ctx m, NoDup (List.map m_id l) -> In m l -> lookup (define ctx l) (m_id m, 0%N) = Some (m_val m).
Proof.
  induction l as [|x l IH]; intros ctx m ND I; [contradiction|]. cbn [List.map] in ND. inversion ND as [|? ? Nin ND']; subst.
  cbn [define fold_left]. fold (define (ctx_set ctx (m_id x, 0%N) (m_val x)) l). destruct I as [->|I].
  - rewrite define_other; [apply lookup_set_same|]. intros m' Hm' E. inversion E as [E1]. apply Nin. rewrite <- E1. apply in_map. exact Hm'.
  - apply IH; assumption.
Qed.

(* ---------- the header ---------- *)
Lemma ws_not_digit x r : all_in [32; 0; 9; 13; 10; 12]%N (x :: r) -> stops_digit (x :: r ++ []) /\ is_digit x = false.
Proof.
  intros H. inversion H as [|? ? Hx _]; subst. cbn in Hx. unfold is_digit. cbn.
  destruct (N.eqb_spec x 32), (N.eqb_spec x 0), (N.eqb_spec x 9), (N.eqb_spec x 13), (N.eqb_spec x 10), (N.eqb_spec x 12);
    subst; cbn; try (split; reflexivity); discriminate.
Qed.

Lemma digit_no_ws d r : is_digit d = true -> no_ws_start (d :: r).
Proof. unfold is_digit. intros H. cbn. lia. Qed.

Lemma render_pairs_cons p l : render_pairs (p :: l) = render_pair p ++ render_pairs l.
Proof. reflexivity. Qed.

Lemma render_pair_len p :
  len (render_pair p) = len (hp_ws1 p) + hp_idw p + len (hp_ws2 p) + hp_offw p.
Proof.
  unfold render_pair, len. rewrite !app_length.
  change (List.length (digits (hp_idw p) (hp_id p))) with (len (digits (hp_idw p) (hp_id p))).
  change (List.length (digits (hp_offw p) (hp_off p))) with (len (digits (hp_offw p) (hp_off p))).
  rewrite !digits_len. lia.
Qed.

(* what follows the last header number: nothing, or something that is not a digit *)
Definition pad_ok (pad : bytes) : Prop := stops_digit pad.

(* the start of [render_pairs l ++ pad] is not a digit when l starts with white space *)
Lemma pairs_stop l pad : wf_pairs false l -> pad_ok pad -> stops_digit (render_pairs l ++ pad).
Proof.
  destruct l as [|p l]; intros W P; [exact P|]. destruct W as (Wp & [F|NE] & _); [discriminate|].
  destruct Wp as (A1 & _). rewrite render_pairs_cons. unfold render_pair. rewrite <- !app_assoc.
  destruct (hp_ws1 p) as [|x r]; [contradiction|]. cbn [app].
  destruct (ws_not_digit x r A1) as [_ Q]. cbn. exact Q.
Qed.

(* one pair *)
Lemma pair_ok p s c r :
  at_cur s c (render_pair p ++ r) -> wf_pair p -> stops_digit r ->
  exists u1 u2 a1 a2 b1 b2,
    ws_eol true s c = POk u1 (c + len (hp_ws1 p)) /\
    integer s (c + len (hp_ws1 p)) = POk (Z.of_N (hp_id p), a1, a2) (c + len (hp_ws1 p) + hp_idw p) /\
    ws_eol true s (c + len (hp_ws1 p) + hp_idw p) = POk u2 (c + len (hp_ws1 p) + hp_idw p + len (hp_ws2 p)) /\
    integer s (c + len (hp_ws1 p) + hp_idw p + len (hp_ws2 p))
      = POk (Z.of_N (hp_off p), b1, b2) (c + len (render_pair p)).
Proof.
  intros H (A1 & A2 & N2 & W1 & B1 & M1 & W2 & B2 & M2) St.
  unfold render_pair in H. rewrite <- !app_assoc in H.
  destruct (hp_idw p) as [|iw] eqn:Ei; [lia|]. destruct (digits_head iw (hp_id p)) as (d1 & r1 & E1 & D1).
  destruct (hp_offw p) as [|ow] eqn:Eo; [lia|]. destruct (digits_head ow (hp_off p)) as (d2 & r2 & E2 & D2).
  do 6 eexists. split; [|split; [|split]].
  - apply (ws_eol_ok true (hp_ws1 p) s c _ H A1); [|left; reflexivity]. rewrite E1. cbn [app]. apply digit_no_ws, D1.
  - apply at_cur_app in H.
    apply (integer_ok (S iw) (hp_id p) s _ _ H); try lia; try assumption.
    destruct (hp_ws2 p) as [|x r2']; [contradiction|]. cbn [app]. destruct (ws_not_digit x r2' A2) as [_ Q]. cbn. exact Q.
  - apply at_cur_app in H. apply at_cur_app in H. rewrite digits_len in H.
    apply (ws_eol_ok true (hp_ws2 p) s _ _ H A2); [|left; reflexivity]. rewrite E2. cbn [app]. apply digit_no_ws, D2.
  - apply at_cur_app in H. apply at_cur_app in H. rewrite digits_len in H. apply at_cur_app in H.
    rewrite (integer_ok (S ow) (hp_off p) s _ _ H); try lia; try assumption.
    f_equal. rewrite render_pair_len, Ei, Eo. lia.
Qed.

Lemma os_meta_ok l : forall fuel n s c last acc pad,
  l <> [] -> at_cur s c (render_pairs l ++ pad) ->
  wf_pairs (match acc with [] => true | _ => false end) l -> pad_ok pad ->
  (acc = [] \/ match l with p :: _ => (last < hp_off p)%N | [] => True end) -> increasing l ->
  N.of_nat (len acc + len l) = n -> len l <= fuel ->
  os_meta fuel n s c last acc = POk (acc ++ pairs_meta l) (c + len (render_pairs l)).
Proof.
  induction l as [|p l IH]; intros fuel n s c last acc pad NE H W P First Inc Hn Fu; [contradiction|].
  destruct fuel as [|fuel]; [cbn in Fu; lia|]. cbn [os_meta].
  destruct W as (Wp & _ & Wl). rewrite render_pairs_cons, <- app_assoc in H.
  assert (St : stops_digit (render_pairs l ++ pad)) by (apply pairs_stop; assumption).
  destruct (pair_ok p s c _ H Wp St) as (u1 & u2 & a1 & a2 & b1 & b2 & E1 & E2 & E3 & E4).
  destruct Wp as (_ & _ & _ & _ & _ & M1 & _ & _ & M2).
  unfold bind. rewrite E1, E2. cbn [lv_val fst]. unfold int_is_usize.
  destruct (Z.leb_spec 0 (Z.of_N (hp_id p))); [|lia]. cbn [negb]. rewrite E3, E4. cbn [lv_val fst].
  destruct (Z.leb_spec 0 (Z.of_N (hp_off p))); [|lia]. cbn [negb]. rewrite !N2Z.id.
  assert (G : ((hp_off p <=? last)%N && negb (match acc with [] => true | _ => false end)) = false).
  { destruct First as [->|L]; [apply andb_false_r|]. destruct (N.leb_spec (hp_off p) last); [lia|reflexivity]. }
  rewrite G.
  destruct l as [|q l].
  - cbn [len List.length] in Hn. unfold len. rewrite app_length. cbn [List.length].
    destruct (N.eqb_spec (N.of_nat (List.length acc + 1)) n); [|unfold len in Hn; lia].
    cbn [pairs_meta List.map render_pairs concat]. rewrite app_nil_r. reflexivity.
  - unfold len in Hn |- *. rewrite app_length. cbn [List.length] in Hn |- *.
    destruct (N.eqb_spec (N.of_nat (List.length acc + 1)) n); [lia|].
    apply at_cur_app in H. destruct Inc as [I1 I2].
    rewrite (IH fuel n s _ (hp_off p) (acc ++ [(hp_id p, hp_off p)]) pad); try assumption; try discriminate.
    + rewrite <- app_assoc. cbn [pairs_meta List.map app]. f_equal.
      rewrite (render_pairs_cons p). unfold len. rewrite app_length. lia.
    + destruct acc; exact Wl.
    + right. exact I1.
    + unfold len. rewrite app_length. cbn [List.length]. lia.
    + cbn [len List.length] in Fu. unfold len. cbn [List.length]. lia.
Qed.

(* offsets not strictly increasing: the pair after a good prefix is rejected *)
Lemma os_meta_not_increasing l : forall fuel n s c last acc q r,
  at_cur s c (render_pairs l ++ render_pair q ++ r) ->
  wf_pairs (match acc with [] => true | _ => false end) (l ++ [q]) -> stops_digit r ->
  (acc = [] \/ match l with p :: _ => (last < hp_off p)%N | [] => True end) -> increasing l ->
  (N.of_nat (len acc + len l) < n)%N -> len l < fuel ->
  (match rev l with p :: _ => (hp_off q <= hp_off p)%N | [] => acc <> [] /\ (hp_off q <= last)%N end) ->
  exists c', os_meta fuel n s c last acc = PErr EGuard c'.
Proof.
  induction l as [|p l IH]; intros fuel n s c last acc q r H W St First Inc Hn Fu Bad.
  - destruct fuel as [|fuel]; [lia|]. cbn [os_meta]. cbn [render_pairs List.map concat app] in H.
    cbn [app] in W. destruct W as (Wq & _ & _).
    destruct (pair_ok q s c _ H Wq St) as (u1 & u2 & a1 & a2 & b1 & b2 & E1 & E2 & E3 & E4).
    destruct Wq as (_ & _ & _ & _ & _ & M1 & _ & _ & M2).
    unfold bind. rewrite E1, E2. cbn [lv_val fst]. unfold int_is_usize.
    destruct (Z.leb_spec 0 (Z.of_N (hp_id q))); [|lia]. cbn [negb]. rewrite E3, E4. cbn [lv_val fst].
    destruct (Z.leb_spec 0 (Z.of_N (hp_off q))); [|lia]. cbn [negb]. rewrite !N2Z.id.
    cbn [rev] in Bad. destruct Bad as [NA BL]. destruct acc as [|a0 acc]; [contradiction|].
    destruct (N.leb_spec (hp_off q) last); [|lia]. cbn [andb negb]. unfold setc.
    pose proof (at_cur_len _ _ _ H) as SL.
    destruct (Nat.leb_spec (c + len (hp_ws1 q) + hp_idw q + len (hp_ws2 q)) (len s)); [eexists; reflexivity|].
    exfalso. pose proof (render_pair_len q) as RL. unfold len in *. rewrite app_length in SL. lia.
  - destruct fuel as [|fuel]; [cbn in Fu; lia|]. cbn [os_meta].
    cbn [app] in W. destruct W as (Wp & _ & Wl). rewrite render_pairs_cons, <- app_assoc in H.
    assert (St' : stops_digit (render_pairs l ++ render_pair q ++ r)).
    { pose proof (pairs_stop (l ++ [q]) r) as Q. unfold render_pairs in Q |- *. rewrite map_app, concat_app in Q.
      cbn [List.map concat] in Q. rewrite app_nil_r, <- app_assoc in Q. apply Q; [|exact St].
      destruct acc; exact Wl. }
    destruct (pair_ok p s c _ H Wp St') as (u1 & u2 & a1 & a2 & b1 & b2 & E1 & E2 & E3 & E4).
    destruct Wp as (_ & _ & _ & _ & _ & M1 & _ & _ & M2).
    unfold bind. rewrite E1, E2. cbn [lv_val fst]. unfold int_is_usize.
    destruct (Z.leb_spec 0 (Z.of_N (hp_id p))); [|lia]. cbn [negb]. rewrite E3, E4. cbn [lv_val fst].
    destruct (Z.leb_spec 0 (Z.of_N (hp_off p))); [|lia]. cbn [negb]. rewrite !N2Z.id.
    assert (G : ((hp_off p <=? last)%N && negb (match acc with [] => true | _ => false end)) = false).
    { destruct First as [->|L]; [apply andb_false_r|]. destruct (N.leb_spec (hp_off p) last); [lia|reflexivity]. }
    rewrite G. unfold len in Hn |- *. rewrite app_length. cbn [List.length] in Hn |- *.
    destruct (N.eqb_spec (N.of_nat (List.length acc + 1)) n); [lia|].
    apply at_cur_app in H.
    apply (IH fuel n s _ (hp_off p) (acc ++ [(hp_id p, hp_off p)]) q r H); try assumption.
    + destruct acc; exact Wl.
    + right. destruct l as [|p2 l]; [exact I|]. destruct Inc as [I1 _]. exact I1.
    + destruct l as [|p2 l]; [exact I|]. destruct Inc as [_ I2]. exact I2.
    + unfold len. rewrite app_length. cbn [List.length]. lia.
    + cbn [len List.length] in Fu. unfold len. lia.
    + cbn [rev] in Bad. destruct (rev l) as [|x rl] eqn:E.
      * cbn in Bad. split; [destruct acc; discriminate|exact Bad].
      * cbn in Bad. exact Bad.
Qed.

(* fewer than /N pairs: after the pairs that are there (possibly none) the header view ends,
   possibly after white space *)
Lemma os_meta_end fuel n s c last acc pad :
  at_cur s c pad -> all_in [32; 0; 9; 13; 10; 12]%N pad -> 0 < fuel ->
  os_meta fuel n s c last acc = PErr EGuard (c + len pad).
Proof.
  intros H A Fu. destruct fuel as [|fuel]; [lia|]. cbn [os_meta].
  rewrite <- (app_nil_r pad) in H. unfold bind.
  rewrite (ws_eol_ok true pad s c [] H A I (or_introl eq_refl)). apply at_cur_app in H.
  rewrite (integer_fail s _ [] H I). reflexivity.
Qed.

Lemma os_meta_prefix l : forall fuel n s c last acc rest,
  l <> [] -> at_cur s c (render_pairs l ++ rest) ->
  wf_pairs (match acc with [] => true | _ => false end) l -> stops_digit rest ->
  (acc = [] \/ match l with p :: _ => (last < hp_off p)%N | [] => True end) -> increasing l ->
  (N.of_nat (len acc + len l) < n)%N ->
  os_meta (len l + fuel) n s c last acc =
  os_meta fuel n s (c + len (render_pairs l)) (match rev l with p :: _ => hp_off p | [] => last end) (acc ++ pairs_meta l).
Proof.
  induction l as [|p l IH]; intros fuel n s c last acc rest NE H W St First Inc Hn; [contradiction|].
  cbn [len List.length Nat.add os_meta].
  destruct W as (Wp & _ & Wl). rewrite render_pairs_cons, <- app_assoc in H.
  assert (St' : stops_digit (render_pairs l ++ rest)) by (apply pairs_stop; assumption).
  destruct (pair_ok p s c _ H Wp St') as (u1 & u2 & a1 & a2 & b1 & b2 & E1 & E2 & E3 & E4).
  destruct Wp as (_ & _ & _ & _ & _ & M1 & _ & _ & M2).
  unfold bind. rewrite E1, E2. cbn [lv_val fst]. unfold int_is_usize.
  destruct (Z.leb_spec 0 (Z.of_N (hp_id p))); [|lia]. cbn [negb]. rewrite E3, E4. cbn [lv_val fst].
  destruct (Z.leb_spec 0 (Z.of_N (hp_off p))); [|lia]. cbn [negb]. rewrite !N2Z.id.
  assert (G : ((hp_off p <=? last)%N && negb (match acc with [] => true | _ => false end)) = false).
  { destruct First as [->|L]; [apply andb_false_r|]. destruct (N.leb_spec (hp_off p) last); [lia|reflexivity]. }
  rewrite G. unfold len in Hn. cbn [List.length] in Hn.
  destruct (N.eqb_spec (N.of_nat (len (acc ++ [(hp_id p, hp_off p)]))) n) as [Q|_].
  { unfold len in Q. rewrite app_length in Q. cbn [List.length] in Q. lia. }
  destruct l as [|q l].
  - cbn [len List.length Nat.add rev app pairs_meta List.map render_pairs concat]. rewrite app_nil_r. reflexivity.
  - apply at_cur_app in H. destruct Inc as [I1 I2]. change (List.length (q :: l)) with (len (q :: l)).
    rewrite (IH fuel n s _ (hp_off p) (acc ++ [(hp_id p, hp_off p)]) rest); try assumption; try discriminate.
    + rewrite <- app_assoc. cbn [pairs_meta List.map app]. f_equal.
      * rewrite (render_pairs_cons p). unfold len. rewrite app_length. lia.
      * cbn [rev]. destruct (rev l ++ [q]) as [|x xs] eqn:E; [destruct (rev l); discriminate|]. reflexivity.
    + destruct acc; exact Wl.
    + right. exact I1.
    + unfold len in *. rewrite app_length. cbn [List.length] in Hn |- *. lia.
Qed.

Theorem os_meta_short l n s pad :
  at_cur s 0 (render_pairs l ++ pad) -> wf_pairs true l -> increasing l ->
  all_in [32; 0; 9; 13; 10; 12]%N pad -> (N.of_nat (len l) < n)%N ->
  exists c', os_meta (S (len s)) n s 0 0%N [] = PErr EGuard c'.
Proof.
  intros H W Inc A Hn. destruct l as [|p l].
  - cbn [render_pairs List.map concat app] in H. eexists. apply (os_meta_end _ n s 0 0%N [] pad H A). lia.
  - pose proof (at_cur_len _ _ _ H) as SL. unfold len in SL. rewrite app_length in SL.
    assert (GE : len (p :: l) <= len (render_pairs (p :: l))).
    { clear -W. revert W. generalize true. induction (p :: l) as [|x xs IH]; intros f W; [cbn; lia|].
      destruct W as (Wx & _ & Wxs). rewrite render_pairs_cons. unfold len in *. rewrite app_length. cbn [List.length].
      specialize (IH false Wxs). pose proof (render_pair_len x) as Q. unfold len in Q.
      destruct Wx as (_ & _ & _ & W1 & _). lia. }
    replace (S (len s)) with (len (p :: l) + (S (len s) - len (p :: l))) by (unfold len in *; lia).
    assert (St : stops_digit pad).
    { destruct pad as [|x r]; [exact I|]. destruct (ws_not_digit x r A) as [_ Q]. cbn. exact Q. }
    rewrite (os_meta_prefix (p :: l) _ n s 0 0%N [] pad); try assumption; try discriminate; [|left; reflexivity].
    apply at_cur_app in H. eexists. apply (os_meta_end _ n s _ _ _ pad H A). unfold len in *. lia.
Qed.

(* ---------- the whole stream ---------- *)
Lemma os_dict_info_ok d n first : objstm_dict_ok d n first -> (n < i64_lim)%N -> (first < i64_lim)%N ->
  os_dict_info d = Ok (n, first) /\ stream_filters d = Ok [].
Proof.
  intros (DT & DN & DF & DFi) Bn Bf. unfold os_dict_info, get_name, get_usize. rewrite DT.
  change (bytes_eqb (B "ObjStm") (B "ObjStm")) with true. cbn [negb]. rewrite DN, DF. unfold int_is_usize.
  destruct (Z.leb_spec 0 (Z.of_N n)); [|lia]. destruct (Z.leb_spec 0 (Z.of_N first)); [|lia]. rewrite !N2Z.id.
  split; [reflexivity|]. unfold stream_filters, get_name, get_array. rewrite DFi. reflexivity.
Qed.

(* C14_extract *)
Theorem objstm_extract rel b d l pad body ms ctx dec :
  let head := render_pairs l ++ pad in
  objstm_dict_ok d (N.of_nat (len l)) (N.of_nat (len head)) ->
  (N.of_nat (len l) < i64_lim)%N -> (N.of_nat (len head) < i64_lim)%N ->
  l <> [] -> wf_pairs true l -> increasing l -> pad_ok pad -> body <> [] ->
  List.map member_meta ms = pairs_meta l ->
  Forall (located rel b body) ms -> ordered 0 ms -> fresh ctx ms ->
  objstm_parse rel b false d (head ++ body) dec ctx = (OSOk (List.map member_ent ms), define ctx ms).
Proof.
  intros head D Bn Bf NE W Inc P NB EM F O FR. unfold objstm_parse.
  destruct (os_dict_info_ok d _ _ D Bn Bf) as [E1 E2]. rewrite E1, E2. cbn [forallb negb].
  assert (LC : len (head ++ body) = len head + len body) by (unfold len; apply app_length).
  destruct (N.ltb_spec (N.of_nat (len (head ++ body))) (N.of_nat (len head))); [lia|].
  assert (FH : firstn (len head) (head ++ body) = head)
    by (unfold len; rewrite firstn_app, firstn_all, Nat.sub_diag; cbn [firstn]; apply app_nil_r).
  assert (SH : skipn (len head) (head ++ body) = body)
    by (unfold len; rewrite skipn_app, skipn_all, Nat.sub_diag; reflexivity).
  rewrite Nat2N.id, FH.
  assert (HM : os_meta (S (len head)) (N.of_nat (len l)) head 0 0%N [] = POk (pairs_meta l) (0 + len (render_pairs l))).
  { apply (os_meta_ok l (S (len head)) _ head 0 0%N [] pad NE); try assumption.
    - apply (at_cur_start []).
    - left. reflexivity.
    - reflexivity.
    - subst head. assert (GE : len l <= len (render_pairs l)).
      { clear -W. revert W. generalize true. induction l as [|x xs IH]; intros f W; [cbn; lia|].
        destruct W as (Wx & _ & Wxs). rewrite render_pairs_cons. unfold len in *. rewrite app_length. cbn [List.length].
        specialize (IH false Wxs). pose proof (render_pair_len x) as Q. unfold len in Q.
        destruct Wx as (_ & _ & _ & W1 & _). lia. }
      unfold len in *. rewrite app_length. lia. }
  rewrite HM.
  destruct (N.leb_spec (N.of_nat (len (head ++ body))) (N.of_nat (len head))).
  { destruct body; [contradiction|]. cbn [len List.length] in LC. unfold len in *. lia. }
  rewrite SH. rewrite <- EM. destruct (os_objs_ok rel b body ms 0 ctx F O FR) as [cend E]. rewrite E. reflexivity.
Qed.

(* /First at or beyond the end of the data: rejected, context untouched *)
Theorem objstm_first_beyond rel b enc d content dec ctx n first :
  os_dict_info d = Ok (n, first) -> stream_filters d = Ok [] -> (N.of_nat (len content) <= first)%N ->
  exists k, objstm_parse rel b enc d content dec ctx = (OSErr k, ctx) \/
            objstm_parse rel b enc d content dec ctx = (OSPanic, ctx) \/
            objstm_parse rel b enc d content dec ctx = (OSFuel, ctx).
Proof.
  intros E1 E2 L. unfold objstm_parse. rewrite E1, E2. destruct enc; [exists EGuard; left; reflexivity|].
  cbn [forallb negb]. destruct (N.ltb_spec (N.of_nat (len content)) first); [exists EGuard; left; reflexivity|].
  destruct (os_meta _ n _ 0 0%N []) as [m c|k c| |].
  - destruct (N.leb_spec (N.of_nat (len content)) first); [exists EGuard; left; reflexivity|lia].
  - exists k. left. reflexivity.
  - exists EGuard. right. left. reflexivity.
  - exists EGuard. right. right. reflexivity.
Qed.

(* a rejected header rejects the stream, context untouched *)
Theorem objstm_header_rejected rel b d content dec ctx n first k c' :
  os_dict_info d = Ok (n, first) -> stream_filters d = Ok [] -> (first <= N.of_nat (len content))%N ->
  os_meta (S (len (firstn (N.to_nat first) content))) n (firstn (N.to_nat first) content) 0 0%N [] = PErr k c' ->
  objstm_parse rel b false d content dec ctx = (OSErr k, ctx).
Proof.
  intros E1 E2 L EM. unfold objstm_parse. rewrite E1, E2. cbn [forallb negb].
  destruct (N.ltb_spec (N.of_nat (len content)) first); [lia|]. rewrite EM. reflexivity.
Qed.

(* C14_rejects, last clause in full generality: whatever the dictionary, the data and the outcome
   are, an identifier that was defined before the call keeps its definition *)
Theorem objstm_monotone rel b enc d content dec ctx id o :
  lookup ctx id = Some o -> lookup (snd (objstm_parse rel b enc d content dec ctx)) id = Some o.
Proof.
  intros H. unfold objstm_parse.
  destruct (os_dict_info d) as [[n first]| | |]; try exact H.
  destruct (stream_filters d) as [fl| | |]; try exact H.
  destruct enc; [exact H|]. destruct (negb _); [exact H|].
  destruct (N.of_nat (len _) <? first)%N; [exact H|].
  destruct (os_meta _ n _ 0 0%N []) as [m c| | |]; try exact H.
  destruct (N.of_nat (len _) <=? first)%N; [exact H|].
  pose proof (os_objs_monotone rel b (skipn (N.to_nat first) match fl with [] => content | _ :: _ => dec end) m 0 ctx id o H) as K.
  destruct (os_objs rel b m _ 0 ctx) as [r ctx']. exact K.
Qed.
