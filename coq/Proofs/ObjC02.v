(* Proofs/ObjC02.v — C02: the spelling theorem with leading whitespace, follow contexts that are
   always safe behind an integer, and the pieces exported by Properties/C02.v. *)
From PV Require Import Model.Obj Spec.Spelling Proofs.PrimBase Proofs.PrimTok Proofs.PrimWs Proofs.PrimExtra
     Proofs.ObjDepth Proofs.ObjStream Proofs.ObjDict Proofs.ObjTok Proofs.ObjNum Proofs.ObjTok2 Proofs.ObjSpell Proofs.ObjLit.
From Coq Require Import Lia.

Lemma spells_S n v sp : spells' n v sp -> exists n', n = S n'.
Proof. destruct 1; eauto. Qed.

(* every spelling, after any whitespace/comments, anywhere in a text, followed by a legal context,
   parses to exactly the value spelled; span and cursor are exactly the spelling *)
Theorem spelling_sound rel n v sp pre w rest :
  spells' n v sp -> ws w -> follow' v rest -> (Z.of_nat (len sp) < 2147483000)%Z ->
  parse_obj rel n (pre ++ w ++ sp ++ rest) (len pre) =
  POk (v, len pre + len w, len pre + len w + len sp) (len pre + len w + len sp).
Proof.
  intros Hsp Hw Hf Hl.
  destruct (spelling_all rel (lit_string_spec rel)) as (A & _ & _).
  pose proof (A n v sp Hsp (pre ++ w) rest Hf Hl) as E.
  destruct (spells_S _ _ _ Hsp) as (n' & ->).
  destruct (spells_first _ _ _ Hsp rest) as (x & r & Ex & St).
  cbn [parse_obj] in *. unfold pdfobj_p in *.
  rewrite (ws_eol_spec true w pre (sp ++ rest) Hw); [|rewrite Ex; apply starter_ws_stop, St|left; reflexivity].
  change ((pre ++ w) ++ sp ++ rest) with ((pre ++ w) ++ [] ++ sp ++ rest) in E.
  rewrite (ws_eol_spec true [] (pre ++ w) (sp ++ rest)) in E; [|constructor|rewrite Ex; apply starter_ws_stop, St|left; reflexivity].
  cbn [bind len length app] in *. rewrite Nat.add_0_r in E. rewrite <- app_assoc, len_app in E. exact E.
Qed.

(* follow contexts that are safe behind an integer whatever comes later: the end of the text, or a
   byte that is neither whitespace nor '%' (the look-ahead needs whitespace first) *)
Lemma int_follow_ws_stop rest : ws_stop rest -> int_follow_sem rest.
Proof.
  intros Hs s c Hc Hk (u & c2 & i & c3 & u' & c4 & E1 & _).
  set (pre := firstn c s) in *.
  assert (Es : s = pre ++ rest) by (unfold pre; rewrite <- Hk; symmetry; apply firstn_skipn).
  assert (Lc : c = len pre) by (unfold pre, len; rewrite firstn_length; unfold len in Hc; lia).
  clearbody pre. subst s c. rewrite ws_eol_empty_rejected in E1 by assumption. discriminate.
Qed.
