(* Proofs/ContentLexRender.v — the lexer round trip of C12: every spelling of a content stream
   (Spec/ContentSpelling.v: any white space / comments between tokens, operands in any C02 spelling, operators
   by name) is read by the lexer (cs_lex: CSObjP in the extractor's loop) as exactly its token list.  Hence the
   theorems of Proofs/Content.v hold for the BYTES of every spelling of a legal / illegal stream.

   Uses aobj's C02 development (Proofs/Obj*.v: spelling_all, the token specs, ws_eol_spec) and aprim's token
   lemmas; the operator parser (not used by pdf_obj.rs) gets its spec here ([operator_spec]). *)
From PV Require Import Model.ContentLex Spec.ContentSpelling.
From PV Require Import Proofs.PrimBase Proofs.PrimTok Proofs.PrimWs Proofs.PrimExtra Proofs.ObjDepth Proofs.ObjStream
     Proofs.ObjDict Proofs.ObjTok Proofs.ObjNum Proofs.ObjTok2 Proofs.ObjSpell Proofs.ObjLit Proofs.ObjC02.
From PV Require Import Proofs.Content Proofs.ContentLex.
From Coq Require Import Lia.

(* ------------------------------------------------------------------ OperatorP on a spelled operator *)
Lemma no_hash_dec : forall f n, Forall (fun b => N.eqb b 35 = false) n -> simple_dec f n = Some n.
Proof.
  induction f as [|f IH]; intros n H; [reflexivity|].
  destruct n as [|a [|b [|c r]]]; try reflexivity.
  rewrite simple_dec_cons. inversion H as [|? ? Ha Ht]; subst. rewrite Ha. cbn [andb].
  rewrite (IH _ Ht). reflexivity.
Qed.

Lemma ascii_utf8 n : Forall (fun b => (b <=? 127)%N = true) n -> utf8_valid n = true.
Proof. induction 1 as [|a r Ha _ IH]; [reflexivity|]. cbn [utf8_valid]. rewrite Ha. exact IH. Qed.

Lemma op_bytes n : forallb op_byte n = true ->
  Forall (fun b => memb b op_stops = false) n /\ Forall (fun b => N.eqb b 35 = false) n
  /\ Forall (fun b => (b <=? 127)%N = true) n.
Proof.
  induction n as [|b r IH]; intros H; [repeat split; constructor|].
  cbn [forallb] in H. apply andb_true_iff in H as [Hb Hr]. destruct (IH Hr) as (A & B' & C).
  unfold op_byte in Hb. apply andb_true_iff in Hb as [Hb H3]. apply andb_true_iff in Hb as [H1 H2].
  apply negb_true_iff in H1, H2. repeat split; constructor; assumption.
Qed.

Theorem operator_spec n pre rest :
  n <> [] -> forallb op_byte n = true -> term_stop rest ->
  operator (pre ++ n ++ rest) (len pre) = POk (n, len pre, len pre + len n) (len pre + len n).
Proof.
  intros Hn Hb Hr. destruct (op_bytes n Hb) as (A & B' & C).
  unfold operator.
  rewrite (until_run op_stops pre n rest A) by (destruct rest; [exact I|exact Hr]).
  cbv zeta.
  assert (L : len n <> 0) by (destruct n; [contradiction|discriminate]).
  replace (Nat.eqb (len pre) (len pre + len n)) with false by (symmetry; apply Nat.eqb_neq; lia).
  rewrite sub_at. rewrite name_decode_is_simple. unfold simple_decode. rewrite (no_hash_dec _ _ B').
  rewrite (ascii_utf8 _ C). reflexivity.
Qed.

(* ------------------------------------------------------------------ CSObjP on a spelled token *)
Section Render.
  Variable rel : bool.
  Variable maxd : nat.

  Notation spells_tok' := (spells_tok int_follow_sem maxd).
  Notation spells_toks' := (spells_toks int_follow_sem maxd).

  (* CSObjP::parse + dispatch on a token whose first byte is [x] *)
  Lemma csobj_at pre sp rest x r :
    sp ++ rest = x :: r -> ws_stop (x :: r) ->
    csobj rel maxd (pre ++ sp ++ rest) (len pre) =
    bind (csobj_internal rel maxd (pre ++ sp ++ rest) (len pre)) (fun v e => POk (v, len pre, e) e).
  Proof.
    intros E St. unfold csobj.
    change (pre ++ sp ++ rest) with (pre ++ [] ++ sp ++ rest) at 1.
    rewrite (ws_eol_spec true [] pre (sp ++ rest)); [|constructor|rewrite E; exact St|left; reflexivity].
    cbn [bind len length]. rewrite Nat.add_0_r. reflexivity.
  Qed.

  Lemma peek_sp' pre sp rest x r : sp ++ rest = x :: r -> peek (pre ++ sp ++ rest) (len pre) = Some x.
  Proof. intros E. rewrite peek_at, E. reflexivity. Qed.

  Lemma term_num_stop rest : term_stop rest -> num_stop rest.
  Proof.
    destruct rest as [|b t]; [exact (fun _ => I)|]. cbn [term_stop num_stop]. intros Hb. apply memb_In in Hb. vm_compute in Hb.
    repeat (destruct Hb as [<-|Hb]; [split; [reflexivity|discriminate]|]). contradiction.
  Qed.

  Lemma is_digit_digitb x : is_digit_b x = true -> digitb x = true.
  Proof.
    unfold is_digit_b. intros H. apply andb_true_iff in H as [H1 H2]. apply N.leb_le in H1, H2.
    assert (K : (x = 48 \/ x = 49 \/ x = 50 \/ x = 51 \/ x = 52 \/ x = 53 \/ x = 54 \/ x = 55 \/ x = 56 \/ x = 57)%N) by lia.
    repeat (destruct K as [->|K]; [reflexivity|]). subst. reflexivity.
  Qed.

  Lemma bytes_eqb_neq a b : a <> b -> bytes_eqb a b = false.
  Proof. intros H. destruct (bytes_eqb a b) eqn:E; [|reflexivity]. apply bytes_eqb_eq in E. contradiction. Qed.

  (* an operator *)
  Lemma csobj_op n pre rest :
    spells_op n -> term_stop rest ->
    csobj rel maxd (pre ++ n ++ rest) (len pre) = POk (TOp n, len pre, len pre + len n) (len pre + len n).
  Proof.
    intros (Hb & Hs & N1 & N2 & N3) Hr.
    destruct n as [|x r]; [contradiction|].
    pose proof Hb as Hb0. cbn [forallb] in Hb0. apply andb_true_iff in Hb0 as [Hx _].
    unfold op_byte in Hx. apply andb_true_iff in Hx as [Hx _]. apply andb_true_iff in Hx as [Hx _].
    apply negb_true_iff in Hx.
    assert (St : ws_stop (x :: r ++ rest)).
    { split.
      - destruct (memb x ws_eol_set) eqn:E; [|reflexivity]. apply ws_set_values in E.
        destruct E as [->|[->|[->|[->|[->| ->]]]]]; vm_compute in Hx; discriminate.
      - intros ->. vm_compute in Hx. discriminate. }
    rewrite (csobj_at pre (x :: r) rest x (r ++ rest) eq_refl St).
    unfold csobj_internal. rewrite (peek_sp' pre (x :: r) rest x (r ++ rest) eq_refl).
    assert (D : N.eqb x 40 = false /\ N.eqb x 37 = false /\ N.eqb x 47 = false /\ N.eqb x 91 = false /\ N.eqb x 60 = false).
    { repeat split; apply N.eqb_neq; intros ->; vm_compute in Hx; discriminate. }
    destruct D as (D1 & D2 & D3 & D4 & D5). rewrite D1, D2, D3, D4, D5.
    assert (D6 : (is_digit_b x || N.eqb x 45 || N.eqb x 46)%bool = false).
    { unfold num_start in Hs. apply orb_false_iff in Hs as [Hs H46]. apply orb_false_iff in Hs as [Hd H45].
      rewrite H45, H46. destruct (is_digit_b x) eqn:E; [|reflexivity]. apply is_digit_digitb in E. congruence. }
    rewrite D6.
    rewrite (operator_spec (x :: r) pre rest ltac:(discriminate) Hb Hr). cbn [bind lv_val fst].
    change kw_true_b with kw_true. change kw_false_b with kw_false. change kw_null_b with kw_null.
    rewrite (bytes_eqb_neq _ _ N1), (bytes_eqb_neq _ _ N2), (bytes_eqb_neq _ _ N3). reflexivity.
  Qed.

  (* the keywords, read through OperatorP *)
  Lemma csobj_kw kw v pre rest :
    (kw = kw_true /\ v = OBool true) \/ (kw = kw_false /\ v = OBool false) \/ (kw = kw_null /\ v = ONull) ->
    term_stop rest ->
    csobj rel maxd (pre ++ kw ++ rest) (len pre) = POk (TObj v, len pre, len pre + len kw) (len pre + len kw).
  Proof.
    intros K Hr.
    assert (E : exists x r, kw = x :: r /\ ws_stop (x :: r ++ rest) /\ forallb op_byte kw = true
                /\ N.eqb x 40 = false /\ N.eqb x 37 = false /\ N.eqb x 47 = false /\ N.eqb x 91 = false /\ N.eqb x 60 = false
                /\ (is_digit_b x || N.eqb x 45 || N.eqb x 46)%bool = false).
    { destruct K as [[-> _]|[[-> _]|[-> _]]]; eexists _, _; (split; [reflexivity|]);
        repeat split; try reflexivity; discriminate. }
    destruct E as (x & r & -> & St & Hb & D1 & D2 & D3 & D4 & D5 & D6).
    rewrite (csobj_at pre (x :: r) rest x (r ++ rest) eq_refl St).
    unfold csobj_internal. rewrite (peek_sp' pre (x :: r) rest x (r ++ rest) eq_refl).
    rewrite D1, D2, D3, D4, D5, D6.
    rewrite (operator_spec (x :: r) pre rest ltac:(discriminate) Hb Hr). cbn [bind lv_val fst].
    destruct K as [[E ->]|[[E ->]|[E ->]]]; rewrite E; reflexivity.
  Qed.

  (* a number without '+' *)
  Lemma csobj_num v sp pre rest :
    spells_num v sp -> match sp with 43%N :: _ => False | _ => True end -> term_stop rest ->
    csobj rel maxd (pre ++ sp ++ rest) (len pre) = POk (TObj v, len pre, len pre + len sp) (len pre + len sp).
  Proof.
    intros Hsp Hplus Hr. apply term_num_stop in Hr.
    destruct (spells_num_first v sp [] Hsp) as (x & r & E0 & St & K). rewrite app_nil_r in E0.
    assert (E : sp ++ rest = x :: r ++ rest) by (rewrite E0; reflexivity).
    rewrite (csobj_at pre sp rest x (r ++ rest) E (starter_ws_stop _ _ St)).
    unfold csobj_internal. rewrite (peek_sp' pre sp rest x (r ++ rest) E).
    assert (X43 : x <> 43%N) by (intros ->; rewrite E0 in Hplus; exact Hplus).
    assert (D : N.eqb x 40 = false /\ N.eqb x 37 = false /\ N.eqb x 47 = false /\ N.eqb x 91 = false /\ N.eqb x 60 = false
                /\ (is_digit_b x || N.eqb x 45 || N.eqb x 46)%bool = true).
    { destruct K as [K|[->|[->| ->]]]; [|repeat split; reflexivity|contradiction|repeat split; reflexivity].
      rewrite K. unfold is_digit_b in K. apply andb_true_iff in K as [K1 K2]. apply N.leb_le in K1, K2.
      repeat split; try (apply N.eqb_neq; lia). }
    destruct D as (D1 & D2 & D3 & D4 & D5 & D6). rewrite D1, D2, D3, D4, D5, D6.
    clear E0 E D1 D2 D3 D4 D5 D6 K St X43 Hplus.
    destruct Hsp as [neg sg ds Hs Hn Hd Hi|neg sg ds Hs Hn Hd Hi Hm|neg sg ds fs Hs Hd Hn Hf Hm Hq].
    - assert (Hm : (dec_val ds <= i128_max)%Z).
      { pose proof (dec_val_nonneg ds Hd). unfold in_i64, i64_maxZ, signed in Hi. unfold i128_max. destruct neg; lia. }
      rewrite (real_spec_int neg sg ds pre rest Hs Hn Hd Hm Hr). cbn [bind lv_val fst snd].
      apply in_i64_dec in Hi as Hi'. unfold real_is_integer, real_numerator. rewrite Hi'. reflexivity.
    - rewrite (real_spec_int neg sg ds pre rest Hs Hn Hd Hm Hr). cbn [bind lv_val fst snd].
      assert (Hi' : ((- i64_max - 1 <=? signed neg (dec_val ds)) && (signed neg (dec_val ds) <=? i64_max))%Z = false).
      { destruct (_ && _)%bool eqn:E; [|reflexivity]. exfalso. apply Hi, in_i64_dec, E. }
      unfold real_is_integer. rewrite Hi'. reflexivity.
    - pose proof (real_spec_frac neg sg ds fs pre rest Hs Hd Hn Hf Hm Hq (num_stop_digit _ Hr)) as E.
      cbv zeta in E. rewrite E. cbn [bind lv_val fst snd].
      assert (D : (10 ^ Z.of_nat (len fs) =? 1)%Z = false).
      { apply Z.eqb_neq. assert (len fs <> 0) by (destruct fs; [contradiction|discriminate]).
        pose proof (pow10_gt1 (len fs) H). lia. }
      unfold real_is_integer. rewrite D. destruct (_ && _)%bool; reflexivity.
  Qed.

  (* from the C02 theorem for an array / a dictionary to the result of ArrayP / DictP called by CSObjP *)
  Lemma bind_loc_inv (r : pres obj) (st : nat) (v : obj) (a e c' : nat) :
    bind r (fun (v0 : obj) (e0 : nat) => POk (v0, st, e0) e0) = POk (v, a, e) c' -> r = POk v c' /\ e = c'.
  Proof. destruct r; cbn; intros H; try discriminate. inversion H; subst. split; reflexivity. Qed.

  Lemma csobj_operand o sp pre rest :
    spells' (S maxd) o sp -> operand_ok o sp -> tok_follow (TObj o) rest ->
    (Z.of_nat (len sp) < 2147483000)%Z ->
    csobj rel maxd (pre ++ sp ++ rest) (len pre) = POk (TObj o, len pre, len pre + len sp) (len pre + len sp).
  Proof.
    intros Hsp [Hnr Hplus] Hf Hl.
    destruct (spelling_all rel (lit_string_spec rel)) as (A & _ & _).
    inversion Hsp; subst.
    - (* null *) apply csobj_kw; [right; right; split; reflexivity|exact Hf].
    - (* true *) apply csobj_kw; [left; split; reflexivity|exact Hf].
    - (* false *) apply csobj_kw; [right; left; split; reflexivity|exact Hf].
    - (* numbers *)
      match goal with H : spells_num o sp |- _ => rename H into Hn end.
      assert (Hr : term_stop rest) by (inversion Hn; subst; exact Hf).
      apply csobj_num; assumption.
    - (* names *)
      match goal with H : name_enc _ _ |- _ => rename H into He end.
      rewrite (csobj_at pre (47%N :: enc) rest 47%N (enc ++ rest) eq_refl ltac:(split; [reflexivity|discriminate])).
      unfold csobj_internal. rewrite (peek_sp' pre (47%N :: enc) rest 47%N (enc ++ rest) eq_refl). cbn [N.eqb Pos.eqb].
      rewrite (name_spec bs enc pre rest He Hf). cbn [bind lv_val fst]. cbn [len length]. reflexivity.
    - (* literal strings *)
      match goal with H : balanced _ |- _ => rename H into Hb end.
      rewrite (csobj_at pre (40%N :: body ++ [41%N]) rest 40%N ((body ++ [41%N]) ++ rest) eq_refl ltac:(split; [reflexivity|discriminate])).
      unfold csobj_internal. rewrite (peek_sp' pre (40%N :: body ++ [41%N]) rest 40%N ((body ++ [41%N]) ++ rest) eq_refl). cbn [N.eqb Pos.eqb].
      rewrite (lit_string_spec rel body pre rest Hb); [|unfold len in *; cbn [length] in Hl; rewrite app_length in Hl; lia].
      cbn [bind lv_val fst]. unfold len. cbn [length]. rewrite app_length. cbn [length].
      replace (length pre + S (length body + 1)) with (length pre + length body + 2) by lia. reflexivity.
    - (* hex strings *)
      match goal with H : hex_enc _ _ |- _ => rename H into He end.
      rewrite (csobj_at pre (60%N :: body ++ [62%N]) rest 60%N ((body ++ [62%N]) ++ rest) eq_refl ltac:(split; [reflexivity|discriminate])).
      unfold csobj_internal. rewrite (peek_sp' pre (60%N :: body ++ [62%N]) rest 60%N ((body ++ [62%N]) ++ rest) eq_refl). cbn [N.eqb Pos.eqb].
      assert (Lt : len pre < len (pre ++ (60%N :: body ++ [62%N]) ++ rest)) by (rewrite len_app; cbn; lia).
      rewrite incr_ok, setc_ok by lia.
      assert (Nx : forall y, peek (pre ++ (60%N :: body ++ [62%N]) ++ rest) (S (len pre)) = Some y -> y <> 60%N).
      { intros y. replace (pre ++ (60%N :: body ++ [62%N]) ++ rest) with ((pre ++ [60%N]) ++ (body ++ [62%N]) ++ rest) by app_norm.
        rewrite <- len_snoc with (x := 60%N). rewrite peek_at.
        destruct (hex_enc_value _ _ He) as [Hfa _].
        destruct body as [|z body']; cbn [app hd_error].
        - intros [= <-]. discriminate.
        - intros [= <-]. inversion Hfa as [|? ? Hz _]; subst. intros ->. vm_compute in Hz. discriminate. }
      assert (HX : bind (bind (hexstring (pre ++ (60%N :: body ++ [62%N]) ++ rest) (len pre))
                          (fun (v : lv bytes) (c2 : nat) => POk (TObj (OStr (lv_val v))) c2))
                        (fun (v : cstoken) (e : nat) => POk (v, len pre, e) e) =
                   POk (TObj (OStr bs), len pre, len pre + len (60%N :: body ++ [62%N])) (len pre + len (60%N :: body ++ [62%N]))).
      { rewrite (hexstring_spec bs body pre rest He). cbn [bind lv_val fst]. unfold len. cbn [length]. rewrite app_length. cbn [length].
        replace (length pre + S (length body + 1)) with (length pre + length body + 2) by lia. reflexivity. }
      destruct (peek _ (S (len pre))) as [y|] eqn:Ey; [|exact HX].
      specialize (Nx y eq_refl).
      destruct y as [|p]; [exact HX|]. do 6 (destruct p; try exact HX). exfalso. apply Nx. reflexivity.
    - (* references are not operands *) contradiction.
    - (* arrays *)
      set (sp := 91%N :: body ++ [93%N]) in *.
      pose proof (A (S maxd) (OArr l) sp Hsp pre rest I Hl) as E.
      rewrite (parse_obj_at rel maxd pre sp rest 91%N ((body ++ [93%N]) ++ rest) eq_refl ltac:(repeat split; discriminate)) in E.
      unfold parse_internal in E. rewrite (peek_sp' pre sp rest 91%N ((body ++ [93%N]) ++ rest) eq_refl) in E.
      cbn [N.eqb Pos.eqb orb] in E. apply bind_loc_inv in E as [E _].
      rewrite (csobj_at pre sp rest 91%N ((body ++ [93%N]) ++ rest) eq_refl ltac:(split; [reflexivity|discriminate])).
      unfold csobj_internal. rewrite (peek_sp' pre sp rest 91%N ((body ++ [93%N]) ++ rest) eq_refl). cbn [N.eqb Pos.eqb].
      rewrite E. reflexivity.
    - (* dictionaries *)
      set (sp := 60%N :: 60%N :: body ++ [62%N; 62%N]) in *.
      pose proof (A (S maxd) (ODict d) sp Hsp pre rest I Hl) as E.
      rewrite (parse_obj_at rel maxd pre sp rest 60%N ((60%N :: body ++ [62%N; 62%N]) ++ rest) eq_refl ltac:(repeat split; discriminate)) in E.
      unfold parse_internal in E. rewrite (peek_sp' pre sp rest 60%N ((60%N :: body ++ [62%N; 62%N]) ++ rest) eq_refl) in E.
      cbn [N.eqb Pos.eqb orb] in E.
      set (T := pre ++ sp ++ rest) in *.
      assert (P1 : peek T (len pre) = Some 60%N) by (unfold T; rewrite peek_at; reflexivity).
      assert (P2 : peek T (S (len pre)) = Some 60%N).
      { unfold T, sp. replace (pre ++ (60%N :: 60%N :: body ++ [62%N; 62%N]) ++ rest) with ((pre ++ [60%N]) ++ 60%N :: (body ++ [62%N; 62%N]) ++ rest)
          by app_norm.
        rewrite <- len_snoc with (x := 60%N). rewrite peek_at. reflexivity. }
      pose proof (peek_Some_lt _ _ _ P1) as Lt.
      rewrite incr_ok, setc_ok in E by lia. rewrite P2 in E. apply bind_loc_inv in E as [E _].
      unfold T at 1. rewrite (csobj_at pre sp rest 60%N ((60%N :: body ++ [62%N; 62%N]) ++ rest) eq_refl ltac:(split; [reflexivity|discriminate])).
      fold T. unfold csobj_internal. rewrite P1. cbn [N.eqb Pos.eqb].
      rewrite incr_ok, setc_ok by lia. rewrite P2. rewrite E. reflexivity.
  Qed.

  Lemma csobj_spelled t sp pre rest :
    spells_tok' t sp -> tok_follow t rest -> (Z.of_nat (len sp) < 2147483000)%Z ->
    csobj rel maxd (pre ++ sp ++ rest) (len pre) = POk (t, len pre, len pre + len sp) (len pre + len sp).
  Proof.
    intros Ht Hf Hl. destruct Ht as [n Hn|o sp Hsp Hok].
    - apply csobj_op; assumption.
    - apply csobj_operand; assumption.
  Qed.

  (* the first byte of a spelled token: never white space nor '%' ; a spelled token is not empty *)
  Lemma spells_tok_first t sp : spells_tok' t sp -> forall rest, exists x r, sp ++ rest = x :: r /\ ws_stop (x :: r).
  Proof.
    intros Ht rest. destruct Ht as [n (Hb & Hs & _)|o sp Hsp _].
    - destruct n as [|x r]; [contradiction|]. exists x, (r ++ rest). split; [reflexivity|].
      cbn [forallb] in Hb. apply andb_true_iff in Hb as [Hx _].
      unfold op_byte in Hx. apply andb_true_iff in Hx as [Hx _]. apply andb_true_iff in Hx as [Hx _].
      apply negb_true_iff in Hx. split.
      + destruct (memb x ws_eol_set) eqn:E; [|reflexivity]. apply ws_set_values in E.
        destruct E as [->|[->|[->|[->|[->| ->]]]]]; vm_compute in Hx; discriminate.
      + intros ->. vm_compute in Hx. discriminate.
    - destruct (spells_first _ _ _ Hsp rest) as (x & r & E & St). exists x, r. split; [exact E|apply starter_ws_stop, St].
  Qed.

  (* ------------------------------------------------------------------ the token loop *)
  Lemma lex_spelled l s' : spells_toks' l s' ->
    forall pre acc f, (Z.of_nat (len s') < 2147483000)%Z -> len s' < f ->
    lex_loop f rel maxd (pre ++ s') (len pre) acc = (acc ++ l, LexEnd).
  Proof.
    induction 1 as [w Hw|w t sp l body Hw Ht Hl IH Hf]; intros pre acc f Hsz Hfu.
    - destruct f as [|f]; [lia|]. cbn [lex_loop].
      replace (pre ++ w) with (pre ++ w ++ []) by (rewrite app_nil_r; reflexivity).
      rewrite (ws_eol_spec true w pre [] Hw I (or_introl eq_refl)).
      rewrite app_nil_r, len_app. rewrite Nat.leb_refl. rewrite app_nil_r. reflexivity.
    - destruct f as [|f]; [lia|]. cbn [lex_loop].
      destruct (spells_tok_first t sp Ht body) as (x & r & E & St).
      rewrite (ws_eol_spec true w pre (sp ++ body) Hw); [|rewrite E; exact St|left; reflexivity].
      assert (Lsp : 0 < len sp).
      { destruct (spells_tok_first t sp Ht []) as (x0 & r0 & E0 & _). rewrite app_nil_r in E0. rewrite E0. cbn. lia. }
      replace (Nat.leb (len (pre ++ w ++ sp ++ body)) (len pre + len w)) with false
        by (symmetry; apply Nat.leb_gt; rewrite !len_app; lia).
      rewrite !len_app in Hsz, Hfu.
      replace (pre ++ w ++ sp ++ body) with ((pre ++ w) ++ sp ++ body) by (rewrite <- app_assoc; reflexivity).
      rewrite <- len_app.
      rewrite (csobj_spelled t sp (pre ++ w) body Ht Hf ltac:(lia)). cbn [lv_val fst].
      replace ((pre ++ w) ++ sp ++ body) with (((pre ++ w) ++ sp) ++ body) by (rewrite <- app_assoc; reflexivity).
      rewrite <- len_app.
      rewrite (IH ((pre ++ w) ++ sp) (acc ++ [t]) f ltac:(lia) ltac:(lia)).
      rewrite <- app_assoc. reflexivity.
  Qed.

  (* C12_lex_render: every spelling of a token list is lexed as exactly that list *)
  Theorem cs_lex_spelled l s :
    spells_toks' l s -> (Z.of_nat (len s) < 2147483000)%Z -> cs_lex rel maxd s = Ok l.
  Proof.
    intros Hs Hsz. unfold cs_lex, cs_lex_full.
    pose proof (lex_spelled l s Hs [] [] (S (len s)) Hsz ltac:(lia)) as E. cbn [app len length] in E.
    rewrite E. reflexivity.
  Qed.

  Theorem cs_lex_render items s :
    spells_cs int_follow_sem maxd items s -> (Z.of_nat (len s) < 2147483000)%Z ->
    cs_lex rel maxd s = Ok (flatten items).
  Proof. intros H. apply cs_lex_spelled, H. Qed.

  (* C12 on the bytes of any spelling *)
  Theorem extract_bytes_rendered items s :
    wf_items items = true -> legal_walk items = true ->
    spells_cs int_follow_sem maxd items s -> (Z.of_nat (len s) < 2147483000)%Z ->
    extract_bytes rel maxd s = Ok (tokens_spec items).
  Proof. intros WF LG Hs Hsz. apply extract_bytes_legal; [apply cs_lex_render|..]; assumption. Qed.

  Theorem reject_bytes_rendered items s :
    wf_items items = true -> illegal items = true ->
    spells_cs int_follow_sem maxd items s -> (Z.of_nat (len s) < 2147483000)%Z ->
    exists k, extract_bytes rel maxd s = Err k.
  Proof. intros WF IL Hs Hsz. apply (extract_bytes_illegal rel maxd s items); [apply cs_lex_render|..]; assumption. Qed.
End Render.

(* the hypotheses are satisfiable:  BT (Hi)Tj%c<LF>ET  spells  BT; (Hi) Tj; ET  *)
Example render_example :
  let items := [IOp [] (B "BT"); IOp [OStr (B "Hi")] (B "Tj"); IOp [] (B "ET")] in
  let s := B "BT" ++ B " " ++ B "(Hi)" ++ B "Tj" ++ (37%N :: B "c" ++ [10%N]) ++ B "ET" in
  spells_cs int_follow_sem 50 items s /\ wf_items items = true /\ legal_walk items = true /\
  (Z.of_nat (len s) < 2147483000)%Z.
Proof.
  cbv zeta. split; [|repeat split; vm_compute; reflexivity].
  assert (OP : forall n, forallb op_byte n = true -> match n with [] => False | b :: _ => num_start b = false end ->
                         n <> kw_true -> n <> kw_false -> n <> kw_null -> spells_op n).
  { intros n H1 H2 H3 H4 H5. repeat split; assumption. }
  unfold spells_cs.
  apply (stks_cons _ _ [] (TOp (B "BT")) (B "BT") _ (B " " ++ B "(Hi)" ++ B "Tj" ++ (37%N :: B "c" ++ [10%N]) ++ B "ET"));
    [constructor|apply stk_op, OP; [reflexivity|reflexivity|discriminate..]| |reflexivity].
  apply (stks_cons _ _ (B " ") (TObj (OStr (B "Hi"))) (B "(Hi)") _ (B "Tj" ++ (37%N :: B "c" ++ [10%N]) ++ B "ET"));
    [apply ws_byte; [reflexivity|constructor]| | |exact I].
  { apply stk_obj; [apply (sp_lit _ 50 (B "Hi")); reflexivity|split; exact I]. }
  apply (stks_cons _ _ [] (TOp (B "Tj")) (B "Tj") _ ((37%N :: B "c" ++ [10%N]) ++ B "ET"));
    [constructor|apply stk_op, OP; [reflexivity|reflexivity|discriminate..]| |reflexivity].
  apply (stks_cons _ _ (37%N :: B "c" ++ [10%N]) (TOp (B "ET")) (B "ET") _ []);
    [apply (ws_comment (B "c") []); [repeat constructor; discriminate|constructor]
    |apply stk_op, OP; [reflexivity|reflexivity|discriminate..]|apply stks_nil; constructor|exact I].
Qed.
