(* Proofs/XrefTotal.v — C13 totality (for the C01 story): on ANY bytes the cross-reference table
   parser and the cross-reference stream parser neither panic nor run out of model fuel.
   Uses aprim's C15 no-panic / span lemmas for the token parsers (Proofs/Prim*.v); the outcome
   predicates [wb]/[wbs] are those of Proofs/ContentLexTotal.v, restated here so that C13's cone
   does not depend on the content-stream development. *)
From PV Require Import Model.Prim Model.XrefTab Model.XrefStm Spec.XrefEnc.
From PV Require Import Proofs.PrimBase Proofs.PrimTok Proofs.PrimWs Proofs.XrefBase Proofs.XrefStm Proofs.Bin.
From Coq Require Import Lia ZifyBool ZifyNat ZifyN.
Ltac Zify.zify_post_hook ::= Z.div_mod_to_equations.

(* outcome of a parser called at cursor c of buffer s: neither panic nor fuel; on success the
   cursor does not move back ([wb]) / advances ([wbs]) and stays inside the buffer *)
Definition wb {A} (s : bytes) (c : nat) (r : pres A) : Prop :=
  match r with POk _ c' => c <= c' /\ c' <= len s | PErr _ _ => True | _ => False end.
Definition wbs {A} (s : bytes) (c : nat) (r : pres A) : Prop :=
  match r with POk _ c' => c < c' /\ c' <= len s | PErr _ _ => True | _ => False end.

Lemma ws_wb e s c : c <= len s -> wb s c (ws_eol e s c).
Proof.
  intros Hc. pose proof (ws_eol_np e s c Hc) as F.
  destruct (ws_eol e s c) as [[[v a] b] c'| | |] eqn:E; cbn in *; try tauto.
  destruct (ws_eol_span e s c v a b c' Hc E) as (Ha & Hb & Hle & Hlen & _). subst. lia.
Qed.

Lemma integer_wbs s c : c <= len s -> wbs s c (integer s c).
Proof.
  intros Hc. pose proof (integer_np s c Hc) as F.
  destruct (integer s c) as [[[v a] b] c'| | |] eqn:E; cbn in *; try tauto.
  destruct (integer_span s c v a b c' Hc E) as (Ha & Hb & Hle & Hlen & v' & Hw & _). subst a b.
  split; [|lia]. destruct (Nat.eq_dec c c') as [->|]; [|lia]. exfalso.
  rewrite sub_nil_len in Hw by lia. vm_compute in Hw. discriminate.
Qed.

(* ---------- classic table ---------- *)
Lemma extract_wb n s c : c <= len s -> match extract n s c with
  | POk _ c' => c' = c + n /\ c' <= len s | PErr _ _ => True | _ => False end.
Proof.
  intros L. destruct (extract n s c) as [v x| | |] eqn:E; try exact I.
  - apply extract_ok in E. lia.
  - unfold extract in E. destruct (Nat.ltb_spec (len s) c); [lia|]. destruct (Nat.ltb (len s - c) n); discriminate.
  - unfold extract in E. destruct (Nat.ltb (len s) c); [discriminate|]. destruct (Nat.ltb (len s - c) n); discriminate.
Qed.

Lemma xfield_adv w s c : c <= len s -> match xfield w s c with
  | POk _ c' => c' = c + w /\ c' <= len s | PErr _ _ => True | _ => False end.
Proof.
  intros L. unfold xfield. pose proof (extract_wb w s c L) as E.
  destruct (extract w s c) as [f c1| | |]; try exact E.
  destruct (negb (utf8_valid f)); [exact I|]. destruct (negb (Nat.eqb (count_digits f) w)); [exact I|].
  destruct (N.leb usize_lim (parse_N f)); [exact I|exact E].
Qed.

Lemma xspace_adv s c : c <= len s -> match xspace s c with
  | POk _ c' => c' = S c /\ c' <= len s | PErr _ _ => True | _ => False end.
Proof.
  intros L. unfold xspace. destruct (exact [32%N] s c) as [c1|] eqn:E; [|exact I].
  destruct (exact_some _ _ _ _ E) as [-> B]. specialize (B L). cbn [len List.length] in *. lia.
Qed.

(* an entry: neither panic nor fuel; a success advances (by 20) *)
Lemma xentp_wbs obj s c : c <= len s -> wbs s c (xentp obj s c).
Proof.
  intros L. unfold xentp.
  pose proof (xfield_adv xref_info_width s c L) as E1. destruct (xfield xref_info_width s c) as [info c1| | |]; try exact E1.
  destruct E1 as [-> L1]. pose proof (xspace_adv s _ L1) as E2. destruct (xspace s _) as [u c2| | |]; try exact E2.
  destruct E2 as [-> L2]. pose proof (xfield_adv xref_gen_width s _ L2) as E3.
  destruct (xfield xref_gen_width s _) as [gen c3| | |]; try exact E3. destruct E3 as [-> L3].
  destruct (N.ltb xref_gen_max gen); [exact I|].
  pose proof (xspace_adv s _ L3) as E4. destruct (xspace s _) as [u4 c4| | |]; try exact E4. destruct E4 as [-> L4].
  pose proof (extract_wb 1 s _ L4) as E5. destruct (extract 1 s _) as [flg c5| | |] eqn:X5; try exact E5.
  destruct E5 as [-> L5]. apply extract_ok in X5. destruct X5 as (B5 & _ & ->).
  assert (NE : sub s (S (S (c + xref_info_width) + xref_gen_width)) (S (S (c + xref_info_width) + xref_gen_width) + 1) <> []).
  { intros Q. apply (f_equal len) in Q. rewrite len_sub in Q by lia. cbn in Q. lia. }
  destruct (sub s _ _) as [|f0 fr]; [contradiction|].
  assert (K : forall iu : bool, wbs s c
     match extract 2 s (S (S (c + xref_info_width) + xref_gen_width) + 1) with
     | POk eol c6 => if negb (existsb (bytes_eqb eol) xref_eols) then PErr EGuard c6
                     else POk (mk_xent obj gen (if iu then XInUse info else XFree info)) c6
     | PErr k c' => PErr k c' | PPanic => PPanic | PFuel => PFuel end).
  { intros iu. pose proof (extract_wb 2 s _ L5) as E6. destruct (extract 2 s _) as [eol c6| | |]; try exact E6.
    destruct E6 as [-> L6]. destruct (negb _); cbn; [exact I|]. unfold xref_info_width, xref_gen_width in *. lia. }
  destruct (N.eqb f0 xref_flag_free); [exact (K false)|]. destruct (N.eqb f0 xref_flag_inuse); [exact (K true)|exact I].
Qed.

Lemma xents_wb s : forall fuel obj cnt c,
  c <= len s -> len s - c < fuel -> (obj + cnt <= usize_lim)%N -> wb s c (xents fuel obj cnt s c).
Proof.
  induction fuel as [|fuel IH]; intros obj cnt c L Fu B; [lia|]. cbn [xents].
  destruct (N.eqb_spec cnt 0); [cbn; lia|]. destruct (N.leb_spec usize_lim obj); [lia|].
  pose proof (xentp_wbs obj s c L) as E. destruct (xentp obj s c) as [e c1| | |]; try exact E.
  cbn in E. destruct E as [A1 L1]. specialize (IH (obj + 1)%N (cnt - 1)%N c1 L1 ltac:(lia) ltac:(lia)).
  destruct (xents fuel (obj + 1) (cnt - 1) s c1); cbn in *; try tauto. lia.
Qed.

Lemma ws_noeol_wb e s c : c <= len s -> wb s c (ws_noeol e s c).
Proof.
  intros Hc. pose proof (ws_noeol_np e s c Hc) as F.
  destruct (ws_noeol e s c) as [[[v a] b] c'| | |] eqn:E; cbn in *; try tauto.
  destruct (ws_noeol_span e s c v a b c' Hc E) as (Ha & Hb & Hle & Hlen & _). subst. lia.
Qed.

(* usize::try_from of an i64: below 2^63 *)
Lemma xusize_wbs s c : c <= len s -> match xusize s c with
  | POk v c' => c < c' /\ c' <= len s /\ (v < i64_lim)%N | PErr _ _ => True | _ => False end.
Proof.
  intros L. unfold xusize. pose proof (integer_wbs s c L) as W.
  destruct (integer s c) as [[[v a] b] c1| | |] eqn:E; cbn in W; try tauto.
  destruct (int_is_usize v); [|exact I]. apply integer_range in E. unfold i64_max, i64_lim in *. lia.
Qed.

Lemma xsubhdr_wbs s c : c <= len s -> match xsubhdr s c with
  | POk (a, b) c' => c < c' /\ c' <= len s /\ (a < i64_lim)%N /\ (b < i64_lim)%N | PErr _ _ => True | _ => False end.
Proof.
  intros L. unfold xsubhdr. pose proof (ws_noeol_wb true s c L) as W1.
  destruct (ws_noeol true s c) as [u1 c1| | |]; cbn in W1; try tauto. destruct W1 as [A1 L1].
  pose proof (xusize_wbs s c1 L1) as W2. destruct (xusize s c1) as [xs c2| | |]; try tauto. destruct W2 as (A2 & L2 & B2).
  pose proof (xspace_adv s c2 L2) as W3. destruct (xspace s c2) as [u3 c3| | |]; try tauto. destruct W3 as [-> L3].
  pose proof (xusize_wbs s _ L3) as W4. destruct (xusize s (S c2)) as [xc c4| | |]; try tauto. destruct W4 as (A4 & L4 & B4).
  pose proof (ws_wb false s c4 L4) as W5. destruct (ws_eol false s c4) as [u5 c5| | |]; cbn in W5; try tauto.
  repeat split; try assumption; lia.
Qed.

Lemma xsubs_fine s : forall fuel first c, c <= len s -> len s - c < fuel -> fine (xsubs fuel first s c).
Proof.
  induction fuel as [|fuel IH]; intros first c L Fu; [lia|]. cbn [xsubs].
  pose proof (xsubhdr_wbs s c L) as W. destruct (xsubhdr s c) as [[xs xc] c1|k c1| |]; try tauto.
  - destruct W as (A1 & L1 & B1 & B2). unfold xsubents.
    pose proof (xents_wb s (S (len s)) xs xc c1 L1 ltac:(lia) ltac:(unfold usize_lim, i64_lim in *; lia)) as W2.
    destruct (xents (S (len s)) xs xc s c1) as [l c2| | |]; cbn in W2; try tauto; try exact I.
    destruct W2 as [A2 L2]. specialize (IH false c2 L2 ltac:(lia)).
    destruct (xsubs fuel false s c2); cbn in *; tauto.
  - destruct first; exact I.
Qed.

(* C13_table_total *)
Theorem xsectp_total s c : c <= len s -> xsectp s c <> PPanic /\ xsectp s c <> PFuel.
Proof.
  intros L. apply fine_iff. unfold xsectp.
  pose proof (ws_wb true s c L) as W1. destruct (ws_eol true s c) as [u1 c1| | |]; cbn in W1; try tauto; try exact I.
  destruct W1 as [A1 L1]. destruct (exact xref_kw s c1) as [c2|] eqn:E; [|exact I].
  destruct (exact_some _ _ _ _ E) as [-> L2]. specialize (L2 L1).
  pose proof (ws_wb false s _ L2) as W3. destruct (ws_eol false s _) as [u3 c3| | |]; cbn in W3; try tauto; try exact I.
  destruct W3 as [A3 L3]. pose proof (xsubs_fine s (S (len s)) true c3 L3 ltac:(lia)) as F.
  destruct (xsubs (S (len s)) true s c3); cbn in *; tauto.
Qed.

(* ---------- cross-reference stream ---------- *)
(* parse_usize_with_width: never panics; a success consumes exactly [w] bytes … *)
Lemma usize_w_adv w : forall acc s c, c <= len s -> match usize_w w acc s c with
  | POk _ c' => c' = c + w /\ c' <= len s | PErr _ _ => True | _ => False end.
Proof.
  induction w as [|w IH]; intros acc s c L; cbn [usize_w]; [lia|].
  unfold peek. destruct (nth_error s c) as [b|] eqn:E; [|exact I].
  assert (c < len s) by (unfold len; apply nth_error_Some; congruence).
  unfold incr. destruct (Nat.ltb_spec c (len s)); [|lia].
  specialize (IH (N.lor ((acc * 256) mod usize_lim) b) s (S c) ltac:(lia)).
  destruct (usize_w w _ s (S c)); try tauto. lia.
Qed.

(* … and for widths up to 8 (the code admits 0..4) the shifts lose no bit: the value is the
   big-endian number denoted by the bytes *)
Theorem usize_w_exact w s c : w <= 8 -> c + w <= len s -> wfb s ->
  usize_w w 0 s c = POk (val Big (sub s c (c + w))) (c + w).
Proof.
  intros W L F. assert (A : at_cur s c (sub s c (c + w) ++ skipn (c + w) s)).
  { split; [lia|]. unfold sub. replace (c + w - c) with w by lia.
    replace (c + w) with (w + c) by lia. rewrite <- skipn_skipn'. symmetry. apply firstn_skipn. }
  pose proof (usize_w_ok (sub s c (c + w)) 0 0%N s c _ A (wfb_sub s c (c + w) F)) as Q.
  rewrite len_sub in Q by lia. replace (c + w - c) with w in Q by lia. apply Q; [cbn; lia|lia].
Qed.

Lemma xrow_wbs w0 w1 w2 obj s c : c <= len s -> (w0 <= 4)%N -> (1 <= w1 <= 4)%N -> (w2 <= 4)%N ->
  wbs s c (xrow (w0, w1, w2) obj s c).
Proof.
  intros L W0 W1 W2. unfold xrow.
  assert (K : forall typ c1, c <= c1 -> c1 <= len s -> (typ <= 2)%N -> wbs s c
     match usize_w (N.to_nat w1) 0 s c1 with
     | POk f2 c2 =>
       if (0 <? w2)%N
       then match usize_w (N.to_nat w2) 0 s c2 with
            | POk f3 c3 =>
              if (typ =? 0)%N then POk (mk_xent obj f3 (XFree f2)) c3
              else if (typ =? 1)%N then POk (mk_xent obj f3 (XInUse f2)) c3
              else if (typ =? 2)%N then POk (mk_xent obj 0 (XInStream f2 f3)) c3 else PPanic
            | PErr e c' => PErr e c' | PPanic => PPanic | PFuel => PFuel
            end
       else if (typ =? 0)%N then POk (mk_xent obj 0 (XFree f2)) c2
            else if (typ =? 1)%N then POk (mk_xent obj 0 (XInUse f2)) c2
            else if (typ =? 2)%N then POk (mk_xent obj 0 (XInStream f2 0)) c2 else PPanic
     | PErr e c' => PErr e c' | PPanic => PPanic | PFuel => PFuel
     end).
  { intros typ c1 A1 L1 T. pose proof (usize_w_adv (N.to_nat w1) 0 s c1 L1) as E2.
    destruct (usize_w (N.to_nat w1) 0 s c1) as [f2 c2| | |]; try tauto. destruct E2 as [-> L2].
    assert (TT : (typ = 0 \/ typ = 1 \/ typ = 2)%N) by lia.
    destruct (0 <? w2)%N.
    - pose proof (usize_w_adv (N.to_nat w2) 0 s _ L2) as E3.
      destruct (usize_w (N.to_nat w2) 0 s _) as [f3 c3| | |]; try tauto. destruct E3 as [-> L3].
      destruct TT as [-> | [-> | ->]]; cbn; lia.
    - destruct TT as [-> | [-> | ->]]; cbn; lia. }
  destruct (N.eqb w0 0); [apply K; unfold xrefstm_default_type; lia|].
  pose proof (usize_w_adv (N.to_nat w0) 0 s c L) as E0.
  destruct (usize_w (N.to_nat w0) 0 s c) as [f c0| | |]; try tauto. destruct E0 as [-> L0].
  unfold xrefstm_type_max. destruct (N.ltb_spec 2 f); [exact I|]. apply K; lia.
Qed.

Lemma xrows_wb ws s : let '(w0, w1, w2) := ws in (w0 <= 4)%N -> (1 <= w1 <= 4)%N -> (w2 <= 4)%N ->
  forall fuel obj cnt c, c <= len s -> len s - c < fuel -> (obj + cnt <= usize_lim)%N -> wb s c (xrows fuel ws obj cnt s c).
Proof.
  destruct ws as [[w0 w1] w2]. intros W0 W1 W2.
  induction fuel as [|fuel IH]; intros obj cnt c L Fu B; [lia|]. cbn [xrows].
  destruct (N.eqb_spec cnt 0); [cbn; lia|]. destruct (N.leb_spec usize_lim obj); [lia|].
  pose proof (xrow_wbs w0 w1 w2 obj s c L W0 W1 W2) as E. destruct (xrow (w0, w1, w2) obj s c) as [e c1| | |]; try exact E.
  cbn in E. destruct E as [A1 L1]. specialize (IH (obj + 1)%N (cnt - 1)%N c1 L1 ltac:(lia) ltac:(lia)).
  destruct (xrows fuel (w0, w1, w2) (obj + 1) (cnt - 1) s c1); cbn in *; try tauto. lia.
Qed.

Lemma xsections_wb ws s : let '(w0, w1, w2) := ws in (w0 <= 4)%N -> (1 <= w1 <= 4)%N -> (w2 <= 4)%N ->
  forall ix c, Forall (fun p => (fst p < i64_lim)%N /\ (snd p < i64_lim)%N) ix -> c <= len s -> wb s c (xsections ws ix s c).
Proof.
  destruct ws as [[w0 w1] w2]. intros W0 W1 W2. induction ix as [|[st cnt] ix IH]; intros c F L; [cbn; lia|].
  inversion F as [|? ? [B1 B2] F']; subst. cbn [fst snd] in *. cbn [xsections].
  pose proof (xrows_wb (w0, w1, w2) s W0 W1 W2 (S (len s)) st cnt c L ltac:(lia) ltac:(unfold usize_lim, i64_lim in *; lia)) as W.
  destruct (xrows (S (len s)) (w0, w1, w2) st cnt s c) as [l c1| | |]; cbn in W; try tauto.
  destruct W as [A1 L1]. specialize (IH c1 F' L1). destruct (xsections (w0, w1, w2) ix s c1); cbn in *; try tauto. lia.
Qed.

(* the precise side condition on the dictionary: its integers are i64 values, as in PDFObjT::Integer
   (only /Size and the members of /Index matter) *)
Definition ints_i64 (l : list obj) : Prop :=
  Forall (fun o => match o with OInt z => (z <= i64_max)%Z | _ => True end) l.
Definition xref_ints_i64 (d : dict) : Prop :=
  (forall z, dict_get d (B "Size") = Some (OInt z) -> (z <= i64_max)%Z) /\
  (forall i, dict_get d (B "Index") = Some (OArr i) -> ints_i64 i).

Lemma index_pairs_bound i : ints_i64 i -> forall n, len i <= n -> forall l, index_pairs i = Ok l ->
  Forall (fun p => (fst p < i64_lim)%N /\ (snd p < i64_lim)%N) l.
Proof.
  intros F n. revert i F. induction n as [|n IH]; intros i F L l H.
  - destruct i; [cbn in H; inversion H; constructor|cbn in L; lia].
  - destruct i as [|a [|b i]]; try (cbn in H; inversion H; constructor).
    cbn [index_pairs] in H. destruct a; try discriminate. destruct b; try discriminate.
    inversion F as [|? ? Ba F1]; subst. inversion F1 as [|? ? Bb F2]; subst.
    unfold int_is_usize in H. destruct (Z.leb_spec 0 z); cbn [negb] in H; [|discriminate].
    destruct (Z.leb_spec 0 z0); cbn [negb] in H; [|discriminate].
    destruct (index_pairs i) as [l'| | |] eqn:E; try discriminate. inversion H; subst.
    constructor; [cbn [fst snd]; unfold i64_max, i64_lim in *; lia|].
    apply (IH i F2); [cbn in L; unfold len in *; lia|exact E].
Qed.

(* C13_stream_total *)
Theorem xrefstm_total enc d content dec c :
  xref_ints_i64 d -> c <= len content ->
  xrefstm_parse enc d content dec c <> XSPanic /\ xrefstm_parse enc d content dec c <> XSFuel.
Proof.
  intros [IS II] L. unfold xrefstm_parse.
  destruct (get_dict_info_guard d) as [[m E]|E]; rewrite E; [|split; discriminate].
  destruct enc; [split; discriminate|]. destruct (negb _); [split; discriminate|].
  destruct (get_dict_info_inv d m E) as (_ & ES & EI & (a & b & cc & EW & Ba & Bb & Bc & Ew) & _).
  assert (FI : Forall (fun p => (fst p < i64_lim)%N /\ (snd p < i64_lim)%N)
                 (match xi_index m with Some i => i | None => [(0%N, xi_size m)] end)).
  { destruct (get_array d (B "Index")) as [i|] eqn:GA.
    - destruct (EI i eq_refl) as (_ & l & EP & ->).
      unfold get_array in GA. destruct (dict_get d (B "Index")) as [[]|] eqn:DG; try discriminate. inversion GA; subst.
      apply (index_pairs_bound i (II i eq_refl) (len i) (le_n _) l EP).
    - assert (xi_index m = None).
      { unfold get_dict_info in E. rewrite GA in E.
        destruct (get_name d (B "Type")); [|discriminate]. destruct (negb _); [discriminate|].
        destruct (get_usize d (B "Size")); [|discriminate]. destruct (get_array d (B "W")); [|discriminate].
        destruct (negb _); [discriminate|]. destruct (w_fields l) as [[|? [|? [|? [|]]]]| | |]; try discriminate.
        destruct (N.eqb _ 0); [discriminate|]. destruct (stream_filters d); try discriminate. inversion E; reflexivity. }
      rewrite H. constructor; [|constructor]. cbn [fst snd]. split; [unfold i64_lim; lia|].
      unfold get_usize in ES. destruct (dict_get d (B "Size")) as [[]|] eqn:DS; try discriminate.
      destruct (int_is_usize z) eqn:U; [|discriminate]. inversion ES as [Q]. specialize (IS z eq_refl).
      unfold int_is_usize in U. unfold i64_max, i64_lim in *. lia. }
  assert (W : forall s0 c0, c0 <= len s0 -> wb s0 c0 (parse_xstream m s0 c0)).
  { intros s0 c0 L0. unfold parse_xstream. rewrite Ew.
    apply (xsections_wb (Z.to_N a, Z.to_N b, Z.to_N cc) s0); try lia; assumption. }
  destruct (xi_filters m).
  - specialize (W content c L). destruct (parse_xstream m content c); cbn in W; try tauto; split; discriminate.
  - specialize (W dec 0 ltac:(lia)). destruct (parse_xstream m dec 0); cbn in W; try tauto; split; discriminate.
Qed.
