(* Proofs/PredPinned.v — refutation witnesses of C07 on the predictor stage AS PINNED (Model/PredPinned.v);
   each was reproduced on the real pinned code in both build profiles (corpus/c07.txt) and has since been
   repaired by a `fix:` commit (known_findings.d/C07.json).  Every proof is a computation. *)
From PV Require Import Model.PredPinned Spec.Png.

Local Open Scope N_scope.

(* §7 row 5: Paeth assigns the prediction instead of adding it (and predicts modulo 256) *)
Lemma pinned_paeth_refuted : forall dbg, exists rows,
  flate_lzw_filter dbg 14 1 3 8 (encode_rows 14 1 8 rows) <> Ok (concat rows).
Proof. intros dbg. exists [[10; 30; 60]]. destruct dbg; vm_compute; discriminate. Qed.

Lemma pinned_paeth_mod256 : exists a b c, a < 256 /\ b < 256 /\ c < 256 /\ paeth_w a b c <> paeth a b c.
Proof. exists 200, 100, 10. vm_compute. repeat split; discriminate. Qed.

(* row 6: Average starts its second loop at bpp (reads the tag byte), the sum wraps *)
Lemma pinned_average_refuted : forall dbg, exists rows,
  flate_lzw_filter dbg 13 1 3 8 (encode_rows 13 1 8 rows) <> Ok (concat rows).
Proof. intros dbg. exists [[10; 25; 42]]. destruct dbg; vm_compute; discriminate. Qed.

(* row 7: Sub uses bits/8 as bytes per pixel; TIFF 16-bit samples are added bytewise; 16-bit PNG rows mis-sized *)
Lemma pinned_sub_colors_refuted : forall dbg, exists rows,
  flate_lzw_filter dbg 11 3 2 8 (encode_rows 11 3 8 rows) <> Ok (concat rows).
Proof. intros dbg. exists [[10; 20; 30; 11; 22; 33]]. destruct dbg; vm_compute; discriminate. Qed.

Lemma pinned_tiff16_refuted : forall dbg, exists rows,
  flate_lzw_filter dbg 2 1 2 16 (encode_rows 2 1 16 rows) <> Ok (concat rows).
Proof. intros dbg. exists [[0; 255; 1; 0]]. destruct dbg; vm_compute; discriminate. Qed.

Lemma pinned_png16_refuted : forall dbg, exists rows,
  flate_lzw_filter dbg 12 1 1 16 (encode_rows 12 1 16 rows) <> Ok (concat rows).
Proof. intros dbg. exists [[1; 2]]. destruct dbg; vm_compute; discriminate. Qed.

(* rows 8, 9: totality *)
Lemma pinned_total_refuted_bits64 : forall dbg, exists data,
  flate_lzw_filter dbg (as_usize 13) (as_usize 1) (as_usize 1) (as_usize 64) data = Panic.
Proof. intros dbg. exists [3; 7]. destruct dbg; vm_compute; reflexivity. Qed.

Lemma pinned_total_refuted_columns_neg : forall dbg, exists data,
  flate_lzw_filter dbg (as_usize 12) (as_usize 1) (as_usize (-1)) (as_usize 8) data = Panic.
Proof. intros dbg. exists [2; 7]. destruct dbg; vm_compute; reflexivity. Qed.

(* 2^32 x 2^32: multiply overflow panics in debug; release wraps to row_length 1 and accepts *)
Lemma pinned_total_refuted_mul_overflow : exists data,
  flate_lzw_filter true (as_usize 12) (as_usize 4294967296) (as_usize 4294967296) (as_usize 8) data = Panic /\
  flate_lzw_filter false (as_usize 12) (as_usize 4294967296) (as_usize 4294967296) (as_usize 8) data = Ok [].
Proof. exists [2]. vm_compute. split; reflexivity. Qed.

(* zero rows under a PNG predictor are rejected *)
Lemma pinned_zero_rows_refuted : forall dbg,
  flate_lzw_filter dbg 12 1 3 8 (encode_rows 12 1 8 []) <> Ok (concat []).
Proof. intros dbg. destruct dbg; vm_compute; discriminate. Qed.

(* /Columns 0 under the Average predictor: row_length 1, the first-pixel loop indexes row_data[1] *)
Lemma pinned_total_refuted_columns_zero : forall dbg, exists data,
  flate_lzw_filter dbg (as_usize 13) (as_usize 1) (as_usize 0) (as_usize 8) data = Panic.
Proof. intros dbg. exists [3]. destruct dbg; vm_compute; reflexivity. Qed.
