(* Proofs/PredLoop.v — generic facts about the vector/loop vocabulary of Model/Pred.v:
   checked get/set, the index loop, and the "mixed" row (decoded up to j, still raw from j on)
   that is the invariant of every predictor loop. *)
From PV Require Import Model.Pred Spec.Png.
From Coq Require Import ZifyBool ZifyNat ZifyN.
Ltac Zify.zify_post_hook ::= Z.div_mod_to_equations.

Definition bytes_ok (l : list N) : Prop := Forall (fun b => (b < 256)%N) l.

Lemma at_lt l i : bytes_ok l -> (at_ l i < 256)%N.
Proof.
  intros H. unfold at_. destruct (Nat.lt_ge_cases i (List.length l)) as [Hi|Hi].
  - unfold bytes_ok in H. rewrite Forall_forall in H. apply H, nth_In, Hi.
  - rewrite nth_overflow by exact Hi. lia.
Qed.

Lemma at_cons x l i : at_ (x :: l) (S i) = at_ l i.
Proof. reflexivity. Qed.

Lemma at_app1 (a b : list N) i : i < List.length a -> at_ (a ++ b) i = at_ a i.
Proof. intros. unfold at_. apply app_nth1; assumption. Qed.

Lemma at_app2 (a b : list N) i : List.length a <= i -> at_ (a ++ b) i = at_ b (i - List.length a).
Proof. intros. unfold at_. apply app_nth2; lia. Qed.

Lemma at_firstn (l : list N) j i : i < j -> at_ (firstn j l) i = at_ l i.
Proof.
  unfold at_. revert j i; induction l as [|x l IH]; intros [|j] [|i] H; simpl; try lia; try reflexivity.
  apply IH; lia.
Qed.

Lemma at_skipn (l : list N) j i : at_ (skipn j l) i = at_ l (j + i).
Proof.
  unfold at_. revert j; induction l as [|x l IH]; intros [|j]; simpl; try reflexivity.
  - destruct i; reflexivity.
  - apply IH.
Qed.

Lemma list_ext (a b : list N) :
  List.length a = List.length b -> (forall i, i < List.length a -> at_ a i = at_ b i) -> a = b.
Proof.
  intros Hl H. apply (nth_ext a b 0%N 0%N Hl). exact H.
Qed.

(* ---------- get / set ---------- *)
Lemma get_lt l i : i < List.length l -> get l i = Some (at_ l i).
Proof. intros H. unfold get, at_. apply nth_error_nth'. exact H. Qed.

Lemma set_app (a b : list N) x v : set (a ++ x :: b) (List.length a) v = Some (a ++ v :: b).
Proof. induction a as [|y a IH]; simpl; [reflexivity | rewrite IH; reflexivity]. Qed.

Lemma set_app' (a b : list N) x v j : j = List.length a -> set (a ++ x :: b) j v = Some (a ++ v :: b).
Proof. intros ->. apply set_app. Qed.

Lemma set_total l i v : i < List.length l -> exists l', set l i v = Some l' /\ List.length l' = List.length l.
Proof.
  revert i; induction l as [|x l IH]; intros [|i] H; simpl in *; try lia.
  - eexists; split; reflexivity.
  - destruct (IH i) as [l' [E L]]; [lia|]. rewrite E. eexists; split; [reflexivity|]. simpl. lia.
Qed.

Lemma get_total l i : i < List.length l -> exists x, get l i = Some x.
Proof. intros H. eexists. apply get_lt, H. Qed.

(* ---------- the index loop ---------- *)
Lemma loop_inv {St} (I : nat -> St) n a body :
  (forall j, a <= j < a + n -> body j (I j) = Some (I (S j))) ->
  loop n a body (I a) = Some (I (a + n)).
Proof.
  revert a; induction n as [|n IH]; intros a H; simpl.
  - rewrite Nat.add_0_r. reflexivity.
  - rewrite H by lia. rewrite IH; [f_equal; f_equal; lia|]. intros j Hj. apply H. lia.
Qed.

Lemma for_inv {St} (I : nat -> St) a b body :
  a <= b -> (forall j, a <= j < b -> body j (I j) = Some (I (S j))) ->
  for_ a b body (I a) = Some (I b).
Proof.
  intros Hab H. unfold for_. rewrite loop_inv.
  - f_equal. f_equal. lia.
  - intros j Hj. apply H. lia.
Qed.

Lemma loop_total {St} (P : St -> Prop) n a body st :
  P st -> (forall j s, a <= j < a + n -> P s -> exists s', body j s = Some s' /\ P s') ->
  exists s', loop n a body st = Some s' /\ P s'.
Proof.
  revert a st; induction n as [|n IH]; intros a st HP H; simpl.
  - eexists; split; [reflexivity | exact HP].
  - destruct (H a st) as [s' [E HP']]; [lia | exact HP |]. rewrite E.
    apply IH; [exact HP'|]. intros j s Hj. apply H. lia.
Qed.

Lemma for_total {St} (P : St -> Prop) a b body st :
  P st -> (forall j s, a <= j < b -> P s -> exists s', body j s = Some s' /\ P s') ->
  exists s', for_ a b body st = Some s' /\ P s'.
Proof.
  intros HP H. unfold for_. apply loop_total; [exact HP|]. intros j s Hj. apply H. lia.
Qed.

(* ---------- the mixed row ---------- *)
Definition mix (t row0 : list N) (j : nat) : list N := firstn j t ++ skipn j row0.

Section Mix.
  Variables t row0 : list N.
  Hypothesis Hlen : List.length t = List.length row0.

  Lemma mix_length j : List.length (mix t row0 j) = List.length t.
  Proof.
    unfold mix. rewrite app_length, firstn_length, skipn_length. lia.
  Qed.

  Lemma mix_at_lo j i : i < j -> j <= List.length t -> at_ (mix t row0 j) i = at_ t i.
  Proof.
    intros Hi Hj. unfold mix. rewrite at_app1 by (rewrite firstn_length; lia). apply at_firstn, Hi.
  Qed.

  Lemma mix_at_hi j i : j <= i -> j <= List.length t -> at_ (mix t row0 j) i = at_ row0 i.
  Proof.
    intros Hi Hj. unfold mix. rewrite at_app2 by (rewrite firstn_length; lia).
    rewrite firstn_length, at_skipn. f_equal. lia.
  Qed.

  Lemma mix_get_lo j i : i < j -> j <= List.length t -> get (mix t row0 j) i = Some (at_ t i).
  Proof.
    intros Hi Hj. rewrite get_lt by (rewrite mix_length; lia). f_equal. apply mix_at_lo; assumption.
  Qed.

  Lemma mix_get_hi j i : j <= i -> i < List.length t -> get (mix t row0 j) i = Some (at_ row0 i).
  Proof.
    intros Hi Hj. rewrite get_lt by (rewrite mix_length; lia). f_equal. apply mix_at_hi; lia.
  Qed.

  Lemma mix_set j v : j < List.length t -> v = at_ t j -> set (mix t row0 j) j v = Some (mix t row0 (S j)).
  Proof.
    intros Hj ->. unfold mix.
    assert (E1 : skipn j row0 = at_ row0 j :: skipn (S j) row0).
    { apply skipn_cons_nth. unfold at_. apply nth_error_nth'. lia. }
    assert (E2 : firstn (S j) t = firstn j t ++ [at_ t j]).
    { replace (S j) with (j + 1) by lia. rewrite firstn_plus. f_equal.
      rewrite (skipn_cons_nth t j (at_ t j)); [reflexivity|]. unfold at_. apply nth_error_nth'. lia. }
    rewrite E1, E2. rewrite <- app_assoc. cbn [app].
    apply set_app'. rewrite firstn_length; lia.
  Qed.

  Lemma mix_all : mix t row0 (List.length t) = t.
  Proof.
    unfold mix. rewrite firstn_all. rewrite Hlen, skipn_all. apply app_nil_r.
  Qed.

  Lemma mix_start j : j <= List.length t -> (forall i, i < j -> at_ row0 i = at_ t i) -> mix t row0 j = row0.
  Proof.
    intros Hj H. apply list_ext.
    - rewrite mix_length. exact Hlen.
    - intros i Hi. rewrite mix_length in Hi.
      destruct (Nat.lt_ge_cases i j) as [L|G].
      + rewrite mix_at_lo by lia. symmetry. apply H, L.
      + apply mix_at_hi; lia.
  Qed.
End Mix.

(* ---------- arithmetic of one byte ---------- *)
Lemma unfilt x p : (x < 256)%N -> (p < 256)%N -> wadd ((x + 256 - p) mod 256) p = x.
Proof. unfold wadd. lia. Qed.

Lemma paeth_i_spec a b c : paeth_i a b c = paeth a b c.
Proof.
  unfold paeth_i, paeth, paethZ. cbv zeta.
  destruct (_ && _); [apply eq_sym, N2Z.id|]. destruct (_ <=? _)%Z; apply eq_sym, N2Z.id.
Qed.

Lemma paeth_lt a b c : (a < 256 -> b < 256 -> c < 256 -> paeth a b c < 256)%N.
Proof.
  intros. rewrite <- paeth_i_spec. unfold paeth_i. cbv zeta.
  destruct (_ && _); [assumption|]. destruct (_ <=? _)%Z; assumption.
Qed.

Lemma predict_lt ft a b c : (a < 256 -> b < 256 -> c < 256 -> predict ft a b c < 256)%N.
Proof.
  intros Ha Hb Hc. unfold predict.
  repeat match goal with |- context [match ?p with _ => _ end] => destruct p end;
    try lia; try assumption; apply paeth_lt; assumption.
Qed.
